package main

import (
	"fmt"
	"go/token"
	"go/types"
	"strings"

	"golang.org/x/tools/go/ssa"
)

func init() {
	register(&propDef{
		ID:          "C13",
		Title:       "Any query gets a well-formed reply or none; never panics",
		Run:         runC13,
		Explanation: "Structural necessary conditions, decided on SSA: (labelpop) every expression that drops the first label of a packed name is dominated by a root test on the same name; (recover) the three documented panic barriers exist and store into the error result; (writepath) every response write is preceded by SizeAndDo and Scrub on the same message, and only the listed functions write; (compress-order) the unconditional compression flag is set after Scrub and before the write; (badvers) the EDNS version test dominates every database lookup and its failure branch writes the message it was given; (question) the question-count guard dominates the handler chain. Absence of all panics and packability of all messages are not decided.",
	})
}

func runC13(c *Ctx) {
	c13LabelPop(c)
	c13Recover(c)
	c13WritePath(c, "C13")
	c13FitLast(c)
	c13BadVers(c)
	c13Barrier(c)
	c20Guard(c, "C13.question")
	c13QuestionGuarded(c, "C13.question-guarded")
	c13QuestionAccess(c)
	// an unsynchronised write to a package-level map from the query path is not a recoverable panic: the runtime aborts the process
	c.importRules(runC14, "C14", map[string]string{"globals": "globals"})
	c13TypeAssert(c)
	// a cache hit must carry THIS query's ID and question
	c.importRules(runC12, "C12", map[string]string{"hit-reply": "cache-hit-reply"})
	// the client's option is echoed as it came: an option whose family / address were rewritten while the source prefix
	// stayed (round-5 seed c13k) cannot be packed, and the query gets no reply at all
	c.importRules(runC10, "C10", map[string]string{"readonly": "ecs-readonly"})
}

// c13QuestionAccess: the database handler never indexes the question section directly.
func c13QuestionAccess(c *Ctx) {
	rule := "C13.question-access"
	c.Rule(rule, "A8: package dnsserver reads the question only through request.Request accessors (which tolerate an empty question section); it never indexes Msg.Question itself, because its handler is also reachable without the serveMux guard (QuerySingle, other plugin chains)")
	fQ := fieldByName(c, dnsPkg, "Msg", "Question")
	n := 0
	var bad []string
	for _, fn := range c.OurFuncs("dnsserver", "db") {
		n++
		for _, b := range fn.Blocks {
			for _, in := range b.Instrs {
				switch x := in.(type) {
				case *ssa.IndexAddr:
					if isFieldLoad(x.X, fQ) {
						bad = append(bad, fnName(fn)+" at "+c.relPos(x.Pos()))
					}
				case *ssa.Index:
					if isFieldLoad(x.X, fQ) {
						bad = append(bad, fnName(fn)+" at "+c.relPos(x.Pos()))
					}
				}
			}
		}
	}
	c.Check(rule, "dnsserver+db|no-direct-Question-index", len(bad) == 0, token.NoPos, fmt.Sprintf("%d functions examined; direct indexing of Msg.Question: %v", n, bad))
}

// c13Barrier: raw rows are only decoded inside callbacks that run under a driver-level recover.
func c13Barrier(c *Ctx) {
	rule := "C13.barrier"
	c.Rule(rule, "A8: the raw-row decoder ExtractRRFromRow (which indexes the row without length checks) is only called from function literals that are handed to a ForEach-style iteration, whose backend implementations (cdbdriver.ForEach, RDB.ForEach) are the recover barriers of C13.recover")
	ext := c.TypesFunc("db", "ExtractRRFromRow")
	iterNames := map[string]bool{"ForEach": true, "ForEachResourceRecord": true, "TryForEach": true, "find": true}
	n := 0
	for _, fn := range c.OurFuncs() {
		if fn.Pkg.Pkg.Name() == "main" {
			continue
		}
		for _, ci := range callsTo(fn, func(f *types.Func) bool { return f == ext }) {
			n++
			ok := false
			why := "called outside a function literal"
			if fn.Parent() != nil {
				why = "the enclosing function literal is not passed to a ForEach-style iteration"
				for _, b := range fn.Parent().Blocks {
					for _, in := range b.Instrs {
						mc, isMC := in.(*ssa.MakeClosure)
						if !isMC || mc.Fn != fn {
							continue
						}
						for _, r := range *mc.Referrers() {
							if call, isCall := r.(ssa.CallInstruction); isCall {
								cc := call.Common()
								name := ""
								if cc.IsInvoke() {
									name = cc.Method.Name()
								} else if sf := cc.StaticCallee(); sf != nil {
									name = sf.Name()
								}
								if iterNames[name] {
									ok = true
								}
							}
						}
					}
				}
			}
			c.Check(rule, fnName(fn)+"|ExtractRRFromRow", ok, ci.Pos(), "a short or corrupt row must surface as an error of the iteration, not as a crash of the query goroutine: "+why)
		}
	}
	c.Floor(rule, 6)
	_ = n
}

// firstByteLoad: v is (a conversion of) a load of x[0]; returns x.
func firstByteOf(v ssa.Value) ssa.Value {
	v = unwrap(v)
	u, ok := v.(*ssa.UnOp)
	if !ok || u.Op != token.MUL {
		return nil
	}
	ia, ok := u.X.(*ssa.IndexAddr)
	if !ok {
		return nil
	}
	if k, ok := constInt(ia.Index); !ok || k != 0 {
		return nil
	}
	return ia.X
}

func c13LabelPop(c *Ctx) {
	rule := "C13.labelpop"
	c.Rule(rule, "A2: every slice expression x[x[0]+1:] (dropping the first label of a packed name) is dominated by a test that x[0] != 0 on the same x (the root name has no label to drop; popping it indexes an empty slice next)")
	n := 0
	for _, fn := range c.OurFuncs("db", "dnsserver", "fbserver", "whoami", "dnsdata/rdb") {
		for _, b := range fn.Blocks {
			for _, in := range b.Instrs {
				sl, ok := in.(*ssa.Slice)
				if !ok || sl.Low == nil || sl.High != nil {
					continue
				}
				bo, ok := unwrap(sl.Low).(*ssa.BinOp)
				if !ok || bo.Op != token.ADD {
					continue
				}
				var base ssa.Value
				if k, ok := constInt(bo.Y); ok && k == 1 {
					base = firstByteOf(bo.X)
				} else if k, ok := constInt(bo.X); ok && k == 1 {
					base = firstByteOf(bo.Y)
				}
				if base == nil || !sameValue(base, sl.X) {
					continue
				}
				n++
				c.Examined(fn)
				guarded := hasFact(b, func(v ssa.Value, truth bool) bool {
					cmp, ok := v.(*ssa.BinOp)
					if !ok {
						return false
					}
					x := firstByteOf(cmp.X)
					if x == nil || !sameValue(x, sl.X) {
						return false
					}
					k, ok := constInt(cmp.Y)
					if !ok || k != 0 {
						return false
					}
					switch cmp.Op {
					case token.EQL, token.LEQ:
						return !truth
					case token.NEQ, token.GTR:
						return truth
					}
					return false
				})
				c.Check(rule, fmt.Sprintf("%s|pop#%s", fnName(fn), describeValue(sl.X)), guarded, sl.Pos(), "label pop must be guarded by a root test on the same name")
			}
		}
	}
	c.Floor(rule, 6)
}

func describeValue(v ssa.Value) string {
	if p := pathOf(v); p != "" && p[0] != 'f' {
		return p
	}
	if phi, ok := v.(*ssa.Phi); ok && phi.Comment != "" {
		return phi.Comment
	}
	if v.Name() != "" {
		if p, ok := v.(*ssa.Parameter); ok {
			return p.Name()
		}
	}
	return "value"
}

func c13Recover(c *Ctx) {
	rule := "C13.recover"
	c.Rule(rule, "each documented panic barrier (Reader.FindLocation, cdbdriver.ForEach, RDB.ForEach) defers a function literal that calls recover() and stores into the function's named error result")
	for _, t := range [][2]string{{"db", "(*DataReader).FindLocation"}, {"db", "(*cdbdriver).ForEach"}, {"dnsdata/rdb", "(*RDB).ForEach"}} {
		fn := c.Func(t[0], t[1])
		c.Examined(fn)
		ok := c13DefersRecover(c, fn) || c13WorkUnderGuard(c, fn)
		c.Check(rule, fnName(fn), ok, fn.Pos(), "a corrupt row must become an error, not a crashed server")
	}
}

// c13DefersRecover: fn defers, in its entry block, a function that calls recover() and stores into fn's named error result.
func c13DefersRecover(c *Ctx, fn *ssa.Function) bool {
	// named error result
	res := fn.Signature.Results()
	errName := ""
	for i := 0; i < res.Len(); i++ {
		if res.At(i).Type().String() == "error" {
			errName = res.At(i).Name()
		}
	}
	ok := false
	for _, ci := range callInstrs(fn) {
		d, isDefer := ci.(*ssa.Defer)
		if !isDefer {
			continue
		}
		var cl *ssa.Function
		viaPointer := false
		if mc, isMC := d.Call.Value.(*ssa.MakeClosure); isMC {
			cl = mc.Fn.(*ssa.Function)
		} else if sf := d.Call.StaticCallee(); sf != nil && sf.Blocks != nil && c.isOurs(sf.Pkg.Pkg) {
			// a named function deferred directly (recover works in the deferred function itself), handed the
			// address of the error result: defer catchPanic(&err)
			for _, a := range d.Call.Args {
				if errName != "" && varNameOfAddr(a) == errName {
					cl, viaPointer = sf, true
				}
			}
		}
		if cl == nil {
			continue
		}
		rec, st := false, false
		for _, x := range callInstrs(cl) {
			if b, isB := x.Common().Value.(*ssa.Builtin); isB && b.Name() == "recover" {
				rec = true
			}
		}
		for _, b := range cl.Blocks {
			for _, in := range b.Instrs {
				if s, isS := in.(*ssa.Store); isS && errName != "" && varNameOfAddr(s.Addr) == errName {
					st = true
				}
				if s, isS := in.(*ssa.Store); isS && viaPointer {
					// store through the pointer parameter that carries the address of the error result
					if _, isParam := s.Addr.(*ssa.Parameter); isParam && s.Val.Type().String() == "error" {
						st = true
					}
				}
			}
		}
		// the defer must be registered before anything that can panic: in the entry block
		if rec && st && d.Block() == fn.Blocks[0] {
			ok = true
		}
	}
	return ok && errName != ""
}

// c13WorkUnderGuard: the other shape of a barrier. fn hands its work, as a function literal, to a helper of the module
// that defers the recover itself (c13DefersRecover) and calls the literal; fn's own body calls nothing else of the
// module, and the helper's error reaches fn's error result.
func c13WorkUnderGuard(c *Ctx, fn *ssa.Function) bool {
	guards := 0
	for _, ci := range callInstrs(fn) {
		cc := ci.Common()
		if cc.IsInvoke() {
			if cc.Method.Pkg() != nil && c.isOurs(cc.Method.Pkg()) {
				return false // work outside the guard
			}
			continue
		}
		sf := cc.StaticCallee()
		if sf == nil {
			if _, isB := cc.Value.(*ssa.Builtin); isB {
				continue
			}
			return false // a dynamic call in the barrier's own body
		}
		if sf.Pkg == nil || !c.isOurs(sf.Pkg.Pkg) {
			continue
		}
		call, isCall := ci.(*ssa.Call)
		if !isCall || len(sf.Blocks) == 0 || !c13DefersRecover(c, sf) {
			return false
		}
		// the helper calls its function parameter, and the work is a literal given at this call
		var fp *ssa.Parameter
		for _, p := range sf.Params {
			if _, isSig := p.Type().Underlying().(*types.Signature); isSig {
				fp = p
			}
		}
		calls := false
		if fp != nil {
			for _, x := range callInstrs(sf) {
				if _, isC := x.(*ssa.Call); isC && x.Common().Value == fp {
					calls = true
				}
			}
		}
		lit := false
		for _, a := range cc.Args {
			if _, isMC := a.(*ssa.MakeClosure); isMC {
				lit = true
			}
		}
		if !calls || !lit {
			return false
		}
		c.Examined(sf)
		// the recovered error reaches the error result of fn
		reaches := false
		for _, ret := range returnsOf(fn) {
			for _, rv := range ret.Results {
				if rv.Type().String() == "error" && backSlice(rv, nil)[call] {
					reaches = true
				}
			}
		}
		if !reaches {
			return false
		}
		guards++
	}
	return guards > 0
}

// c13WritePath: SizeAndDo → Scrub → WriteMsg on the same message; who may write.
func c13WritePath(c *Ctx, prop string) {
	rule := prop + ".writepath"
	c.Rule(rule, "A8+A2: in dnsserver, fbserver and whoami every ResponseWriter.WriteMsg(m) is dominated by request.Scrub and request.SizeAndDo applied to the same message (Scrub's result or its argument), SizeAndDo before Scrub; only the tabled handler functions write responses")
	crule := prop + ".compress-order"
	c.Rule(crule, "the store that forces compression on the response happens after Scrub (which may reset it) and is not after the write")
	// writers are tabled by receiver type: any method of these handler types may write
	allowedRecv := map[string]string{
		"dnsserver.FBDNSDB":       "the database handler (writes through writeAndLog)",
		"fbserver.dotTLSAHandler": "synthesized TLSA answer",
		"whoami.Handler":          "synthesized whoami answer",
		"fbserver.anyHandler":     "synthesized single HINFO (RFC 8482), fixed small size: exempt from size/scrub",
	}
	noScrubRecv := map[string]bool{"fbserver.anyHandler": true}
	recvOf := func(fn *ssa.Function) string {
		for fn.Parent() != nil {
			fn = fn.Parent()
		}
		if fn.Signature.Recv() == nil {
			return ""
		}
		t := fn.Signature.Recv().Type()
		if p, ok := t.(*types.Pointer); ok {
			t = p.Elem()
		}
		if n, ok := t.(*types.Named); ok {
			return n.Obj().Pkg().Name() + "." + n.Obj().Name()
		}
		return ""
	}
	isReq := func(f *types.Func, name string) bool {
		return f != nil && f.Pkg() != nil && f.Pkg().Path() == requestPkg && funcShort(f) == "Request."+name
	}
	fCompress := fieldByName(c, dnsPkg, "Msg", "Compress")
	n := 0
	for _, fn := range c.OurFuncs("dnsserver", "fbserver", "whoami", "db", "logger") {
		for _, ci := range callInstrs(fn) {
			cc := ci.Common()
			if !(cc.IsInvoke() && cc.Method.Name() == "WriteMsg") {
				continue
			}
			n++
			c.Examined(fn)
			_, ok := allowedRecv[recvOf(fn)]
			if recvOf(fn) == "dnsserver.FBDNSDB" && fn.Name() != "writeAndLog" {
				ok = false // the database handler has exactly one writer
			}
			c.Check(rule, "WriteMsg|caller:"+fnName(fn), ok, ci.Pos(), "responses are written only by methods of the tabled handler types (the database handler only through writeAndLog)")
			if noScrubRecv[recvOf(fn)] || !ok {
				continue
			}
			msg := cc.Args[0]
			var scrub, size ssa.CallInstruction
			for _, x := range callInstrs(fn) {
				f := calleeOf(x.Common())
				if isReq(f, "Scrub") && instrDominates(x, ci) {
					arg := x.Common().Args[1]
					if v, isV := x.(ssa.Value); (isV && sameSources(v, msg)) || sameSources(arg, msg) || sourcesOf(msg)[x.(ssa.Value)] {
						scrub = x
					}
				}
			}
			if scrub != nil {
				for _, x := range callInstrs(fn) {
					f := calleeOf(x.Common())
					if isReq(f, "SizeAndDo") && instrDominates(x, scrub) && sameSources(x.Common().Args[1], scrub.Common().Args[1]) {
						size = x
					}
				}
			}
			c.Check(rule, fnName(fn)+"|scrub-before-write", scrub != nil, ci.Pos(), "the message written was scrubbed (fit to the client's buffer, TC set when truncated)")
			c.Check(rule, fnName(fn)+"|size-before-scrub", size != nil, ci.Pos(), "SizeAndDo ran on the same message before Scrub")
			// compress-order, where the function sets Compress
			for _, st := range storesToField(fn, fCompress) {
				if !sameSources(st.Addr.(*ssa.FieldAddr).X, msg) && !sameSources(st.Addr.(*ssa.FieldAddr).X, func() ssa.Value {
					if scrub != nil {
						return scrub.Common().Args[1]
					}
					return msg
				}()) {
					continue
				}
				if scrub == nil {
					continue
				}
				// stores that come before SizeAndDo are initialisation of a fresh message (tlsa/whoami): fine
				if size != nil && instrDominates(st, size) {
					continue
				}
				afterScrub := instrDominates(scrub, st)
				notAfterWrite := !(ci.Block() == st.Block() && instrIndex(ci) < instrIndex(st)) && !(ci.Block() != st.Block() && reachable(ci.Block(), nil)[st.Block()])
				c.Check(crule, fnName(fn)+"|compress-after-scrub", afterScrub && notAfterWrite, st.Pos(), "Scrub's truncation resets Compress; forcing it must come after Scrub and before the write")
			}
		}
	}
	c.Floor(rule, 8)
	if prop == "C13" {
		c.Floor(crule, 1)
	}
}

func c13BadVers(c *Ctx) {
	rule := "C13.badvers"
	c.Rule(rule, "A2: in the query entry point every call of a db.Reader method other than Close is dominated by the nil edge of the edns.Version error; on its failure edge the message written is the one edns.Version returned")
	serve := c.Func("dnsserver", "(*FBDNSDB).ServeDNSWithRCODE")
	c.Examined(serve)
	var ver *ssa.Call
	for _, ci := range callInstrs(serve) {
		if f := calleeOf(ci.Common()); f != nil && f.Pkg() != nil && f.Pkg().Path() == "github.com/coredns/coredns/plugin/pkg/edns" && f.Name() == "Version" {
			ver, _ = ci.(*ssa.Call)
		}
	}
	if ver == nil {
		c.Check(rule, fnName(serve)+"|version-check", false, serve.Pos(), "no EDNS version check in the query entry point: unsupported versions must get BADVERS (RFC 6891)")
		return
	}
	isVerErr := func(v ssa.Value) bool { cl, idx := callOfValue(v); return cl == ver && idx == 1 }
	readerT := c.Named("db", "Reader").Underlying().(*types.Interface)
	n := 0
	bad := []string{}
	for _, ci := range callInstrs(serve) {
		cc := ci.Common()
		if !cc.IsInvoke() || cc.Method.Name() == "Close" || !types.Identical(cc.Value.Type().Underlying(), readerT) {
			continue
		}
		if _, isDefer := ci.(*ssa.Defer); isDefer {
			continue
		}
		n++
		if !dominatedByNilEdge(ci, isVerErr) {
			bad = append(bad, cc.Method.Name()+" at "+c.relPos(ci.Pos()))
		}
	}
	// library helpers taking the reader (FindSOA, GetNs, AdditionalSectionForRecords)
	for _, ci := range callInstrs(serve) {
		sf := ci.Common().StaticCallee()
		if sf == nil || sf.Pkg == nil || shortPkg(sf.Pkg.Pkg.Path()) != "db" {
			continue
		}
		takesReader := false
		for _, a := range ci.Common().Args {
			if types.Identical(a.Type().Underlying(), readerT) {
				takesReader = true
			}
		}
		if !takesReader {
			continue
		}
		n++
		if !dominatedByNilEdge(ci, isVerErr) {
			bad = append(bad, sf.Name()+" at "+c.relPos(ci.Pos()))
		}
	}
	c.Check(rule, fnName(serve)+"|lookups-after-version-check", len(bad) == 0 && n >= 4, ver.Pos(), fmt.Sprintf("%d database lookups examined; before the version check: %v", n, bad))
	// failure branch writes the message Version returned
	write := c.TypesFunc("dnsserver", "(*FBDNSDB).writeAndLog")
	okw := false
	for _, e := range nilEdgesOf(serve, isVerErr) {
		fail := e.If.Block().Succs[1-e.Succ]
		for _, ci := range callInstrs(serve) {
			if calleeOf(ci.Common()) != write || !(ci.Block() == fail || fail.Dominates(ci.Block())) {
				continue
			}
			for s := range sourcesOf(ci.Common().Args[2]) {
				if cl, idx := callOfValue(s); cl == ver && idx == 0 {
					okw = true
				}
			}
		}
	}
	c.Check(rule, fnName(serve)+"|badvers-reply-is-versions-message", okw, ver.Pos(), "the BADVERS reply built by edns.Version is what gets written on the failure edge")
}

// c13FitLast implements C13.fit-last: the reply is fitted to the client's buffer (request.Scrub / Msg.Truncate) as the
// LAST change of its size before it is written. Anything appended to the message or to its OPT record after the fit
// (seed c13f: the client-subnet option echoed from writeAndLog, behind Scrub) makes the reply larger than what was
// measured: it exceeds the advertised size with TC clear.
func c13FitLast(c *Ctx) {
	rule := "C13.fit-last"
	c.Rule(rule, "A2 ordering in every function of dnsserver/fbserver that calls request.Request.Scrub or (*dns.Msg).Truncate and then writes: no store of an append result into a field of a miekg/dns type lies on a path from the fit to the WriteMsg call")
	n := 0
	for _, fn := range c.OurFuncs("dnsserver", "fbserver", "whoami") {
		var fits, writes []ssa.CallInstruction
		for _, ci := range callInstrs(fn) {
			f := calleeOf(ci.Common())
			if f == nil {
				if ci.Common().IsInvoke() && ci.Common().Method.Name() == "WriteMsg" {
					writes = append(writes, ci)
				}
				continue
			}
			switch {
			case f.Name() == "Scrub" && f.Pkg() != nil && strings.HasSuffix(f.Pkg().Path(), "coredns/request"),
				f.Name() == "Truncate" && f.Pkg() != nil && f.Pkg().Path() == dnsPkg:
				fits = append(fits, ci)
			case f.Name() == "WriteMsg":
				writes = append(writes, ci)
			}
		}
		if len(fits) == 0 || len(writes) == 0 {
			continue
		}
		c.Examined(fn)
		for i, fit := range fits {
			n++
			var grows []string
			for _, b := range fn.Blocks {
				for _, in := range b.Instrs {
					st, ok := in.(*ssa.Store)
					if !ok {
						continue
					}
					fa, ok := st.Addr.(*ssa.FieldAddr)
					if !ok {
						continue
					}
					if isBuiltinCall(st.Val, "append") == nil {
						continue
					}
					t := fa.X.Type()
					if p, ok := t.Underlying().(*types.Pointer); ok {
						t = p.Elem()
					}
					nt, ok := t.(*types.Named)
					if !ok || nt.Obj().Pkg() == nil || nt.Obj().Pkg().Path() != dnsPkg {
						continue
					}
					after := instrReaches(fit, st)
					before := false
					for _, w := range writes {
						if instrReaches(st, w) {
							before = true
						}
					}
					if after && before {
						grows = append(grows, fmt.Sprintf("%s.%s grown at %s", nt.Obj().Name(), fieldName(fa.X.Type(), fa.Field), c.relPos(st.Pos())))
					}
				}
			}
			c.Check(rule, fmt.Sprintf("%s|fit#%d|nothing-appended-before-the-write", fnName(fn), i), len(grows) == 0, fit.Pos(), fmt.Sprintf("appends between the fit and the write: %v", grows))
		}
	}
	c.Floor(rule, 1)
}

// c13QuestionGuarded implements C13/C20.question-guarded: outside dnsserver/db (where direct indexing is forbidden
// altogether) a message's question section is indexed only where it is known to be non-empty — by a test of
// len(Question) dominating the access in the same function, or dominating every call of that function. A message
// with QDCOUNT=0 is wire-valid; Question[0] on it is an index-out-of-range panic that miekg/dns does not recover
// (seed c20e: a logging helper called from the very branch that handles the question-less message).
func c13QuestionGuarded(c *Ctx, rule string) {
	c.Rule(rule, "A2 + callers: in fbserver, whoami, logger and dnsserver every IndexAddr/Index on a load of dns.Msg.Question is dominated by a branch outcome implying len(Question) >= 1 (len == 1, len != 0, len > 0, …) in the same function, or, for a function that receives the message, at every static call site of it (depth 2)")
	fQ := fieldByName(c, dnsPkg, "Msg", "Question")
	nonEmptyFact := func(b *ssa.BasicBlock) bool {
		return hasFact(b, func(v ssa.Value, truth bool) bool {
			bo, ok := v.(*ssa.BinOp)
			if !ok {
				return false
			}
			x, y := bo.X, bo.Y
			ln := isBuiltinCall(x, "len")
			if ln == nil || !isFieldLoad(ln.Call.Args[0], fQ) {
				return false
			}
			k, ok := constInt(y)
			if !ok {
				return false
			}
			switch bo.Op {
			case token.EQL:
				return (truth && k >= 1) || (!truth && k == 0)
			case token.NEQ:
				return (truth && k == 0) || (!truth && k >= 1)
			case token.GTR:
				return truth && k >= 0
			case token.GEQ:
				return truth && k >= 1
			case token.LSS:
				return !truth && k >= 1
			case token.LEQ:
				return !truth && k >= 0
			}
			return false
		})
	}
	var callersGuard func(fn *ssa.Function, depth int) bool
	callersGuard = func(fn *ssa.Function, depth int) bool {
		if depth > 2 {
			return false
		}
		tf, _ := fn.Object().(*types.Func)
		if tf == nil {
			return false
		}
		n := 0
		for _, caller := range c.OurFuncs() {
			for _, ci := range callsTo(caller, func(f *types.Func) bool { return f == tf }) {
				n++
				if nonEmptyFact(ci.Block()) {
					continue
				}
				if !callersGuard(caller, depth+1) {
					return false
				}
			}
		}
		// a link of the plugin chain (ServeDNS of a plugin.Handler) is entered through the interface: its callers are
		// the ServeDNS invocations of the packages that assemble the chain
		if tf.Name() == "ServeDNS" && tf.Type().(*types.Signature).Recv() != nil {
			for _, caller := range c.OurFuncs("fbserver", "whoami") {
				if caller == fn {
					continue
				}
				for _, ci := range callInstrs(caller) {
					cc := ci.Common()
					if !cc.IsInvoke() || cc.Method.Name() != "ServeDNS" || len(cc.Args) != len(fn.Params)-1 {
						continue
					}
					n++
					if nonEmptyFact(ci.Block()) {
						continue
					}
					if !callersGuard(caller, depth+1) {
						return false
					}
				}
			}
		}
		return n > 0
	}
	n := 0
	for _, fn := range c.OurFuncs("fbserver", "whoami", "logger", "dnsserver") {
		for _, b := range fn.Blocks {
			for _, in := range b.Instrs {
				var base ssa.Value
				switch x := in.(type) {
				case *ssa.IndexAddr:
					base = x.X
				case *ssa.Index:
					base = x.X
				}
				if base == nil || !isFieldLoad(base, fQ) {
					continue
				}
				n++
				c.Examined(fn)
				ok := nonEmptyFact(b) || callersGuard(fn, 0)
				// a function literal runs inside the function that created it: what holds where it was created (or
				// for that function's callers) holds for it
				for p, cl := fn.Parent(), fn; !ok && p != nil; p, cl = p.Parent(), p {
					for _, pb := range p.Blocks {
						for _, pin := range pb.Instrs {
							if mc, isMC := pin.(*ssa.MakeClosure); isMC && mc.Fn == ssa.Value(cl) && nonEmptyFact(pb) {
								ok = true
							}
						}
					}
					if !ok && callersGuard(p, 0) {
						ok = true
					}
				}
				c.Check(rule, fmt.Sprintf("%s|Question-index#%d|non-empty-known", fnName(fn), n), ok, in.Pos(), "indexing the question section of a message whose question count is not known to be at least one")
			}
		}
	}
	c.Floor(rule, 1)
}
