package main

import (
	"fmt"
	"go/token"
	"go/types"
	"sort"
	"strings"

	"golang.org/x/tools/go/ssa"
)

func init() {
	register(&propDef{
		ID:          "C07",
		Title:       "Compilation is a deterministic, lossless function of the data file",
		Run:         runC07,
		Explanation: "Structural necessary conditions of lossless compilation, decided on SSA: (errors) every error produced inside the compile pipelines reaches the caller (no dropped error, so a rejected line fails the compilation in every mode); (nodrop) every scanned line is skipped only by the blank/comment test or handed to a worker, every converted record slice is forwarded, and every element of every received slice reaches the sink (Builder.ScheduleAdd, Batch.Add, cdb Put); (tail) the accumulator and feature records are emitted exactly once after all lines parsed successfully; (rmw) RocksDB read-modify-write sequences hold the write mutex from the read to the write, the accumulator is only touched under its mutex, and a batch handed to a goroutine is replaced before the next Add; (buckets) the bulk loader cuts buckets only where adjacent keys differ. Equality of the produced database with the codec output is not decided.",
	})
	register(&propDef{
		ID:          "C08",
		Title:       "Applying a diff gives the database of the new data file",
		Run:         runC08,
		Explanation: "Structural necessary conditions of all-or-nothing diff application, decided on SSA: (atomic) ApplyDiff mutates the database through exactly one ExecuteBatch after the whole diff was parsed and the scanner reported no error; ExecuteBatch performs exactly one store-mutating call, after integrate succeeded and after the multi-get errors were scanned; (codec) ApplyDiff uses the compiler's codec initialiser and takes the key layout from the database; '+' maps to Batch.Add and '-' to Batch.Del and the operation set is exhaustive; (rmw, errors) as for compilation. Equality with a fresh compile is not decided.",
	})
	register(&propDef{
		ID:          "C15",
		Title:       "RocksDB multi-value store behaves like a map of lists",
		Run:         runC15,
		Explanation: "Structural necessary conditions, decided on SSA: (rmw) Add/Del/ExecuteBatch hold the write mutex from the read to the write; (failfirst) every store-mutating call is dominated by the success edge of every preceding validation (missing key, missing value, integrate, multi-get); (single) one mutating call per operation; (codec) every encoder and decoder of the value list uses little-endian 32-bit lengths and a 4-byte header, including the skips in the db drivers; (sorted) the merge loops run only after the batch was sorted. Equivalence with the map-of-lists model and backup/restore are not decided.",
	})
}

func runC07(c *Ctx) {
	c07Errors(c, "C07.errors", c07Funcs)
	c07NoDrop(c)
	lineVerbatim(c, "C07.line-verbatim", "dnsdata", "parse")
	c07Tail(c)
	c07Rmw(c, "C07.rmw")
	c.locksetRows("C07.accum-lock", func(r lockRow) bool { return r.Pkg == "dnsdata" && r.Type == "Accum" })
	c07BatchRebind(c)
	c07Buckets(c)
	c07Semaphore(c)
	handoverRule(c, "C07.handover", "dnsdata", "dnsdata/rdb", "dnsdata/cdb")
	// a batch-mode compile applies additions through integrate: a step that depends on what an earlier batch stored makes the result depend on batch boundaries
	c15Unconditional(c, "C07")
	c07LoopVar(c)
}

// c07LoopVar implements C07.loopvar. The module is built with `go 1.18` semantics: the iteration variable of a for /
// range statement is ONE variable. A function literal that is started as a goroutine (go statement, errgroup.Go)
// inside the loop and refers to that variable sees whatever iteration the loop has reached when it runs — round-5
// seed c07j moved `b.values[bucket.start:bucket.end]` into the SST worker, and every worker wrote the last bucket.
func c07LoopVar(c *Ctx) {
	rule := "C07.loopvar"
	c.Rule(rule, "A5/A2 in the compile packages (dnsdata, dnsdata/rdb, dnsdata/cdb): no function literal started as a goroutine (go statement or (*errgroup.Group).Go) inside a loop captures by reference a variable that is allocated outside the loop and stored to inside it (the per-loop iteration variable under the module's go 1.18 semantics)")
	n := 0
	for _, fn := range c.OurFuncs("dnsdata", "dnsdata/rdb", "dnsdata/cdb") {
		loops := naturalLoops(fn)
		if len(loops) == 0 {
			continue
		}
		for _, b := range fn.Blocks {
			for _, in := range b.Instrs {
				mc, ok := in.(*ssa.MakeClosure)
				if !ok || mc.Referrers() == nil {
					continue
				}
				// started asynchronously?
				async := false
				for _, r := range *mc.Referrers() {
					switch x := r.(type) {
					case *ssa.Go:
						async = true
					case *ssa.Call:
						if f := calleeOf(x.Common()); f != nil && f.Name() == "Go" && f.Pkg() != nil && strings.HasSuffix(f.Pkg().Path(), "errgroup") {
							async = true
						}
					}
				}
				if !async {
					continue
				}
				for h, body := range loops {
					if !body[b] {
						continue
					}
					n++
					c.Examined(fn)
					var bad []string
					for _, bind := range mc.Bindings {
						al, isAl := bind.(*ssa.Alloc)
						if !isAl || body[al.Block()] || al.Referrers() == nil {
							continue // a fresh variable per iteration, or a value
						}
						for _, r := range *al.Referrers() {
							if st, isSt := r.(*ssa.Store); isSt && st.Addr == al && body[st.Block()] {
								bad = append(bad, al.Comment)
								break
							}
						}
					}
					sort.Strings(bad)
					_ = h
					c.Check(rule, fmt.Sprintf("%s|goroutine %s", fnName(fn), mc.Fn.Name()), len(bad) == 0, mc.Fn.Pos(),
						fmt.Sprintf("a goroutine started in a loop must not share the loop's variables; shared and updated by the loop: %v", bad))
				}
			}
		}
	}
	c.Floor(rule, 2)
}

// c07Semaphore: a limiter channel whose capacity is an option value is only made when that value is positive.
func c07Semaphore(c *Ctx) {
	rule := "C07.semaphore"
	c.Rule(rule, "A2: in the compile pipelines a channel of struct{} (a semaphore) whose capacity is not a constant is created only under a test that the capacity is positive (or from a normalised value): a zero-capacity semaphore that is acquired before its releaser is started blocks the compiler forever for that setting")
	n := 0
	for _, t := range [][2]string{{"dnsdata/rdb", "compileBatches"}, {"dnsdata/rdb", "compileBuilder"}, {"dnsdata", "parse"}} {
		for _, fn := range withClosures(c.Func(t[0], t[1])) {
			for _, b := range fn.Blocks {
				for _, in := range b.Instrs {
					mc, ok := in.(*ssa.MakeChan)
					if !ok {
						continue
					}
					ch, isCh := mc.Type().Underlying().(*types.Chan)
					if !isCh {
						continue
					}
					if st, isSt := ch.Elem().Underlying().(*types.Struct); !isSt || st.NumFields() != 0 {
						continue
					}
					if _, isConst := constInt(mc.Size); isConst {
						continue
					}
					n++
					c.Examined(fn)
					ok = hasFact(b, func(v ssa.Value, truth bool) bool {
						cmp, isB := v.(*ssa.BinOp)
						if !isB || !sameValue(cmp.X, mc.Size) && !sameSources(cmp.X, mc.Size) {
							return false
						}
						k, isK := constInt(cmp.Y)
						if !isK {
							return false
						}
						switch cmp.Op {
						case token.GTR:
							return truth && k >= 0
						case token.GEQ:
							return truth && k >= 1
						case token.LEQ:
							return !truth && k >= 0
						case token.LSS:
							return !truth && k >= 1
						}
						return false
					})
					if !ok {
						// normalised: the size is a phi/local one of whose sources is a positive constant
						for s := range sourcesOf(mc.Size) {
							if k, isK := constInt(s); isK && k >= 1 {
								ok = true
							}
						}
					}
					c.Check(rule, stableFnName(fn)+"|semaphore-capacity-positive", ok, mc.Pos(), "the limiter is only created for a positive limit")
				}
			}
		}
	}
	if n == 0 {
		c.add(rule, "semaphores|none", Discharged, token.NoPos, false, "no variable-capacity semaphore in the compile pipelines")
	}
}

func runC08(c *Ctx) {
	c08Atomic(c)
	c08Codec(c)
	c07Rmw(c, "C08.rmw")
	c07Errors(c, "C08.errors", c08Funcs)
	c15SingleValue(c, "C08")
	c15Unconditional(c, "C08")
	c15SortedFlag(c, "C08")
	c15DelOne(c, "C08.del-one")
	c15FailOnlyOnDel(c, "C08.fail-only-on-del")
	c08DiffRecord(c)
	c08FreshBatch(c)
}

// c08DiffRecord implements C08.diff-record: the record of a diff line is the line without its operation byte, byte for
// byte. The compiler keys and stores what the data parser hands it (leading blanks removed, nothing else); a diff
// entry that is trimmed or folded differently (round-5 seed c08j: TrimSpace) adds a value the fresh compile does not
// have, and fails to delete one it has.
func c08DiffRecord(c *Ctx) {
	rule := "C08.diff-record"
	c.Rule(rule, "A8 in package dbdiff: every value stored into Entry.Bytes derives from the parsed line by slicing and conversion only — no bytes/strings function that rewrites or re-cuts by content (Trim*, To*, Replace*, Fields*, Map, Title) is on its data path")
	fBytes := c.Field("dnsdata/rdb/dbdiff", "Entry", "Bytes")
	n := 0
	for _, fn := range c.OurFuncs("dnsdata/rdb/dbdiff") {
		for _, st := range storesToField(fn, fBytes) {
			n++
			c.Examined(fn)
			var bad []string
			for v := range backSlice(st.Val, nil) {
				call, ok := v.(*ssa.Call)
				if !ok {
					continue
				}
				f := calleeOf(call.Common())
				if f == nil || f.Pkg() == nil || (f.Pkg().Path() != "bytes" && f.Pkg().Path() != "strings") {
					continue
				}
				nm := f.Name()
				if strings.HasPrefix(nm, "Trim") || strings.HasPrefix(nm, "To") || strings.HasPrefix(nm, "Replace") || nm == "Map" || strings.HasPrefix(nm, "Fields") || nm == "Title" {
					bad = append(bad, f.Pkg().Path()+"."+nm)
				}
			}
			sort.Strings(bad)
			c.Check(rule, fmt.Sprintf("%s|record-verbatim#%d", fnName(fn), n), len(bad) == 0, st.Pos(), fmt.Sprintf("the record of a diff line is rewritten by %v before it is converted", bad))
		}
	}
	c.Floor(rule, 1)
}

// c08FreshBatch implements C08.fresh-batch: every ApplyDiff call works on a batch of its own. A batch kept in the
// updater (round-5 seed c08k) still holds the lines of a diff that failed when the next diff is applied: that diff
// then "succeeds" with the database equal to neither file.
func c08FreshBatch(c *Ctx) {
	rule := "C08.fresh-batch"
	c.Rule(rule, "A8 in (*RDB).ApplyDiff: the batch handed to ExecuteBatch and to Batch.ApplyDiff is the result of a CreateBatch() call made in the same invocation (never a value loaded from a field or a package-level variable)")
	fn := c.Func("dnsdata/rdb", "(*RDB).ApplyDiff")
	c.Examined(fn)
	exec := c.TypesFunc("dnsdata/rdb", "(*RDB).ExecuteBatch")
	create := c.TypesFunc("dnsdata/rdb", "(*RDB).CreateBatch")
	n := 0
	for _, cl := range withClosures(fn) {
		for _, ci := range callsTo(cl, func(f *types.Func) bool { return f == exec }) {
			n++
			ok := true
			var kinds []string
			srcs := sourcesOf(ci.Common().Args[1])
			for s := range srcs {
				call, isCall := s.(*ssa.Call)
				if isCall && calleeOf(call.Common()) == create {
					continue
				}
				ok = false
				kinds = append(kinds, describeValue(s))
			}
			sort.Strings(kinds)
			c.Check(rule, fmt.Sprintf("%s|executed-batch#%d", fnName(fn), n), ok && len(srcs) > 0, ci.Pos(), fmt.Sprintf("the executed batch is not (only) a batch created by this call: %v", kinds))
		}
	}
	c.Floor(rule, 1)
}

func runC15(c *Ctx) {
	c07Rmw(c, "C15.rmw")
	c15FailFirst(c)
	c15Codec(c)
	c15Sorted(c)
	c15SingleValue(c, "C15")
	c15Unconditional(c, "C15")
	c15SortedFlag(c, "C15")
	c15DelOne(c, "C15.del-one")
	c15RestoreLatest(c)
	c15FailOnlyOnDel(c, "C15.fail-only-on-del")
	// executing a batch is one atomic step that fails without effect
	c.importRules(runC08, "C08", map[string]string{"atomic": "atomic"})
}

var c07Funcs = [][2]string{
	{"dnsdata", "ParseStream"}, {"dnsdata", "ParseRecords"}, {"dnsdata", "parse"}, {"dnsdata", "Parse"},
	{"dnsdata", "(*Codec).DecodeLn"}, {"dnsdata", "(*Codec).ConvertLn"}, {"dnsdata", "(*Accum).MarshalMap"}, {"dnsdata", "(*SubnetRanger).MarshalMap"},
	{"dnsdata/cdb", "CreateCDB"}, {"dnsdata/cdb", "CreateCDBFromReader"},
	{"dnsdata/rdb", "Compile"}, {"dnsdata/rdb", "compileBuilder"}, {"dnsdata/rdb", "compileBatches"}, {"dnsdata/rdb", "CompileToSpecificRDBVersion"},
	{"dnsdata/rdb", "(*Builder).Execute"}, {"dnsdata/rdb", "(*Builder).saveBuckets"}, {"dnsdata/rdb", "(*Builder).ingestFiles"},
	{"dnsdata/rdb", "(*RDB).ExecuteBatch"},
}

var c08Funcs = [][2]string{
	{"dnsdata/rdb", "(*RDB).ApplyDiff"}, {"dnsdata/rdb", "ApplyDiff"}, {"dnsdata/rdb/dbdiff", "(*Entry).ParseBytes"}, {"dnsdata/rdb/dbdiff", "(*Entry).Convert"},
	{"dnsdata/rdb", "(*Batch).integrate"}, {"dnsdata/rdb", "delValue"}, {"dnsdata/rdb", "(*RDB).ExecuteBatch"}, {"dnsdata/rdb", "(*RDB).Del"}, {"dnsdata/rdb", "(*RDB).Add"},
}

// ---------------------------------------------------------------------------
// A7 error discipline

func isErrorType(t types.Type) bool { return t.String() == "error" }

// errAllow: callees whose error result may be ignored, with the reason.
func errAllowed(c *Ctx, call ssa.CallInstruction) (string, bool) {
	cc := call.Common()
	f := calleeOf(cc)
	if f == nil {
		return "", false
	}
	name := funcShort(f)
	pkg := ""
	if f.Pkg() != nil {
		pkg = f.Pkg().Path()
	}
	recvIsBuffer := func() bool {
		if cc.IsInvoke() {
			// io.Writer backed by *bytes.Buffer?
			for s := range sourcesOf(cc.Value) {
				if s == nil || !strings.Contains(s.Type().String(), "bytes.Buffer") {
					return false
				}
			}
			return true
		}
		return len(cc.Args) > 0 && strings.Contains(cc.Args[0].Type().String(), "bytes.Buffer")
	}
	switch {
	case (pkg == "fmt" && name == "Errorf") || (pkg == "errors") || (pkg == "github.com/pkg/errors"):
		return "constructs an error value (its use is checked where it flows)", true
	case pkg == "os" && (name == "Remove" || name == "RemoveAll"):
		return "best-effort cleanup of an output file on a failure path", true
	case pkg == "bytes" && strings.HasPrefix(name, "Buffer."):
		return "writes to a bytes.Buffer cannot fail", true
	case (pkg == "fmt" && (name == "Fprintf" || name == "Fprint" || name == "Fprintln")) && recvIsBuffer():
		return "formatted write to a bytes.Buffer cannot fail", true
	case name == "Close" || strings.HasSuffix(name, ".Close"):
		if _, isDefer := call.(*ssa.Defer); isDefer {
			return "deferred Close of an input/handle: I/O fault outside the property's quantifier", true
		}
	case pkg == "encoding/binary" && name == "Write" && recvIsBuffer():
		return "binary.Write to a bytes.Buffer cannot fail", true
	}
	return "", false
}

// closureRole tells how a function literal is run by its parent: "defer", "go", or "".
func closureRole(fn *ssa.Function) string {
	if fn.Parent() == nil {
		return ""
	}
	for _, b := range fn.Parent().Blocks {
		for _, in := range b.Instrs {
			switch x := in.(type) {
			case *ssa.Defer:
				if mc, ok := x.Call.Value.(*ssa.MakeClosure); ok && mc.Fn == fn {
					return "defer"
				}
			case *ssa.Go:
				if mc, ok := x.Call.Value.(*ssa.MakeClosure); ok && mc.Fn == fn {
					return "go"
				}
			}
		}
	}
	return ""
}

// errAllowedInClosure: structural exemptions for calls inside function literals.
func errAllowedInClosure(fn *ssa.Function, ci ssa.CallInstruction) (string, bool) {
	f := calleeOf(ci.Common())
	if f == nil {
		return "", false
	}
	switch closureRole(fn) {
	case "defer":
		if f.Name() == "Close" {
			return "Close of the output inside a deferred handler: an I/O fault at close time, outside the property's quantifier", true
		}
	case "go":
		if f.Pkg() != nil && f.Pkg().Path() == "golang.org/x/sync/errgroup" && f.Name() == "Wait" {
			// fine if the parent waits on the same group again and uses that error
			for _, pc := range callInstrs(fn.Parent()) {
				if g := calleeOf(pc.Common()); g == f {
					if v, ok := pc.(ssa.Value); ok && v.Referrers() != nil && !onlyDebugRefs(v) {
						return "the goroutine only logs: the enclosing function waits on the same errgroup again and uses that error", true
					}
				}
			}
		}
	}
	return "", false
}

func c07Errors(c *Ctx, rule string, funcs [][2]string) {
	c.Rule(rule, "A7 error discipline on the named pipeline functions and their closures: the error result of every call flows to a return value (directly, wrapped by a call whose result is returned, or through a nil test whose failing arm returns a non-nil error); discarded results, bare call statements and log-only arms are drops; allow-list: writes to bytes.Buffer, deferred Close of inputs")
	for _, t := range funcs {
		root := c.FuncOpt(t[0], t[1])
		if root == nil {
			c.Undecided(rule, t[0]+"."+t[1], token.NoPos, "pipeline function not found")
			continue
		}
		for _, fn := range withClosures(root) {
			c.Examined(fn)
			// can this function report an error at all?
			res := fn.Signature.Results()
			hasErr := false
			for i := 0; i < res.Len(); i++ {
				if isErrorType(res.At(i).Type()) {
					hasErr = true
				}
			}
			// values returned as errors
			returned := map[ssa.Value]bool{}
			for _, ret := range returnsOf(fn) {
				for _, rv := range ret.Results {
					if !isErrorType(rv.Type()) {
						continue
					}
					for v := range backSlice(rv, nil) {
						returned[v] = true
					}
				}
			}
			// named error results of a function with defer+recover may also be assigned: stores to them count
			var drops []string
			n := 0
			for _, ci := range callInstrs(fn) {
				if _, isGo := ci.(*ssa.Go); isGo {
					continue
				}
				sig := ci.Common().Signature()
				rs := sig.Results()
				errIdx := -1
				for i := 0; i < rs.Len(); i++ {
					if isErrorType(rs.At(i).Type()) {
						errIdx = i
					}
				}
				if errIdx < 0 {
					continue
				}
				n++
				if _, ok := errAllowed(c, ci); ok {
					continue
				}
				if _, ok := errAllowedInClosure(fn, ci); ok {
					continue
				}
				if _, isDefer := ci.(*ssa.Defer); isDefer {
					drops = append(drops, fmt.Sprintf("%s: deferred call discards its error", c.relPos(ci.Pos())))
					continue
				}
				call := ci.(*ssa.Call)
				var ev ssa.Value
				if rs.Len() == 1 {
					ev = call
				} else {
					for _, r := range *call.Referrers() {
						if ex, ok := r.(*ssa.Extract); ok && ex.Index == errIdx {
							ev = ex
						}
					}
				}
				callee := "call"
				if f := calleeOf(call.Common()); f != nil {
					callee = f.Name()
				}
				if ev == nil || ev.Referrers() == nil || onlyDebugRefs(ev) {
					drops = append(drops, fmt.Sprintf("%s: error of %s is discarded", c.relPos(ci.Pos()), callee))
					continue
				}
				if !hasErr {
					drops = append(drops, fmt.Sprintf("%s: error of %s cannot be reported: the function has no error result", c.relPos(ci.Pos()), callee))
					continue
				}
				if returned[ev] {
					continue
				}
				// tested, and the failing arm returns a non-nil error?
				ok := false
				for _, e := range nilEdgesOf(fn, func(v ssa.Value) bool { return v == ev }) {
					fail := e.If.Block().Succs[1-e.Succ]
					for _, ret := range returnsOf(fn) {
						if !(ret.Block() == fail || fail.Dominates(ret.Block())) {
							continue
						}
						for _, rv := range ret.Results {
							if !isErrorType(rv.Type()) {
								continue
							}
							for s := range sourcesOf(rv) {
								if s != nil && !isNilConst(s) {
									ok = true
								}
							}
						}
					}
				}
				if !ok {
					drops = append(drops, fmt.Sprintf("%s: error of %s is neither returned nor turned into a returned error", c.relPos(ci.Pos()), callee))
				}
			}
			if n == 0 {
				continue
			}
			c.Check(rule, stableFnName(fn), len(drops) == 0, fn.Pos(), fmt.Sprintf("%d error-returning calls examined; drops: %v", n, drops))
		}
	}
	c.Floor(rule, 6)
}

func onlyDebugRefs(v ssa.Value) bool {
	for _, r := range *v.Referrers() {
		if _, ok := r.(*ssa.DebugRef); !ok {
			return false
		}
	}
	return true
}

// ---------------------------------------------------------------------------
// no-drop loops

// loopOverSlice finds natural loops of fn that iterate (range) over value `over` (matched by pred on the ranged value).
type sliceLoop struct {
	Header *ssa.BasicBlock
	Body   map[*ssa.BasicBlock]bool
	Entry  *ssa.BasicBlock // first block of the body (taken when the loop condition holds)
}

func rangeLoops(fn *ssa.Function, pred func(ranged ssa.Value) bool) []sliceLoop {
	var out []sliceLoop
	for h, body := range naturalLoops(fn) {
		iff, ok := h.Instrs[len(h.Instrs)-1].(*ssa.If)
		if !ok {
			continue
		}
		matched := false
		// slice range: cond = idx < len(x); map/chan/string range: cond = ok of next(range x)
		for v := range backSlice(iff.Cond, nil) {
			if ln := isBuiltinCall(v, "len"); ln != nil && pred(ln.Call.Args[0]) {
				matched = true
			}
			if nx, isN := v.(*ssa.Next); isN {
				if r, isR := nx.Iter.(*ssa.Range); isR && pred(r.X) {
					matched = true
				}
			}
			if u, isU := v.(*ssa.UnOp); isU && u.Op == token.ARROW && pred(u.X) {
				matched = true
			}
		}
		if !matched {
			continue
		}
		var entry *ssa.BasicBlock
		for _, s := range h.Succs {
			if body[s] && s != h {
				entry = s
			}
		}
		// channel range: the receive is in the header itself and the If follows; body entry is the true successor
		if entry == nil {
			continue
		}
		out = append(out, sliceLoop{h, body, entry})
	}
	sort.Slice(out, func(i, j int) bool { return out[i].Header.Index < out[j].Header.Index })
	return out
}

// bodyCanSkip: from the body entry, the loop header can be reached again without passing a block in `sinks` or an edge in allowedEdges.
func bodyCanSkip(l sliceLoop, sinks map[*ssa.BasicBlock]bool, allowed map[[2]int]bool) bool {
	if sinks[l.Entry] {
		return false
	}
	seen := map[*ssa.BasicBlock]bool{}
	var walk func(b *ssa.BasicBlock) bool
	walk = func(b *ssa.BasicBlock) bool {
		if b == l.Header {
			return true
		}
		if seen[b] || sinks[b] || !l.Body[b] {
			return false
		}
		seen[b] = true
		for i, s := range b.Succs {
			if allowed[[2]int{b.Index, i}] {
				continue
			}
			if walk(s) {
				return true
			}
		}
		return false
	}
	return walk(l.Entry)
}

func c07NoDrop(c *Ctx) {
	rule := "C07.nodrop"
	c.Rule(rule, "A2 no-drop loops: (scan) in parse's scanner goroutine every scanned line reaches the send to the workers unless it takes the blank/comment skip edge; (convert) the ParseStream/ParseRecords callbacks send what the codec returned on every success path; (store) in compileBuilder.store, compileBatches.store and CreateCDBFromReader no path through the loop over a received record slice returns to the loop head without passing the sink call")
	// (scan)
	parse := c.Func("dnsdata", "parse")
	scanOK, scanFound := false, false
	for _, cl := range withClosures(parse) {
		for _, l := range rangeLoops(cl, func(v ssa.Value) bool { return false }) {
			_ = l
		}
		// the loop whose condition is scanner.Scan()
		for h, body := range naturalLoops(cl) {
			iff, ok := h.Instrs[len(h.Instrs)-1].(*ssa.If)
			if !ok {
				continue
			}
			call, isCall := iff.Cond.(*ssa.Call)
			if !isCall {
				continue
			}
			if f := calleeOf(call.Common()); f == nil || f.Pkg() == nil || f.Pkg().Path() != "bufio" || funcShort(f) != "Scanner.Scan" {
				continue
			}
			scanFound = true
			c.Examined(cl)
			sinks := map[*ssa.BasicBlock]bool{}
			for _, b := range cl.Blocks {
				for _, in := range b.Instrs {
					if _, isSend := in.(*ssa.Send); isSend && body[b] {
						sinks[b] = true
					}
				}
			}
			// allowed skip edges: true edge of len(line) < k, true edge of bytes.HasPrefix(line, "#")
			allowed := map[[2]int]bool{}
			for b := range body {
				bi, isIf := b.Instrs[len(b.Instrs)-1].(*ssa.If)
				if !isIf {
					continue
				}
				for k := 0; k < 2; k++ {
					var fs []fact
					condImplies(bi.Cond, k == 0, 0, &fs)
					for _, f := range fs {
						if blankOrCommentFact(f) {
							allowed[[2]int{b.Index, k}] = true
						}
					}
				}
			}
			var entry *ssa.BasicBlock
			for _, s := range h.Succs {
				if body[s] && s != h {
					entry = s
				}
			}
			if entry != nil {
				scanOK = !bodyCanSkip(sliceLoop{h, body, entry}, sinks, allowed)
				if !scanOK {
					// per path: every way round the loop that misses the send has taken a blank-or-comment outcome
					// (the test may sit in a flag that is branched on later)
					if paths, ok := loopIterationPaths(h, entry, body, sinks, 64); ok {
						scanOK = true
						for _, fs := range paths {
							reason := false
							for _, f := range fs {
								if blankOrCommentFact(f) {
									reason = true
								}
							}
							if !reason {
								scanOK = false
							}
						}
					}
				}
			}
		}
	}
	if !scanFound {
		c.Undecided(rule, "dnsdata.parse|scan-loop", parse.Pos(), "scanner loop not found")
	} else {
		c.Check(rule, "dnsdata.parse|scan-loop|every-line-sent-or-skipped-as-blank-or-comment", scanOK, parse.Pos(), "a data line may only be left out because it is blank or a comment")
	}
	// (convert)
	for _, t := range []string{"ParseStream", "ParseRecords"} {
		fn := c.Func("dnsdata", t)
		for _, cl := range fn.AnonFuncs {
			var conv *ssa.Call
			for _, ci := range callInstrs(cl) {
				if f := calleeOf(ci.Common()); f != nil && (f.Name() == "ConvertLn" || f.Name() == "DecodeLn") {
					conv, _ = ci.(*ssa.Call)
				}
			}
			if conv == nil {
				continue
			}
			c.Examined(cl)
			var send *ssa.Send
			for _, b := range cl.Blocks {
				for _, in := range b.Instrs {
					if s, ok := in.(*ssa.Send); ok {
						for src := range sourcesOf(s.X) {
							if cl2, idx := callOfValue(src); cl2 == conv && idx == 0 {
								send = s
							}
						}
					}
				}
			}
			ok := send != nil
			if ok {
				for _, ret := range returnsOf(cl) {
					succ := true
					for s := range sourcesOf(ret.Results[0]) {
						if s == nil || !isNilConst(s) {
							succ = false
						}
					}
					if succ && !instrDominates(send, ret) {
						ok = false
					}
				}
			}
			c.Check(rule, stableFnName(cl)+"|converted-records-forwarded", ok, cl.Pos(), "what the codec produced for a line is sent on every success path of the per-line callback")
		}
	}
	// (store)
	mrT := c.Named("dnsdata", "MapRecord")
	isRecordSlice := func(v ssa.Value) bool {
		sl, ok := v.Type().Underlying().(*types.Slice)
		return ok && types.Identical(sl.Elem(), mrT)
	}
	sinkNames := map[string]bool{"ScheduleAdd": true, "Add": true, "Put": true}
	check := func(fn *ssa.Function) {
		loops := rangeLoops(fn, isRecordSlice)
		for i, l := range loops {
			c.Examined(fn)
			sinks := map[*ssa.BasicBlock]bool{}
			for _, ci := range callInstrs(fn) {
				cc := ci.Common()
				name := ""
				if cc.IsInvoke() {
					name = cc.Method.Name()
				} else if f := calleeOf(cc); f != nil {
					name = f.Name()
				}
				if !sinkNames[name] || !l.Body[ci.Block()] {
					continue
				}
				// the sink takes the element's key and value
				fields := map[string]bool{}
				for _, a := range cc.Args {
					for v := range backSlice(a, func(v ssa.Value) bool { _, isCall := v.(*ssa.Call); return isCall }) {
						switch x := v.(type) {
						case *ssa.Field:
							fields[fieldName(x.X.Type(), x.Field)] = true
						case *ssa.FieldAddr:
							fields[fieldName(x.X.Type(), x.Field)] = true
						}
					}
				}
				if fields["Key"] && fields["Value"] {
					sinks[ci.Block()] = true
				}
			}
			skip := len(sinks) == 0 || bodyCanSkip(l, sinks, nil)
			c.Check(rule, fmt.Sprintf("%s|record-loop#%d|every-record-reaches-the-sink", stableFnName(fn), i), !skip, l.Header.Instrs[0].Pos(), "no record of a received slice is filtered out, skipped or lost on the way to the database writer")
		}
	}
	for _, t := range [][2]string{{"dnsdata/rdb", "compileBuilder"}, {"dnsdata/rdb", "compileBatches"}, {"dnsdata/cdb", "CreateCDBFromReader"}} {
		for _, fn := range withClosures(c.Func(t[0], t[1])) {
			check(fn)
		}
	}
	// the channel loops: every received slice is stored
	for _, t := range [][2]string{{"dnsdata/rdb", "compileBuilder"}, {"dnsdata/rdb", "compileBatches"}} {
		fn := c.Func(t[0], t[1])
		ok := false
		for _, l := range rangeLoops(fn, func(v ssa.Value) bool { _, isChan := v.Type().Underlying().(*types.Chan); return isChan }) {
			sinks := map[*ssa.BasicBlock]bool{}
			for _, ci := range callInstrs(fn) {
				if l.Body[ci.Block()] {
					if _, isMC := ci.Common().Value.(*ssa.MakeClosure); isMC || varNameOfLoad(ci.Common().Value) == "store" || ci.Common().StaticCallee() != nil && ci.Common().StaticCallee().Parent() == fn {
						sinks[ci.Block()] = true
					}
				}
			}
			if len(sinks) > 0 && !bodyCanSkip(l, sinks, nil) {
				ok = true
			}
		}
		c.Check(rule, fnName(fn)+"|channel-loop|every-slice-stored", ok, fn.Pos(), "every slice received from the parser is handed to store")
	}
	c.Floor(rule, 7)
}

// sliceLiteralString: v is []byte("...") of a constant; returns the string.
func sliceLiteralString(v ssa.Value) string {
	switch x := v.(type) {
	case *ssa.Convert:
		if s, ok := stringConst(x.X); ok {
			return s
		}
	case *ssa.Slice:
		// []byte{'#'} literal
		if a, ok := x.X.(*ssa.Alloc); ok {
			var bs []byte
			for v := range backSlice(a, nil) {
				if k, isK := v.(*ssa.Const); isK {
					if i, ok := constInt(k); ok {
						bs = append(bs, byte(i))
					}
				}
			}
			if len(bs) == 1 {
				return string(bs)
			}
		}
	}
	return ""
}

func c07Tail(c *Ctx) {
	rule := "C07.tail"
	c.Rule(rule, "A2 in ParseStream: the results of Acc.MarshalMap() and Features.MarshalMap() are each sent exactly once, outside loops, dominated by the nil edge of parse's error (after every line was consumed successfully)")
	fn := c.Func("dnsdata", "ParseStream")
	c.Examined(fn)
	var parseCall *ssa.Call
	parseF := c.TypesFunc("dnsdata", "parse")
	for _, ci := range callsTo(fn, func(f *types.Func) bool { return f == parseF }) {
		parseCall, _ = ci.(*ssa.Call)
	}
	if parseCall == nil {
		c.Undecided(rule, fnName(fn)+"|parse-call", fn.Pos(), "call of parse not found")
		return
	}
	isParseErr := func(v ssa.Value) bool { cl, _ := callOfValue(v); return cl == parseCall }
	for _, recv := range []string{"Accum", "Rfeatures"} {
		mm := c.TypesFunc("dnsdata", "(*"+recv+").MarshalMap")
		var sends []*ssa.Send
		for _, b := range fn.Blocks {
			for _, in := range b.Instrs {
				s, ok := in.(*ssa.Send)
				if !ok {
					continue
				}
				for src := range sourcesOf(s.X) {
					if cl, idx := callOfValue(src); cl != nil && idx == 0 && calleeOf(cl.Common()) == mm {
						sends = append(sends, s)
					}
				}
			}
		}
		ok := len(sends) == 1 && !inCycle(sends[0].Block()) && dominatedByNilEdge(sends[0], isParseErr)
		c.Check(rule, fnName(fn)+"|"+recv+".MarshalMap-sent-once-after-parse", ok, fn.Pos(), fmt.Sprintf("%d sends of the %s record", len(sends), recv))
	}
}

// storeOp classifies an invoke on the rdb.DBI interface held in RDB.db: "read" (Get/GetMulti), "write" (Put/Delete/ExecuteBatch) or "".
func storeOp(c *Ctx, ci ssa.CallInstruction) (kind, name string) {
	cc := ci.Common()
	if !cc.IsInvoke() {
		return "", ""
	}
	dbiT := c.Named("dnsdata/rdb", "DBI").Underlying().(*types.Interface)
	if !types.Identical(cc.Value.Type().Underlying(), dbiT) {
		return "", ""
	}
	switch cc.Method.Name() {
	case "Get", "GetMulti":
		return "read", cc.Method.Name()
	case "Put", "Delete", "ExecuteBatch", "IngestSSTFiles":
		return "write", cc.Method.Name()
	}
	return "", cc.Method.Name()
}

// ---------------------------------------------------------------------------
// read-modify-write under the write mutex

func c07Rmw(c *Ctx, rule string) {
	c.Rule(rule, "A1: in RDB.Add, RDB.Del and RDB.ExecuteBatch every read of the store (Get/GetMulti) and every mutation (Put/Delete/ExecuteBatch) happens with rdb.writeMutex held, taken exactly once and not released between the read and the write")
	for _, name := range []string{"(*RDB).Add", "(*RDB).Del", "(*RDB).ExecuteBatch"} {
		fn := c.Func("dnsdata/rdb", name)
		c.Examined(fn)
		ls := computeLockset(fn)
		lockPath := fn.Params[0].Name() + ".writeMutex"
		var rd, wr []ssa.CallInstruction
		var locks, unlocks []ssa.Instruction
		for _, ci := range callInstrs(fn) {
			switch k, _ := storeOp(c, ci); k {
			case "read":
				rd = append(rd, ci)
			case "write":
				wr = append(wr, ci)
			}
			if k, recv := lockOp(ci.Common()); k != "" && pathOf(recv) == lockPath {
				if _, isDefer := ci.(*ssa.Defer); isDefer {
					continue
				}
				if k == "lock" {
					locks = append(locks, ci)
				} else {
					unlocks = append(unlocks, ci)
				}
			}
		}
		ok := len(rd) > 0 && len(wr) > 0 && len(locks) == 1
		var why []string
		if len(locks) != 1 {
			why = append(why, fmt.Sprintf("%d Lock calls on the write mutex", len(locks)))
		}
		for _, x := range append(append([]ssa.CallInstruction{}, rd...), wr...) {
			if ls.At(x)[lockPath] != modeW {
				ok = false
				why = append(why, fmt.Sprintf("%s at %s without the write mutex", x.Common().Method.Name(), c.relPos(x.Pos())))
			}
		}
		for _, u := range unlocks {
			for _, r := range rd {
				for _, w := range wr {
					if instrReaches(r, u) && instrReaches(u, w) {
						ok = false
						why = append(why, "mutex released between the read and the write at "+c.relPos(u.Pos()))
					}
				}
			}
		}
		c.Check(rule, fnName(fn)+"|read-and-write-in-one-critical-section", ok, fn.Pos(), fmt.Sprintf("%d reads, %d writes; %s", len(rd), len(wr), strings.Join(why, "; ")))
	}
}

func c07BatchRebind(c *Ctx) {
	rule := "C07.batch-rebind"
	c.Rule(rule, "in compileBatches' store closure a batch handed to a goroutine (errgroup Go) is replaced by a fresh CreateBatch() before control can reach the next Batch.Add")
	root := c.Func("dnsdata/rdb", "compileBatches")
	createBatch := c.TypesFunc("dnsdata/rdb", "(*RDB).CreateBatch")
	batchAdd := c.TypesFunc("dnsdata/rdb", "(*Batch).Add")
	n := 0
	for _, fn := range withClosures(root) {
		for _, ci := range callInstrs(fn) {
			f := calleeOf(ci.Common())
			if f == nil || f.Pkg() == nil || f.Pkg().Path() != "golang.org/x/sync/errgroup" || f.Name() != "Go" {
				continue
			}
			mc, ok := ci.Common().Args[1].(*ssa.MakeClosure)
			if !ok {
				continue
			}
			// does the closure execute a batch?
			exec := false
			for _, x := range callInstrs(mc.Fn.(*ssa.Function)) {
				if g := calleeOf(x.Common()); g != nil && g.Name() == "ExecuteBatch" {
					exec = true
				}
			}
			if !exec {
				continue
			}
			n++
			c.Examined(fn)
			// stores of CreateBatch() results after the Go call
			blocked := map[*ssa.BasicBlock]bool{}
			sameBlockOK := false
			for _, b := range fn.Blocks {
				for _, in := range b.Instrs {
					st, isSt := in.(*ssa.Store)
					if !isSt {
						continue
					}
					fromCreate := false
					for s := range sourcesOf(st.Val) {
						if cl, _ := callOfValue(s); cl != nil && calleeOf(cl.Common()) == createBatch {
							fromCreate = true
						}
					}
					if !fromCreate || varNameOfAddr(st.Addr) == "" {
						continue
					}
					if b == ci.Block() && instrIndex(st) > instrIndex(ci) {
						sameBlockOK = true
					}
					blocked[b] = true
				}
			}
			ok = sameBlockOK
			if !ok && len(blocked) > 0 {
				ok = true
				for b := range reachAvoiding(ci.Block(), blocked, nil) {
					if b == ci.Block() {
						continue
					}
					for _, x := range b.Instrs {
						if call, isCall := x.(ssa.CallInstruction); isCall && calleeOf(call.Common()) == batchAdd {
							ok = false
						}
					}
				}
			}
			c.Check(rule, stableFnName(fn)+"|batch-replaced-after-handoff", ok, ci.Pos(), "appending to a batch that a goroutine is executing loses or duplicates records")
		}
	}
	if n == 0 {
		c.Undecided(rule, fnName(root)+"|handoff", root.Pos(), "no batch hand-off to a goroutine found")
	}
}

func c07Buckets(c *Ctx) {
	rule := "C07.buckets"
	c.Rule(rule, "in Builder.createBuckets the loop that advances the bucket end exits on a comparison (bytes.Equal) of the keys at index e and e-1 of the sorted values, e being the loop variable: equal keys stay in one bucket")
	fn := c.Func("dnsdata/rdb", "(*Builder).createBuckets")
	c.Examined(fn)
	found := false
	fKey := c.Field("dnsdata/rdb", "keyValues", "key")
	indexOfKeyLoad := func(v ssa.Value) ssa.Value { // v = load of values[i].key -> i
		u, ok := unwrap(v).(*ssa.UnOp)
		if !ok {
			return nil
		}
		fa, ok := u.X.(*ssa.FieldAddr)
		if !ok || fieldOf(fa) != fKey {
			return nil
		}
		ia, ok := fa.X.(*ssa.IndexAddr)
		if !ok {
			return nil
		}
		return ia.Index
	}
	loops := naturalLoops(fn)
	validated := map[*ssa.Phi]bool{}
	for _, ci := range callInstrs(fn) {
		f := calleeOf(ci.Common())
		if f == nil || f.Pkg() == nil || f.Pkg().Path() != "bytes" || f.Name() != "Equal" {
			continue
		}
		i0, i1 := indexOfKeyLoad(ci.Common().Args[0]), indexOfKeyLoad(ci.Common().Args[1])
		if i0 == nil || i1 == nil {
			continue
		}
		// both elements are taken from the SAME slice value: index e of a re-slice and index e-1 of the whole list are
		// not neighbours (seed c07f)
		sliceOfKeyLoad := func(v ssa.Value) ssa.Value {
			return unwrap(v).(*ssa.UnOp).X.(*ssa.FieldAddr).X.(*ssa.IndexAddr).X
		}
		if s0, s1 := sliceOfKeyLoad(ci.Common().Args[0]), sliceOfKeyLoad(ci.Common().Args[1]); !sameValue(s0, s1) {
			continue
		}
		isPrev := func(a, b ssa.Value) bool { // b == a - 1
			bo, ok := b.(*ssa.BinOp)
			if !ok || bo.Op != token.SUB || bo.X != a {
				return false
			}
			k, isK := constInt(bo.Y)
			return isK && k == 1
		}
		var loopVar ssa.Value
		if isPrev(i0, i1) {
			loopVar = i0
		} else if isPrev(i1, i0) {
			loopVar = i1
		}
		if loopVar == nil {
			continue
		}
		phi, isPhi := loopVar.(*ssa.Phi)
		if !isPhi {
			continue
		}
		// the phi is the variable of a loop containing the comparison, incremented in it, and the comparison's false edge leaves the loop
		for h, body := range loops {
			if h != phi.Block() || !body[ci.Block()] {
				continue
			}
			inc := false
			for _, e := range phi.Edges {
				if bo, ok := e.(*ssa.BinOp); ok && bo.Op == token.ADD && bo.X == ssa.Value(phi) {
					inc = true
				}
			}
			call := ci.(*ssa.Call)
			exits := false
			for _, r := range *call.Referrers() {
				var iff *ssa.If
				switch x := r.(type) {
				case *ssa.If:
					iff = x
				case *ssa.UnOp:
					for _, rr := range *x.Referrers() {
						if y, ok := rr.(*ssa.If); ok {
							iff = y
						}
					}
				}
				if iff != nil {
					for _, s := range iff.Block().Succs {
						if !body[s] {
							exits = true
						}
					}
				}
			}
			if inc && exits {
				found = true
				validated[phi] = true
			}
		}
	}
	c.Check(rule, fnName(fn)+"|cut-only-between-different-keys", found, fn.Pos(), "a run of equal keys split over two SST files makes one file's value list shadow the other's at ingestion")
	// every boundary that ends up in a bucket is a validated cut: the scan variable of the loop above, the start (0),
	// the end of the values, or a merge of those. A boundary computed any other way (seed c07r4h: the arithmetic
	// midpoint of the last two buckets) was never compared with its neighbour.
	var allowed func(v ssa.Value, seen map[ssa.Value]bool) bool
	allowed = func(v ssa.Value, seen map[ssa.Value]bool) bool {
		v = unwrap(v)
		if seen[v] {
			return true
		}
		seen[v] = true
		if k, ok := constInt(v); ok && k == 0 {
			return true
		}
		if ln := isBuiltinCall(v, "len"); ln != nil {
			return true
		}
		if phi, ok := v.(*ssa.Phi); ok {
			if validated[phi] {
				return true
			}
			for _, e := range phi.Edges {
				if !allowed(e, seen) {
					return false
				}
			}
			return true
		}
		return false
	}
	nb, badB := 0, []string{}
	for _, b := range fn.Blocks {
		for _, in := range b.Instrs {
			st, ok := in.(*ssa.Store)
			if !ok {
				continue
			}
			fa, ok := st.Addr.(*ssa.FieldAddr)
			if !ok {
				continue
			}
			fname := fieldName(fa.X.Type(), fa.Field)
			if fname != "startOffset" && fname != "endOffset" {
				continue
			}
			nb++
			if !allowed(st.Val, map[ssa.Value]bool{}) {
				badB = append(badB, fname+" at "+c.relPos(st.Pos()))
			}
		}
	}
	if found {
		c.Check(rule, fnName(fn)+"|every-boundary-is-a-validated-cut", len(badB) == 0 && nb >= 2, fn.Pos(), fmt.Sprintf("%d boundary stores; not derived from the key-comparing scan, 0 or the end of the values: %v", nb, badB))
	}
}

// ---------------------------------------------------------------------------
// C08

func c08Atomic(c *Ctx) {
	rule := "C08.atomic"
	c.Rule(rule, "A2+A8: RDB.ApplyDiff contains exactly one database-mutating call (ExecuteBatch), outside any loop and dominated by the nil edge of scanner.Err(); no Add/Del/Put on the database inside the scan loop. RDB.ExecuteBatch performs exactly one mutating call on the store, dominated by the nil edge of integrate's error and preceded by a loop that returns the first multi-get error")
	fn := c.Func("dnsdata/rdb", "(*RDB).ApplyDiff")
	c.Examined(fn)
	mut := map[string]bool{"ExecuteBatch": true, "Add": true, "Del": true}
	var execs []ssa.CallInstruction
	var inLoop []string
	isMutating := func(ci ssa.CallInstruction) bool {
		f := calleeOf(ci.Common())
		if f == nil {
			return false
		}
		if k, _ := storeOp(c, ci); k == "write" {
			return true
		}
		if sig := f.Type().(*types.Signature); sig.Recv() != nil && strings.HasSuffix(sig.Recv().Type().String(), "rdb.RDB") && mut[f.Name()] {
			return true
		}
		return false
	}
	// closures of ApplyDiff that mutate (directly or through another such closure)
	mutClosure := map[*ssa.Function]bool{}
	for changed := true; changed; {
		changed = false
		for _, cl := range withClosures(fn)[1:] {
			if mutClosure[cl] {
				continue
			}
			for _, ci := range callInstrs(cl) {
				if isMutating(ci) || mutClosure[closureCallee(ci)] {
					mutClosure[cl] = true
					changed = true
				}
			}
		}
	}
	for _, ci := range callInstrs(fn) {
		if !(isMutating(ci) || mutClosure[closureCallee(ci)]) {
			continue
		}
		name := "closure"
		if f := calleeOf(ci.Common()); f != nil {
			name = f.Name()
		} else if cl := closureCallee(ci); cl != nil {
			name = fnName(cl)
		}
		if inCycle(ci.Block()) {
			inLoop = append(inLoop, name+" at "+c.relPos(ci.Pos()))
		}
		execs = append(execs, ci)
	}
	c.Check(rule, fnName(fn)+"|no-mutation-inside-the-scan-loop", len(inLoop) == 0, fn.Pos(), fmt.Sprintf("database mutations inside the loop: %v (a bad line later in the diff would leave the earlier part applied)", inLoop))
	okOne := len(execs) == 1
	if okOne {
		isScanErr := func(v ssa.Value) bool {
			cl, _ := callOfValue(v)
			if cl == nil {
				return false
			}
			f := calleeOf(cl.Common())
			return f != nil && f.Pkg() != nil && f.Pkg().Path() == "bufio" && funcShort(f) == "Scanner.Err"
		}
		okOne = dominatedByNilEdge(execs[0], isScanErr)
	}
	c.Check(rule, fnName(fn)+"|single-execute-after-clean-scan", okOne, fn.Pos(), fmt.Sprintf("%d mutating calls; the one ExecuteBatch runs only after the whole diff was read without scanner error", len(execs)))

	eb := c.Func("dnsdata/rdb", "(*RDB).ExecuteBatch")
	c.Examined(eb)
	var muts []ssa.CallInstruction
	var integ, getm *ssa.Call
	for _, ci := range callInstrs(eb) {
		f := calleeOf(ci.Common())
		if f == nil {
			continue
		}
		if k, n := storeOp(c, ci); k == "write" {
			muts = append(muts, ci)
		} else if sig := f.Type().(*types.Signature); sig.Recv() != nil && strings.HasSuffix(sig.Recv().Type().String(), "rdb.RDB") && (f.Name() == "Add" || f.Name() == "Del") {
			// the store's own single-value read-modify-write operations are writes too: a batch applied through them
			// (seed c15r4i: a "fast path" for small batches) is several independent writes, not one atomic step
			muts = append(muts, ci)
		} else if n == "GetMulti" {
			getm, _ = ci.(*ssa.Call)
		}
		if f.Name() == "integrate" {
			integ, _ = ci.(*ssa.Call)
		}
	}
	ok := len(muts) == 1 && integ != nil && getm != nil
	detail := fmt.Sprintf("%d store-mutating calls", len(muts))
	if ok {
		ok = dominatedByNilEdge(muts[0], func(v ssa.Value) bool { cl, _ := callOfValue(v); return cl == integ })
		if !ok {
			detail = "the write is not dominated by the success of integrate"
		}
	}
	c.Check(rule, fnName(eb)+"|single-write-after-integrate", ok, eb.Pos(), detail)
	// multi-get error scan: a loop over GetMulti's error slice with a return of the element inside, dominating the write
	okScan := false
	if getm != nil && len(muts) == 1 {
		for _, l := range rangeLoops(eb, func(v ssa.Value) bool {
			for s := range sourcesOf(v) {
				if cl, idx := callOfValue(s); cl == getm && idx == 1 {
					return true
				}
			}
			return false
		}) {
			// inside the loop a branch on "element != nil" whose non-nil side can never reach the write (it returns, or
			// leaves through an error exit), and the write lies behind the loop
			aborts := false
			for b := range l.Body {
				iff, ok := b.Instrs[len(b.Instrs)-1].(*ssa.If)
				if !ok {
					continue
				}
				bo, ok := iff.Cond.(*ssa.BinOp)
				if !ok || (bo.Op != token.NEQ && bo.Op != token.EQL) || !(isNilConst(bo.Y) || isNilConst(bo.X)) {
					continue
				}
				nonNil := b.Succs[0]
				if bo.Op == token.EQL {
					nonNil = b.Succs[1]
				}
				elem := bo.X
				if isNilConst(elem) {
					elem = bo.Y
				}
				// the edge b→nonNil carries "element is not nil"; phis of nonNil fed by that edge inherit it
				init := map[ssa.Value]vfact{elem: {nilness: 2}}
				if !feasiblyReaches(nonNil, init, muts[0].Block()) {
					aborts = true
				}
			}
			if aborts && l.Header.Dominates(muts[0].Block()) {
				okScan = true
			}
		}
	}
	c.Check(rule, fnName(eb)+"|multi-get-errors-scanned-before-write", okScan, eb.Pos(), "a failed read of any affected key aborts the batch before anything is written")
}

func c08Codec(c *Ctx) {
	rule := "C08.codec"
	c.Rule(rule, "A8: RDB.ApplyDiff builds its codec with the initialiser Compile uses and sets Features.UseV2Keys from IsV2KeySyntaxUsed(); Batch.ApplyDiff calls Batch.Add under Op == AddOp and Batch.Del under Op == DelOp; the declared Op constants are exactly those two")
	fn := c.Func("dnsdata/rdb", "(*RDB).ApplyDiff")
	compile := c.Func("dnsdata/rdb", "Compile")
	initCodec := c.TypesFunc("dnsdata/rdb", "initCodec")
	c.Check(rule, "ApplyDiff+Compile|same-codec-initialiser", len(callsTo(fn, func(f *types.Func) bool { return f == initCodec })) == 1 && len(callsTo(compile, func(f *types.Func) bool { return f == initCodec })) == 1, fn.Pos(), "diff lines are converted by a codec configured exactly like the compiler's")
	fV2 := c.Field("dnsdata", "Rfeatures", "UseV2Keys")
	isV2 := c.TypesFunc("dnsdata/rdb", "(*RDB).IsV2KeySyntaxUsed")
	okV2 := false
	for _, st := range storesToField(fn, fV2) {
		for s := range sourcesOf(st.Val) {
			if cl, _ := callOfValue(s); cl != nil && calleeOf(cl.Common()) == isV2 {
				okV2 = true
			}
		}
	}
	c.Check(rule, fnName(fn)+"|key-layout-from-database", okV2, fn.Pos(), "the key layout used for the diff is the one the database was compiled with")
	// op mapping
	ba := c.Func("dnsdata/rdb", "(*Batch).ApplyDiff")
	c.Examined(ba)
	add := c.TypesFunc("dnsdata/rdb", "(*Batch).Add")
	del := c.TypesFunc("dnsdata/rdb", "(*Batch).Del")
	opFact := func(ci ssa.CallInstruction, want string) bool {
		return hasFact(ci.Block(), func(v ssa.Value, truth bool) bool {
			b, ok := v.(*ssa.BinOp)
			if !ok || b.Op != token.EQL || !truth {
				return false
			}
			s, isS := stringConst(b.Y)
			if !isS {
				s, isS = stringConst(b.X)
			}
			return isS && s == want
		})
	}
	for _, t := range []struct {
		f    *types.Func
		want string
		name string
	}{{add, "+", "Add"}, {del, "-", "Del"}} {
		calls := callsTo(ba, func(f *types.Func) bool { return f == t.f })
		ok := len(calls) == 1 && opFact(calls[0], t.want)
		if len(calls) == 0 {
			// the operation chosen once as a method value (schedule = batch.Add under Op == "+") and applied to every
			// record through that value
			var binds []*ssa.MakeClosure
			for _, b := range ba.Blocks {
				for _, in := range b.Instrs {
					if mc, isMC := in.(*ssa.MakeClosure); isMC {
						if bf, isF := mc.Fn.(*ssa.Function); isF && bf.Object() == types.Object(t.f) && strings.HasSuffix(bf.Name(), "$bound") {
							binds = append(binds, mc)
						}
					}
				}
			}
			if len(binds) == 1 {
				called := false
				for _, ci := range callInstrs(ba) {
					if ci.Common().IsInvoke() || ci.Common().StaticCallee() != nil {
						continue
					}
					if sourcesOf(ci.Common().Value)[binds[0]] {
						called = true
					}
				}
				ok = called && hasFact(binds[0].Block(), func(v ssa.Value, truth bool) bool {
					b, isB := v.(*ssa.BinOp)
					if !isB || b.Op != token.EQL || !truth {
						return false
					}
					sv, isS := stringConst(b.Y)
					if !isS {
						sv, isS = stringConst(b.X)
					}
					return isS && sv == t.want
				})
			}
		}
		c.Check(rule, fnName(ba)+"|"+t.want+"→Batch."+t.name, ok, ba.Pos(), "diff operation '"+t.want+"' maps to Batch."+t.name)
	}
	// exhaustive ops
	var ops []string
	sc := c.Pkg("dnsdata/rdb/dbdiff").Types.Scope()
	opT := c.Named("dnsdata/rdb/dbdiff", "Op")
	for _, n := range sc.Names() {
		if k, ok := sc.Lookup(n).(*types.Const); ok && types.Identical(k.Type(), opT) {
			ops = append(ops, n+"="+k.Val().ExactString())
		}
	}
	sort.Strings(ops)
	c.CheckConst(rule, "dbdiff.Op|declared-constants", len(ops) == 2 && strings.Join(ops, ",") == `AddOp="+",DelOp="-"`, token.NoPos, fmt.Sprintf("declared operations: %v", ops))
}

// ---------------------------------------------------------------------------
// C15

func c15FailFirst(c *Ctx) {
	rule := "C15.failfirst"
	c.Rule(rule, "A2: in RDB.Del every Put/Delete is dominated by the nil edge of the Get error, by the 'key exists' edge and by the nil edge of delValue's error; in RDB.Add the Put is dominated by the nil edge of the Get error; one mutating call per path")
	srule := "C15.single"
	c.Rule(srule, "exactly one store-mutating call per operation: Add has one Put; Del has one Put and one Delete on disjoint paths")
	for _, name := range []string{"(*RDB).Add", "(*RDB).Del"} {
		fn := c.Func("dnsdata/rdb", name)
		c.Examined(fn)
		var get, delv *ssa.Call
		for _, ci := range callInstrs(fn) {
			f := calleeOf(ci.Common())
			if f == nil {
				continue
			}
			if _, n := storeOp(c, ci); n == "Get" {
				get, _ = ci.(*ssa.Call)
			}
			if f.Name() == "delValue" {
				delv, _ = ci.(*ssa.Call)
			}
		}
		var muts []ssa.CallInstruction
		for _, ci := range callInstrs(fn) {
			if k, _ := storeOp(c, ci); k == "write" {
				muts = append(muts, ci)
			}
		}
		for i, m := range muts {
			k := fmt.Sprintf("%s|%s#%d", fnName(fn), m.Common().Method.Name(), i)
			ok := get != nil && dominatedByNilEdge(m, func(v ssa.Value) bool { cl, idx := callOfValue(v); return cl == get && idx == 1 })
			c.Check(rule, k+"|after-successful-read", ok, m.Pos(), "nothing is written when the read failed")
			if name == "(*RDB).Del" {
				okd := delv != nil && dominatedByNilEdge(m, func(v ssa.Value) bool { cl, idx := callOfValue(v); return cl == delv && idx == 1 })
				c.Check(rule, k+"|after-successful-delValue", okd, m.Pos(), "deleting an absent value fails and leaves the key untouched")
				okk := hasFact(m.Block(), func(v ssa.Value, truth bool) bool {
					x, trueNil, isNil := nilTest(v)
					if !isNil || trueNil == truth {
						return false
					}
					cl, idx := callOfValue(x)
					return cl == get && idx == 0
				})
				c.Check(rule, k+"|key-exists", okk, m.Pos(), "deleting from an absent key fails (ErrNXKey) before any write")
			}
		}
		// at most one mutation on any path: the mutating calls are pairwise exclusive (no one reaches another); Add has
		// a Put, Del a Put and a Delete (the last value of a key removes the key)
		kinds := map[string]bool{}
		ok := len(muts) >= 1
		for i, a := range muts {
			kinds[a.Common().Method.Name()] = true
			for j, b := range muts {
				if i < j && (a.Block() == b.Block() || reachable(a.Block(), nil)[b.Block()] || reachable(b.Block(), nil)[a.Block()]) {
					ok = false
				}
			}
		}
		if !kinds["Put"] || (name == "(*RDB).Del" && !kinds["Delete"]) {
			ok = false
		}
		c.Check(srule, fnName(fn)+"|one-mutation-per-path", ok, fn.Pos(), fmt.Sprintf("%d mutating calls", len(muts)))
	}
}

func c15Codec(c *Ctx) {
	rule := "C15.codec"
	c.Rule(rule, "A4: every use of encoding/binary in the value-list codec (appendValues, delValue, ReadNextChunk, FindFirst) is little-endian 32-bit; the header constant added to a chunk length and every constant skip over the value header (including rdbdriver's foundVal[4:]) is 4")
	le := map[string]bool{}
	n32 := 0
	var wrong []string
	fns := [][2]string{{"dnsdata/rdb", "appendValues"}, {"dnsdata/rdb", "delValue"}, {"dnsdata/rdb", "ReadNextChunk"}, {"dnsdata/rdb", "(*RDB).FindFirst"}}
	// a codec function may leave the header arithmetic to another codec function (delValue walking with ReadNextChunk)
	delegates := func(fn *ssa.Function) bool {
		for _, ci := range callInstrs(fn) {
			if sf := ci.Common().StaticCallee(); sf != nil && sf != fn {
				for _, t := range fns {
					if sf == c.FuncOpt(t[0], t[1]) {
						return true
					}
				}
			}
		}
		return false
	}
	for _, t := range fns {
		fn := c.Func(t[0], t[1])
		c.Examined(fn)
		uses := 0
		for _, ci := range callInstrs(fn) {
			cc := ci.Common()
			f := calleeOf(cc)
			if f == nil || f.Pkg() == nil || f.Pkg().Path() != "encoding/binary" {
				continue
			}
			uses++
			recv := ""
			if cc.IsInvoke() {
				recv = cc.Value.String()
			} else if len(cc.Args) > 0 {
				recv = cc.Args[0].Type().String()
				if g, ok := cc.Args[0].(*ssa.UnOp); ok {
					recv = g.X.String()
				}
				if g, ok := cc.Args[0].(*ssa.Global); ok {
					recv = g.String()
				}
			}
			le[funcShort(f)] = true
			if !strings.Contains(funcShort(f), "littleEndian") && !strings.Contains(recv, "LittleEndian") && !strings.Contains(cc.Args[0].Type().String(), "littleEndian") {
				wrong = append(wrong, fmt.Sprintf("%s uses %s (%s)", fnName(fn), funcShort(f), recv))
			}
			if strings.HasSuffix(f.Name(), "Uint32") {
				n32++
			} else {
				wrong = append(wrong, fmt.Sprintf("%s uses %s: not a 32-bit length", fnName(fn), f.Name()))
			}
		}
		if uses == 0 && !delegates(fn) {
			wrong = append(wrong, fnName(fn)+" neither uses encoding/binary nor goes through another function of the codec")
		}
	}
	c.Check(rule, "value-list|little-endian-uint32-everywhere", len(wrong) == 0 && n32 >= 3, token.NoPos, fmt.Sprintf("%d length reads/writes; deviations: %v", n32, wrong))
	// header width constants
	check4 := func(fn *ssa.Function, what string) {
		c.Examined(fn)
		var consts []int64
		for _, b := range fn.Blocks {
			for _, in := range b.Instrs {
				switch x := in.(type) {
				case *ssa.Slice:
					if x.Low != nil {
						if k, ok := constInt(x.Low); ok && isByteSlice(x.X.Type()) {
							consts = append(consts, k)
						}
					}
				case *ssa.BinOp:
					if x.Op == token.ADD {
						if k, ok := constInt(x.Y); ok && k > 1 {
							// chunk length + header
							for v := range backSlice(x.X, nil) {
								if cl, isCall := v.(*ssa.Call); isCall {
									if f := calleeOf(cl.Common()); f != nil && strings.HasSuffix(f.Name(), "Uint32") {
										consts = append(consts, k)
									}
								}
							}
						}
					}
				case *ssa.Alloc:
					if at, ok := x.Type().(*types.Pointer).Elem().(*types.Array); ok && isByte(at.Elem()) && fn.Name() == "appendValues" {
						consts = append(consts, at.Len())
					}
				}
			}
		}
		ok := len(consts) > 0 || delegates(fn)
		for _, k := range consts {
			if k != 4 {
				ok = false
			}
		}
		c.Check(rule, fnName(fn)+"|"+what, ok, fn.Pos(), fmt.Sprintf("header-width constants found: %v (all must be 4)", consts))
	}
	for _, t := range fns {
		check4(c.Func(t[0], t[1]), "header-width-4")
	}
	// db drivers: skips over the multi-value header of a value obtained from FindClosest
	for _, name := range []string{"(*rdbdriver).GetLocationByMap", "(*rdbdriver).findMapInSortedData"} {
		fn := c.Func("db", name)
		c.Examined(fn)
		var consts []int64
		for _, b := range fn.Blocks {
			for _, in := range b.Instrs {
				sl, ok := in.(*ssa.Slice)
				if !ok || sl.Low == nil || sl.High != nil {
					continue
				}
				k, isK := constInt(sl.Low)
				if !isK || !isByteSlice(sl.X.Type()) {
					continue
				}
				// the sliced value comes from a closest-key lookup result
				fromFind := false
				for s := range sourcesOf(sl.X) {
					if cl, idx := callOfValue(s); cl != nil && idx == 1 {
						if f := calleeOf(cl.Common()); f != nil && (f.Name() == "FindClosest" || f.Name() == "findClosest") {
							fromFind = true
						}
					}
				}
				if fromFind {
					consts = append(consts, k)
				}
			}
		}
		ok := len(consts) > 0
		for _, k := range consts {
			if k != 4 {
				ok = false
			}
		}
		c.Check(rule, fnName(fn)+"|value-header-skip-4", ok, fn.Pos(), fmt.Sprintf("constant skips over a closest-key value: %v", consts))
	}
}

func isByte(t types.Type) bool {
	b, ok := t.Underlying().(*types.Basic)
	return ok && (b.Kind() == types.Uint8 || b.Kind() == types.Byte)
}

func isByteSlice(t types.Type) bool {
	switch x := t.Underlying().(type) {
	case *types.Slice:
		return isByte(x.Elem())
	case *types.Pointer:
		if a, ok := x.Elem().Underlying().(*types.Array); ok {
			return isByte(a.Elem())
		}
	}
	return false
}

func c15Sorted(c *Ctx) {
	rule := "C15.sorted"
	c.Rule(rule, "must-pass-through: getAffectedKeys sorts the batch before its merge loop; integrate is only called by ExecuteBatch, on the same batch, after getAffectedKeys")
	gak := c.Func("dnsdata/rdb", "(*Batch).getAffectedKeys")
	c.Examined(gak)
	sortF := c.TypesFunc("dnsdata/rdb", "(*Batch).sort")
	sorts := callsTo(gak, func(f *types.Func) bool { return f == sortF })
	ok := len(sorts) >= 1
	if ok {
		for h := range naturalLoops(gak) {
			if !instrDominates(sorts[0], h.Instrs[0]) {
				ok = false
			}
		}
	}
	c.Check(rule, fnName(gak)+"|sort-before-merge", ok, gak.Pos(), "the merge of added and deleted pairs assumes both lists are sorted")
	integ := c.TypesFunc("dnsdata/rdb", "(*Batch).integrate")
	gakF := c.TypesFunc("dnsdata/rdb", "(*Batch).getAffectedKeys")
	var callers []string
	okc := true
	for _, fn := range c.OurFuncs("dnsdata/rdb") {
		for _, ci := range callsTo(fn, func(f *types.Func) bool { return f == integ }) {
			callers = append(callers, fnName(fn))
			pre := false
			for _, g := range callsTo(fn, func(f *types.Func) bool { return f == gakF }) {
				if instrDominates(g, ci) && sameSources(g.Common().Args[0], ci.Common().Args[0]) {
					// and the keys passed are the ones it returned
					if sameSources(ci.Common().Args[1], g.(ssa.Value)) {
						pre = true
					}
				}
			}
			if !pre {
				okc = false
			}
		}
	}
	c.Check(rule, "integrate|only-after-getAffectedKeys-on-the-same-batch", okc && len(callers) == 1, token.NoPos, fmt.Sprintf("callers: %v", callers))
}

// closureCallee resolves a dynamic call through a local function value to the function literal it invokes (nil if unknown).
func closureCallee(ci ssa.CallInstruction) *ssa.Function {
	cc := ci.Common()
	if cc.IsInvoke() || cc.StaticCallee() != nil && cc.StaticCallee().Parent() == nil {
		return nil
	}
	if sf := cc.StaticCallee(); sf != nil {
		return sf
	}
	var out *ssa.Function
	for s := range sourcesOf(cc.Value) {
		mc, ok := s.(*ssa.MakeClosure)
		if !ok {
			return nil
		}
		f, _ := mc.Fn.(*ssa.Function)
		if out != nil && out != f {
			return nil
		}
		out = f
	}
	return out
}

// stableFnName names function literals by their parent and the position among the parent's literals that call
// error-returning functions the same way, so that adding an unrelated literal does not rename obligations:
// parent + "$" + role/first callee.
func stableFnName(fn *ssa.Function) string {
	if fn.Parent() == nil {
		return fnName(fn)
	}
	role := closureRole(fn)
	first := ""
	for _, ci := range callInstrs(fn) {
		if f := calleeOf(ci.Common()); f != nil {
			rs := ci.Common().Signature().Results()
			for i := 0; i < rs.Len(); i++ {
				if isErrorType(rs.At(i).Type()) && first == "" {
					first = f.Name()
				}
			}
		}
	}
	if role == "" {
		role = "func"
	}
	return stableFnName(fn.Parent()) + "$" + role + ":" + first
}

// blankOrCommentFact: the fact says that the line is too short to be a record (fewer than 2 bytes) or starts with '#'.
func blankOrCommentFact(f fact) bool {
	switch x := f.V.(type) {
	case *ssa.BinOp:
		k, isK := constInt(x.Y)
		if !isK {
			return false
		}
		if isBuiltinCall(x.X, "len") != nil {
			switch x.Op {
			case token.LSS:
				return f.Truth && k <= 2
			case token.GEQ:
				return !f.Truth && k <= 2
			case token.LEQ:
				return f.Truth && k <= 1
			case token.GTR:
				return !f.Truth && k <= 1
			case token.EQL:
				return f.Truth && k <= 1
			case token.NEQ:
				return !f.Truth && k <= 1
			}
			return false
		}
		// line[0] == '#'
		if ld, ok := unwrap(x.X).(*ssa.UnOp); ok && ld.Op == token.MUL && k == '#' {
			if ia, ok := ld.X.(*ssa.IndexAddr); ok {
				if i, isI := constInt(ia.Index); isI && i == 0 {
					return (x.Op == token.EQL && f.Truth) || (x.Op == token.NEQ && !f.Truth)
				}
			}
		}
	case *ssa.Call:
		if g := calleeOf(x.Common()); g != nil && g.Pkg() != nil && g.Pkg().Path() == "bytes" && g.Name() == "HasPrefix" && f.Truth {
			return sliceLiteralString(x.Call.Args[1]) == "#"
		}
	}
	return false
}
