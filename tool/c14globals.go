package main

import (
	"fmt"
	"go/token"
	"go/types"
	"sort"
	"strings"

	"golang.org/x/tools/go/ssa"
)

// c14Globals implements C14.globals: package-level state is not written from concurrent code without a lock.
//
// Roots of concurrency: every ServeDNS / ServeDNSWithRCODE method of the module (queries run concurrently with each
// other), (*FBDNSDB).Reload, and every function started by a go statement in a non-main, non-test package. A
// function reachable from a root (call graph, closures included) must not store to a package-level variable of the
// module, update or delete from a package-level map, or store through an element/field rooted at one, unless some
// mutex is write-held at the instruction (flow-sensitive must-lockset) or the function is a package initialiser.
func c14Globals(c *Ctx) {
	rule := "C14.globals"
	c.Rule(rule, "A8/A1 over the call graph: in functions reachable from the concurrent roots (ServeDNS*, FBDNSDB.Reload, targets of go statements in library packages) every write to package-level state of the module (store to a global, to a field/element rooted at one, map update/delete on a global map) happens with a mutex write-held or in a package initialiser")
	roots := map[*ssa.Function]string{}
	for _, fn := range c.OurFuncs() {
		if fn.Pkg == nil || fn.Pkg.Pkg.Name() == "main" || c.isMockFile(fn.Pos()) {
			continue
		}
		if fn.Signature.Recv() != nil && (fn.Name() == "ServeDNS" || fn.Name() == "ServeDNSWithRCODE") {
			roots[fn] = "query"
		}
		for _, b := range fn.Blocks {
			for _, in := range b.Instrs {
				if g, ok := in.(*ssa.Go); ok {
					if callee := g.Call.StaticCallee(); callee != nil {
						roots[callee] = "go"
					} else if mc, ok := g.Call.Value.(*ssa.MakeClosure); ok {
						roots[mc.Fn.(*ssa.Function)] = "go"
					}
				}
			}
		}
	}
	if r := c.FuncOpt("dnsserver", "(*FBDNSDB).Reload"); r != nil {
		roots[r] = "reload"
	}
	reach := map[*ssa.Function]bool{}
	for r := range roots {
		for f := range reachableFrom(c, r) {
			reach[f] = true
		}
	}
	globalRoot := func(a ssa.Value) *ssa.Global {
		for i := 0; i < 16; i++ {
			switch x := a.(type) {
			case *ssa.Global:
				if x.Pkg != nil && c.isOurs(x.Pkg.Pkg) {
					return x
				}
				return nil
			case *ssa.FieldAddr:
				a = x.X
			case *ssa.IndexAddr:
				a = x.X
			case *ssa.UnOp:
				if x.Op != token.MUL {
					return nil
				}
				a = x.X // element of a global slice / pointer held in a global
			case *ssa.Slice:
				a = x.X
			default:
				return nil
			}
		}
		return nil
	}
	isInit := func(fn *ssa.Function) bool {
		return fn.Name() == "init" || strings.HasPrefix(fn.Name(), "init#") || (fn.Synthetic != "" && strings.Contains(fn.Synthetic, "package initializer"))
	}
	type site struct {
		fn   *ssa.Function
		in   ssa.Instruction
		g    *ssa.Global
		what string
	}
	var writes []site
	reads := 0
	var fns []*ssa.Function
	for f := range reach {
		fns = append(fns, f)
	}
	sort.Slice(fns, func(i, j int) bool { return fnName(fns[i]) < fnName(fns[j]) })
	for _, fn := range fns {
		if isInit(fn) || c.isMockFile(fn.Pos()) {
			continue
		}
		for _, b := range fn.Blocks {
			for _, in := range b.Instrs {
				switch x := in.(type) {
				case *ssa.Store:
					if g := globalRoot(x.Addr); g != nil {
						writes = append(writes, site{fn, in, g, "store"})
					}
				case *ssa.MapUpdate:
					if g := globalRoot(x.Map); g != nil {
						writes = append(writes, site{fn, in, g, "map-update"})
					}
				case *ssa.UnOp:
					if x.Op == token.MUL {
						if _, ok := x.X.(*ssa.Global); ok && globalRoot(x.X) != nil {
							reads++
						}
					}
				case ssa.CallInstruction:
					if bi, ok := x.Common().Value.(*ssa.Builtin); ok && (bi.Name() == "delete" || bi.Name() == "clear") && len(x.Common().Args) > 0 {
						if g := globalRoot(x.Common().Args[0]); g != nil {
							writes = append(writes, site{fn, in, g, bi.Name()})
						}
					}
				}
			}
		}
	}
	c.CheckConst(rule, "matcher|global-reads-seen", reads >= 3, token.NoPos, fmt.Sprintf("%d loads of module globals in %d functions reachable from %d concurrent roots (the matcher sees package-level state)", reads, len(reach), len(roots)))
	for _, w := range writes {
		c.Examined(w.fn)
		held := false
		var names []string
		for p, m := range computeLockset(w.fn).At(w.in) {
			if m == modeW {
				held = true
				names = append(names, p)
			}
		}
		// a sync/atomic typed global is not written by plain stores; a global of a sync.* type is its own synchronisation
		if n, ok := w.g.Type().(*types.Pointer).Elem().(*types.Named); ok && n.Obj().Pkg() != nil && (n.Obj().Pkg().Path() == "sync" || n.Obj().Pkg().Path() == "sync/atomic") {
			held = true
		}
		c.Check(rule, fmt.Sprintf("%s.%s|%s|%s", w.g.Pkg.Pkg.Name(), w.g.Name(), fnName(w.fn), w.what), held, w.in.Pos(),
			fmt.Sprintf("write to package-level %s from code that runs concurrently (locks write-held: %v)", w.g.Name(), names))
	}
	c.Note("%s: %d concurrent roots, %d reachable functions, %d global reads, %d global writes examined", rule, len(roots), len(reach), reads, len(writes))
}

// c14CloseAtomic implements C14.close-atomic: the decision to close a generation's backend and the close itself are
// one critical section of DB.l. If the lock is dropped between the reference-count update and the close, a second
// releaser or Destroy can take the same decision concurrently (double close), or a new reader can be admitted
// between the decision and the close (use after close).
func c14CloseAtomic(c *Ctx) {
	rule := "C14.close-atomic"
	c.Rule(rule, "A1+A2 in every function of package db that invokes DBI.Close on the backend held in a DB's dbi field: the call executes with that DB's mutex write-held, and no Unlock of it lies on a path between an update of refCount/destroyable and the call")
	fDbi := c.Field("db", "DB", "dbi")
	fRef := c.Field("db", "DB", "refCount")
	fDes := c.Field("db", "DB", "destroyable")
	n := 0
	for _, fn := range c.OurFuncs("db") {
		if c.isMockFile(fn.Pos()) {
			continue
		}
		i := -1
		for _, ci := range callInstrs(fn) {
			if !isDBIMethodInvoke(c, ci.Common(), "Close") || !isFieldLoad(ci.Common().Value, fDbi) {
				continue
			}
			n++
			i++
			c.Examined(fn)
			key := fmt.Sprintf("%s|close#%d", fnName(fn), i)
			held := false
			for p, m := range computeLockset(fn).At(ci) {
				if m == modeW && strings.HasSuffix(p, "."+c.mutexName("db", "DB", "l")) {
					held = true
				}
			}
			c.Check(rule, key+"|under-DB.l", held, ci.Pos(), "the backend is closed inside the critical section that took the decision")
			// no unlock between a life-cycle update and the close
			var updates []ssa.Instruction
			for _, f := range []*types.Var{fRef, fDes} {
				updates = append(updates, flagUpdates(fn, f)...)
			}
			split := false
			for _, u := range callInstrs(fn) {
				if _, isDefer := u.(*ssa.Defer); isDefer {
					continue
				}
				k, _ := lockOp(u.Common())
				if k != "unlock" && k != "runlock" {
					continue
				}
				for _, up := range updates {
					if instrReaches(up, u) && instrReaches(u, ci) {
						split = true
					}
				}
			}
			c.Check(rule, key+"|same-critical-section", !split && len(updates) > 0, ci.Pos(), fmt.Sprintf("%d refCount/destroyable updates in the function; an Unlock separates one of them from the close: %v", len(updates), split))
		}
	}
	c.Floor(rule, 4)
}

// c14Reentrant implements C14.reentrant: sync.Mutex and sync.RWMutex are not re-entrant. A function that holds a lock
// (read or write) and calls, on the same object, a function that acquires that lock again deadlocks at once (Lock)
// or as soon as a writer queues between the two read locks (RLock; a pending Lock blocks new readers).
func c14Reentrant(c *Ctx) {
	rule := "C14.reentrant"
	c.Rule(rule, "A1 over static calls (depth 3): at no call site is a lock path p = root.rest definitely held while the callee (or a function it calls with the same object) acquires param.rest, param being the parameter bound to root")
	var acquires func(g *ssa.Function, path string, depth int, seen map[string]bool) string
	acquires = func(g *ssa.Function, path string, depth int, seen map[string]bool) string {
		key := fnName(g) + "|" + path
		if g == nil || len(g.Blocks) == 0 || depth > 3 || seen[key] {
			return ""
		}
		seen[key] = true
		for _, ci := range callInstrs(g) {
			if _, isGo := ci.(*ssa.Go); isGo {
				continue
			}
			if k, recv := lockOp(ci.Common()); k == "lock" || k == "rlock" {
				if pathOf(recv) == path {
					return fmt.Sprintf("%s %ss %s", fnName(g), k, path)
				}
				continue
			}
			callee := ci.Common().StaticCallee()
			if callee == nil || callee.Pkg == nil || !c.isOurs(callee.Pkg.Pkg) {
				continue
			}
			root, rest := splitRoot(path)
			for i, a := range ci.Common().Args {
				if i < len(callee.Params) && pathOf(a) == root {
					if w := acquires(callee, callee.Params[i].Name()+rest, depth+1, seen); w != "" {
						return w
					}
				}
			}
		}
		return ""
	}
	n := 0
	for _, fn := range c.OurFuncs() {
		if c.isMockFile(fn.Pos()) {
			continue
		}
		ls := computeLockset(fn)
		for _, ci := range callInstrs(fn) {
			if _, isGo := ci.(*ssa.Go); isGo {
				continue
			}
			if _, isDefer := ci.(*ssa.Defer); isDefer {
				continue
			}
			callee := ci.Common().StaticCallee()
			if callee == nil || callee.Pkg == nil || !c.isOurs(callee.Pkg.Pkg) {
				continue
			}
			st := ls.At(ci)
			if len(st) == 0 {
				continue
			}
			for p, m := range st {
				if m == modeNone {
					continue
				}
				root, rest := splitRoot(p)
				for i, a := range ci.Common().Args {
					if i >= len(callee.Params) || pathOf(a) != root {
						continue
					}
					n++
					w := acquires(callee, callee.Params[i].Name()+rest, 1, map[string]bool{})
					c.Check(rule, fmt.Sprintf("%s|holding:%s|calls:%s", fnName(fn), p, fnName(callee)), w == "", ci.Pos(), "lock re-acquired on the same object while held: "+w)
				}
			}
		}
	}
	// the same thing spelled without a call: a Lock/RLock of a path that is already held at that point (this is also
	// the shape a re-entrant helper takes in the inlined view, see inline.go)
	for _, fn := range c.OurFuncs() {
		if c.isMockFile(fn.Pos()) {
			continue
		}
		var ls *Lockset
		for _, ci := range callInstrs(fn) {
			if _, isDefer := ci.(*ssa.Defer); isDefer {
				continue
			}
			k, recv := lockOp(ci.Common())
			if k != "lock" && k != "rlock" {
				continue
			}
			p := pathOf(recv)
			if p == "" {
				continue
			}
			if ls == nil {
				ls = computeLockset(fn)
			}
			if m, held := ls.At(ci)[p]; held && m != modeNone {
				c.Check(rule, fmt.Sprintf("%s|%s:%s|while-held", fnName(fn), k, p), false, ci.Pos(), "lock acquired again on a path that is already held in this function (sync mutexes are not re-entrant; a queued writer makes even a second RLock deadlock)")
			}
		}
	}
	c.CheckConst(rule, "matcher|calls-under-lock-seen", n >= 3, 0, fmt.Sprintf("%d calls on a locked object examined", n))
}

// c14PoolAccounting implements C14.pool-accounting: IteratorPool.disable() drains exactly the number of iterators
// enable() put in, so every pooled iterator that is handed out must come back through the channel. put() may free
// an iterator instead only when the entry itself says it was never pooled (its free flag); freeing under any other
// condition leaves disable() waiting for an iterator that will never arrive, with the pool mutex held.
func c14PoolAccounting(c *Ctx) {
	rule := "C14.pool-accounting"
	c.Rule(rule, "A2 must-facts in (*IteratorPool).put: every FreeIterator call is dominated by the entry's own free flag being true, and the entry is sent back to the pool channel otherwise; disable() receives and enable() sends the same constant number of entries")
	put := c.Func("dnsdata/rdb", "(*IteratorPool).put")
	c.Examined(put)
	isFreeFlag := func(v ssa.Value) bool {
		switch x := unwrap(v).(type) {
		case *ssa.Field:
			return fieldName(x.X.Type(), x.Field) == "free"
		case *ssa.UnOp:
			if fa, ok := x.X.(*ssa.FieldAddr); ok {
				return fieldName(fa.X.Type(), fa.Field) == "free"
			}
		}
		return false
	}
	nFree, nSend := 0, 0
	for _, ci := range callInstrs(put) {
		cc := ci.Common()
		name := ""
		if cc.IsInvoke() {
			name = cc.Method.Name()
		} else if f := cc.StaticCallee(); f != nil {
			name = f.Name()
		}
		if name != "FreeIterator" {
			continue
		}
		nFree++
		ok := hasFact(ci.Block(), func(v ssa.Value, truth bool) bool { return truth && isFreeFlag(v) })
		c.Check(rule, fmt.Sprintf("%s|free#%d|only-ephemeral-entries", fnName(put), nFree), ok, ci.Pos(), "an iterator is freed by put only when the entry's own free flag is set (it never was in the pool)")
	}
	for _, b := range put.Blocks {
		for _, in := range b.Instrs {
			if sd, ok := in.(*ssa.Send); ok {
				nSend++
				okS := hasFact(b, func(v ssa.Value, truth bool) bool { return !truth && isFreeFlag(v) })
				c.Check(rule, fmt.Sprintf("%s|send#%d|pooled-entries-return", fnName(put), nSend), okS, sd.Pos(), "every entry whose free flag is false goes back to the channel")
			}
		}
	}
	c.Check(rule, fnName(put)+"|frees-and-returns", nFree >= 1 && nSend >= 1, put.Pos(), fmt.Sprintf("%d FreeIterator calls, %d sends", nFree, nSend))
	// disable receives N, enable sends N
	count := func(fn *ssa.Function, recv bool) (string, bool) {
		for h, body := range naturalLoops(fn) {
			has := false
			for b := range body {
				for _, in := range b.Instrs {
					switch x := in.(type) {
					case *ssa.UnOp:
						if recv && x.Op == token.ARROW {
							has = true
						}
					case *ssa.Send:
						if !recv {
							has = true
						}
					}
				}
			}
			if !has {
				continue
			}
			if iff, ok := h.Instrs[len(h.Instrs)-1].(*ssa.If); ok {
				if bo, ok := iff.Cond.(*ssa.BinOp); ok {
					// for i := 0; i < N; i++   or   for n := N; n > 0; n--
					phi, isPhi := bo.X.(*ssa.Phi)
					if !isPhi || phi.Block() != h {
						continue
					}
					var init ssa.Value
					step := int64(0)
					for i, e := range phi.Edges {
						if body[h.Preds[i]] {
							if st, isB := e.(*ssa.BinOp); isB && st.X == ssa.Value(phi) {
								if k, isK := constInt(st.Y); isK && st.Op == token.ADD {
									step = k
								} else if isK && st.Op == token.SUB {
									step = -k
								}
							}
						} else {
							init = e
						}
					}
					if init == nil {
						continue
					}
					switch {
					case bo.Op == token.LSS && step == 1:
						if k0, isK := constInt(init); isK && k0 == 0 {
							if d, ok := tripCount(c, bo.Y); ok {
								return d, true
							}
						}
					case bo.Op == token.GTR && step == -1:
						if k0, isK := constInt(bo.Y); isK && k0 == 0 {
							if d, ok := tripCount(c, init); ok {
								return d, true
							}
						}
					}
				}
			}
		}
		return "", false
	}
	dis := c.Func("dnsdata/rdb", "(*IteratorPool).disable")
	en := c.Func("dnsdata/rdb", "(*IteratorPool).enable")
	c.Examined(dis)
	c.Examined(en)
	a, okA := count(dis, true)
	b, okB := count(en, false)
	c.Check(rule, "disable/enable|same-count", okA && okB && a == b, dis.Pos(), fmt.Sprintf("disable drains %s entries, enable creates %s", a, b))
}

// tripCount names the number of iterations: a constant, or the capacity of a channel field every store of which is a
// make(chan, K) with one constant K.
func tripCount(c *Ctx, v ssa.Value) (string, bool) {
	if k, isK := constInt(v); isK {
		return fmt.Sprint(k), true
	}
	if call := isBuiltinCall(v, "cap"); call != nil {
		if ld, ok := unwrap(call.Call.Args[0]).(*ssa.UnOp); ok && ld.Op == token.MUL {
			if fa, ok := ld.X.(*ssa.FieldAddr); ok {
				f := fieldOf(fa)
				size, n := int64(-1), 0
				for _, fn := range c.OurFuncs("dnsdata/rdb") {
					for _, st := range storesToField(fn, f) {
						n++
						mc, isMC := unwrap(st.Val).(*ssa.MakeChan)
						if !isMC {
							return "", false
						}
						k, isK := constInt(mc.Size)
						if !isK || (size >= 0 && size != k) {
							return "", false
						}
						size = k
					}
				}
				if n > 0 && size >= 0 {
					return fmt.Sprint(size), true
				}
			}
		}
	}
	return "", false
}
