package main

import (
	"fmt"
	"go/token"
	"go/types"
	"sort"
	"strings"

	"golang.org/x/tools/go/ssa"
)

// c14Globals implements C14.globals: package-level state is not written from concurrent code without a lock.
//
// Roots of concurrency: every ServeDNS / ServeDNSWithRCODE method of the module (queries run concurrently with each
// other), (*FBDNSDB).Reload, and every function started by a go statement in a non-main, non-test package. A
// function reachable from a root (call graph, closures included) must not store to a package-level variable of the
// module, update or delete from a package-level map, or store through an element/field rooted at one, unless some
// mutex is write-held at the instruction (flow-sensitive must-lockset) or the function is a package initialiser.
func c14Globals(c *Ctx) {
	rule := "C14.globals"
	c.Rule(rule, "A8/A1 over the call graph: in functions reachable from the concurrent roots (ServeDNS*, FBDNSDB.Reload, targets of go statements in library packages) every write to package-level state of the module (store to a global, to a field/element rooted at one, map update/delete on a global map) happens with a mutex write-held or in a package initialiser")
	roots := map[*ssa.Function]string{}
	for _, fn := range c.OurFuncs() {
		if fn.Pkg == nil || fn.Pkg.Pkg.Name() == "main" || c.isMockFile(fn.Pos()) {
			continue
		}
		if fn.Signature.Recv() != nil && (fn.Name() == "ServeDNS" || fn.Name() == "ServeDNSWithRCODE") {
			roots[fn] = "query"
		}
		for _, b := range fn.Blocks {
			for _, in := range b.Instrs {
				if g, ok := in.(*ssa.Go); ok {
					if callee := g.Call.StaticCallee(); callee != nil {
						roots[callee] = "go"
					} else if mc, ok := g.Call.Value.(*ssa.MakeClosure); ok {
						roots[mc.Fn.(*ssa.Function)] = "go"
					}
				}
			}
		}
	}
	if r := c.FuncOpt("dnsserver", "(*FBDNSDB).Reload"); r != nil {
		roots[r] = "reload"
	}
	reach := map[*ssa.Function]bool{}
	for r := range roots {
		for f := range reachableFrom(c, r) {
			reach[f] = true
		}
	}
	globalRoot := func(a ssa.Value) *ssa.Global {
		for i := 0; i < 16; i++ {
			switch x := a.(type) {
			case *ssa.Global:
				if x.Pkg != nil && c.isOurs(x.Pkg.Pkg) {
					return x
				}
				return nil
			case *ssa.FieldAddr:
				a = x.X
			case *ssa.IndexAddr:
				a = x.X
			case *ssa.UnOp:
				if x.Op != token.MUL {
					return nil
				}
				a = x.X // element of a global slice / pointer held in a global
			case *ssa.Slice:
				a = x.X
			default:
				return nil
			}
		}
		return nil
	}
	isInit := func(fn *ssa.Function) bool {
		return fn.Name() == "init" || strings.HasPrefix(fn.Name(), "init#") || (fn.Synthetic != "" && strings.Contains(fn.Synthetic, "package initializer"))
	}
	type site struct {
		fn   *ssa.Function
		in   ssa.Instruction
		g    *ssa.Global
		what string
	}
	var writes []site
	reads := 0
	var fns []*ssa.Function
	for f := range reach {
		fns = append(fns, f)
	}
	sort.Slice(fns, func(i, j int) bool { return fnName(fns[i]) < fnName(fns[j]) })
	for _, fn := range fns {
		if isInit(fn) || c.isMockFile(fn.Pos()) {
			continue
		}
		for _, b := range fn.Blocks {
			for _, in := range b.Instrs {
				switch x := in.(type) {
				case *ssa.Store:
					if g := globalRoot(x.Addr); g != nil {
						writes = append(writes, site{fn, in, g, "store"})
					}
				case *ssa.MapUpdate:
					if g := globalRoot(x.Map); g != nil {
						writes = append(writes, site{fn, in, g, "map-update"})
					}
				case *ssa.UnOp:
					if x.Op == token.MUL {
						if _, ok := x.X.(*ssa.Global); ok && globalRoot(x.X) != nil {
							reads++
						}
					}
				case ssa.CallInstruction:
					if bi, ok := x.Common().Value.(*ssa.Builtin); ok && (bi.Name() == "delete" || bi.Name() == "clear") && len(x.Common().Args) > 0 {
						if g := globalRoot(x.Common().Args[0]); g != nil {
							writes = append(writes, site{fn, in, g, bi.Name()})
						}
					}
				}
			}
		}
	}
	c.CheckConst(rule, "matcher|global-reads-seen", reads >= 3, token.NoPos, fmt.Sprintf("%d loads of module globals in %d functions reachable from %d concurrent roots (the matcher sees package-level state)", reads, len(reach), len(roots)))
	for _, w := range writes {
		c.Examined(w.fn)
		held := false
		var names []string
		for p, m := range computeLockset(w.fn).At(w.in) {
			if m == modeW {
				held = true
				names = append(names, p)
			}
		}
		// a sync/atomic typed global is not written by plain stores; a global of a sync.* type is its own synchronisation
		if n, ok := w.g.Type().(*types.Pointer).Elem().(*types.Named); ok && n.Obj().Pkg() != nil && (n.Obj().Pkg().Path() == "sync" || n.Obj().Pkg().Path() == "sync/atomic") {
			held = true
		}
		c.Check(rule, fmt.Sprintf("%s.%s|%s|%s", w.g.Pkg.Pkg.Name(), w.g.Name(), fnName(w.fn), w.what), held, w.in.Pos(),
			fmt.Sprintf("write to package-level %s from code that runs concurrently (locks write-held: %v)", w.g.Name(), names))
	}
	c.Note("%s: %d concurrent roots, %d reachable functions, %d global reads, %d global writes examined", rule, len(roots), len(reach), reads, len(writes))
}

// c14CloseAtomic implements C14.close-atomic: the decision to close a generation's backend and the close itself are
// one critical section of DB.l. If the lock is dropped between the reference-count update and the close, a second
// releaser or Destroy can take the same decision concurrently (double close), or a new reader can be admitted
// between the decision and the close (use after close).
func c14CloseAtomic(c *Ctx) {
	rule := "C14.close-atomic"
	c.Rule(rule, "A1+A2 in every function of package db that invokes DBI.Close on the backend held in a DB's dbi field: the call executes with that DB's mutex write-held, and no Unlock of it lies on a path between an update of refCount/destroyable and the call")
	fDbi := c.Field("db", "DB", "dbi")
	fRef := c.Field("db", "DB", "refCount")
	fDes := c.Field("db", "DB", "destroyable")
	n := 0
	for _, fn := range c.OurFuncs("db") {
		if c.isMockFile(fn.Pos()) {
			continue
		}
		i := -1
		for _, ci := range callInstrs(fn) {
			if !isDBIMethodInvoke(c, ci.Common(), "Close") || !isFieldLoad(ci.Common().Value, fDbi) {
				continue
			}
			n++
			i++
			c.Examined(fn)
			key := fmt.Sprintf("%s|close#%d", fnName(fn), i)
			held := false
			for p, m := range computeLockset(fn).At(ci) {
				if m == modeW && strings.HasSuffix(p, ".l") {
					held = true
				}
			}
			c.Check(rule, key+"|under-DB.l", held, ci.Pos(), "the backend is closed inside the critical section that took the decision")
			// no unlock between a life-cycle update and the close
			var updates []ssa.Instruction
			for _, f := range []*types.Var{fRef, fDes} {
				for _, st := range storesToField(fn, f) {
					updates = append(updates, st)
				}
			}
			split := false
			for _, u := range callInstrs(fn) {
				if _, isDefer := u.(*ssa.Defer); isDefer {
					continue
				}
				k, _ := lockOp(u.Common())
				if k != "unlock" && k != "runlock" {
					continue
				}
				for _, up := range updates {
					if instrReaches(up, u) && instrReaches(u, ci) {
						split = true
					}
				}
			}
			c.Check(rule, key+"|same-critical-section", !split && len(updates) > 0, ci.Pos(), fmt.Sprintf("%d refCount/destroyable updates in the function; an Unlock separates one of them from the close: %v", len(updates), split))
		}
	}
	c.Floor(rule, 4)
}
