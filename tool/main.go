package main

// dnsverif — static checker for the dnsrocks properties C01..C20.
//
//	dnsverif -prop C05 [-tier quick|thorough] [-repo /repo/dnsrocks] [-verif /verif]
//	dnsverif -replay /verif/evidence/replay/C05-1.json
//	dnsverif -list
//
// exit 0: every obligation discharged or listed in known_findings.json
// exit 1: an unlisted violated obligation, or an obligation the rule could not decide (prints "VIOLATION property=.. replay=..")
// exit 2: the tool itself could not run (usage, load or type-check failure, a property with no obligations at all)

import (
	"encoding/json"
	"flag"
	"fmt"
	"os"
	"path/filepath"
	"runtime/debug"
	"sort"
	"strconv"
	"strings"
	"time"
)

type propDef struct {
	ID    string
	Title string
	Run   func(c *Ctx)
	// Explanation goes into coverage.explanation
	Explanation string
	Assumptions []string
}

var props = map[string]*propDef{}

func register(p *propDef) { props[p.ID] = p }

type knownFinding struct {
	Property string `json:"property"`
	Key      string `json:"key"`  // rule|construct
	Kind     string `json:"kind"` // "open" or "fixed"
	What     string `json:"what"`
	Commit   string `json:"commit,omitempty"`
	ID       string `json:"id,omitempty"`
}

type knownFile struct {
	Findings []knownFinding `json:"findings"`
}

type replayFile struct {
	Property  string `json:"property"`
	Rule      string `json:"rule"`
	Construct string `json:"construct"`
	Pos       string `json:"pos"`
	Detail    string `json:"detail"`
	RuleText  string `json:"rule_text"`
	Tier      string `json:"tier"`
}

func main() {
	prop := flag.String("prop", "", "property id (C01..C20), or 'all'")
	tier := flag.String("tier", os.Getenv("VERIF_TIER"), "quick|thorough")
	repo := flag.String("repo", "/repo/dnsrocks", "dnsrocks module directory")
	verif := flag.String("verif", "/verif", "verif directory (evidence, known findings)")
	replay := flag.String("replay", "", "replay file: re-run that rule and print its diagnostic")
	list := flag.Bool("list", false, "list properties")
	dumpFld := flag.Bool("dump-fields", false, "print the struct fields of the tree (regenerates tool/baseline_fields.txt)")
	dumpF := flag.Bool("dump-funcs", false, "print the function list of the tree (regenerates tool/baseline_funcs.txt)")
	dumpInl := flag.Bool("dump-inlined", false, "print the files of the inlined view (debugging)")
	noEvidence := flag.Bool("no-evidence", false, "do not write evidence (used by self tests)")
	verbose := flag.Bool("v", false, "print every obligation")
	selftest := flag.Bool("selftest", false, "run the seeded/benign overlay variants (developer gate; fatal on a miss)")
	variantName := flag.String("variant", "", "internal: run one variant in this process")
	par := flag.Int("par", 4, "selftest parallelism")
	flag.Parse()
	loadSeedVariants(*verif)
	if *variantName != "" {
		runVariantChild(*repo, *variantName, loadKnown(filepath.Join(*verif, "known_findings.json")))
		return
	}
	if *selftest {
		os.Exit(runSelftest(*repo, *verif, flag.Arg(0), *par))
	}
	if *tier == "" {
		*tier = "quick"
	}
	if *tier != "quick" && *tier != "thorough" {
		fmt.Fprintln(os.Stderr, "bad tier")
		os.Exit(2)
	}
	if *list {
		var ids []string
		for id := range props {
			ids = append(ids, id)
		}
		sort.Strings(ids)
		for _, id := range ids {
			fmt.Println(id, props[id].Title)
		}
		return
	}
	var only string
	if *replay != "" {
		b, err := os.ReadFile(*replay)
		if err != nil {
			fmt.Fprintln(os.Stderr, err)
			os.Exit(2)
		}
		var rf replayFile
		if err := json.Unmarshal(b, &rf); err != nil {
			fmt.Fprintln(os.Stderr, err)
			os.Exit(2)
		}
		*prop = rf.Property
		only = rf.Rule + "|" + rf.Construct
		*noEvidence = true
	}
	var ids []string
	if *prop == "all" {
		for id := range props {
			ids = append(ids, id)
		}
		sort.Strings(ids)
	} else if props[*prop] != nil {
		ids = []string{*prop}
	} else if *dumpF || *dumpInl || *dumpFld {
	} else {
		fmt.Fprintf(os.Stderr, "unknown property %q\n", *prop)
		os.Exit(2)
	}
	seed := int64(0)
	if s := os.Getenv("VERIF_SEED"); s != "" {
		if v, err := strconv.ParseInt(s, 10, 64); err == nil {
			seed = v
		}
	}

	t0 := time.Now()
	p, err := Load(*repo, nil, nil)
	if err != nil {
		fmt.Printf("UNDECIDED: cannot load %s: %v\n", *repo, err)
		os.Exit(2)
	}
	loadS := time.Since(t0).Seconds()
	if *dumpF {
		for _, l := range dumpFuncs(p) {
			fmt.Println(l)
		}
		return
	}
	if *dumpFld {
		for _, l := range dumpFields(p) {
			fmt.Println(l)
		}
		return
	}
	if *dumpInl {
		ov, st := buildInlinedView(p)
		fmt.Printf("// new functions: %v\n// inlined calls: %d\n// skipped: %v\n", st.NewFuncs, st.Inlined, st.Skipped)
		for f, b := range ov {
			fmt.Printf("// ===== %s\n%s\n", f, b)
		}
		if ov != nil {
			if _, err := Load(*repo, ov, nil); err != nil {
				fmt.Printf("// TYPE ERROR: %v\n", err)
			}
		}
		return
	}
	known := loadKnown(filepath.Join(*verif, "known_findings.json"))

	worst := 0
	for _, id := range ids {
		rc := runProp(p, props[id], *tier, seed, *verif, known, loadS, *noEvidence, *verbose, only)
		if rc > worst {
			worst = rc
		}
	}
	os.Exit(worst)
}

func loadKnown(path string) []knownFinding {
	b, err := os.ReadFile(path)
	if err != nil {
		return nil
	}
	var kf knownFile
	if err := json.Unmarshal(b, &kf); err != nil {
		fmt.Printf("UNDECIDED: cannot parse %s: %v\n", path, err)
		os.Exit(2)
	}
	return kf.Findings
}

// runRules runs the rules of one property on a loaded program.
func runRules(p *Prog, pd *propDef, tier string) (c *Ctx, panicMsg string) {
	c = NewCtx(p, pd.ID, tier)
	func() {
		defer func() {
			if r := recover(); r != nil {
				if ue, ok := r.(UndecidedError); ok {
					panicMsg = "unresolved anchor: " + ue.Msg
				} else {
					panicMsg = fmt.Sprintf("analyser panic: %v\n%s", r, debug.Stack())
				}
			}
		}()
		pd.Run(c)
	}()
	return c, panicMsg
}

// failingRules: the rules with an obligation that is violated (and not a listed open finding) or undecided.
func failingRules(c *Ctx, prop string, known []knownFinding) map[string]bool {
	open := map[string]bool{}
	for _, k := range known {
		if k.Property == prop && k.Kind == "open" {
			open[k.Key] = true
		}
	}
	out := map[string]bool{}
	for _, o := range c.Obls {
		if (o.Status == Violated && !open[o.Key()]) || o.Status == Undecided {
			out[o.Rule] = true
		}
	}
	return out
}

func viewFails(c *Ctx, panicMsg, prop string, known []knownFinding) bool {
	return panicMsg != "" || len(failingRules(c, prop, known)) > 0
}

var (
	view2Prog  *Prog
	view2Stats *inlineStats
	view2Tried bool
)

// secondView re-runs the rules on the baseline view (functions unknown to the baseline inlined into their callers,
// see inline.go). An obligation that fails in the source view is kept only if its rule also fails in the baseline view:
// the two views are equivalent programs, so a necessary condition shown to hold on one holds on the other.
func secondView(p *Prog, pd *propDef, tier string, c *Ctx, panicMsg string, known []knownFinding) (*Ctx, string, map[string]interface{}) {
	if !view2Tried {
		view2Tried = true
		var ov map[string][]byte
		var st *inlineStats
		func() {
			// the view is an aid against false alarms only: if it cannot be built the source view's verdict stands
			defer func() {
				if r := recover(); r != nil {
					ov, st = nil, &inlineStats{TypeError: fmt.Sprintf("inliner panic: %v", r)}
				}
			}()
			ov, st = buildInlinedView(p)
		}()
		view2Stats = st
		if ov != nil {
			p2, err := Load(p.Root, ov, nil)
			if err != nil {
				st.TypeError = err.Error()
			} else {
				view2Prog = p2
			}
		}
	}
	note := map[string]interface{}{}
	if view2Stats != nil {
		note["new_functions"] = view2Stats.NewFuncs
		note["calls_inlined"] = view2Stats.Inlined
		note["not_inlined"] = view2Stats.Skipped
		if view2Stats.TypeError != "" {
			note["discarded"] = "the inlined view does not type-check: " + view2Stats.TypeError
		}
	}
	if view2Prog == nil {
		note["used"] = false
		return c, panicMsg, note
	}
	c2, panic2 := runRules(view2Prog, pd, tier)
	if panic2 != "" {
		note["used"] = false
		note["view_panic"] = firstLine(panic2)
		return c, panicMsg, note
	}
	note["used"] = true
	fail2 := failingRules(c2, pd.ID, known)
	if os.Getenv("VERIF_DEBUG_VIEW2") != "" {
		for _, o := range c2.Obls {
			if o.Status != Discharged {
				fmt.Printf("view2 %s %s: %s: %s — %s\n", o.Status, o.Pos, o.Rule, o.Construct, o.Detail)
			}
		}
		for _, n := range c2.Notes {
			fmt.Printf("view2 note: %s\n", n)
		}
	}
	if panicMsg != "" {
		// the source view lost an anchor; the baseline view is complete: it decides
		note["adopted"] = "the source view could not be analysed (" + firstLine(panicMsg) + "); verdict taken from the inlined view"
		return c2, "", note
	}
	var rescued []string
	for _, o := range c.Obls {
		if (o.Status == Violated || o.Status == Undecided) && !fail2[o.Rule] {
			rescued = append(rescued, o.Key())
			o.Detail = "held in the inlined view (source view said " + string(o.Status) + ": " + o.Detail + ")"
			o.Status = Discharged
		}
	}
	note["rescued"] = rescued
	var still []string
	for r := range fail2 {
		still = append(still, r)
	}
	sort.Strings(still)
	note["rules_failing_in_both_views"] = still
	return c, panicMsg, note
}

func runProp(p *Prog, pd *propDef, tier string, seed int64, verif string, known []knownFinding, loadS float64, noEvidence, verbose bool, only string) (rc int) {
	t0 := time.Now()
	c, panicMsg := runRules(p, pd, tier)
	var view2Note map[string]interface{}
	if viewFails(c, panicMsg, pd.ID, known) {
		c, panicMsg, view2Note = secondView(p, pd, tier, c, panicMsg, known)
	}

	openKnown := map[string]knownFinding{}
	for _, k := range known {
		if k.Property == pd.ID && k.Kind == "open" {
			openKnown[k.Key] = k
		}
	}

	sort.SliceStable(c.Obls, func(i, j int) bool {
		if c.Obls[i].Rule != c.Obls[j].Rule {
			return c.Obls[i].Rule < c.Obls[j].Rule
		}
		return c.Obls[i].Construct < c.Obls[j].Construct
	})

	var discharged, violated, undecidedN, nontrivial, knownMatched int
	var viol, und []*Obligation
	var knownLines []string
	for _, o := range c.Obls {
		if o.Nontrivial {
			nontrivial++
		}
		switch o.Status {
		case Discharged:
			discharged++
		case Violated:
			if k, ok := openKnown[o.Key()]; ok {
				knownMatched++
				knownLines = append(knownLines, fmt.Sprintf("KNOWN-FINDING: property=%s %s [%s] at %s — %s", pd.ID, k.What, o.Key(), o.Pos, o.Detail))
				continue
			}
			violated++
			viol = append(viol, o)
		case Undecided:
			undecidedN++
			und = append(und, o)
		}
	}
	if verbose || only != "" {
		for _, o := range c.Obls {
			if only != "" && o.Key() != only {
				continue
			}
			fmt.Printf("%-10s %s: %s: %s — %s\n", o.Status, o.Pos, o.Rule, o.Construct, o.Detail)
		}
	}
	for _, l := range knownLines {
		fmt.Println(l)
	}
	// stale known findings are not an error: the entry simply no longer matches anything.
	replayDir := filepath.Join(verif, "evidence", "replay")
	var vioOut []map[string]string
	for i, o := range viol {
		rp := filepath.Join(replayDir, fmt.Sprintf("%s-%d.json", pd.ID, i+1))
		if !noEvidence {
			os.MkdirAll(replayDir, 0o755)
			rf := replayFile{Property: pd.ID, Rule: o.Rule, Construct: o.Construct, Pos: o.Pos, Detail: o.Detail, RuleText: c.Rules[o.Rule], Tier: tier}
			b, _ := json.MarshalIndent(rf, "", " ")
			os.WriteFile(rp, b, 0o644)
		}
		fmt.Printf("%s: %s: %s: %s\n", o.Pos, o.Rule, o.Construct, o.Detail)
		fmt.Printf("VIOLATION property=%s replay=%s\n", pd.ID, rp)
		vioOut = append(vioOut, map[string]string{"key": o.Key(), "pos": o.Pos, "detail": o.Detail})
	}
	// An obligation the rule could not decide (its anchor is gone, a construct it does not understand, a floor not
	// reached) means the property was NOT shown to hold on this tree: it fails the check exactly like a violation,
	// with its own replay file, and is labelled UNDECIDED so the reader knows the rule lost its footing rather than
	// found a counter-example.
	for i, o := range und {
		rp := filepath.Join(replayDir, fmt.Sprintf("%s-u%d.json", pd.ID, i+1))
		if !noEvidence {
			os.MkdirAll(replayDir, 0o755)
			rf := replayFile{Property: pd.ID, Rule: o.Rule, Construct: o.Construct, Pos: o.Pos, Detail: "UNDECIDED: " + o.Detail, RuleText: c.Rules[o.Rule], Tier: tier}
			b, _ := json.MarshalIndent(rf, "", " ")
			os.WriteFile(rp, b, 0o644)
		}
		fmt.Printf("UNDECIDED: %s: %s: %s: %s\n", o.Pos, o.Rule, o.Construct, o.Detail)
		fmt.Printf("VIOLATION property=%s replay=%s\n", pd.ID, rp)
	}
	if panicMsg != "" {
		fmt.Printf("UNDECIDED: property=%s %s\n", pd.ID, panicMsg)
		rp := filepath.Join(replayDir, pd.ID+"-panic.json")
		if !noEvidence {
			os.MkdirAll(replayDir, 0o755)
			b, _ := json.MarshalIndent(replayFile{Property: pd.ID, Rule: pd.ID + ".analyser", Construct: "panic", Detail: "UNDECIDED: " + panicMsg, Tier: tier}, "", " ")
			os.WriteFile(rp, b, 0o644)
		}
		fmt.Printf("VIOLATION property=%s replay=%s\n", pd.ID, rp)
	}

	switch {
	case len(c.Obls) == 0 && panicMsg == "":
		rc = 2
	case violated > 0 || undecidedN > 0 || panicMsg != "":
		rc = 1
	default:
		rc = 0
	}
	if violated > 0 {
		rc = 1
		if panicMsg != "" || undecidedN > 0 {
			// both: a violation is still reported, but the run is also incomplete
			rc = 1
		}
	}

	// evidence
	if !noEvidence {
		// samples: a few obligations of each rule
		perRule := map[string]int{}
		var samples []interface{}
		for _, o := range c.Obls {
			if perRule[o.Rule] < 3 {
				perRule[o.Rule]++
				samples = append(samples, o)
			}
		}
		ruleCounts := map[string]int{}
		for _, o := range c.Obls {
			ruleCounts[o.Rule]++
		}
		var fns []string
		for f := range c.Funcs {
			fns = append(fns, f)
		}
		sort.Strings(fns)
		ev := map[string]interface{}{
			"property_id": pd.ID,
			"tier":        tier,
			"seed":        seed,
			"level":       "other",
			"coverage": map[string]interface{}{
				"explanation":         pd.Explanation,
				"obligations":         len(c.Obls),
				"discharged":          discharged,
				"evaluations":         len(c.Obls),
				"distinct_nontrivial": nontrivial,
				"rule":                "one obligation per rule instance (rule + construct, never a line number), enumerated from the type-checked source of /repo on this run; non-trivial = needed a path, dataflow, lockset or call-graph argument rather than a constant comparison",
				"samples":             samples,
				"exhaustive":          false,
				"rules_applied":       c.Rules,
				"obligations_by_rule": ruleCounts,
				"functions_examined":  fns,
				"packages_loaded":     len(p.All),
				"module_functions":    p.nFuncs,
				"known_findings_hit":  knownMatched,
				"undecided":           undecidedN,
				"violations_detail":   vioOut,
				"notes":               c.Notes,
				"all_obligations":     c.Obls,
				"checker_cmd":         strings.Join(os.Args, " "),
				"load_s":              loadS,
				"inlined_view":        view2Note,
			},
			"assumptions": append([]string{
				"go/packages + go/types + go/ssa (x/tools v0.29.0) represent the program the Go compiler builds (default build tags, GOOS/GOARCH of this machine)",
				"the obligations are necessary conditions of the property, not sufficient ones: value-level behaviour is not decided",
				"test files, generated mocks, testaid/ and testutils/ are not analysed",
			}, pd.Assumptions...),
			"wall_s":     time.Since(t0).Seconds() + loadS,
			"violations": violated,
		}
		if tier == "thorough" {
			par := 8
			if v, err := strconv.Atoi(os.Getenv("VERIF_PAR")); err == nil && v > 0 {
				par = v
			}
			t1 := time.Now()
			sv := selfValidation(p.Root, verif, pd.ID, par)
			sv["wall_s"] = time.Since(t1).Seconds()
			ev["coverage"].(map[string]interface{})["self_validation"] = sv
			ev["wall_s"] = time.Since(t0).Seconds() + loadS
			fmt.Printf("%s thorough: self-validation on %v overlay variants: %v\n", pd.ID, sv["variants"], sv["tally"])
		}
		b, _ := json.MarshalIndent(ev, "", " ")
		os.MkdirAll(filepath.Join(verif, "evidence"), 0o755)
		if err := os.WriteFile(filepath.Join(verif, "evidence", pd.ID+".json"), b, 0o644); err != nil {
			fmt.Printf("UNDECIDED: cannot write evidence: %v\n", err)
			return 2
		}
	}
	fmt.Printf("%s %s: %d obligations, %d discharged, %d known findings, %d violations, %d undecided (%d functions examined, %.1fs)\n",
		pd.ID, tier, len(c.Obls), discharged, knownMatched, violated, undecidedN, len(c.Funcs), time.Since(t0).Seconds()+loadS)
	return rc
}
