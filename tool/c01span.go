package main

import (
	"fmt"
	"go/types"

	"golang.org/x/tools/go/ssa"
)

// c01WildsafeSpan implements C01.wildsafe-span: agreement between a zone walker and its wild-safe test.
//
// A wildcard may only be used across labels made of letters, digits, hyphens and underscores, so every label that is
// cut off the query name before a wildcard row is accepted has to pass dnsLabelWildsafe. The unsorted walk pops one
// label per iteration and tests that one label. The sorted walker (sortedDataReader.find) may shorten the name by
// several labels in one step (it jumps to the longest prefix shared with the key it found); its callers must then
// test every label of the span that was skipped, which takes a loop over the span in the pre-iteration callback.
func c01WildsafeSpan(c *Ctx, rule string) {
	c.Rule(rule, "contradiction rule between the sorted walker and its callbacks: if the length handed to the pre-iteration callback can come from anything but the single-label pop (getLengthWithoutLastLabel), then in every callback closure bound at a call of the walker each dnsLabelWildsafe call lies inside a loop of that closure (it is applied to every label of the skipped span, not to one)")
	find := c.Func("db", "(*sortedDataReader).find")
	c.Examined(find)
	wild := c.TypesFunc("db", "dnsLabelWildsafe")
	pop := c.TypesFuncOpt("db", "getLengthWithoutLastLabel")
	// the callback invocation and the sources of its length argument
	multi := false
	var srcDesc []string
	ncb := 0
	for _, ci := range callInstrs(find) {
		cc := ci.Common()
		if cc.IsInvoke() || cc.StaticCallee() != nil {
			continue
		}
		p, ok := cc.Value.(*ssa.Parameter)
		if !ok || len(cc.Args) != 2 {
			continue
		}
		_ = p
		ncb++
		for s := range sourcesOf(cc.Args[1]) {
			if s == nil {
				continue
			}
			v := unwrap(s)
			if call, _ := callOfValue(v); call != nil {
				if f := calleeOf(call.Common()); f != nil && pop != nil && f == pop {
					srcDesc = append(srcDesc, "one-label pop")
					continue
				}
				if bi, isB := call.Call.Value.(*ssa.Builtin); isB && bi.Name() == "len" {
					srcDesc = append(srcDesc, "initial length")
					continue
				}
			}
			multi = true
			srcDesc = append(srcDesc, "other:"+describeValue(v))
		}
	}
	if ncb == 0 {
		c.Undecided(rule, fnName(find)+"|pre-iteration-callback", find.Pos(), "the walker does not call a (name, length) callback parameter")
		return
	}
	c.add(rule, fnName(find)+"|length-sources", Discharged, find.Pos(), false, fmt.Sprintf("lengths handed to the pre-iteration callback: %v; can skip several labels: %v", srcDesc, multi))
	n := 0
	for _, fn := range c.OurFuncs("db") {
		if len(callsTo(fn, func(f *types.Func) bool { return f == find.Object() })) == 0 {
			continue
		}
		for _, cl := range fn.AnonFuncs {
			for _, ci := range callsTo(cl, func(f *types.Func) bool { return f == wild }) {
				n++
				c.Examined(cl)
				ok := !multi || inCycle(ci.Block())
				c.Check(rule, fmt.Sprintf("%s|wildsafe#%d|covers-the-skipped-span", fnName(fn), n), ok, ci.Pos(), "the walker can cut several labels in one step: the wild-safe test has to run over all of them")
			}
		}
	}
	c.Floor(rule, 2)
}
