package main

// layout.go — A4: constant byte strings, write-width accumulation and offset
// constants, used by the writer↔reader agreement rules (C01.rowhead,
// C01.keylayout, C03.markers, C03.layout).

import (
	"go/token"
	"go/types"
	"sort"
	"strings"

	"golang.org/x/tools/go/ssa"
)

// evalBytes evaluates a byte-string constant expression: "lit", []byte("lit"), []byte{a, b, ...}.
func evalBytes(v ssa.Value) (string, bool) {
	switch x := v.(type) {
	case *ssa.Const:
		return stringConst(x)
	case *ssa.Convert:
		return stringConst(x.X)
	case *ssa.Slice:
		a, ok := x.X.(*ssa.Alloc)
		if !ok || x.Low != nil || x.High != nil {
			return "", false
		}
		at, ok := a.Type().(*types.Pointer).Elem().Underlying().(*types.Array)
		if !ok || !isByte(at.Elem()) {
			return "", false
		}
		buf := make([]byte, at.Len())
		for _, r := range *a.Referrers() {
			ia, ok := r.(*ssa.IndexAddr)
			if !ok {
				continue
			}
			i, isI := constInt(ia.Index)
			if !isI {
				return "", false
			}
			for _, rr := range *ia.Referrers() {
				if st, ok := rr.(*ssa.Store); ok && st.Addr == ia {
					k, isK := constInt(st.Val)
					if !isK {
						return "", false
					}
					buf[i] = byte(k)
				}
			}
		}
		return string(buf), true
	}
	return "", false
}

// globalBytes evaluates the initialiser of a package-level []byte variable (from the package init function).
func globalBytes(c *Ctx, pkg, name string) (string, bool) {
	sp := c.SSAPkgs[pkg]
	if sp == nil {
		return "", false
	}
	g, ok := sp.Members[name].(*ssa.Global)
	if !ok {
		return "", false
	}
	initFn := sp.Func("init")
	if initFn == nil {
		return "", false
	}
	for _, b := range initFn.Blocks {
		for _, in := range b.Instrs {
			if st, ok := in.(*ssa.Store); ok && st.Addr == g {
				return evalBytes(st.Val)
			}
		}
	}
	return "", false
}

// byteLiteralsOf collects every constant byte string that function fn materialises ([]byte("..."), []byte{...}, string constants passed to calls).
func byteLiteralsOf(fn *ssa.Function) map[string]bool {
	out := map[string]bool{}
	for _, b := range fn.Blocks {
		for _, in := range b.Instrs {
			switch x := in.(type) {
			case *ssa.Convert:
				if s, ok := evalBytes(x); ok {
					out[s] = true
				}
			case *ssa.Slice:
				if s, ok := evalBytes(x); ok {
					out[s] = true
				}
			case ssa.CallInstruction:
				for _, a := range x.Common().Args {
					if s, ok := stringConst(a); ok {
						out[s] = true
					}
				}
			case *ssa.Phi:
				for _, e := range x.Edges {
					if s, ok := stringConst(e); ok {
						out[s] = true
					}
				}
			case *ssa.Store:
				if s, ok := stringConst(x.Val); ok {
					out[s] = true
				}
			}
		}
	}
	return out
}

// widthOfArg: number of bytes a Write(arg)/WriteString(arg) emits; -1 if unknown.
func widthOfArg(v ssa.Value, at *ssa.BasicBlock) int {
	for {
		ct, ok := v.(*ssa.ChangeType)
		if !ok {
			break
		}
		v = ct.X
	}
	if s, ok := evalBytes(v); ok {
		return len(s)
	}
	switch x := v.(type) {
	case *ssa.Slice:
		// array[:] or x[lo:hi] with constant bounds
		if x.Low == nil && x.High == nil {
			if p, ok := x.X.Type().Underlying().(*types.Pointer); ok {
				if at, ok := p.Elem().Underlying().(*types.Array); ok {
					return int(at.Len())
				}
			}
		}
		lo := int64(0)
		if x.Low != nil {
			l, ok := constInt(x.Low)
			if !ok {
				return -1
			}
			lo = l
		}
		if x.High != nil {
			if hi, ok := constInt(x.High); ok {
				return int(hi - lo)
			}
		}
	}
	// net.IP.To16() / To4() return 16 / 4 bytes (or nil, which the callers have excluded before they write)
	if call, ok := v.(*ssa.Call); ok {
		if f := calleeOf(call.Common()); f != nil && f.Pkg() != nil && f.Pkg().Path() == "net" {
			switch f.Name() {
			case "To16":
				return 16
			case "To4":
				return 4
			}
		}
	}
	if sl, ok := v.(*ssa.Slice); ok && sl.Low == nil && sl.High == nil {
		if call, ok := sl.X.(*ssa.Call); ok {
			if f := calleeOf(call.Common()); f != nil && f.Pkg() != nil && f.Pkg().Path() == "net" {
				switch f.Name() {
				case "To16":
					return 16
				case "To4":
					return 4
				}
			}
		}
	}
	// a value whose length is pinned by a dominating len(v) == k test
	w := -1
	for _, f := range factsAt(at) {
		b, ok := f.V.(*ssa.BinOp)
		if !ok {
			continue
		}
		ln := isBuiltinCall(b.X, "len")
		if ln == nil || !sameValue(ln.Call.Args[0], v) {
			continue
		}
		k, isK := constInt(b.Y)
		if !isK {
			continue
		}
		if (b.Op == token.EQL && f.Truth) || (b.Op == token.NEQ && !f.Truth) {
			w = int(k)
		}
	}
	return w
}

// widthSetOf: the possible byte lengths of a byte-sequence value built in this function: constants, arrays, fixed
// re-slices, a parameter whose length a dominating test pins, and slices grown with append /
// binary.{Big,Little}Endian.AppendUintN from an empty make (the chain is followed through phis). nil = unknown.
func widthSetOf(v ssa.Value, at *ssa.BasicBlock, depth int) map[int]bool {
	if depth > 12 {
		return nil
	}
	if w := widthOfArg(v, at); w >= 0 {
		return map[int]bool{w: true}
	}
	for {
		ct, ok := v.(*ssa.ChangeType)
		if !ok {
			break
		}
		v = ct.X
	}
	add := func(a, b map[int]bool) map[int]bool {
		if a == nil || b == nil {
			return nil
		}
		out := map[int]bool{}
		for x := range a {
			for y := range b {
				out[x+y] = true
			}
		}
		if len(out) > 64 {
			return nil
		}
		return out
	}
	switch x := v.(type) {
	case *ssa.MakeSlice:
		if k, ok := constInt(x.Len); ok {
			return map[int]bool{int(k): true}
		}
	case *ssa.Phi:
		out := map[int]bool{}
		for i, e := range x.Edges {
			if e == ssa.Value(x) {
				continue
			}
			s := widthSetOf(e, x.Block().Preds[i], depth+1)
			if s == nil {
				return nil
			}
			for w := range s {
				out[w] = true
			}
		}
		return out
	case *ssa.Slice:
		// v[:] of something known
		if x.Low == nil && x.High == nil {
			return widthSetOf(x.X, at, depth+1)
		}
		if x.High != nil {
			if k, ok := constInt(x.High); ok {
				lo := int64(0)
				if x.Low != nil {
					l, ok := constInt(x.Low)
					if !ok {
						return nil
					}
					lo = l
				}
				return map[int]bool{int(k - lo): true}
			}
		}
	case *ssa.Call:
		if bi, ok := x.Call.Value.(*ssa.Builtin); ok && bi.Name() == "append" && len(x.Call.Args) == 2 {
			base := widthSetOf(x.Call.Args[0], x.Block(), depth+1)
			return add(base, widthSetOf(x.Call.Args[1], x.Block(), depth+1))
		}
		if f := calleeOf(x.Common()); f != nil && f.Pkg() != nil && f.Pkg().Path() == "encoding/binary" && strings.HasPrefix(f.Name(), "AppendUint") {
			n := 0
			switch f.Name() {
			case "AppendUint16":
				n = 2
			case "AppendUint32":
				n = 4
			case "AppendUint64":
				n = 8
			}
			args := x.Call.Args
			if n > 0 && len(args) >= 2 {
				return add(widthSetOf(args[len(args)-2], x.Block(), depth+1), map[int]bool{n: true})
			}
		}
	}
	return nil
}

// writeWidth classifies a call as a write of n bytes into the target writer (-1 unknown, -2 not a write to the target).
func writeWidth(c *Ctx, ci ssa.CallInstruction, isTarget func(ssa.Value) bool, depth int) int {
	cc := ci.Common()
	name := ""
	var recv ssa.Value
	var args []ssa.Value
	if cc.IsInvoke() {
		name, recv, args = cc.Method.Name(), cc.Value, cc.Args
	} else if f := calleeOf(cc); f != nil {
		name = f.Name()
		if f.Type().(*types.Signature).Recv() != nil && len(cc.Args) > 0 {
			recv, args = cc.Args[0], cc.Args[1:]
		} else {
			args = cc.Args
		}
		// binary.Write(w, order, x)
		if f.Pkg() != nil && f.Pkg().Path() == "encoding/binary" && name == "Write" && len(cc.Args) == 3 && isTarget(cc.Args[0]) {
			t := cc.Args[2].Type()
			if mi, ok := cc.Args[2].(*ssa.MakeInterface); ok {
				t = mi.X.Type()
			}
			return int(c.Pkg("db").TypesSizes.Sizeof(t))
		}
		// helper taking the writer as first argument: analyse it (one level)
		if f.Type().(*types.Signature).Recv() == nil && len(cc.Args) > 0 && isTarget(cc.Args[0]) && depth > 0 {
			if sf := cc.StaticCallee(); sf != nil && sf.Blocks != nil && len(sf.Params) > 0 {
				ws := writeTotals(c, sf, func(v ssa.Value) bool { return sourcesOf(v)[sf.Params[0]] || v == ssa.Value(sf.Params[0]) }, depth-1)
				if len(ws) == 1 {
					for w := range ws {
						return w
					}
				}
				return -1
			}
		}
	}
	if recv == nil || !isTarget(recv) {
		return -2
	}
	switch name {
	case "Write", "WriteString":
		if len(args) == 1 {
			if w := widthOfArg(args[0], ci.Block()); w >= 0 {
				return w
			}
			if ws := widthSetOf(args[0], ci.Block(), 0); len(ws) == 1 {
				for w := range ws {
					return w
				}
			} else if len(ws) > 1 {
				return -3 // several possible widths: see writeWidthSet
			}
			return -1
		}
	case "WriteByte":
		return 1
	case "Grow", "Bytes", "Len", "String", "Reset":
		return -2
	}
	return -2
}

// writeWidthSet: like writeWidth, but a write whose argument can have several lengths (a slice assembled on several
// paths) yields the whole set. ok=false: not a write to the target.
func writeWidthSet(c *Ctx, ci ssa.CallInstruction, isTarget func(ssa.Value) bool, depth int) (map[int]bool, bool) {
	w := writeWidth(c, ci, isTarget, depth)
	switch {
	case w == -2:
		return nil, false
	case w == -3:
		cc := ci.Common()
		args := cc.Args
		if !cc.IsInvoke() && len(args) > 0 {
			args = args[1:]
		}
		return widthSetOf(args[0], ci.Block(), 0), true
	case w < 0:
		return nil, true
	}
	return map[int]bool{w: true}, true
}

// writeTotals: the set of possible total byte counts written to the target writer when fn returns (-1 if some write is of unknown width).
func writeTotals(c *Ctx, fn *ssa.Function, isTarget func(ssa.Value) bool, depth int) map[int]bool {
	in := map[*ssa.BasicBlock]map[int]bool{}
	in[fn.Blocks[0]] = map[int]bool{0: true}
	changed := true
	for iter := 0; changed && iter < 50; iter++ {
		changed = false
		for _, b := range fn.Blocks {
			cur := in[b]
			if cur == nil {
				continue
			}
			out := map[int]bool{}
			for t := range cur {
				out[t] = true
			}
			for _, x := range b.Instrs {
				ci, ok := x.(*ssa.Call)
				if !ok {
					continue
				}
				ws, isW := writeWidthSet(c, ci, isTarget, depth)
				if !isW {
					continue
				}
				next := map[int]bool{}
				for t := range out {
					if ws == nil || t < 0 {
						next[-1] = true
					} else {
						for w := range ws {
							next[t+w] = true
						}
					}
				}
				out = next
			}
			for _, s := range b.Succs {
				if in[s] == nil {
					in[s] = map[int]bool{}
				}
				for t := range out {
					if !in[s][t] {
						if len(in[s]) > 64 {
							continue
						}
						in[s][t] = true
						changed = true
					}
				}
			}
			if len(b.Succs) == 0 {
				if in[nil] == nil {
					in[nil] = map[int]bool{}
				}
				for t := range out {
					in[nil][t] = true
				}
			}
		}
	}
	res := map[int]bool{}
	for _, ret := range returnsOf(fn) {
		b := ret.Block()
		cur := in[b]
		out := map[int]bool{}
		for t := range cur {
			out[t] = true
		}
		for _, x := range b.Instrs {
			ci, ok := x.(*ssa.Call)
			if !ok {
				continue
			}
			ws, isW := writeWidthSet(c, ci, isTarget, depth)
			if !isW {
				continue
			}
			next := map[int]bool{}
			for t := range out {
				if ws == nil || t < 0 {
					next[-1] = true
				} else {
					for w := range ws {
						next[t+w] = true
					}
				}
			}
			out = next
		}
		for t := range out {
			res[t] = true
		}
	}
	return res
}

func intSetString(m map[int]bool) []int {
	var out []int
	for k := range m {
		out = append(out, k)
	}
	sort.Ints(out)
	return out
}

// evalIntSet: possible constant values of an integer SSA value (folding + - over constants, phis as unions); nil if not constant.
func evalIntSet(v ssa.Value, depth int) map[int64]bool {
	if depth > 12 {
		return nil
	}
	if k, ok := constInt(v); ok {
		return map[int64]bool{k: true}
	}
	switch x := v.(type) {
	case *ssa.Phi:
		out := map[int64]bool{}
		for _, e := range x.Edges {
			s := evalIntSet(e, depth+1)
			if s == nil {
				return nil
			}
			for k := range s {
				out[k] = true
			}
		}
		return out
	case *ssa.BinOp:
		a, b := evalIntSet(x.X, depth+1), evalIntSet(x.Y, depth+1)
		if a == nil || b == nil {
			return nil
		}
		out := map[int64]bool{}
		for p := range a {
			for q := range b {
				switch x.Op {
				case token.ADD:
					out[p+q] = true
				case token.SUB:
					out[p-q] = true
				case token.MUL:
					out[p*q] = true
				default:
					return nil
				}
			}
		}
		return out
	case *ssa.Convert:
		return evalIntSet(x.X, depth+1)
	case *ssa.ChangeType:
		return evalIntSet(x.X, depth+1)
	case *ssa.Call:
		// len of a constant byte string, or of a package-level []byte variable initialised with one (and, by the
		// layout rules' own premise, never reassigned)
		if bi, ok := x.Call.Value.(*ssa.Builtin); ok && bi.Name() == "len" && len(x.Call.Args) == 1 {
			if sv, ok := evalBytes(x.Call.Args[0]); ok {
				return map[int64]bool{int64(len(sv)): true}
			}
			if u, ok := x.Call.Args[0].(*ssa.UnOp); ok && u.Op == token.MUL {
				if g, ok := u.X.(*ssa.Global); ok && g.Pkg != nil {
					if initFn := g.Pkg.Func("init"); initFn != nil {
						for _, b := range initFn.Blocks {
							for _, in := range b.Instrs {
								if st, ok := in.(*ssa.Store); ok && st.Addr == ssa.Value(g) {
									if sv, ok := evalBytes(st.Val); ok {
										return map[int64]bool{int64(len(sv)): true}
									}
								}
							}
						}
					}
				}
			}
		}
	}
	return nil
}

func int64SetString(m map[int64]bool) []int64 {
	var out []int64
	for k := range m {
		out = append(out, k)
	}
	sort.Slice(out, func(i, j int) bool { return out[i] < out[j] })
	return out
}
