package main

import (
	"fmt"
	"go/constant"
	"go/token"
	"go/types"
	"sort"
	"strings"

	"golang.org/x/tools/go/ssa"
)

func init() {
	register(&propDef{
		ID:          "C03",
		Title:       "Client-to-location mapping is longest-prefix match over declared subnets",
		Run:         runC03,
		Explanation: "Structural necessary conditions of the subnet-to-location lookup, decided on SSA/AST: (markers) every key marker, suffix and map-type prefix the compiler writes is the constant the drivers look up; (layout) key widths of range points (4+2+16+1) and CDB subnets (2+2+16+1) agree writer↔reader; (v4offset) every IPv4-in-IPv6 prefix-length offset is 96; (default-route) a subnet is treated as its family's default route only under a test of its prefix length; (desc) the prefix-length list is emitted in descending order; (exact-first) the exact map key is tried once, before any wildcard key; (maxmask/family) the CDB scan only considers lengths between the family offset and the client's own prefix; (masked) both drivers mask the client address with its prefix before the search; (found-prefix) a predecessor key is only interpreted after its prefix was compared. The function computed by the rearranger / the scan (longest-prefix match over 2^128 addresses) is not decided.",
	})
}

func runC03(c *Ctx) {
	c03Markers(c)
	c03Layout(c)
	c03V4Offset(c)
	c03DefaultRoute(c)
	c03Desc(c)
	c03ExactFirst(c, "C03.exact-first")
	c03FamilySets(c)
	c03MaxMask(c)
	c03Masked(c)
	c02FoundPrefix(c, "C03.found-prefix")
	c03Squash(c)
	c03RearrangePrivate(c)
	handoverRule(c, "C03.handover", "dnsdata")
	c09V4Predicate(c, "C03")
	c02MapWalk(c, "C03")
	c02ClosestExact(c, "C03.closest-exact")
}

func c03Markers(c *Ctx) {
	rule := "C03.markers"
	c.Rule(rule, "A4 constant agreement compiler↔drivers: RangePointKeyMarker = ipMapRangePointKeyElement; the \"\\000%\" written by Rnet.MarshalMap = ipMapKeyElement; the prefix-set keys written by marshalPrefixSets = maskLensKeyElement{,v4,v6}; the map-type prefixes written for 'M' and '8' records = the literals ResolverLocation / EcsLocation search with; the '=' / '*' suffixes of makemapkey = exactMatchKeyElement / wildcardKeyElement")
	gb := func(name string) string {
		s, ok := globalBytes(c, "db", name)
		if !ok {
			return "<unresolved " + name + ">"
		}
		return s
	}
	rpm := ""
	if k, ok := c.Obj("dnsdata", "RangePointKeyMarker").(*types.Const); ok {
		rpm = constant.StringVal(k.Val())
	}
	c.CheckConst(rule, "range-point-marker", rpm != "" && rpm == gb("ipMapRangePointKeyElement"), token.NoPos, fmt.Sprintf("compiler %q, driver %q", rpm, gb("ipMapRangePointKeyElement")))
	lits := func(pkg, fn string) map[string]bool {
		out := map[string]bool{}
		for _, f := range withClosures(c.Func(pkg, fn)) {
			for s := range byteLiteralsOf(f) {
				out[s] = true
			}
		}
		return out
	}
	rnet := lits("dnsdata", "(*Rnet).MarshalMap")
	c.CheckConst(rule, "cdb-subnet-marker", rnet[gb("ipMapKeyElement")], token.NoPos, fmt.Sprintf("Rnet.MarshalMap literals %v must contain the driver's %q", keysQuoted(rnet), gb("ipMapKeyElement")))
	pfx := lits("dnsdata", "(*Accum).marshalPrefixSets")
	for _, g := range []string{"maskLensKeyElement", "maskLensKeyElementv4", "maskLensKeyElementv6"} {
		c.CheckConst(rule, "prefix-set-key|"+g, pfx[gb(g)], token.NoPos, fmt.Sprintf("marshalPrefixSets literals %v must contain the driver's %q", keysQuoted(pfx), gb(g)))
	}
	// map type prefixes: writers are the MarshalMap methods that call makemapkey
	mk := c.TypesFunc("dnsdata", "makemapkey")
	writerPrefixes := map[string]bool{}
	for _, fn := range c.OurFuncs("dnsdata") {
		for _, ci := range callsTo(fn, func(f *types.Func) bool { return f == mk }) {
			if s, ok := evalBytes(ci.Common().Args[0]); ok {
				writerPrefixes[s] = true
			}
		}
	}
	readerPrefixes := map[string]bool{}
	for _, name := range []string{"(*DataReader).ResolverLocation", "(*DataReader).EcsLocation"} {
		fn := c.Func("db", name)
		c.Examined(fn)
		for _, ci := range callInstrs(fn) {
			if cc := ci.Common(); cc.StaticCallee() != nil && cc.StaticCallee().Name() == "findLocation" || cc.IsInvoke() && cc.Method.Name() == "findLocation" {
				args := cc.Args
				idx := 2
				if cc.IsInvoke() {
					idx = 1
				}
				if s, ok := evalBytes(args[idx]); ok {
					readerPrefixes[s] = true
				}
			}
		}
	}
	c.CheckConst(rule, "map-type-prefixes", len(writerPrefixes) == 2 && strings.Join(keysQuoted(writerPrefixes), ",") == strings.Join(keysQuoted(readerPrefixes), ","), token.NoPos, fmt.Sprintf("written: %v; searched: %v", keysQuoted(writerPrefixes), keysQuoted(readerPrefixes)))
	mkl := lits("dnsdata", "makemapkey")
	c.CheckConst(rule, "map-key-suffix|exact", mkl[gb("exactMatchKeyElement")] && gb("exactMatchKeyElement") != gb("wildcardKeyElement"), token.NoPos, fmt.Sprintf("makemapkey literals %v, driver %q", keysQuoted(mkl), gb("exactMatchKeyElement")))
	c.CheckConst(rule, "map-key-suffix|wildcard", mkl[gb("wildcardKeyElement")], token.NoPos, fmt.Sprintf("makemapkey literals %v, driver %q", keysQuoted(mkl), gb("wildcardKeyElement")))
}

func keysQuoted(m map[string]bool) []string {
	var out []string
	for k := range m {
		out = append(out, fmt.Sprintf("%q", k))
	}
	sort.Strings(out)
	return out
}

func c03Layout(c *Ctx) {
	rule := "C03.layout"
	c.Rule(rule, "A4 widths: Rrangepoint.MarshalMap writes a key of marker:4 + map:2 + address:16 + length:1 and rdbdriver.GetLocationByMap allocates and fills 4+2+16+1 with copies at offsets 4, 6 and 22; Rnet.MarshalMap's full key is marker:2 + map:2 + address:16 + length:1 and cdbdriver.GetLocationByMap allocates 21 bytes with the map at 2, the address at 4 and the length at 4+16")
	bufTotals := func(pkg, name string, nth int) map[int]bool {
		fn := c.Func(pkg, name)
		c.Examined(fn)
		// the nth bytes.Buffer allocated in the function
		var bufs []*ssa.Alloc
		for _, b := range fn.Blocks {
			for _, in := range b.Instrs {
				if a, ok := in.(*ssa.Alloc); ok && strings.Contains(a.Type().String(), "bytes.Buffer") {
					bufs = append(bufs, a)
				}
			}
		}
		if nth >= len(bufs) {
			return nil
		}
		target := bufs[nth]
		return writeTotals(c, fn, func(v ssa.Value) bool {
			if v == ssa.Value(target) {
				return true
			}
			for s := range sourcesOf(v) {
				if s == ssa.Value(target) {
					return true
				}
			}
			return false
		}, 1)
	}
	rp := bufTotals("dnsdata", "(*Rrangepoint).MarshalMap", 0)
	if len(rp) == 0 {
		// the key assembled as a plain byte slice (append chain) and stored into MapRecord.Key
		fn := c.Func("dnsdata", "(*Rrangepoint).MarshalMap")
		fKey := c.Field("dnsdata", "MapRecord", "Key")
		rp = map[int]bool{}
		for _, st := range storesToField(fn, fKey) {
			ws := widthSetOf(st.Val, st.Block(), 0)
			if ws == nil {
				rp[-1] = true
			}
			for w := range ws {
				rp[w] = true
			}
		}
	}
	c.Check(rule, "Rrangepoint.MarshalMap|key-width", len(rp) == 1 && rp[23], token.NoPos, fmt.Sprintf("range-point key widths on all paths: %v (expected 23)", intSetString(rp)))
	rn := c.Func("dnsdata", "(*Rnet).MarshalMap")
	// the full key is the last key buffer (k := new(bytes.Buffer) after the optional short form)
	var rnw map[int]bool
	for i := 0; i < 6; i++ {
		w := bufTotals("dnsdata", "(*Rnet).MarshalMap", i)
		if w == nil {
			break
		}
		c.Note("Rnet.MarshalMap buffer %d: widths %v", i, intSetString(w))
		if w[21] {
			rnw = w
		}
	}
	c.Check(rule, "Rnet.MarshalMap|full-key-width", rnw != nil && rnw[21], rn.Pos(), fmt.Sprintf("one of the keys written has width 21 on its path: %v", intSetString(rnw)))
	// readers
	consts := func(fn *ssa.Function) (makes []int64, lows []int64) {
		for _, b := range fn.Blocks {
			for _, in := range b.Instrs {
				switch x := in.(type) {
				case *ssa.MakeSlice:
					if s := evalIntSet(x.Len, 0); len(s) == 1 && isByteSlice(x.Type()) {
						for k := range s {
							makes = append(makes, k)
						}
					}
				case *ssa.Alloc:
					// make([]byte, <constant>) is compiled to a new [n]byte that is then sliced
					if x.Comment == "makeslice" {
						if at, ok := x.Type().(*types.Pointer).Elem().Underlying().(*types.Array); ok && isByte(at.Elem()) {
							makes = append(makes, at.Len())
						}
					}
				case *ssa.Slice:
					if x.Low != nil && isByteSlice(x.X.Type()) {
						if s := evalIntSet(x.Low, 0); len(s) == 1 {
							for k := range s {
								lows = append(lows, k)
							}
						}
					}
				case *ssa.IndexAddr:
					// a one-byte component stored by index (key[22] = masklen) is a component at that offset too
					if isByteSlice(x.X.Type()) {
						stored := false
						for _, r := range *x.Referrers() {
							if st, ok := r.(*ssa.Store); ok && st.Addr == ssa.Value(x) {
								stored = true
							}
						}
						if s := evalIntSet(x.Index, 0); stored && len(s) == 1 {
							for k := range s {
								lows = append(lows, k)
							}
						}
					}
				}
			}
		}
		sort.Slice(lows, func(i, j int) bool { return lows[i] < lows[j] })
		return
	}
	rdb := c.Func("db", "(*rdbdriver).GetLocationByMap")
	c.Examined(rdb)
	mk, lows := consts(rdb)
	has := func(l []int64, k int64) bool {
		for _, x := range l {
			if x == k {
				return true
			}
		}
		return false
	}
	c.Check(rule, fnName(rdb)+"|key=4+2+16+1", len(mk) >= 1 && has(mk, 23) && has(lows, 4) && has(lows, 6) && has(lows, 22), rdb.Pos(), fmt.Sprintf("allocated %v bytes, components copied at offsets %v", mk, lows))
	// the found range point has to belong to THIS map: the guard after the closest-key search compares the marker AND
	// the map id, i.e. the whole prefix in front of the address (seed c10g compared the 4 marker bytes only, so the
	// trailing range of the map sorting before decided)
	var guardHighs []int64
	for _, ci := range callInstrs(rdb) {
		f := calleeOf(ci.Common())
		if f == nil || f.Pkg() == nil || f.Pkg().Path() != "bytes" || (f.Name() != "Equal" && f.Name() != "HasPrefix") {
			continue
		}
		for _, a := range ci.Common().Args {
			if sl, ok := a.(*ssa.Slice); ok && sl.High != nil && sl.Low == nil {
				if hs := evalIntSet(sl.High, 0); len(hs) == 1 {
					for k := range hs {
						guardHighs = append(guardHighs, k)
					}
				}
			}
		}
	}
	okGuard := len(guardHighs) > 0
	for _, k := range guardHighs {
		if k != 6 {
			okGuard = false
		}
	}
	c.Check(rule, fnName(rdb)+"|found-key-of-this-map", okGuard, rdb.Pos(), fmt.Sprintf("prefix lengths compared between the found key and the search key: %v (marker 4 + map id 2 = 6)", guardHighs))
	cdbf := c.Func("db", "(*cdbdriver).GetLocationByMap")
	c.Examined(cdbf)
	mk2, lows2 := consts(cdbf)
	c.Check(rule, fnName(cdbf)+"|key=2+2+16+1", has(mk2, 21) && has(lows2, 2) && has(lows2, 4), cdbf.Pos(), fmt.Sprintf("allocated %v bytes, components copied at offsets %v", mk2, lows2))
}

func c03V4Offset(c *Ctx) {
	rule := "C03.v4offset"
	c.Rule(rule, "A4: in the functions that convert between IPv4 and IPv4-in-IPv6 prefix lengths, every integer constant strictly between 64 and 128 used in an addition, subtraction or comparison is 96 = (IPv6len − IPv4len)·8")
	for _, t := range [][2]string{{"dnsdata", "(*Rrangepoint).UnmarshalText"}, {"dnsdata", "(*Rrangepoint).MarshalText"}, {"db", "(*cdbdriver).GetLocationByMap"}, {"db", "(*rdbdriver).GetLocationByMap"}, {"db", "(*DataReader).EcsLocation"}} {
		fn := c.Func(t[0], t[1])
		c.Examined(fn)
		var ks []int64
		for _, b := range fn.Blocks {
			for _, in := range b.Instrs {
				bo, ok := in.(*ssa.BinOp)
				if !ok {
					continue
				}
				switch bo.Op {
				case token.ADD, token.SUB, token.GEQ, token.LSS, token.GTR, token.LEQ:
				default:
					continue
				}
				for _, op := range []ssa.Value{bo.X, bo.Y} {
					if s := evalIntSet(op, 0); len(s) == 1 {
						for k := range s {
							if k > 64 && k < 128 {
								ks = append(ks, k)
							}
						}
					}
				}
				// 128 - 32 spelled out
				if bo.Op == token.SUB {
					if s := evalIntSet(bo, 0); len(s) == 1 {
						for k := range s {
							if k > 64 && k < 128 {
								ks = append(ks, k)
							}
						}
					}
				}
			}
			for _, in := range b.Instrs {
				if st, ok := in.(*ssa.Store); ok {
					if k, isK := constInt(st.Val); isK && k > 64 && k < 128 {
						ks = append(ks, k)
					}
				}
				if phi, ok := in.(*ssa.Phi); ok {
					for _, e := range phi.Edges {
						if k, isK := constInt(e); isK && k > 64 && k < 128 {
							ks = append(ks, k)
						}
					}
				}
			}
		}
		ok := len(ks) > 0
		for _, k := range ks {
			if k != 96 {
				ok = false
			}
		}
		c.Check(rule, fnName(fn)+"|offset-96", ok, fn.Pos(), fmt.Sprintf("family-offset constants found: %v", ks))
	}
}

func c03DefaultRoute(c *Ctx) {
	rule := "C03.default-route"
	c.Rule(rule, "A2: in Rearranger.AddLocation a range point whose start is one of the family boundary constants (first IPv6 address, first IPv4-mapped address, first address after the IPv4-mapped block) — i.e. 'this subnet covers its whole family' — is only created under a test that involves the subnet's prefix length; the hasDefault flags likewise")
	fn := c.Func("dnsdata", "(*Rearranger).AddLocation")
	c.Examined(fn)
	// the prefix length: first result of Mask.Size()
	var size *ssa.Call
	for _, ci := range callInstrs(fn) {
		if f := calleeOf(ci.Common()); f != nil && f.Pkg() != nil && f.Pkg().Path() == "net" && funcShort(f) == "IPMask.Size" {
			size, _ = ci.(*ssa.Call)
		}
	}
	if size == nil {
		c.Undecided(rule, fnName(fn)+"|mask-size", fn.Pos(), "Mask.Size() call not found")
		return
	}
	lenTested := func(b *ssa.BasicBlock) bool {
		return hasFact(b, func(v ssa.Value, truth bool) bool {
			for x := range backSlice(v, nil) {
				if ex, ok := x.(*ssa.Extract); ok && ex.Tuple == ssa.Value(size) && ex.Index == 0 {
					return true
				}
			}
			return false
		})
	}
	boundary := map[string]bool{"firstIPv6": true, "firstIPv4": true, "afterIPv4": true}
	n := 0
	fStart := c.Field("dnsdata", "RangePoint", "rangeStart")
	for _, st := range storesToField(fn, fStart) {
		g := ""
		for s := range sourcesOf(st.Val) {
			if u, ok := s.(*ssa.UnOp); ok {
				if gl, ok := u.X.(*ssa.Global); ok && boundary[gl.Name()] {
					g = gl.Name()
				}
			}
		}
		if g == "" {
			continue
		}
		n++
		c.Check(rule, fmt.Sprintf("%s|boundary-point#%d:%s|under-prefix-length-test", fnName(fn), n, g), lenTested(st.Block()), st.Pos(), "classifying a subnet as a default route by its network address alone turns 0.0.0.0/8 or ::/3 into default routes")
	}
	for _, name := range []string{"hasDefaultIPv4Range", "hasDefaultIPv6Range"} {
		f := c.Field("dnsdata", "Rearranger", name)
		for _, st := range storesToField(fn, f) {
			n++
			c.Check(rule, fnName(fn)+"|"+name+"|under-prefix-length-test", lenTested(st.Block()), st.Pos(), "the default-route flag suppresses the family's null pseudo points")
		}
	}
	if n < 4 {
		c.Undecided(rule, fnName(fn)+"|floor", fn.Pos(), fmt.Sprintf("only %d default-route constructs found", n))
	}
}

func c03Desc(c *Ctx) {
	rule := "C03.desc"
	c.Rule(rule, "the prefix-length list (value of the \"\\000/\" keys) is built by a loop whose variable starts at 128 and is decremented, appending the variable itself: lengths are stored most specific first, which the CDB scan relies on (first match wins)")
	fn := c.Func("dnsdata", "(*Accum).marshalPrefixSets")
	ok := false
	for _, f := range withClosures(fn) {
		c.Examined(f)
		for h, body := range naturalLoops(f) {
			for _, in := range h.Instrs {
				phi, isPhi := in.(*ssa.Phi)
				if !isPhi {
					continue
				}
				start, dec := false, false
				for _, e := range phi.Edges {
					if k, isK := constInt(e); isK && k >= 128 {
						start = true
					}
					if bo, isB := e.(*ssa.BinOp); isB && bo.Op == token.SUB && bo.X == ssa.Value(phi) {
						if k, isK := constInt(bo.Y); isK && k == 1 {
							dec = true
						}
					}
				}
				if !start || !dec {
					continue
				}
				// the phi (converted to byte) is what gets appended inside the loop
				for b := range body {
					for _, x := range b.Instrs {
						if ap := isBuiltinCall(valueOfCall2(x), "append"); ap != nil {
							for v := range backSlice(ap.Call.Args[1], nil) {
								if v == ssa.Value(phi) {
									ok = true
								}
							}
						}
					}
				}
			}
		}
	}
	c.Check(rule, fnName(fn)+"|descending", ok, fn.Pos(), "prefix lengths are emitted from 128 down to 0")
}

func valueOfCall2(in ssa.Instruction) ssa.Value {
	if v, ok := in.(ssa.Value); ok {
		return v
	}
	return nil
}

func c03ExactFirst(c *Ctx, rule string) {
	c.Rule(rule, "A2: in the three map walks the exact-match suffix is used on the first iteration only and the wildcard suffix on every later one: the state that selects the suffix (a flag or the suffix variable itself) is a loop-header phi whose value on entry selects 'exact', whose value on the back edge selects 'wildcard', and the entry value is established outside every loop")
	for _, name := range []string{"(*cdbdriver).FindMap", "(*rdbdriver).FindMap", "(*rdbdriver).findMapInSortedData"} {
		fn := c.Func("db", name)
		c.Examined(fn)
		isG := func(v ssa.Value, g string) bool {
			for s := range sourcesOf(v) {
				u, ok := s.(*ssa.UnOp)
				if !ok {
					return false
				}
				gl, ok := u.X.(*ssa.Global)
				if !ok || gl.Name() != g {
					return false
				}
			}
			return len(sourcesOf(v)) > 0
		}
		ok := false
		why := "no loop-header state selecting exact first, wildcard afterwards"
		for h, body := range naturalLoops(fn) {
			for _, in := range h.Instrs {
				phi, isPhi := in.(*ssa.Phi)
				if !isPhi {
					continue
				}
				var entryExact, backWild, entryOutside bool
				for i, e := range phi.Edges {
					pred := h.Preds[i]
					inLoop := body[pred]
					k, isK := e.(*ssa.Const)
					switch {
					case !inLoop && (isG(e, "exactMatchKeyElement") || (isK && k.Value != nil && k.Value.String() == "true")):
						entryExact = true
						entryOutside = !inCycle(pred)
					case inLoop && (isG(e, "wildcardKeyElement") || (isK && k.Value != nil && k.Value.String() == "false")):
						backWild = true
					}
				}
				if !(entryExact && backWild) {
					continue
				}
				// flag form: the exact suffix is appended under flag == true, the wildcard suffix under flag == false
				if bt, isB := phi.Type().Underlying().(*types.Basic); isB && bt.Kind() == types.Bool {
					ex, wi := false, false
					for b := range body {
						for _, x := range b.Instrs {
							u, isU := x.(*ssa.UnOp)
							if !isU {
								continue
							}
							gl, isGl := u.X.(*ssa.Global)
							if !isGl {
								continue
							}
							underTrue := hasFact(b, func(v ssa.Value, truth bool) bool { return v == ssa.Value(phi) && truth })
							underFalse := hasFact(b, func(v ssa.Value, truth bool) bool { return v == ssa.Value(phi) && !truth })
							if gl.Name() == "exactMatchKeyElement" && underTrue {
								ex = true
							}
							if gl.Name() == "wildcardKeyElement" && underFalse {
								wi = true
							}
						}
					}
					if !(ex && wi) {
						why = "the suffix choice does not follow the first-iteration flag"
						continue
					}
				}
				if !entryOutside {
					why = "the 'first iteration' state is re-established inside an enclosing loop: the exact suffix is used again later in the walk"
					continue
				}
				ok = true
			}
		}
		if ok {
			why = "exact suffix on the first iteration, wildcard suffix afterwards"
		}
		c.Check(rule, fnName(fn)+"|exact-then-wildcard", ok, fn.Pos(), why)
	}
}

func c03MaxMask(c *Ctx) {
	rule := "C03.maxmask"
	c.Rule(rule, "A2 in cdbdriver.GetLocationByMap: the per-length lookup is reached only when the length is not above the client's own prefix length and not below the family offset; the key's address bytes are AND-ed with the mask of that length and the length byte is stored before the lookup")
	fn := c.Func("db", "(*cdbdriver).GetLocationByMap")
	c.Examined(fn)
	// the scan loop: range over the prefix-length list
	var loop *sliceLoop
	for _, l := range rangeLoops(fn, func(v ssa.Value) bool { return isByteSlice(v.Type()) }) {
		ll := l
		if loop == nil || len(ll.Body) > len(loop.Body) {
			loop = &ll
		}
	}
	if loop == nil {
		c.Undecided(rule, fnName(fn)+"|scan-loop", fn.Pos(), "scan loop over the prefix lengths not found")
		return
	}
	var lookup ssa.CallInstruction
	for _, ci := range callInstrs(fn) {
		// the exact get of the candidate subnet: FindNext (after FindStart) or Find on the cdb handle
		if sf := ci.Common().StaticCallee(); sf != nil && (sf.Name() == "FindNext" || sf.Name() == "Find") && loop.Body[ci.Block()] {
			lookup = ci
		}
	}
	if lookup == nil {
		c.Undecided(rule, fnName(fn)+"|lookup", fn.Pos(), "per-length lookup not found")
		return
	}
	upper, lower := false, false
	for _, f := range factsAt(lookup.Block()) {
		b, ok := f.V.(*ssa.BinOp)
		if !ok {
			continue
		}
		isMask := func(v ssa.Value) bool { // the loop element
			u, ok := unwrap(v).(*ssa.UnOp)
			if !ok {
				return false
			}
			_, isIA := u.X.(*ssa.IndexAddr)
			return isIA
		}
		switch {
		case b.Op == token.GTR && !f.Truth && isMask(b.X), b.Op == token.LEQ && f.Truth && isMask(b.X):
			upper = true
		case b.Op == token.LSS && !f.Truth && isMask(b.X), b.Op == token.GEQ && f.Truth && isMask(b.X):
			lower = true
		}
	}
	c.Check(rule, fnName(fn)+"|length<=client-prefix", upper, lookup.Pos(), "a subnet longer than the client's own prefix is never matched")
	c.Check(rule, fnName(fn)+"|length>=family-offset", lower, lookup.Pos(), "a subnet of the other address family (shorter than the IPv4-mapped block) is never matched for an IPv4 client")
	// masking and length byte before the lookup, inside the loop
	anded, lenStored := false, false
	for b := range loop.Body {
		for _, in := range b.Instrs {
			st, ok := in.(*ssa.Store)
			if !ok {
				continue
			}
			if _, isIA := st.Addr.(*ssa.IndexAddr); !isIA {
				continue
			}
			if bo, isB := st.Val.(*ssa.BinOp); isB && bo.Op == token.AND && (st.Block().Dominates(lookup.Block()) || reachable(st.Block(), nil)[lookup.Block()]) {
				anded = true
			}
			if instrDominates(st, lookup) {
				if u, isU := unwrap(st.Val).(*ssa.UnOp); isU {
					if _, isIA := u.X.(*ssa.IndexAddr); isIA {
						lenStored = true
					}
				}
			}
		}
	}
	c.Check(rule, fnName(fn)+"|address-masked-per-length", anded, lookup.Pos(), "the address is reduced to the candidate subnet's network address before the exact get")
	c.Check(rule, fnName(fn)+"|length-byte-stored", lenStored, lookup.Pos(), "the candidate length is part of the key")
}

func c03Masked(c *Ctx) {
	rule := "C03.masked"
	c.Rule(rule, "A9: both backends reduce the client address to its own prefix before searching: the RocksDB driver passes the address through net.IP.Mask(ipnet.Mask) on its way into the key (the CDB driver masks per candidate length, C03.maxmask): host bits beyond the prefix length must not let a longer subnet match")
	fn := c.Func("db", "(*rdbdriver).GetLocationByMap")
	c.Examined(fn)
	ok := false
	for _, ci := range callInstrs(fn) {
		cp := isBuiltinCall(valueOfCall(ci), "copy")
		if cp == nil {
			continue
		}
		// the copy of the address: source derives from the ipnet parameter's IP
		fromIP, masked := false, false
		for v := range backSlice(cp.Call.Args[1], nil) {
			if fa, isFA := v.(*ssa.FieldAddr); isFA && fieldName(fa.X.Type(), fa.Field) == "IP" {
				fromIP = true
			}
		}
		if !fromIP {
			continue
		}
		for s := range sourcesOf(cp.Call.Args[1]) {
			// every source is To16() of (Mask(...) result, or the raw IP only under Mask(...) == nil)
			_ = s
		}
		for v := range backSlice(cp.Call.Args[1], nil) {
			if call, isCall := v.(*ssa.Call); isCall {
				if f := calleeOf(call.Common()); f != nil && f.Pkg() != nil && f.Pkg().Path() == "net" && funcShort(f) == "IP.Mask" {
					masked = true
				}
			}
		}
		if masked {
			ok = true
		}
	}
	c.Check(rule, fnName(fn)+"|address-masked-with-client-prefix", ok, fn.Pos(), "10.1.255.255/12 must search as 10.0.0.0/12")
}

// c03FamilySets: the per-family prefix-length sets are selected by the address family.
func c03FamilySets(c *Ctx) {
	rule := "C03.family-sets"
	c.Rule(rule, "A2 in Accum.updatePrefixSet: the IPv4 set is updated under 'the subnet's address is IPv4' (To4() != nil) and the IPv6 set under its negation — not under a test of the prefix length: the CDB scan of a client reads only its own family's set, so a subnet filed under the other family is never probed")
	fn := c.Func("dnsdata", "(*Accum).updatePrefixSet")
	c.Examined(fn)
	f4 := c.Field("dnsdata", "Accum", "v4prefixset")
	f6 := c.Field("dnsdata", "Accum", "v6prefixset")
	isTo4 := func(facts []fact, want bool) bool {
		for _, f := range facts {
			x, trueNil, ok := nilTest(f.V)
			if !ok {
				continue
			}
			call, isCall := x.(*ssa.Call)
			if !isCall {
				continue
			}
			fc := calleeOf(call.Common())
			if fc == nil || fc.Pkg() == nil || fc.Pkg().Path() != "net" || funcShort(fc) != "IP.To4" {
				continue
			}
			if (trueNil != f.Truth) == want {
				return true
			}
		}
		return false
	}
	// the updates: calls (SetBit) that receive a pointer to one of the family sets; the pointer may be chosen first and
	// used once (`set := &r.v6prefixset; if v4 { set = &r.v4prefixset }; set.SetBit(...)`), so every way into the call
	// is looked at with the pointer it carries there
	type upd struct {
		n  int
		ok bool
	}
	res := map[*types.Var]*upd{f4: {ok: true}, f6: {ok: true}}
	for _, ci := range callInstrs(fn) {
		var ptr ssa.Value
		for _, a := range ci.Common().Args {
			for v := range backSlice(a, nil) {
				if fa, isFA := v.(*ssa.FieldAddr); isFA && (fieldOf(fa) == f4 || fieldOf(fa) == f6) {
					ptr = a
				}
			}
		}
		if ptr == nil {
			continue
		}
		counted := map[*types.Var]bool{}
		for _, p := range nearPaths(ci, 32) {
			fa, isFA := p.value(ptr).(*ssa.FieldAddr)
			if !isFA {
				// not resolved on this path: every set it may stand for is updated without a known family
				for v := range backSlice(ptr, nil) {
					if fa2, ok := v.(*ssa.FieldAddr); ok && res[fieldOf(fa2)] != nil {
						res[fieldOf(fa2)].ok = false
						counted[fieldOf(fa2)] = true
					}
				}
				continue
			}
			u := res[fieldOf(fa)]
			if u == nil {
				continue
			}
			counted[fieldOf(fa)] = true
			if !isTo4(p.facts, fieldOf(fa) == f4) {
				u.ok = false
			}
		}
		for f := range counted {
			res[f].n++
		}
	}
	for _, t := range []struct {
		f    *types.Var
		name string
	}{{f4, "v4prefixset"}, {f6, "v6prefixset"}} {
		ok, n := res[t.f].ok, res[t.f].n
		c.Check(rule, fnName(fn)+"|"+t.name+"|selected-by-address-family", ok && n > 0, fn.Pos(), fmt.Sprintf("%d updates of %s", n, t.name))
	}
	// every subnet is accounted for in its family's set: the only way past the family update is the "no prefix sets"
	// configuration switch. A shortcut taken because the COMBINED set already knows the length (seed c03r4h) leaves
	// lengths shared by an IPv4 and an IPv6 subnet out of the second family's set.
	stop := map[*ssa.BasicBlock]bool{}
	for _, b := range fn.Blocks {
		for _, in := range b.Instrs {
			if fa, isFA := in.(*ssa.FieldAddr); isFA && (fieldOf(fa) == f4 || fieldOf(fa) == f6) {
				stop[b] = true
			}
		}
	}
	fNo := c.FieldOpt("dnsdata", "Accum", "NoPrefixSets")
	skips := 0
	var where []string
	for _, ret := range returnsOf(fn) {
		if stop[ret.Block()] {
			continue
		}
		// reachable from the entry without a family update?
		if !reachable(fn.Blocks[0], stop)[ret.Block()] {
			continue
		}
		// allowed: the return guarded by the configuration switch only
		onlySwitch := fNo != nil && hasFact(ret.Block(), func(v ssa.Value, truth bool) bool { return truth && isFieldLoad(v, fNo) })
		if !onlySwitch {
			skips++
			where = append(where, c.relPos(ret.Pos()))
		}
	}
	c.Check(rule, fnName(fn)+"|family-set-updated-on-every-path", skips == 0 && len(stop) > 0, fn.Pos(), fmt.Sprintf("returns reached without updating the subnet's family set: %v", where))
}
