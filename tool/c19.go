package main

import (
	"fmt"
	"go/token"
	"go/types"
	"strings"

	"golang.org/x/tools/go/ssa"
)

func init() {
	register(&propDef{
		ID:          "C19",
		Title:       "Statistics and the query log tell the truth",
		Run:         runC19,
		Explanation: "Structural necessary conditions, decided on SSA: (window-lock, counters) the sliding-window samples and the counter map are only touched under their mutexes; (compaction) what the window cleaner stores back is a reslice of the old samples or a fresh slice filled by copy from the live tail, never a zero-filled slice, and the compaction is not inside the scan it replaces; (writelog) the response is written, then the same message is logged exactly once on the success edge, then counters are bumped; (outcomes) each outcome counter is incremented under the condition on the response it names; (once) the query counter is bumped once at entry and the type counter once before any response is written. Expiry timing and the arithmetic of min/max/avg are not decided.",
	})
}

func runC19(c *Ctx) {
	c.locksetRows("C19.window-lock", func(r lockRow) bool { return r.Pkg == "metrics" && r.Type == "slidingWindow" })
	c.locksetRows("C19.counters", func(r lockRow) bool { return r.Pkg == "metrics" && r.Type == "Stats" })
	c19Compaction(c)
	c19WriteLog(c)
	c19Outcomes(c)
	c19Once(c)
	c19ExportAll(c)
	c19Recheck(c, "C19")
	c19TypeKey(c)
	c19SamplesPrivate(c)
	c19SamplesExact(c)
}

// naturalLoops returns header -> set of blocks of the loop.
func naturalLoops(fn *ssa.Function) map[*ssa.BasicBlock]map[*ssa.BasicBlock]bool {
	loops := map[*ssa.BasicBlock]map[*ssa.BasicBlock]bool{}
	for _, u := range fn.Blocks {
		for _, v := range u.Succs {
			if v == u || v.Dominates(u) {
				body := loops[v]
				if body == nil {
					body = map[*ssa.BasicBlock]bool{v: true}
					loops[v] = body
				}
				var stack []*ssa.BasicBlock
				if !body[u] {
					body[u] = true
					stack = append(stack, u)
				}
				for len(stack) > 0 {
					x := stack[len(stack)-1]
					stack = stack[:len(stack)-1]
					for _, p := range x.Preds {
						if !body[p] {
							body[p] = true
							stack = append(stack, p)
						}
					}
				}
			}
		}
	}
	return loops
}

func isBuiltinCall(v ssa.Value, name string) *ssa.Call {
	call, ok := v.(*ssa.Call)
	if !ok {
		return nil
	}
	if b, ok := call.Call.Value.(*ssa.Builtin); ok && b.Name() == name {
		return call
	}
	return nil
}

func c19Compaction(c *Ctx) {
	rule := "C19.compaction"
	c.Rule(rule, "SSA dataflow in slidingWindow.cleaner: every value stored to samples is a reslice of the old samples, an empty fresh slice, or a fresh slice that is the destination of a copy from the old samples before the store (never a copy source, never a non-empty fresh slice that is appended to); the store is not inside the loop that scans the slice being replaced")
	fn := c.Func("metrics", "(*slidingWindow).cleaner")
	c.Examined(fn)
	fS := c.tabledFieldByName("metrics", "slidingWindow", "samples")
	fromOld := func(v ssa.Value) bool { // a (re)slice of the loaded samples
		for x := range backSlice(v, func(v ssa.Value) bool { _, isCall := v.(*ssa.Call); return isCall }) {
			if isFieldLoad(x, fS) {
				return true
			}
		}
		return false
	}
	stores := storesToField(fn, fS)
	if len(stores) == 0 {
		c.Undecided(rule, fnName(fn)+"|store", fn.Pos(), "the cleaner never stores to samples: expired samples are never dropped")
		return
	}
	loops := naturalLoops(fn)
	for i, st := range stores {
		k := fmt.Sprintf("%s|store#%d", fnName(fn), i)
		ok := true
		var why []string
		for src := range sourcesOf(st.Val) {
			switch x := src.(type) {
			case *ssa.Slice:
				if !fromOld(x.X) {
					if ms, isMS := x.X.(*ssa.MakeSlice); isMS {
						src = ms
						goto fresh
					}
					ok = false
					why = append(why, "slice of something that is not the old samples")
				}
				continue
			case *ssa.MakeSlice:
				src = x
				goto fresh
			case *ssa.Call:
				if ap := isBuiltinCall(x, "append"); ap != nil {
					base := ap.Call.Args[0]
					if ms, isMS := unwrap(base).(*ssa.MakeSlice); isMS {
						if n, isC := constInt(ms.Len); !isC || n != 0 {
							ok = false
							why = append(why, "append to a fresh slice of non-zero length: the zero-valued samples stay in front of the live ones")
						}
					} else if sl, isSl := unwrap(base).(*ssa.Slice); isSl {
						if ms, isMS := sl.X.(*ssa.MakeSlice); isMS {
							if n, isC := constInt(ms.Len); (!isC || n != 0) && sl.High == nil {
								ok = false
								why = append(why, "append to a fresh slice of non-zero length")
							}
						}
					} else if !fromOld(base) {
						ok = false
						why = append(why, "append to an unknown slice")
					}
					continue
				}
				ok = false
				why = append(why, "value produced by a call: "+x.String())
				continue
			default:
				ok = false
				why = append(why, fmt.Sprintf("unrecognised source %T", src))
				continue
			}
		fresh:
			ms := src.(*ssa.MakeSlice)
			if n, isC := constInt(ms.Len); isC && n == 0 {
				continue // empty window
			}
			isDst, isSrc := false, false
			for _, ci := range callInstrs(fn) {
				cp := isBuiltinCall(valueOfCall(ci), "copy")
				if cp == nil {
					continue
				}
				if backSlice(cp.Call.Args[0], nil)[ms] && instrDominates(cp, st) && fromOld(cp.Call.Args[1]) {
					isDst = true
				}
				if backSlice(cp.Call.Args[1], nil)[ms] {
					isSrc = true
				}
			}
			if isSrc {
				ok = false
				why = append(why, "a freshly made (zeroed) slice is used as the source of copy: live samples are overwritten with zeroes")
			}
			if !isDst {
				ok = false
				why = append(why, "a fresh non-empty slice is stored without having been filled by copy from the live tail")
			}
		}
		c.Check(rule, k+"|keeps-live-samples", ok, st.Pos(), strings.Join(why, "; "))
		// not inside the scan loop
		inScan := false
		for h, body := range loops {
			if !body[st.Block()] {
				continue
			}
			iff, isIf := h.Instrs[len(h.Instrs)-1].(*ssa.If)
			if !isIf {
				continue
			}
			for v := range backSlice(iff.Cond, nil) {
				if ln := isBuiltinCall(v, "len"); ln != nil && fromOld(ln.Call.Args[0]) {
					inScan = true
				}
			}
		}
		c.Check(rule, k+"|outside-scan", !inScan, st.Pos(), "the slice is replaced once, after the scan that finds the first live sample, not while it is being scanned")
	}
}

func valueOfCall(ci ssa.CallInstruction) ssa.Value {
	if v, ok := ci.(ssa.Value); ok {
		return v
	}
	return nil
}

func isStatsIncrement(ci ssa.CallInstruction) (string, bool) {
	cc := ci.Common()
	if !cc.IsInvoke() || cc.Method.Name() != "IncrementCounter" || len(cc.Args) != 1 {
		return "", false
	}
	s, ok := stringConst(cc.Args[0])
	if !ok {
		return "", true
	}
	return s, true
}

func c19WriteLog(c *Ctx) {
	rule := "C19.writelog"
	c.Rule(rule, "in writeAndLog: exactly one logger.Log call, its message argument is the message given to WriteMsg, it is dominated by the nil edge of WriteMsg's error, and every counter increment is dominated by it")
	fn := c.Func("dnsserver", "(*FBDNSDB).writeAndLog")
	c.Examined(fn)
	var write, log ssa.CallInstruction
	nlog := 0
	for _, ci := range callInstrs(fn) {
		cc := ci.Common()
		if cc.IsInvoke() && cc.Method.Name() == "WriteMsg" {
			write = ci
		}
		if cc.IsInvoke() && cc.Method.Name() == "Log" {
			log = ci
			nlog++
		}
	}
	if write == nil {
		c.Undecided(rule, fnName(fn)+"|write", fn.Pos(), "no WriteMsg in writeAndLog")
		return
	}
	c.Check(rule, fnName(fn)+"|log-once", nlog == 1, fn.Pos(), fmt.Sprintf("%d Log calls: every response written is logged exactly once", nlog))
	if log == nil {
		return
	}
	c.Check(rule, fnName(fn)+"|log-same-message", len(log.Common().Args) >= 2 && sameSources(log.Common().Args[1], write.Common().Args[0]), log.Pos(), "the message logged is the message that was written")
	wcall := write.(*ssa.Call)
	isWErr := func(v ssa.Value) bool { cl, _ := callOfValue(v); return cl == wcall }
	c.Check(rule, fnName(fn)+"|log-on-success-only", dominatedByNilEdge(log, isWErr), log.Pos(), "a response that could not be written is not logged as answered")
	c.Check(rule, fnName(fn)+"|log-not-in-loop", !inCycle(log.Block()), log.Pos(), "logged once")
	okc := true
	for _, ci := range callInstrs(fn) {
		if _, isInc := isStatsIncrement(ci); isInc && !instrDominates(log, ci) {
			okc = false
		}
	}
	c.Check(rule, fnName(fn)+"|counters-after-log", okc, log.Pos(), "outcome counters are bumped only for responses that were written and logged")
}

// factPred matches one fact.
type factPred struct {
	desc string
	f    func(v ssa.Value, truth bool) bool
}

func c19Outcomes(c *Ctx) {
	rule := "C19.outcomes"
	c.Rule(rule, "table counter → condition: each IncrementCounter(<name>) is executed only when the facts it names hold at its block (if and switch forms alike): rcode tests on the response's Rcode, empty-answer, AA bit, cache lookup outcome, location class, authority decision")
	wfn := c.Func("dnsserver", "(*FBDNSDB).writeAndLog")
	serve := c.Func("dnsserver", "(*FBDNSDB).ServeDNSWithRCODE")
	fRcode := fieldByName(c, dnsPkg, "MsgHdr", "Rcode")
	fAA := fieldByName(c, dnsPkg, "MsgHdr", "Authoritative")
	fAnswer := fieldByName(c, dnsPkg, "Msg", "Answer")
	fMask := c.Field("db", "Location", "Mask")
	fLocID := c.Field("db", "Location", "LocID")

	cmpConst := func(loadPred func(ssa.Value) bool, k int64, eqWanted bool) func(ssa.Value, bool) bool {
		return func(v ssa.Value, truth bool) bool {
			b, ok := v.(*ssa.BinOp)
			if !ok || !loadPred(b.X) {
				return false
			}
			kk, isC := constInt(b.Y)
			if !isC || kk != k {
				return false
			}
			switch b.Op {
			case token.EQL:
				return truth == eqWanted
			case token.NEQ:
				return truth != eqWanted
			}
			return false
		}
	}
	isRcode := func(v ssa.Value) bool { return isFieldLoad(v, fRcode) }
	lenAnswer := func(v ssa.Value) bool {
		ln := isBuiltinCall(v, "len")
		return ln != nil && isFieldLoad(ln.Call.Args[0], fAnswer)
	}
	locByte := func(i int64) func(ssa.Value) bool {
		return func(v ssa.Value) bool {
			u, ok := unwrap(v).(*ssa.UnOp)
			if !ok || u.Op != token.MUL {
				return false
			}
			ia, ok := u.X.(*ssa.IndexAddr)
			if !ok {
				return false
			}
			if k, isC := constInt(ia.Index); !isC || k != i {
				return false
			}
			fa, ok := ia.X.(*ssa.FieldAddr)
			return ok && fieldOf(fa) == fLocID
		}
	}
	// LocID[i] == k, tested byte by byte or as a whole array (loc.LocID == [2]byte{0, 1})
	locByteIs := func(i, k int64) func(ssa.Value, bool) bool {
		single := cmpConst(locByte(i), k, true)
		return func(v ssa.Value, truth bool) bool {
			if single(v, truth) {
				return true
			}
			b, ok := v.(*ssa.BinOp)
			if !ok || (b.Op != token.EQL && b.Op != token.NEQ) || (b.Op == token.EQL) != truth {
				return false
			}
			for _, pr := range [][2]ssa.Value{{b.X, b.Y}, {b.Y, b.X}} {
				if !isFieldLoad(pr[0], fLocID) {
					continue
				}
				if arr, isArr := arrayConst(pr[1]); isArr && int(i) < len(arr) && arr[i] == k {
					return true
				}
			}
			return false
		}
	}
	maskPos := func(want bool) func(ssa.Value, bool) bool {
		return func(v ssa.Value, truth bool) bool {
			b, ok := v.(*ssa.BinOp)
			if !ok || !isFieldLoad(b.X, fMask) {
				return false
			}
			if k, isC := constInt(b.Y); !isC || k != 0 {
				return false
			}
			switch b.Op {
			case token.GTR, token.NEQ:
				return truth == want
			case token.LEQ, token.EQL:
				return truth != want
			}
			return false
		}
	}
	// values from calls in serve
	extractOf := func(method string, idx int) func(ssa.Value) bool {
		return func(v ssa.Value) bool {
			for s := range sourcesOf(v) {
				ex, ok := s.(*ssa.Extract)
				if !ok || ex.Index != idx {
					return false
				}
				call, ok := ex.Tuple.(*ssa.Call)
				if !ok {
					return false
				}
				cc := call.Common()
				name := ""
				if cc.IsInvoke() {
					name = cc.Method.Name()
				} else if f := calleeOf(cc); f != nil {
					name = f.Name()
				}
				if name != method {
					return false
				}
			}
			return len(sourcesOf(v)) > 0
		}
	}
	boolIs := func(p func(ssa.Value) bool, want bool) func(ssa.Value, bool) bool {
		return func(v ssa.Value, truth bool) bool { return p(v) && truth == want }
	}
	expired := func(want bool) func(ssa.Value, bool) bool { // entry.expiration < now
		return func(v ssa.Value, truth bool) bool {
			b, ok := v.(*ssa.BinOp)
			if !ok {
				return false
			}
			// the entry's expiration read as a field of a struct value or through the address of a local copy
			isExp := false
			switch fx := unwrap(b.X).(type) {
			case *ssa.Field:
				isExp = fieldName(fx.X.Type(), fx.Field) == "expiration"
			case *ssa.UnOp:
				if fa, isFA := fx.X.(*ssa.FieldAddr); isFA && fx.Op == token.MUL {
					isExp = fieldName(fa.X.Type(), fa.Field) == "expiration"
				}
			}
			if !isExp {
				return false
			}
			switch b.Op {
			case token.LSS, token.LEQ:
				return truth == want
			case token.GEQ, token.GTR:
				return truth != want
			}
			return false
		}
	}
	isAuth := extractOf("IsAuthoritative", 1)
	isNs := extractOf("IsAuthoritative", 0)

	table := map[string][]factPred{
		"DNS_queries_nxdomain":           {{"rcode == NameError", cmpConst(isRcode, 3, true)}},
		"DNS_queries_refused":            {{"rcode == Refused", cmpConst(isRcode, 5, true)}},
		"DNS_queries_badvers":            {{"rcode == BadVers", cmpConst(isRcode, 16, true)}},
		"DNS_queries_nodata":             {{"rcode == Success", cmpConst(isRcode, 0, true)}, {"len(Answer) == 0", cmpConst(lenAnswer, 0, true)}},
		"DNS_queries_notauthoritative":   {{"!Authoritative", boolIs(func(v ssa.Value) bool { return isFieldLoad(v, fAA) }, false)}},
		"DNS_cache.hit":                  {{"lru.Get ok", boolIs(extractOf("Get", 1), true)}, {"not expired", expired(false)}},
		"DNS_cache.expired":              {{"lru.Get ok", boolIs(extractOf("Get", 1), true)}, {"expired", expired(true)}},
		"DNS_cache.missed":               {{"lru.Get !ok", boolIs(extractOf("Get", 1), false)}},
		"DNS_location.ecs":               {{"loc.Mask > 0", maskPos(true)}},
		"DNS_location.empty":             {{"loc.Mask == 0", maskPos(false)}, {"LocID[0] == 0", locByteIs(0, 0)}, {"LocID[1] == 0", locByteIs(1, 0)}},
		"DNS_location.default":           {{"loc.Mask == 0", maskPos(false)}, {"LocID[0] == 0", locByteIs(0, 0)}, {"LocID[1] == 1", locByteIs(1, 1)}},
		"DNS_location.fallback_default":  {{"loc.Mask == 0", maskPos(false)}, {"LocID[0] == 0", locByteIs(0, 0)}, {"LocID[1] == 2", locByteIs(1, 2)}},
		"DNS_location.resolver":          {{"loc.Mask == 0", maskPos(false)}},
		"DNS_response.refused":           {{"!ns", boolIs(isNs, false)}, {"!auth", boolIs(isAuth, false)}},
		"DNS_response.authoritative":     {{"auth", func(v ssa.Value, truth bool) bool { return truth && authValue(v) }}},
		"DNS_response.not_authoritative": {{"!auth", func(v ssa.Value, truth bool) bool { return !truth && authValue(v) }}},
	}
	seen := map[string]int{}
	for _, fn := range []*ssa.Function{wfn, serve} {
		c.Examined(fn)
		type incSite struct {
			name string
			at   *ssa.BasicBlock
			ci   ssa.CallInstruction
		}
		var sites []incSite
		for _, ci := range callInstrs(fn) {
			name, isInc := isStatsIncrement(ci)
			if !isInc {
				continue
			}
			if name != "" {
				sites = append(sites, incSite{name, ci.Block(), ci})
				continue
			}
			// the key chosen on several branches and incremented once (a phi of constants): one site per constant, with
			// the facts of the edge that chooses it
			for _, leaf := range phiLeaves(ci.Common().Args[0]) {
				if s, ok := stringConst(leaf.V); ok {
					sites = append(sites, incSite{s, leaf.At, ci})
				}
			}
		}
		for _, st := range sites {
			name, ci := st.name, st.ci
			preds, tabled := table[name]
			if !tabled {
				continue
			}
			seen[name]++
			facts := factsAt(st.at)
			if st.at != ci.Block() {
				facts = append(facts, factsAt(ci.Block())...)
			}
			var missing []string
			for _, p := range preds {
				hit := false
				for _, f := range facts {
					if p.f(f.V, f.Truth) {
						hit = true
					}
				}
				if !hit {
					missing = append(missing, p.desc)
				}
			}
			c.Check(rule, fmt.Sprintf("%s|%s", fnName(fn), name), len(missing) == 0, ci.Pos(), fmt.Sprintf("counter %s must be control dependent on: %v; not established: %v", name, descs(preds), missing))
		}
	}
	for name := range table {
		if seen[name] != 1 {
			c.Check(rule, "counter|"+name+"|exactly-one-site", false, token.NoPos, fmt.Sprintf("%d increment sites for %s (expected exactly one)", seen[name], name))
		}
	}
	c.Floor(rule, 14)
}

// authValue: v is the authority flag of the query entry point: the auth result of IsAuthoritative, possibly re-evaluated for DS.
func authValue(v ssa.Value) bool {
	srcs := sourcesOf(v)
	if len(srcs) == 0 {
		return false
	}
	for s := range srcs {
		ex, ok := s.(*ssa.Extract)
		if !ok || ex.Index != 1 {
			return false
		}
		call, ok := ex.Tuple.(*ssa.Call)
		if !ok || !call.Common().IsInvoke() || call.Common().Method.Name() != "IsAuthoritative" {
			return false
		}
	}
	return true
}

func descs(ps []factPred) []string {
	var out []string
	for _, p := range ps {
		out = append(out, p.desc)
	}
	return out
}

func c19Once(c *Ctx) {
	rule := "C19.once"
	c.Rule(rule, "the total query counter is incremented exactly once, in the entry block of the query entry point; the per-type counter exactly once, outside loops, dominating every response write")
	serve := c.Func("dnsserver", "(*FBDNSDB).ServeDNSWithRCODE")
	c.Examined(serve)
	var total, typ []ssa.CallInstruction
	keyFn := c.TypesFunc("dnsserver", "typeToStatsKey")
	for _, ci := range callInstrs(serve) {
		name, isInc := isStatsIncrement(ci)
		if !isInc {
			continue
		}
		if name == "DNS_queries" {
			total = append(total, ci)
		}
		for s := range sourcesOf(ci.Common().Args[0]) {
			if cl, _ := callOfValue(s); cl != nil && calleeOf(cl.Common()) == keyFn {
				typ = append(typ, ci)
			}
		}
	}
	c.Check(rule, fnName(serve)+"|DNS_queries|once-at-entry", len(total) == 1 && total[0].Block() == serve.Blocks[0], serve.Pos(), fmt.Sprintf("%d increments of DNS_queries; every query is counted exactly once, whatever its fate", len(total)))
	okT := len(typ) == 1 && !inCycle(typ[0].Block())
	detail := fmt.Sprintf("%d increments of the per-type counter", len(typ))
	if okT {
		write := c.TypesFunc("dnsserver", "(*FBDNSDB).writeAndLog")
		for _, w := range callsTo(serve, func(f *types.Func) bool { return f == write }) {
			if !instrDominates(typ[0], w) {
				okT = false
				detail = "the response written at " + c.relPos(w.Pos()) + " is not counted by type"
			}
		}
	}
	c.Check(rule, fnName(serve)+"|DNS_query.<type>|once-before-any-response", okT, serve.Pos(), detail+" (the sum of the type counters equals the answered queries)")
}
