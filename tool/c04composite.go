package main

import (
	"fmt"
	"go/types"
	"sort"
	"strings"

	"golang.org/x/tools/go/ssa"
)

// c04CompositeLoc implements C04.composite-loc: a composite data line (`.` = SOA+NS+A, `&` = NS+A, `@` = MX+A, `S` =
// SRV+A) is compiled into several records. The location tag of the line applies to all of them: a component whose
// `lo` is left at its zero value becomes an untagged record, visible to the clients of every other location.
func c04CompositeLoc(c *Ctx) {
	rule := "C04.composite-loc"
	c.Rule(rule, "A5 in package dnsdata: for every record type that embeds two or more component records carrying a location, UnmarshalText gives each component its location — by calling an unmarshal method on that component, or by storing into its lo field a value loaded from another component's lo")
	scope := c.Pkg("dnsdata").Types.Scope()
	var hasLo func(t types.Type) bool
	hasLo = func(t types.Type) bool {
		st, ok := t.Underlying().(*types.Struct)
		if !ok {
			return false
		}
		for i := 0; i < st.NumFields(); i++ {
			f := st.Field(i)
			if f.Name() == "lo" {
				return true
			}
			if f.Embedded() && hasLo(f.Type()) {
				return true
			}
		}
		return false
	}
	n := 0
	for _, name := range scope.Names() {
		tn, ok := scope.Lookup(name).(*types.TypeName)
		if !ok {
			continue
		}
		named, ok := tn.Type().(*types.Named)
		if !ok {
			continue
		}
		st, ok := named.Underlying().(*types.Struct)
		if !ok {
			continue
		}
		var comps []*types.Var
		for i := 0; i < st.NumFields(); i++ {
			f := st.Field(i)
			if f.Embedded() {
				if _, isS := f.Type().Underlying().(*types.Struct); isS && hasLo(f.Type()) && f.Name() != "rshared" {
					comps = append(comps, f)
				}
			}
		}
		if len(comps) < 2 {
			continue
		}
		sel := c.Prog.SSA.MethodSets.MethodSet(types.NewPointer(named)).Lookup(tn.Pkg(), "UnmarshalText")
		if sel == nil {
			continue
		}
		fn := c.Prog.SSA.MethodValue(sel)
		if fn == nil || len(fn.Blocks) == 0 {
			continue
		}
		c.Examined(fn)
		for _, comp := range comps {
			n++
			got := ""
			// (a) an unmarshal method called on the component
			for _, ci := range callInstrs(fn) {
				sf := ci.Common().StaticCallee()
				if sf == nil || sf.Signature.Recv() == nil || len(ci.Common().Args) == 0 {
					continue
				}
				if !strings.Contains(strings.ToLower(sf.Name()), "unmarshal") {
					continue
				}
				if fa, isFA := ci.Common().Args[0].(*ssa.FieldAddr); isFA && fieldOf(fa) == comp {
					got = "parsed by " + fnName(sf)
				}
			}
			// (b) lo stored from another component's lo
			for _, b := range fn.Blocks {
				for _, in := range b.Instrs {
					s, isS := in.(*ssa.Store)
					if !isS {
						continue
					}
					fa, isFA := s.Addr.(*ssa.FieldAddr)
					if !isFA || fieldName(fa.X.Type(), fa.Field) != "lo" {
						continue
					}
					if !strings.Contains(pathOf(fa)+".", "."+comp.Name()+".") {
						continue
					}
					src := ""
					if ld, isLd := s.Val.(*ssa.UnOp); isLd {
						if sfa, isF := ld.X.(*ssa.FieldAddr); isF && fieldName(sfa.X.Type(), sfa.Field) == "lo" {
							src = pathOf(sfa)
						}
					}
					if src != "" && !strings.Contains(src+".", "."+comp.Name()+".") {
						got = "lo copied from " + src
					}
				}
			}
			c.Check(rule, fmt.Sprintf("%s|component:%s", name, comp.Name()), got != "", fn.Pos(), "the component's location: "+got)
		}
	}
	c.Floor(rule, 8)
}

// c04KeyVerbatim implements C04.key-verbatim: the location bytes of an owner-name key are the location id as declared.
// Only the NAME is case-folded, before it is put into the key; once the key is assembled it is returned as it is.
// Rewriting the assembled key (seed c04f: an ASCII fold over the whole key "instead of bytes.ToLower(domain)") also
// folds location ids that happen to contain a byte in 'A'..'Z': two locations collapse into one key space, and a
// client of one is served the other's records.
func c04KeyVerbatim(c *Ctx) {
	rule := "C04.key-verbatim"
	c.Rule(rule, "A8 in makedomainkey and makemapkey: no element of the returned key is stored after assembly (no IndexAddr store into a value that reaches the result), and the result is not the output of a bytes/strings rewriting function applied to the assembled key")
	for _, name := range []string{"makedomainkey", "makemapkey"} {
		fn := c.Func("dnsdata", name)
		c.Examined(fn)
		var bad []string
		resVals := map[ssa.Value]bool{}
		for _, leaf := range resultLeaves(fn, 0) {
			for v := range sourcesOf(leaf.V) {
				resVals[v] = true
			}
			if call, ok := leaf.V.(*ssa.Call); ok {
				if f := calleeOf(call.Common()); f != nil && f.Pkg() != nil && (f.Pkg().Path() == "bytes" || f.Pkg().Path() == "strings") && f.Type().(*types.Signature).Recv() == nil {
					bad = append(bad, fmt.Sprintf("result rewritten by %s.%s at %s", f.Pkg().Path(), f.Name(), c.relPos(call.Pos())))
				}
			}
		}
		for _, b := range fn.Blocks {
			for _, in := range b.Instrs {
				st, ok := in.(*ssa.Store)
				if !ok {
					continue
				}
				ia, ok := st.Addr.(*ssa.IndexAddr)
				if !ok {
					continue
				}
				for v := range sourcesOf(ia.X) {
					if resVals[v] {
						bad = append(bad, "element of the assembled key overwritten at "+c.relPos(st.Pos()))
					}
				}
			}
		}
		sort.Strings(bad)
		c.Check(rule, fnName(fn)+"|assembled-key-returned-as-is", len(bad) == 0, fn.Pos(), fmt.Sprintf("%v", bad))
	}
}
