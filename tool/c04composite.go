package main

import (
	"fmt"
	"go/types"
	"sort"
	"strings"

	"golang.org/x/tools/go/ssa"
)

// c04CompositeLoc implements C04.composite-loc: a composite data line (`.` = SOA+NS+A, `&` = NS+A, `@` = MX+A, `S` =
// SRV+A) is compiled into several records. The location tag of the line applies to all of them: a component whose
// `lo` is left at its zero value becomes an untagged record, visible to the clients of every other location.
func c04CompositeLoc(c *Ctx) {
	rule := "C04.composite-loc"
	c.Rule(rule, "A5 in package dnsdata: for every record type that embeds two or more component records carrying a location, UnmarshalText gives each component its location — by calling an unmarshal method on that component, or by storing into its lo field a value loaded from another component's lo")
	scope := c.Pkg("dnsdata").Types.Scope()
	var hasLo func(t types.Type) bool
	hasLo = func(t types.Type) bool {
		st, ok := t.Underlying().(*types.Struct)
		if !ok {
			return false
		}
		for i := 0; i < st.NumFields(); i++ {
			f := st.Field(i)
			if f.Name() == "lo" {
				return true
			}
			if f.Embedded() && hasLo(f.Type()) {
				return true
			}
		}
		return false
	}
	n := 0
	for _, name := range scope.Names() {
		tn, ok := scope.Lookup(name).(*types.TypeName)
		if !ok {
			continue
		}
		named, ok := tn.Type().(*types.Named)
		if !ok {
			continue
		}
		st, ok := named.Underlying().(*types.Struct)
		if !ok {
			continue
		}
		var comps []*types.Var
		for i := 0; i < st.NumFields(); i++ {
			f := st.Field(i)
			if f.Embedded() {
				if _, isS := f.Type().Underlying().(*types.Struct); isS && hasLo(f.Type()) && f.Name() != "rshared" {
					comps = append(comps, f)
				}
			}
		}
		if len(comps) < 2 {
			continue
		}
		sel := c.Prog.SSA.MethodSets.MethodSet(types.NewPointer(named)).Lookup(tn.Pkg(), "UnmarshalText")
		if sel == nil {
			continue
		}
		fn := c.Prog.SSA.MethodValue(sel)
		if fn == nil || len(fn.Blocks) == 0 {
			continue
		}
		c.Examined(fn)
		for _, comp := range comps {
			n++
			got := ""
			// (a) an unmarshal method called on the component
			for _, ci := range callInstrs(fn) {
				sf := ci.Common().StaticCallee()
				if sf == nil || sf.Signature.Recv() == nil || len(ci.Common().Args) == 0 {
					continue
				}
				if !strings.Contains(strings.ToLower(sf.Name()), "unmarshal") {
					continue
				}
				if fa, isFA := ci.Common().Args[0].(*ssa.FieldAddr); isFA && fieldOf(fa) == comp {
					got = "parsed by " + fnName(sf)
				}
			}
			// (b) lo stored from another component's lo
			for _, b := range fn.Blocks {
				for _, in := range b.Instrs {
					s, isS := in.(*ssa.Store)
					if !isS {
						continue
					}
					fa, isFA := s.Addr.(*ssa.FieldAddr)
					if !isFA || fieldName(fa.X.Type(), fa.Field) != "lo" {
						continue
					}
					if !strings.Contains(pathOf(fa)+".", "."+comp.Name()+".") {
						continue
					}
					src := ""
					if ld, isLd := s.Val.(*ssa.UnOp); isLd {
						if sfa, isF := ld.X.(*ssa.FieldAddr); isF && fieldName(sfa.X.Type(), sfa.Field) == "lo" {
							src = pathOf(sfa)
						}
					}
					if src != "" && !strings.Contains(src+".", "."+comp.Name()+".") {
						got = "lo copied from " + src
					}
				}
			}
			c.Check(rule, fmt.Sprintf("%s|component:%s", name, comp.Name()), got != "", fn.Pos(), "the component's location: "+got)
		}
	}
	c.Floor(rule, 8)
}

// c04KeyVerbatim implements C04.key-verbatim: the location bytes of an owner-name key are the location id as declared.
// Only the NAME is case-folded, before it is put into the key; once the key is assembled it is returned as it is.
// Rewriting the assembled key (seed c04f: an ASCII fold over the whole key "instead of bytes.ToLower(domain)") also
// folds location ids that happen to contain a byte in 'A'..'Z': two locations collapse into one key space, and a
// client of one is served the other's records.
func c04KeyVerbatim(c *Ctx) {
	rule := "C04.key-verbatim"
	c.Rule(rule, "A8 in makedomainkey and makemapkey: no element of the returned key is stored after assembly (no IndexAddr store into a value that reaches the result), and the result is not the output of a bytes/strings rewriting function applied to the assembled key")
	for _, name := range []string{"makedomainkey", "makemapkey"} {
		fn := c.Func("dnsdata", name)
		c.Examined(fn)
		var bad []string
		resVals := map[ssa.Value]bool{}
		for _, leaf := range resultLeaves(fn, 0) {
			for v := range sourcesOf(leaf.V) {
				resVals[v] = true
			}
			if call, ok := leaf.V.(*ssa.Call); ok {
				if f := calleeOf(call.Common()); f != nil && f.Pkg() != nil && (f.Pkg().Path() == "bytes" || f.Pkg().Path() == "strings") && f.Type().(*types.Signature).Recv() == nil {
					bad = append(bad, fmt.Sprintf("result rewritten by %s.%s at %s", f.Pkg().Path(), f.Name(), c.relPos(call.Pos())))
				}
				// the assembled key handed to a function of the module that stores into it or returns something else
				if sf := call.Common().StaticCallee(); sf != nil && sf.Pkg != nil && c.isOurs(sf.Pkg.Pkg) && len(sf.Blocks) > 0 {
					for i, a := range call.Common().Args {
						if i >= len(sf.Params) || !isByteSlice(a.Type()) {
							continue
						}
						fromBuf := false
						for v := range backSlice(a, nil) {
							if cl, isCall := v.(*ssa.Call); isCall {
								if g := calleeOf(cl.Common()); g != nil && g.Name() == "Bytes" {
									fromBuf = true
								}
							}
							if isBuiltinCall(v, "append") != nil {
								fromBuf = true
							}
						}
						if !fromBuf {
							continue
						}
						for _, b := range sf.Blocks {
							for _, in := range b.Instrs {
								if st, isSt := in.(*ssa.Store); isSt {
									if ia, isIA := st.Addr.(*ssa.IndexAddr); isIA && sourcesOf(ia.X)[sf.Params[i]] {
										bad = append(bad, fmt.Sprintf("assembled key rewritten in place by %s at %s", fnName(sf), c.relPos(st.Pos())))
									}
								}
							}
						}
					}
				}
			}
		}
		for _, b := range fn.Blocks {
			for _, in := range b.Instrs {
				st, ok := in.(*ssa.Store)
				if !ok {
					continue
				}
				ia, ok := st.Addr.(*ssa.IndexAddr)
				if !ok {
					continue
				}
				for v := range sourcesOf(ia.X) {
					if resVals[v] {
						bad = append(bad, "element of the assembled key overwritten at "+c.relPos(st.Pos()))
					}
				}
			}
		}
		sort.Strings(bad)
		c.Check(rule, fnName(fn)+"|assembled-key-returned-as-is", len(bad) == 0, fn.Pos(), fmt.Sprintf("%v", bad))
	}
}

// c04PostAlways implements C01/C04.post-always on the closest-key reader: the rows of a name are collected by the row
// callback during the look-ups of an iteration and only BECOME part of the answer in the per-iteration callback that
// follows them (the weighted sampler is flushed there, the found flag is read there). Every way out of the walk that
// lies behind a look-up — other than a look-up error — therefore comes after that callback. Leaving at the data border
// first (seed c04r4i) drops the located client's own address records of the first name of the database.
func c04PostAlways(c *Ctx, rule string) {
	c.Rule(rule, "A2 in (*sortedDataReader).find: inside the walk loop, every exit branch that is reachable from a TryForEach look-up of the same iteration and does not test an error is dominated by the call of the post-iteration callback (a parameter of function type without arguments)")
	fn := c.Func("db", "(*sortedDataReader).find")
	c.Examined(fn)
	var lookups, posts []ssa.CallInstruction
	for _, ci := range callInstrs(fn) {
		cc := ci.Common()
		if cc.IsInvoke() && cc.Method.Name() == "TryForEach" {
			lookups = append(lookups, ci)
		}
		if sf := cc.StaticCallee(); sf != nil && sf.Name() == "TryForEach" {
			lookups = append(lookups, ci)
		}
		if p, ok := cc.Value.(*ssa.Parameter); ok && !cc.IsInvoke() {
			if sig, ok := p.Type().Underlying().(*types.Signature); ok && sig.Params().Len() == 0 && sig.Results().Len() == 1 {
				posts = append(posts, ci)
			}
		}
	}
	if len(lookups) == 0 || len(posts) == 0 {
		c.Undecided(rule, fnName(fn)+"|anchors", fn.Pos(), fmt.Sprintf("look-ups: %d, post-iteration callback calls: %d", len(lookups), len(posts)))
		return
	}
	loops := naturalLoops(fn)
	n := 0
	for h, body := range loops {
		if !body[lookups[0].Block()] {
			continue
		}
		for _, b := range fn.Blocks {
			if !body[b] {
				continue
			}
			iff, ok := b.Instrs[len(b.Instrs)-1].(*ssa.If)
			if !ok {
				continue
			}
			exits := false
			for _, s := range b.Succs {
				if !body[s] {
					exits = true
				}
			}
			if !exits {
				continue
			}
			// behind a look-up of this iteration?
			behind := false
			for _, lk := range lookups {
				if body[lk.Block()] && reachable(lk.Block(), map[*ssa.BasicBlock]bool{h: true})[b] {
					behind = true
				}
			}
			if !behind {
				continue
			}
			// error test?
			isErr := false
			if bo, ok := iff.Cond.(*ssa.BinOp); ok && (isNilConst(bo.X) || isNilConst(bo.Y)) {
				x := bo.X
				if isNilConst(x) {
					x = bo.Y
				}
				if x.Type().String() == "error" {
					isErr = true
				}
			}
			// the callback's own result?
			isPost := false
			for _, p := range posts {
				if v := valueOfCall(p); v != nil {
					cond, _ := stripNot(iff.Cond)
					if cond == v {
						isPost = true
					}
				}
			}
			if isErr || isPost {
				continue
			}
			n++
			dominated := false
			for _, p := range posts {
				if instrDominates(p, iff) {
					dominated = true
				}
			}
			c.Check(rule, fmt.Sprintf("%s|exit#%d@%s|after-the-post-iteration-callback", fnName(fn), n, describeCond(iff.Cond)), dominated, iff.Pos(), "a way out of the walk behind a look-up that skips the per-iteration callback loses what the look-up collected")
		}
	}
	c.Floor(rule, 1)
}
