package main

import (
	"fmt"
	"go/types"

	"golang.org/x/tools/go/ssa"
)

// handoverRule: a slice (or map) sent on a channel belongs to the receiver from then on. The sender must not write
// into the same backing store afterwards — appending to a re-sliced `buf[:0]` of the buffer it has just sent
// overwrites what the consumer is still reading (lost and duplicated records, and a data race).
//
// For every send of a slice-typed SSA value v: T = values that may share v's backing array and are computed after
// the send (re-slices, conversions, append results, phis fed by them). "After the send" is decided on the CFG:
// reachable from the send without re-executing v's defining instruction (which would produce a new dynamic instance).
// Violations: append(x, ...) or an element store through x, x in T (or x == v after the send).
func handoverRule(c *Ctx, rule string, pkgs ...string) {
	c.Rule(rule, "ownership hand-over on SSA + CFG: after a slice value is sent on a channel, no append to it and no element store through it (or through a re-slice / phi / append result derived from it after the send) is reachable, unless the defining instruction of the sent value is executed again first")
	nSend := 0
	for _, fn := range c.OurFuncs(pkgs...) {
		if c.isMockFile(fn.Pos()) {
			continue
		}
		k := 0
		for _, b := range fn.Blocks {
			for _, in := range b.Instrs {
				sd, ok := in.(*ssa.Send)
				if !ok {
					continue
				}
				if _, isSl := sd.X.Type().Underlying().(*types.Slice); !isSl {
					continue
				}
				nSend++
				k++
				c.Examined(fn)
				bad := handoverViolations(sd)
				c.Check(rule, fmt.Sprintf("%s|send#%d:%s", fnName(fn), k, describeValue(sd.X)), len(bad) == 0, sd.Pos(),
					fmt.Sprintf("writes into the buffer after it was handed over: %v", bad))
			}
		}
	}
	c.CheckConst(rule, "matcher|slice-sends-seen", nSend >= 1, 0, fmt.Sprintf("%d sends of slice values examined", nSend))
}

func handoverViolations(sd *ssa.Send) []string {
	fn := sd.Parent()
	v := sd.X
	var defBlock *ssa.BasicBlock
	if vi, ok := v.(ssa.Instruction); ok {
		if _, isPhi := v.(*ssa.Phi); !isPhi {
			defBlock = vi.Block()
		}
	}
	// blocks reachable from the send's block without entering defBlock again
	reach := map[*ssa.BasicBlock]bool{}
	var walk func(b *ssa.BasicBlock)
	walk = func(b *ssa.BasicBlock) {
		for _, s := range b.Succs {
			if s == defBlock || reach[s] {
				continue
			}
			reach[s] = true
			walk(s)
		}
	}
	walk(sd.Block())
	after := func(in ssa.Instruction) bool {
		if in.Block() == sd.Block() {
			if instrIndex(in) > instrIndex(sd) {
				return true
			}
			return reach[in.Block()] && sd.Block() != defBlock
		}
		return reach[in.Block()]
	}
	T := map[ssa.Value]bool{}
	isT := func(x ssa.Value) bool { return T[x] }
	for changed := true; changed; {
		changed = false
		for _, b := range fn.Blocks {
			for _, in := range b.Instrs {
				val, isVal := in.(ssa.Value)
				if !isVal || T[val] {
					continue
				}
				add := false
				switch x := in.(type) {
				case *ssa.Slice:
					add = isT(x.X) || (x.X == v && after(in))
				case *ssa.ChangeType:
					add = isT(x.X) || (x.X == v && after(in))
				case *ssa.Call:
					if bi, ok := x.Call.Value.(*ssa.Builtin); ok && bi.Name() == "append" {
						add = isT(x.Call.Args[0]) || (x.Call.Args[0] == v && after(in))
					}
				case *ssa.Phi:
					for i, e := range x.Edges {
						pred := x.Block().Preds[i]
						if isT(e) {
							add = true
						}
						if e == v && (pred == sd.Block() || reach[pred]) && !(pred == defBlock && pred != sd.Block()) {
							add = true
						}
					}
				}
				if add {
					T[val] = true
					changed = true
				}
			}
		}
	}
	var bad []string
	for _, b := range fn.Blocks {
		for _, in := range b.Instrs {
			switch x := in.(type) {
			case *ssa.Call:
				if bi, ok := x.Call.Value.(*ssa.Builtin); ok && bi.Name() == "append" {
					a := x.Call.Args[0]
					if isT(a) || (a == v && after(in)) {
						bad = append(bad, "append at "+fn.Prog.Fset.Position(x.Pos()).String())
					}
				}
			case *ssa.Store:
				if ia, ok := x.Addr.(*ssa.IndexAddr); ok {
					if isT(ia.X) || (ia.X == v && after(in)) {
						bad = append(bad, "element store at "+fn.Prog.Fset.Position(x.Pos()).String())
					}
				}
			}
		}
	}
	return bad
}
