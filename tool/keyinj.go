package main

import (
	"fmt"
	"go/token"
	"go/types"
	"strings"

	"golang.org/x/tools/go/ssa"
)

// Injectivity of a textual key: the response cache key must be a prefix-decodable encoding of
// (location, type, class, name); otherwise two different queries share one cache entry.

type keyTok struct {
	kind string // lit | fixed | numvar | str
	text string // literal text, or a description
}

func (t keyTok) String() string {
	if t.kind == "lit" {
		return fmt.Sprintf("%q", t.text)
	}
	return t.kind + "(" + t.text + ")"
}

func maxDecimalDigits(t types.Type) (int, bool) {
	bt, ok := t.Underlying().(*types.Basic)
	if !ok {
		return 0, false
	}
	switch bt.Kind() {
	case types.Uint8:
		return 3, true
	case types.Uint16:
		return 5, true
	case types.Uint32:
		return 10, true
	case types.Uint64, types.Uint, types.Uintptr:
		return 20, true
	}
	return 0, false // signed: a sign may appear
}

// sprintfTokens turns fmt.Sprintf(format, args...) into key tokens.
func sprintfTokens(call *ssa.Call) ([]keyTok, bool) {
	format, ok := stringConst(call.Call.Args[0])
	if !ok {
		return nil, false
	}
	// argument types, from the stores into the varargs array
	var argT []types.Type
	if len(call.Call.Args) > 1 {
		if sl, ok := call.Call.Args[1].(*ssa.Slice); ok {
			if al, ok := sl.X.(*ssa.Alloc); ok {
				n := int(al.Type().(*types.Pointer).Elem().Underlying().(*types.Array).Len())
				argT = make([]types.Type, n)
				for _, r := range *al.Referrers() {
					ia, ok := r.(*ssa.IndexAddr)
					if !ok {
						continue
					}
					k, isK := constInt(ia.Index)
					if !isK {
						return nil, false
					}
					for _, rr := range *ia.Referrers() {
						if st, ok := rr.(*ssa.Store); ok && st.Addr == ia {
							if mi, ok := st.Val.(*ssa.MakeInterface); ok {
								argT[k] = mi.X.Type()
							} else {
								argT[k] = st.Val.Type()
							}
						}
					}
				}
			}
		}
	}
	var toks []keyTok
	lit := ""
	flush := func() {
		if lit != "" {
			toks = append(toks, keyTok{"lit", lit})
			lit = ""
		}
	}
	ai := 0
	for i := 0; i < len(format); i++ {
		if format[i] != '%' {
			lit += string(format[i])
			continue
		}
		j := i + 1
		spec := ""
		for j < len(format) && strings.ContainsRune(".0123456789-+# ", rune(format[j])) {
			spec += string(format[j])
			j++
		}
		if j >= len(format) {
			return nil, false
		}
		verb := format[j]
		i = j
		if verb == '%' {
			lit += "%"
			continue
		}
		flush()
		if ai >= len(argT) || argT[ai] == nil {
			return nil, false
		}
		t := argT[ai]
		ai++
		// minimum number of digits requested
		min := 0
		if k := strings.IndexByte(spec, '.'); k >= 0 {
			fmt.Sscanf(spec[k+1:], "%d", &min)
		} else if strings.HasPrefix(spec, "0") {
			fmt.Sscanf(spec, "%d", &min)
		}
		switch verb {
		case 'd':
			el := t
			fixedShape := true
			if at, ok := t.Underlying().(*types.Array); ok {
				el = at.Elem() // printed as "[ddd ddd]": fixed when every element is
			} else if _, ok := t.Underlying().(*types.Slice); ok {
				fixedShape = false
			}
			md, isU := maxDecimalDigits(el)
			if fixedShape && isU && min >= md {
				toks = append(toks, keyTok{"fixed", fmt.Sprintf("%%%s%c of %s", spec, verb, t)})
			} else if _, isArr := t.Underlying().(*types.Array); isArr || !fixedShape {
				toks = append(toks, keyTok{"str", fmt.Sprintf("%%%s%c of %s", spec, verb, t)})
			} else {
				toks = append(toks, keyTok{"numvar", fmt.Sprintf("%%%s%c of %s (up to %d digits)", spec, verb, t, md)})
			}
		default:
			toks = append(toks, keyTok{"str", fmt.Sprintf("%%%s%c of %s", spec, verb, t)})
		}
	}
	flush()
	return toks, true
}

// builderTokens follows a []byte built by append / strconv.Append* back to its creation.
func builderTokens(v ssa.Value, depth int) ([]keyTok, bool) {
	if depth > 40 {
		return nil, false
	}
	switch x := v.(type) {
	case *ssa.MakeSlice:
		return nil, true
	case *ssa.Slice:
		if al, ok := x.X.(*ssa.Alloc); ok && al.Comment == "makeslice" {
			return nil, true
		}
		return builderTokens(x.X, depth+1)
	case *ssa.Const:
		if x.IsNil() {
			return nil, true
		}
	case *ssa.Call:
		if bi, ok := x.Call.Value.(*ssa.Builtin); ok && bi.Name() == "append" {
			prev, ok := builderTokens(x.Call.Args[0], depth+1)
			if !ok {
				return nil, false
			}
			arg := x.Call.Args[1]
			// append(k, 'c') : slice of a varargs array with constant stores; append(k, s...) : string or []byte
			if s, isS := evalBytes(arg); isS {
				return append(prev, keyTok{"lit", s}), true
			}
			if sl, isSl := arg.(*ssa.Slice); isSl {
				if al, isAl := sl.X.(*ssa.Alloc); isAl {
					if at, isArr := al.Type().(*types.Pointer).Elem().Underlying().(*types.Array); isArr {
						return append(prev, keyTok{"fixed", fmt.Sprintf("%d raw byte(s)", at.Len())}), true
					}
				}
			}
			return append(prev, keyTok{"str", "appended " + arg.Type().String()}), true
		}
		if f := calleeOf(x.Common()); f != nil && f.Pkg() != nil && f.Pkg().Path() == "strconv" && strings.HasPrefix(f.Name(), "Append") {
			prev, ok := builderTokens(x.Call.Args[0], depth+1)
			if !ok {
				return nil, false
			}
			switch f.Name() {
			case "AppendUint", "AppendInt":
				return append(prev, keyTok{"numvar", "strconv." + f.Name()}), true
			}
			return append(prev, keyTok{"str", "strconv." + f.Name()}), true
		}
	case *ssa.Phi:
		// builders with branches are not understood
		return nil, false
	}
	return nil, false
}

// keyTokens derives the token sequence of a string key value (one level of module helpers is followed).
func keyTokens(c *Ctx, v ssa.Value, depth int) ([]keyTok, string, bool) {
	srcs := sourcesOf(v)
	var only ssa.Value
	for s := range srcs {
		if s == nil {
			continue
		}
		if k, isC := unwrap(s).(*ssa.Const); isC && k.Value != nil {
			continue // the "" initial value
		}
		if only != nil && only != s {
			return nil, "the key has several non-constant sources", false
		}
		only = s
	}
	if only == nil {
		return nil, "no non-constant source", false
	}
	if cv, isCv := only.(*ssa.Convert); isCv {
		if bt, ok := cv.Type().Underlying().(*types.Basic); ok && bt.Kind() == types.String {
			if _, isSl := cv.X.Type().Underlying().(*types.Slice); isSl {
				t, ok := builderTokens(cv.X, 0)
				return t, "byte builder", ok
			}
		}
	}
	switch x := unwrap(only).(type) {
	case *ssa.Call:
		if f := calleeOf(x.Common()); f != nil && f.Pkg() != nil && f.Pkg().Path() == "fmt" && f.Name() == "Sprintf" {
			t, ok := sprintfTokens(x)
			return t, "fmt.Sprintf", ok
		}
		if sf := x.Common().StaticCallee(); sf != nil && len(sf.Blocks) > 0 && c.isOurs(sf.Pkg.Pkg) && depth < 2 {
			c.Examined(sf)
			rets := returnsOf(sf)
			if len(rets) != 1 {
				return nil, "key helper with several returns", false
			}
			t, how, ok := keyTokens(c, rets[0].Results[0], depth+1)
			return t, fnName(sf) + ": " + how, ok
		}
	case *ssa.Convert:
		if bt, ok := x.Type().Underlying().(*types.Basic); ok && bt.Kind() == types.String {
			t, ok := builderTokens(x.X, 0)
			return t, "byte builder", ok
		}
	case *ssa.BinOp:
		// string concatenation a + b
		l, _, ok1 := keyTokens(c, x.X, depth)
		r, _, ok2 := keyTokens(c, x.Y, depth)
		if ok1 && ok2 {
			return append(l, r...), "concatenation", true
		}
	}
	if depth > 0 || true {
		if bt, ok := only.Type().Underlying().(*types.Basic); ok && bt.Info()&types.IsString != 0 {
			if _, isBin := unwrap(only).(*ssa.BinOp); !isBin {
				// an opaque string (a call result, a parameter): one variable-length component
				return []keyTok{{"str", describeValue(unwrap(only))}}, "opaque string", true
			}
		}
	}
	return nil, fmt.Sprintf("key built by an unrecognised form (%T)", unwrap(only)), false
}

// keyInjective decides prefix-decodability of a token sequence.
func keyInjective(toks []keyTok) (bool, string) {
	for i := 0; i+1 < len(toks); i++ {
		t, next := toks[i], toks[i+1]
		switch t.kind {
		case "lit", "fixed":
		case "numvar":
			if !(next.kind == "lit" && len(next.text) > 0 && (next.text[0] < '0' || next.text[0] > '9')) {
				return false, fmt.Sprintf("variable-width number %s is followed by %s: where one field ends and the next begins is ambiguous", t, next)
			}
		default:
			return false, fmt.Sprintf("variable-length component %s is not the last one", t)
		}
	}
	return true, ""
}

// cacheKeyInjective is the rule shared by C04.cache-key and C12.key-injective.
func cacheKeyInjective(c *Ctx, rule string) {
	c.Rule(rule, "A4 layout of the response cache key: the key handed to lru.Get is a sequence of components (Sprintf verbs with the static types of their arguments, or the appends of a byte builder, one level of module helpers followed) in which every component but the last is a literal, has a fixed width (zero-padded to at least the maximum number of digits of its unsigned type, or raw bytes of fixed count), or is a variable-width number followed by a non-digit literal: two different (location, type, class, name) tuples can never yield the same key")
	serve := c.Func("dnsserver", "(*FBDNSDB).ServeDNSWithRCODE")
	var get *ssa.Call
	for _, ci := range callInstrs(serve) {
		if call, ok := ci.(*ssa.Call); ok && isLruMethod(calleeOf(call.Common()), "Get") {
			get = call
		}
	}
	if get == nil {
		c.Undecided(rule, fnName(serve)+"|get", serve.Pos(), "no lru.Get found")
		return
	}
	if n, desc, isStruct := structKeyComponents(get.Call.Args[1]); isStruct {
		// a comparable struct used as the map key: the components are compared field by field, nothing is concatenated
		c.Check(rule, fnName(serve)+"|key-is-prefix-decodable", true, get.Pos(), "struct key, compared field by field: "+desc)
		c.Check(rule, fnName(serve)+"|key-has-4-components", n >= 4, get.Pos(), fmt.Sprintf("%d fields set from the query (location, type, class, name)", n))
		return
	}
	toks, how, ok := keyTokens(c, get.Call.Args[1], 0)
	if !ok {
		c.Undecided(rule, fnName(serve)+"|key-form", get.Pos(), how)
		return
	}
	var ts []string
	for _, t := range toks {
		ts = append(ts, t.String())
	}
	inj, why := keyInjective(toks)
	c.Check(rule, fnName(serve)+"|key-is-prefix-decodable", inj, get.Pos(), fmt.Sprintf("%s: %s %s", how, strings.Join(ts, " "), why))
	c.Check(rule, fnName(serve)+"|key-has-4-components", len(toks) >= 4, get.Pos(), fmt.Sprintf("%d components (location, type, class, name)", len(toks)))
}

// structKeyComponents recognises a cache key that is a struct value built in a local (or a composite literal): it
// returns the number of fields of plain comparable type (numbers, strings, arrays of those) that are stored from a
// non-constant value. ok=false if v is not such a struct or any field has another type (pointers and interfaces
// compare by identity / dynamic type, which is not what the key promises).
func structKeyComponents(v ssa.Value) (int, string, bool) {
	v = unwrap(v)
	st, ok := v.Type().Underlying().(*types.Struct)
	if !ok {
		return 0, "", false
	}
	var plain func(t types.Type) bool
	plain = func(t types.Type) bool {
		switch u := t.Underlying().(type) {
		case *types.Basic:
			return u.Info()&(types.IsInteger|types.IsString|types.IsBoolean) != 0
		case *types.Array:
			return plain(u.Elem())
		}
		return false
	}
	for i := 0; i < st.NumFields(); i++ {
		if !plain(st.Field(i).Type()) {
			return 0, "", false
		}
	}
	ld, ok := v.(*ssa.UnOp)
	if !ok || ld.Op != token.MUL {
		return 0, "", false
	}
	al, ok := ld.X.(*ssa.Alloc)
	if !ok || al.Referrers() == nil {
		return 0, "", false
	}
	set := map[int]bool{}
	var walkStores func(addr ssa.Value)
	walkStores = func(addr ssa.Value) {
		for _, r := range *addr.Referrers() {
			switch x := r.(type) {
			case *ssa.FieldAddr:
				if x.X != addr || x.Referrers() == nil {
					continue
				}
				for _, rr := range *x.Referrers() {
					if s, isS := rr.(*ssa.Store); isS && s.Addr == x {
						if _, isK := unwrap(s.Val).(*ssa.Const); !isK {
							set[x.Field] = true
						}
					}
				}
			case *ssa.Store:
				// whole-struct store: cacheKey = T{...} (a load of a composite literal)
				if x.Addr == addr {
					if l, isL := unwrap(x.Val).(*ssa.UnOp); isL && l.Op == token.MUL {
						if a2, isA := l.X.(*ssa.Alloc); isA && a2 != al && a2.Referrers() != nil {
							walkStores(a2)
						}
					}
				}
			}
		}
	}
	walkStores(al)
	var names []string
	for i := 0; i < st.NumFields(); i++ {
		if set[i] {
			names = append(names, st.Field(i).Name())
		}
	}
	return len(names), strings.Join(names, ", "), true
}
