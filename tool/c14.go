package main

import (
	"fmt"
	"go/token"
	"go/types"
	"sort"
	"strings"

	"golang.org/x/tools/go/ssa"
)

func init() {
	register(&propDef{
		ID:          "C14",
		Title:       "Serving and reloading concurrently is race free",
		Run:         runC14,
		Explanation: "Structural necessary conditions of race freedom, decided on the SSA form of every function of the module: (lockset) each tabled shared field is only touched with its mutex held; (order) the lock-acquisition order graph (locks held locally or possibly held by a caller, goroutine starts carry none) is acyclic; (block) no blocking channel operation in packages dnsserver/db while the reload lock may be held, except the timeout-bounded select of (*db.DB).Reload; (ctxpool) pooled CDB contexts are Reset before they go back to the pool; (globals) code reachable from the concurrent roots never writes package-level state without a mutex; (close-atomic) the decision to close a backend and the close are one critical section of DB.l. Not decided: race freedom of state outside the table, liveness; no schedule is ever executed.",
	})
}

func runC14(c *Ctx) {
	c.locksetRows("C14.lockset", func(lockRow) bool { return true })
	c.Floor("C14.lockset", 30)
	c14OrderAndBlock(c)
	c14CtxPool(c)
	c14Globals(c)
	c14CloseAtomic(c)
	handoverRule(c, "C14.handover")
	c14Reentrant(c)
	c14PoolAccounting(c)
	c19Recheck(c, "C14")
	// "do not crash": a served backend closed by a late reload result, or a reader released twice, is a use after
	// close / unmap under the feet of in-flight queries (seeds c14f, c14g)
	c.importRules(runC06, "C06", map[string]string{"alias-guard": "served-not-closed", "pairing": "reader-pairing", "handshake": "late-result"})
}

// lockClassOf names the class of a mutex from the receiver of a Lock call:
// "pkg.Type.field" for struct fields, "local:fn:name" for local mutexes.
func lockClassOf(recv ssa.Value, fn *ssa.Function) string {
	switch x := recv.(type) {
	case *ssa.FieldAddr:
		t := x.X.Type()
		if p, ok := t.Underlying().(*types.Pointer); ok {
			t = p.Elem()
		}
		name := t.String()
		if n, ok := t.(*types.Named); ok {
			name = n.Obj().Pkg().Name() + "." + n.Obj().Name()
		}
		return name + "." + fieldName(x.X.Type(), x.Field)
	case *ssa.Alloc:
		root := fn
		for root.Parent() != nil {
			root = root.Parent()
		}
		return "local:" + fnName(root) + ":" + x.Comment
	case *ssa.FreeVar:
		root := fn
		for root.Parent() != nil {
			root = root.Parent()
		}
		return "local:" + fnName(root) + ":" + x.Name()
	case *ssa.UnOp:
		if x.Op == token.MUL {
			// mutex held by pointer (RDB.writeMutex *sync.Mutex)
			return lockClassOf(x.X, fn)
		}
	case *ssa.Global:
		return "global:" + x.Pkg.Pkg.Name() + "." + x.Name()
	}
	return ""
}

func c14OrderAndBlock(c *Ctx) {
	orule, brule := "C14.order", "C14.block"
	c.Rule(orule, "lock-order graph over all module functions: an edge A→B when lock class B is acquired while A is definitely held in the function or possibly held by some caller (call graph, not across go statements); the graph must be acyclic")
	c.Rule(brule, "in packages dnsserver and db no channel send, receive or blocking select executes while FBDNSDB.reloadMu is (possibly) held, except in the allow-listed timeout-bounded select")
	fns := c.OurFuncs()
	cg := c.CallGraph()

	// classes definitely held at an instruction, from the must-lockset
	classesAt := func(fn *ssa.Function, in ssa.Instruction) map[string]bool {
		out := map[string]bool{}
		ls := computeLockset(fn)
		st := ls.At(in)
		if len(st) == 0 {
			return out
		}
		// map paths back to classes via the lock calls of this function
		for _, b := range fn.Blocks {
			for _, x := range b.Instrs {
				if call, ok := x.(*ssa.Call); ok {
					if k, recv := lockOp(call.Common()); k == "lock" || k == "rlock" {
						if p := pathOf(recv); p != "" && st[p] != modeNone {
							if cl := lockClassOf(recv, fn); cl != "" {
								out[cl] = true
							}
						}
					}
				}
			}
		}
		return out
	}
	// may-held on entry, fixpoint
	entry := map[*ssa.Function]map[string]bool{}
	for _, fn := range fns {
		entry[fn] = map[string]bool{}
	}
	inSet := map[*ssa.Function]bool{}
	for _, fn := range fns {
		inSet[fn] = true
	}
	add := func(fn *ssa.Function, cl string) bool {
		if !inSet[fn] || entry[fn][cl] {
			return false
		}
		entry[fn][cl] = true
		return true
	}
	for changed, iter := true, 0; changed && iter < 50; iter++ {
		changed = false
		for _, fn := range fns {
			node := cg.Nodes[fn]
			if node != nil {
				for _, e := range node.Out {
					if _, isGo := e.Site.(*ssa.Go); isGo {
						continue
					}
					callee := e.Callee.Func
					if !inSet[callee] {
						continue
					}
					held := classesAt(fn, e.Site)
					for cl := range entry[fn] {
						held[cl] = true
					}
					for cl := range held {
						if add(callee, cl) {
							changed = true
						}
					}
				}
			}
			// closures created here and not started as goroutines run with the creator's locks
			for _, b := range fn.Blocks {
				for _, x := range b.Instrs {
					mc, ok := x.(*ssa.MakeClosure)
					if !ok {
						continue
					}
					isGo := false
					if refs := mc.Referrers(); refs != nil {
						for _, r := range *refs {
							if g, ok := r.(*ssa.Go); ok && g.Call.Value == mc {
								isGo = true
							}
						}
					}
					if isGo {
						continue
					}
					held := classesAt(fn, mc)
					for cl := range entry[fn] {
						held[cl] = true
					}
					for cl := range held {
						if add(mc.Fn.(*ssa.Function), cl) {
							changed = true
						}
					}
				}
			}
		}
	}
	// edges
	type edge struct{ a, b string }
	edges := map[edge]string{}
	nacq := 0
	for _, fn := range fns {
		for _, b := range fn.Blocks {
			for _, x := range b.Instrs {
				call, ok := x.(*ssa.Call)
				if !ok {
					continue
				}
				k, recv := lockOp(call.Common())
				if k != "lock" && k != "rlock" {
					continue
				}
				cl := lockClassOf(recv, fn)
				if cl == "" {
					c.Undecided(orule, fnName(fn)+"|unnamed-mutex", call.Pos(), "cannot name the mutex being locked")
					continue
				}
				nacq++
				held := classesAt(fn, call)
				for h := range entry[fn] {
					held[h] = true
				}
				for h := range held {
					if h == cl {
						continue // same class: different instances (e.g. two generations), or re-entrant read lock; not an order edge
					}
					e := edge{h, cl}
					if _, ok := edges[e]; !ok {
						edges[e] = fmt.Sprintf("%s at %s", fnName(fn), c.relPos(call.Pos()))
					}
				}
			}
		}
	}
	// cycle detection
	adj := map[string][]string{}
	for e := range edges {
		adj[e.a] = append(adj[e.a], e.b)
	}
	for k := range adj {
		sort.Strings(adj[k])
	}
	var cyc []string
	state := map[string]int{}
	var stack []string
	var dfs func(n string) bool
	dfs = func(n string) bool {
		state[n] = 1
		stack = append(stack, n)
		for _, m := range adj[n] {
			if state[m] == 1 {
				i := 0
				for j, s := range stack {
					if s == m {
						i = j
					}
				}
				cyc = append(append([]string{}, stack[i:]...), m)
				return true
			}
			if state[m] == 0 && dfs(m) {
				return true
			}
		}
		stack = stack[:len(stack)-1]
		state[n] = 2
		return false
	}
	var nodes []string
	for n := range adj {
		nodes = append(nodes, n)
	}
	sort.Strings(nodes)
	for _, n := range nodes {
		if state[n] == 0 && dfs(n) {
			break
		}
	}
	var es []string
	for e, where := range edges {
		es = append(es, fmt.Sprintf("%s → %s (%s)", e.a, e.b, where))
	}
	sort.Strings(es)
	detail := fmt.Sprintf("%d lock acquisitions, %d order edges: %s", nacq, len(edges), strings.Join(es, "; "))
	if cyc != nil {
		detail = "cycle: " + strings.Join(cyc, " → ") + "; " + detail
	}
	c.Check(orule, "lock-order-graph|acyclic", cyc == nil, token.NoPos, detail)
	for e, where := range edges {
		c.add(orule, "edge|"+e.a+"→"+e.b, Discharged, token.NoPos, true, "acquired while holding, first seen in "+where)
	}
	if nacq < 20 {
		c.Undecided(orule, "floor", token.NoPos, fmt.Sprintf("only %d lock acquisitions found", nacq))
	}

	// C14.block
	allowBlock := map[string]string{
		"(*db.DB).Reload": "the select is bounded by the reload timeout context",
	}
	reloadMu := "dnsserver.FBDNSDB" + c.reloadMu()
	nb := 0
	for _, fn := range c.OurFuncs("dnsserver", "db") {
		for _, b := range fn.Blocks {
			for _, x := range b.Instrs {
				var kind string
				switch y := x.(type) {
				case *ssa.Send:
					kind = "send"
				case *ssa.UnOp:
					if y.Op == token.ARROW {
						kind = "receive"
					}
				case *ssa.Select:
					if y.Blocking {
						kind = "select"
					}
				}
				if kind == "" {
					continue
				}
				nb++
				held := classesAt(fn, x)[reloadMu] || entry[fn][reloadMu]
				construct := fmt.Sprintf("%s|%s", fnName(fn), kind)
				if !held {
					c.add(brule, construct, Discharged, x.Pos(), true, "reload lock not held here")
					continue
				}
				if why, ok := allowBlock[fnName(fn)]; ok && kind == "select" {
					c.add(brule, construct, Discharged, x.Pos(), true, "allow-listed: "+why)
					continue
				}
				c.Check(brule, construct, false, x.Pos(), "blocking channel operation while reloadMu may be held: every query waits in AcquireReader until it completes")
			}
		}
	}
	if nb < 5 {
		c.Undecided(brule, "floor", token.NoPos, fmt.Sprintf("only %d channel operations found in dnsserver/db", nb))
	}
}

func c14CtxPool(c *Ctx) {
	rule := "C14.ctxpool"
	c.Rule(rule, "every (*sync.Pool).Put into cdbdriver.contextPool is dominated by a Reset() of the same context value; Get results are handed out as they are")
	fPool := c.Field("db", "cdbdriver", "contextPool")
	n := 0
	for _, fn := range c.OurFuncs("db") {
		for _, ci := range callInstrs(fn) {
			cc := ci.Common()
			f := calleeOf(cc)
			if f == nil || f.Pkg() == nil || f.Pkg().Path() != "sync" || funcShort(f) != "Pool.Put" || len(cc.Args) < 2 {
				continue
			}
			fa, ok := cc.Args[0].(*ssa.FieldAddr)
			if !ok || fieldOf(fa) != fPool {
				continue
			}
			n++
			c.Examined(fn)
			reset := false
			for _, x := range callInstrs(fn) {
				xc := x.Common()
				if xc.IsInvoke() && xc.Method.Name() == "Reset" && instrDominates(x, ci) && sameSources(unwrap(xc.Value), unwrap(cc.Args[1])) {
					reset = true
				}
			}
			c.Check(rule, fnName(fn)+"|put-after-reset", reset, ci.Pos(), "a context returned to the pool is reset first, so the next query starts from a clean state")
		}
	}
	c.Floor(rule, 1)
}
