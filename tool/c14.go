package main

func init() {
	register(&propDef{
		ID:    "C14",
		Title: "Serving and reloading concurrently is race free",
		Run:   runC14,
		Explanation: "Structural necessary conditions of race freedom, decided on the SSA form of every function of the module: (lockset) each tabled shared field is only touched with its mutex held; (order) the lock-acquisition order graph is acyclic; (block) no unbounded channel operation while the reload lock is held; (ctxpool) pooled CDB contexts are reset before reuse. Not decided: race freedom of state outside the table, liveness; no schedule is ever executed.",
	})
}

func runC14(c *Ctx) {
	c.locksetRows("C14.lockset", func(lockRow) bool { return true })
	c.Floor("C14.lockset", 30)
}
