package main

func init() {
	const hgo = "dnsserver/handler.go"
	const sw = "metrics/swindow.go"
	addVariants(
		variant{Name: "c19-cleaner-original(F10)", Props: []string{"C19"}, Expect: []string{"C19.compaction|(*metrics.slidingWindow).cleaner|store#0|keeps-live-samples", "C19.compaction|(*metrics.slidingWindow).cleaner|store#0|outside-scan"},
			Edits: []edit{{sw, "\t\t\t}\n\t\t\t// drop the expired head once, keep the live tail\n\t\t\tif newstartidx > 0 {\n\t\t\t\tnewsamples := make([]sample, len(sw.samples)-newstartidx)\n\t\t\t\tcopy(newsamples, sw.samples[newstartidx:])\n\t\t\t\tsw.samples = newsamples\n\t\t\t}\n", "\t\t\t\tif len(sw.samples) > newstartidx {\n\t\t\t\t\tnewsamples := make([]sample, len(sw.samples)-newstartidx)\n\t\t\t\t\tcopy(sw.samples[newstartidx:], newsamples)\n\t\t\t\t\tsw.samples = newsamples\n\t\t\t\t} else {\n\t\t\t\t\tsw.samples = make([]sample, 0)\n\t\t\t\t}\n\t\t\t}\n"}}},
		variant{Name: "c19-cleaner-append-to-sized-make", Props: []string{"C19"}, Expect: []string{"C19.compaction|(*metrics.slidingWindow).cleaner|store#0|keeps-live-samples"},
			Edits: []edit{{sw, "\t\t\t\tnewsamples := make([]sample, len(sw.samples)-newstartidx)\n\t\t\t\tcopy(newsamples, sw.samples[newstartidx:])\n\t\t\t\tsw.samples = newsamples\n", "\t\t\t\tlive := sw.samples[newstartidx:]\n\t\t\t\tnewsamples := make([]sample, len(live), cap(sw.samples))\n\t\t\t\tsw.samples = append(newsamples, live...)\n"}}},
		variant{Name: "c19-cleaner-no-copy", Props: []string{"C19"}, Expect: []string{"C19.compaction|(*metrics.slidingWindow).cleaner|store#0|keeps-live-samples"},
			Edits: []edit{{sw, "\t\t\t\tcopy(newsamples, sw.samples[newstartidx:])\n", ""}}},
		variant{Name: "benign-cleaner-reslice", Props: []string{"C19"}, Benign: true,
			Edits: []edit{{sw, "\t\t\t\tnewsamples := make([]sample, len(sw.samples)-newstartidx)\n\t\t\t\tcopy(newsamples, sw.samples[newstartidx:])\n\t\t\t\tsw.samples = newsamples\n", "\t\t\t\tsw.samples = sw.samples[newstartidx:]\n"}}},
		variant{Name: "benign-cleaner-append-empty", Props: []string{"C19"}, Benign: true,
			Edits: []edit{{sw, "\t\t\t\tnewsamples := make([]sample, len(sw.samples)-newstartidx)\n\t\t\t\tcopy(newsamples, sw.samples[newstartidx:])\n\t\t\t\tsw.samples = newsamples\n", "\t\t\t\tnewsamples := make([]sample, 0, len(sw.samples)-newstartidx)\n\t\t\t\tsw.samples = append(newsamples, sw.samples[newstartidx:]...)\n"}}},
		variant{Name: "c19-log-request-instead-of-response", Props: []string{"C19"}, Expect: []string{"C19.writelog|(*dnsserver.FBDNSDB).writeAndLog|log-same-message"},
			Edits: []edit{{hgo, "\th.logger.Log(state, resp, ecs)\n\tif !resp.Authoritative {", "\th.logger.Log(state, state.Req, ecs)\n\tif !resp.Authoritative {"}}},
		variant{Name: "c19-log-before-write", Props: []string{"C19"}, Expect: []string{"C19.writelog|(*dnsserver.FBDNSDB).writeAndLog|log-on-success-only"},
			Edits: []edit{{hgo, "\terr := state.W.WriteMsg(resp)\n\tif err != nil {\n\t\treturn dns.RcodeServerFailure, err\n\t}\n\th.logger.Log(state, resp, ecs)\n", "\th.logger.Log(state, resp, ecs)\n\terr := state.W.WriteMsg(resp)\n\tif err != nil {\n\t\treturn dns.RcodeServerFailure, err\n\t}\n"}}},
		variant{Name: "c19-log-twice", Props: []string{"C19"}, Expect: []string{"C19.writelog|(*dnsserver.FBDNSDB).writeAndLog|log-once"},
			Edits: []edit{{hgo, "\tif rcode == dns.RcodeNameError {\n\t\th.stats.IncrementCounter(\"DNS_queries_nxdomain\")", "\tif rcode == dns.RcodeNameError {\n\t\th.logger.Log(state, resp, ecs)\n\t\th.stats.IncrementCounter(\"DNS_queries_nxdomain\")"}}},
		variant{Name: "c19-nxdomain-refused-swapped", Props: []string{"C19"}, Expect: []string{"C19.outcomes|(*dnsserver.FBDNSDB).writeAndLog|DNS_queries_nxdomain", "C19.outcomes|(*dnsserver.FBDNSDB).writeAndLog|DNS_queries_refused"},
			Edits: []edit{{hgo, "\t\th.stats.IncrementCounter(\"DNS_queries_nxdomain\")\n\t} else if rcode == dns.RcodeRefused {\n\t\th.stats.IncrementCounter(\"DNS_queries_refused\")", "\t\th.stats.IncrementCounter(\"DNS_queries_refused\")\n\t} else if rcode == dns.RcodeRefused {\n\t\th.stats.IncrementCounter(\"DNS_queries_nxdomain\")"}}},
		variant{Name: "c19-nodata-counts-any-empty", Props: []string{"C19"}, Expect: []string{"C19.outcomes|(*dnsserver.FBDNSDB).writeAndLog|DNS_queries_nodata"},
			Edits: []edit{{hgo, "\t} else if rcode == dns.RcodeSuccess && len(resp.Answer) == 0 {", "\t} else if len(resp.Answer) == 0 {"}}},
		variant{Name: "c19-cache-hit-counted-before-expiry-test", Props: []string{"C19"}, Expect: []string{"C19.outcomes|(*dnsserver.FBDNSDB).ServeDNSWithRCODE|DNS_cache.hit"},
			Edits: []edit{{hgo, "\t\t\tt := v.(cacheEntry).expiration\n", "\t\t\tt := v.(cacheEntry).expiration\n\t\t\th.stats.IncrementCounter(\"DNS_cache.hit\")\n"},
				{hgo, "\t\t\t\th.stats.IncrementCounter(\"DNS_cache.hit\")\n\t\t\t\tresp := v.(cacheEntry)", "\t\t\t\tresp := v.(cacheEntry)"}}},
		variant{Name: "c19-queries-counted-twice", Props: []string{"C19"}, Expect: []string{"C19.once|(*dnsserver.FBDNSDB).ServeDNSWithRCODE|DNS_queries|once-at-entry"},
			Edits: []edit{{hgo, "\tif state.Do() {\n", "\th.stats.IncrementCounter(\"DNS_queries\")\n\tif state.Do() {\n"}}},
		variant{Name: "c19-badvers-before-type-counter", Props: []string{"C19"}, Expect: []string{"C19.once|(*dnsserver.FBDNSDB).ServeDNSWithRCODE|DNS_query.<type>|once-before-any-response"},
			Edits: []edit{{hgo, "\tif state.Do() {\n\t\th.stats.IncrementCounter(\"DNS_queries.edns0.do_bit\")\n\t}\n\th.stats.IncrementCounter(typeToStatsKey(state.QType()))\n\n\t// Check if this is a supported edns version\n\tif a, err := edns.Version(r); err != nil { // Wrong EDNS version, return at once.\n\t\treturn h.writeAndLog(state, a, ecs)\n\t}\n", "\t// Check if this is a supported edns version\n\tif a, err := edns.Version(r); err != nil { // Wrong EDNS version, return at once.\n\t\treturn h.writeAndLog(state, a, ecs)\n\t}\n\tif state.Do() {\n\t\th.stats.IncrementCounter(\"DNS_queries.edns0.do_bit\")\n\t}\n\th.stats.IncrementCounter(typeToStatsKey(state.QType()))\n\n"}}},
		variant{Name: "benign-outcome-switch(B3)", Props: []string{"C19"}, Benign: true,
			Edits: []edit{{hgo, "\tif rcode == dns.RcodeNameError {\n\t\th.stats.IncrementCounter(\"DNS_queries_nxdomain\")\n\t} else if rcode == dns.RcodeRefused {\n\t\th.stats.IncrementCounter(\"DNS_queries_refused\")\n\t} else if rcode == dns.RcodeBadVers {\n\t\th.stats.IncrementCounter(\"DNS_queries_badvers\")\n\t} else if rcode == dns.RcodeSuccess && len(resp.Answer) == 0 {\n\t\th.stats.IncrementCounter(\"DNS_queries_nodata\")\n\t}\n", "\tswitch rcode {\n\tcase dns.RcodeNameError:\n\t\th.stats.IncrementCounter(\"DNS_queries_nxdomain\")\n\tcase dns.RcodeRefused:\n\t\th.stats.IncrementCounter(\"DNS_queries_refused\")\n\tcase dns.RcodeBadVers:\n\t\th.stats.IncrementCounter(\"DNS_queries_badvers\")\n\tcase dns.RcodeSuccess:\n\t\tif len(resp.Answer) == 0 {\n\t\t\th.stats.IncrementCounter(\"DNS_queries_nodata\")\n\t\t}\n\t}\n"}}},
	)
}
