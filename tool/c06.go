package main

import (
	"fmt"
	"go/token"
	"go/types"
	"sort"
	"strings"

	"golang.org/x/tools/go/ssa"
)

func init() {
	register(&propDef{
		ID:          "C06",
		Title:       "No database backend is used after close, closed twice, or leaked",
		Run:         runC06,
		Explanation: "Structural necessary conditions of the backend life cycle, decided on SSA: (lockset) refCount/destroyable only under DB.l; (pairing) every acquired reader is released exactly once on every success path; (alias-guard) in (*DB).Reload every call that can close a backend which may be the served one is dominated by `!= f.dbi`; (handshake) the timed-out reload hand-over variables are only touched under their mutex, the timeout arm closes or flags on every path, the goroutine closes iff flagged; (close-guard) close conditions of Destroy / DataReader.Close / NewReader; (reject-closes) rejected and replaced backends are closed; (who-closes) only the life-cycle functions may close; (closed-state) typestate after shutdown. No history is executed.",
	})
}

func runC06(c *Ctx) {
	c.locksetRows("C06.lockset", func(r lockRow) bool { return r.Pkg == "db" && r.Type == "DB" })
	c.Floor("C06.lockset", 6)
	c06Pairing(c)
	c06AliasGuard(c, "C06.alias-guard")
	c06Handshake(c)
	c06CloseGuard(c)
	c06RejectCloses(c)
	c06WhoCloses(c)
	c06ClosedState(c)
	c06SharedHandle(c)
	// the reload entry point must install what (*db.DB).Reload returned on every success path: the old generation is
	// already destroyed, so a skipped swap leaks the new backend and leaves a closed one served
	c.importRules(runC05, "C05", map[string]string{"order": "reload-order"})
}

// ---------------------------------------------------------------------------

func dbiIface(c *Ctx) *types.Interface {
	return c.Named("db", "DBI").Underlying().(*types.Interface)
}

func isDBIMethodInvoke(c *Ctx, cc *ssa.CallCommon, name string) bool {
	if !cc.IsInvoke() || cc.Method.Name() != name {
		return false
	}
	return types.Identical(cc.Value.Type().Underlying(), dbiIface(c))
}

// mayCloseReceiver computes the set of methods on *db.DB that can close the
// backend held in the receiver's dbi field (directly or via another such method on the same receiver).
func mayCloseReceiver(c *Ctx) map[*ssa.Function]bool {
	fDbi := c.Field("db", "DB", "dbi")
	dbT := c.Named("db", "DB")
	var meths []*ssa.Function
	for _, fn := range c.OurFuncs("db") {
		if fn.Signature.Recv() == nil || fn.Parent() != nil {
			continue
		}
		rt := fn.Signature.Recv().Type()
		if p, ok := rt.(*types.Pointer); ok {
			rt = p.Elem()
		}
		if types.Identical(rt, dbT) {
			meths = append(meths, fn)
		}
	}
	res := map[*ssa.Function]bool{}
	changed := true
	for changed {
		changed = false
		for _, fn := range meths {
			if res[fn] {
				continue
			}
			recv := fn.Params[0]
			for _, ci := range callInstrs(fn) {
				cc := ci.Common()
				if isDBIMethodInvoke(c, cc, "Close") {
					if u, ok := cc.Value.(*ssa.UnOp); ok {
						if fa, ok := u.X.(*ssa.FieldAddr); ok && fieldOf(fa) == fDbi && fa.X == recv {
							res[fn] = true
							changed = true
						}
					}
				} else if sf := cc.StaticCallee(); sf != nil && res[sf] && len(cc.Args) > 0 && cc.Args[0] == recv {
					res[fn] = true
					changed = true
				}
			}
		}
	}
	return res
}

// varName returns the name of the local/captured variable a value is loaded from, "" otherwise.
func varNameOfLoad(v ssa.Value) string {
	u, ok := unwrap(v).(*ssa.UnOp)
	if !ok || u.Op != token.MUL {
		return ""
	}
	switch a := u.X.(type) {
	case *ssa.Alloc:
		if a.Comment != "complit" && a.Comment != "new" {
			return a.Comment
		}
	case *ssa.FreeVar:
		return a.Name()
	}
	return ""
}

// mayCarry reports whether a value of type t can hold (or lead to) a value of the named type.
func mayCarry(t types.Type, named *types.Named, depth int) bool {
	if depth > 4 {
		return false
	}
	if types.Identical(t, named) {
		return true
	}
	switch u := t.Underlying().(type) {
	case *types.Interface:
		// a concrete driver converted to DBI later, or an interface holding one
		return types.Implements(named, u) || u.Empty()
	case *types.Pointer:
		if types.Implements(t, named.Underlying().(*types.Interface)) {
			return true
		}
		return mayCarry(u.Elem(), named, depth+1)
	case *types.Chan:
		return mayCarry(u.Elem(), named, depth+1)
	case *types.Slice:
		return mayCarry(u.Elem(), named, depth+1)
	case *types.Array:
		return mayCarry(u.Elem(), named, depth+1)
	case *types.Struct:
		for i := 0; i < u.NumFields(); i++ {
			if mayCarry(u.Field(i).Type(), named, depth+1) {
				return true
			}
		}
	case *types.Tuple:
		for i := 0; i < u.Len(); i++ {
			if mayCarry(u.At(i).Type(), named, depth+1) {
				return true
			}
		}
	}
	return false
}

func varNameOfAddr(v ssa.Value) string {
	switch a := v.(type) {
	case *ssa.Alloc:
		if a.Comment != "complit" && a.Comment != "new" {
			return a.Comment
		}
	case *ssa.FreeVar:
		return a.Name()
	}
	return ""
}

// c06AliasGuard implements C06.alias-guard (also reported as C05.old-survives).
func c06AliasGuard(c *Ctx, rule string) {
	c.Rule(rule, "SSA taint + dominance in (*db.DB).Reload and its closures: V = values that may alias the served backend (results of f.dbi.Reload and variables/DB wrappers initialised from them); every DBI.Close on a member of V, and every call of a *DB method that can close its receiver's backend on a wrapper in V, is dominated by the true edge of `v != f.dbi`")
	reload := c.Func("db", "(*DB).Reload")
	fns := withClosures(reload)
	fDbi := c.Field("db", "DB", "dbi")
	recvName := reload.Params[0].Name()
	closers := mayCloseReceiver(c)

	isServed := func(v ssa.Value) bool { // load of f.dbi
		u, ok := unwrap(v).(*ssa.UnOp)
		if !ok || u.Op != token.MUL {
			return false
		}
		fa, ok := u.X.(*ssa.FieldAddr)
		return ok && fieldOf(fa) == fDbi && pathOf(fa.X) == recvName
	}
	// Taint is field-insensitive and flows through local variables (by name, so that a closure's free variable is
	// the same cell as the enclosing function's), anonymous struct cells, and channels (a send taints the channel,
	// a receive or a select arm on it yields a tainted value). Only values whose type can carry a DBI are considered.
	dbiNamed := c.Named("db", "DBI")
	taintedVars := map[string]bool{}
	taintedCells := map[ssa.Value]bool{}
	taintedChans := map[string]bool{}
	addrRoot := func(a ssa.Value) ssa.Value {
		for {
			switch x := a.(type) {
			case *ssa.FieldAddr:
				a = x.X
			case *ssa.IndexAddr:
				a = x.X
			default:
				return a
			}
		}
	}
	chanKey := func(v ssa.Value) string {
		if n := varNameOfLoad(v); n != "" {
			return n
		}
		return fmt.Sprintf("%p", unwrap(v))
	}
	var tainted func(v ssa.Value, seen map[ssa.Value]bool) bool
	tainted = func(v ssa.Value, seen map[ssa.Value]bool) bool {
		if v == nil || seen[v] {
			return false
		}
		seen[v] = true
		if !mayCarry(v.Type(), dbiNamed, 0) {
			return false
		}
		switch x := v.(type) {
		case *ssa.Extract:
			if call, ok := x.Tuple.(*ssa.Call); ok && x.Index == 0 && isDBIMethodInvoke(c, call.Common(), "Reload") && isServed(call.Common().Value) {
				return true
			}
			if u, ok := x.Tuple.(*ssa.UnOp); ok && u.Op == token.ARROW && x.Index == 0 {
				return taintedChans[chanKey(u.X)]
			}
			if sel, ok := x.Tuple.(*ssa.Select); ok && x.Index >= 2 {
				for _, st := range sel.States {
					if st.Dir == types.RecvOnly && taintedChans[chanKey(st.Chan)] {
						return true
					}
				}
			}
		case *ssa.Phi:
			for _, e := range x.Edges {
				if tainted(e, seen) {
					return true
				}
			}
		case *ssa.UnOp:
			if x.Op == token.ARROW {
				return taintedChans[chanKey(x.X)]
			}
			if x.Op == token.MUL {
				root := addrRoot(x.X)
				if n := varNameOfAddr(root); n != "" {
					return taintedVars[n]
				}
				return taintedCells[root]
			}
		case *ssa.Field:
			return tainted(x.X, seen)
		case *ssa.ChangeType:
			return tainted(x.X, seen)
		case *ssa.MakeInterface:
			return tainted(x.X, seen)
		}
		return false
	}
	isT := func(v ssa.Value) bool { return tainted(v, map[ssa.Value]bool{}) }
	for changed := true; changed; {
		changed = false
		for _, fn := range fns {
			for _, b := range fn.Blocks {
				for _, in := range b.Instrs {
					switch st := in.(type) {
					case *ssa.Store:
						if !isT(st.Val) {
							continue
						}
						root := addrRoot(st.Addr)
						if _, isF := st.Addr.(*ssa.FieldAddr); isF && fieldOf(st.Addr) == fDbi {
							continue // a *DB wrapper: tracked separately below
						}
						if n := varNameOfAddr(root); n != "" {
							if !taintedVars[n] {
								taintedVars[n] = true
								changed = true
							}
						} else if _, isA := root.(*ssa.Alloc); isA && !taintedCells[root] {
							taintedCells[root] = true
							changed = true
						}
					case *ssa.Send:
						if isT(st.X) && !taintedChans[chanKey(st.Chan)] {
							taintedChans[chanKey(st.Chan)] = true
							changed = true
						}
					}
				}
			}
		}
	}
	// wrappers: DB allocations whose dbi field receives a tainted value
	wrappers := map[ssa.Value]bool{}
	for _, fn := range fns {
		for _, st := range storesToField(fn, fDbi) {
			if isT(st.Val) {
				wrappers[st.Addr.(*ssa.FieldAddr).X] = true
			}
		}
	}
	isWrapper := func(v ssa.Value) bool {
		for s := range sourcesOf(v) {
			if s != nil && wrappers[s] {
				return true
			}
		}
		return false
	}
	// guard: block dominated by the edge of `t != f.dbi` where t is tainted
	guarded := func(in ssa.Instruction) bool {
		return hasFact(in.Block(), func(v ssa.Value, truth bool) bool {
			b, ok := v.(*ssa.BinOp)
			if !ok || (b.Op != token.NEQ && b.Op != token.EQL) {
				return false
			}
			var other ssa.Value
			switch {
			case isServed(b.X):
				other = b.Y
			case isServed(b.Y):
				other = b.X
			default:
				return false
			}
			return isT(other) && (b.Op == token.NEQ) == truth
		})
	}
	n := 0
	for _, fn := range fns {
		c.Examined(fn)
		for _, ci := range callInstrs(fn) {
			cc := ci.Common()
			var what, recv string
			switch {
			case isDBIMethodInvoke(c, cc, "Close") && isT(cc.Value):
				what = "DBI.Close"
				recv = varNameOfLoad(cc.Value)
				if recv == "" {
					recv = "value"
				}
			case cc.StaticCallee() != nil && closers[cc.StaticCallee()] && len(cc.Args) > 0 && isWrapper(cc.Args[0]):
				what = fnName(cc.StaticCallee())
				recv = "wrapper-of-reloaded-backend"
			default:
				continue
			}
			n++
			c.Check(rule, fmt.Sprintf("%s|call:%s|recv:%s", fnName(fn), what, recv), guarded(ci), ci.Pos(),
				"this call can close a backend that may be the served one (same-path RocksDB reload returns f.dbi itself); it must be dominated by `!= f.dbi`")
		}
	}
	if len(taintedVars) == 0 && len(taintedChans) == 0 {
		c.Undecided(rule, fnName(reload)+"|taint", reload.Pos(), "no value derived from f.dbi.Reload found")
	}
	var tv []string
	for k := range taintedVars {
		tv = append(tv, k)
	}
	sort.Strings(tv)
	c.Note("%s: variables that may alias the served backend: %v; channels carrying it: %d; wrappers: %d; closing calls examined: %d", rule, tv, len(taintedChans), len(wrappers), n)
	c.Floor(rule, 2)
}

// ---------------------------------------------------------------------------

func c06Pairing(c *Ctx) {
	rule := "C06.pairing"
	c.Rule(rule, "A3 pairing: every reader obtained from db.NewReader / (*FBDNSDB).AcquireReader in a library package is Close()d exactly once on every path on which the acquisition succeeded (deferred, or an explicit call dominating every later return), never twice; returning the reader transfers the obligation to the caller")
	newReader := c.TypesFunc("db", "NewReader")
	acquirers := readerAcquirers(c)
	n := 0
	for _, fn := range c.OurFuncs() {
		if fn.Pkg.Pkg.Name() == "main" {
			continue
		}
		for _, ci := range callsTo(fn, func(f *types.Func) bool { return f == newReader || acquirers[f] }) {
			call, ok := ci.(*ssa.Call)
			if !ok {
				continue
			}
			c.Examined(fn)
			construct := fmt.Sprintf("%s|acquire:%s", fnName(fn), calleeOf(call.Common()).Name())
			// the reader value
			var reader ssa.Value
			for _, r := range *call.Referrers() {
				if ex, ok := r.(*ssa.Extract); ok && ex.Index == 0 {
					reader = ex
				}
			}
			// ownership transfer: the call's results are returned
			transferred := false
			for _, ret := range returnsOf(fn) {
				for _, rv := range ret.Results {
					for s := range sourcesOf(rv) {
						if s != nil && (s == reader || s == ssa.Value(call)) {
							transferred = true
						}
					}
					// … or handed out wrapped in a composite value built from it
					if reader != nil {
						for s := range backSlice(rv, func(v ssa.Value) bool { _, isCall := v.(*ssa.Call); return isCall && v != ssa.Value(call) }) {
							if s == reader {
								transferred = true
							}
						}
					}
				}
			}
			if transferred {
				n++
				c.add(rule, construct+"|transfer", Discharged, call.Pos(), false, "the acquired reader is returned to the caller, which inherits the release obligation")
				continue
			}
			if reader == nil {
				n++
				c.Check(rule, construct, false, call.Pos(), "acquired reader is discarded: it can never be released")
				continue
			}
			isReader := func(v ssa.Value) bool {
				for s := range sourcesOf(v) {
					if s == reader {
						return true
					}
				}
				// a field of the struct the acquirer returned
				for s := range backSlice(v, func(x ssa.Value) bool { _, isCall := x.(*ssa.Call); return isCall }) {
					if s == reader {
						if _, isStruct := reader.Type().Underlying().(*types.Struct); isStruct {
							return true
						}
					}
				}
				return false
			}
			var deferred, explicit []ssa.CallInstruction
			for _, x := range callInstrs(fn) {
				cc := x.Common()
				if cc.IsInvoke() && cc.Method.Name() == "Close" && isReader(cc.Value) {
					switch x.(type) {
					case *ssa.Defer:
						deferred = append(deferred, x)
					case *ssa.Call:
						explicit = append(explicit, x)
					}
				}
			}
			// closures closing the reader (defer func(){ reader.Close() }()) are not recognised: report as undecided
			errIdx := -1
			if res := calleeOf(call.Common()).Type().(*types.Signature).Results(); res != nil {
				for k := 0; k < res.Len(); k++ {
					if res.At(k).Type().String() == "error" {
						errIdx = k
					}
				}
			}
			isAcqErr := func(v ssa.Value) bool {
				cl, idx := callOfValue(v)
				return cl == call && idx == errIdx
			}
			ok = true
			var why []string
			nret := 0
			for _, ret := range returnsOf(fn) {
				b := ret.Block()
				if !call.Block().Dominates(b) && call.Block() != b {
					continue
				}
				// failure path of the acquisition?
				failed := false
				for _, e := range nilEdgesOf(fn, isAcqErr) {
					if edgeDominates(e.If.Block(), 1-e.Succ, b) {
						failed = true
					}
				}
				if failed {
					continue
				}
				nret++
				cnt := 0
				for _, d := range deferred {
					if instrDominates(d, ret) {
						cnt++
					}
				}
				for _, e := range explicit {
					if instrDominates(e, ret) {
						cnt++
					} else if reachable(e.Block(), nil)[b] {
						ok = false
						why = append(why, fmt.Sprintf("Close at %s is on some but not all paths to the return at %s", c.relPos(e.Pos()), c.relPos(ret.Pos())))
					}
				}
				if cnt == 0 {
					ok = false
					why = append(why, fmt.Sprintf("return at %s is reachable with the reader still open", c.relPos(ret.Pos())))
				}
				if cnt > 1 {
					ok = false
					why = append(why, fmt.Sprintf("reader closed %d times before the return at %s", cnt, c.relPos(ret.Pos())))
				}
			}
			for _, x := range append(deferred, explicit...) {
				if inCycle(x.Block()) && !inCycle(call.Block()) {
					ok = false
					why = append(why, "Close inside a loop for an acquisition outside it")
				}
			}
			if inCycle(call.Block()) {
				// acquire inside a loop: the close must be in the same iteration; deferred closes accumulate
				if len(deferred) > 0 {
					ok = false
					why = append(why, "reader acquired in a loop and released by defer")
				}
			}
			n++
			detail := fmt.Sprintf("%d success returns, %d deferred and %d explicit Close calls", nret, len(deferred), len(explicit))
			if !ok {
				detail = strings.Join(why, "; ")
			}
			c.Check(rule, construct, ok && nret > 0, call.Pos(), detail)
		}
	}
	c.Floor(rule, 3)
}

// ---------------------------------------------------------------------------

// selectArm: blocks reached only when select `sel` chose state k.
func selectArmDominates(sel *ssa.Select, k int, t *ssa.BasicBlock) bool {
	for _, e := range guardingEdges(t) {
		b, ok := e.If.Cond.(*ssa.BinOp)
		if !ok || b.Op != token.EQL || e.Succ != 0 {
			continue
		}
		ex, ok := b.X.(*ssa.Extract)
		if !ok || ex.Tuple != sel || ex.Index != 0 {
			continue
		}
		if v, ok := constInt(b.Y); ok && int(v) == k {
			return true
		}
	}
	return false
}

func c06Handshake(c *Ctx) {
	rule := "C06.handshake"
	c.Rule(rule, "A1 lockset on captured locals of (*db.DB).Reload: the hand-over variables (the late backend and the destroy flag) are only accessed under the local mutex by the reload goroutine and by the timeout arm (the completion arm is ordered after the goroutine by the channel close); every path through the timeout arm closes the late backend or sets the flag; the goroutine closes the late backend only under the flag, and on every path either closes it or publishes it")
	reload := c.Func("db", "(*DB).Reload")
	c.Examined(reload)
	// identify: the local mutex, the backend variable (type DBI, captured), the flag (bool, captured)
	var mutexVar, dbiVar, flagVar string
	dbiT := c.Named("db", "DBI")
	captured := map[string]bool{}
	for _, a := range reload.AnonFuncs {
		for _, fv := range a.FreeVars {
			captured[fv.Name()] = true
		}
	}
	for _, b := range reload.Blocks {
		for _, in := range b.Instrs {
			a, ok := in.(*ssa.Alloc)
			if !ok {
				continue
			}
			et := a.Type().(*types.Pointer).Elem()
			if et.String() == "sync.Mutex" || et.String() == "sync.RWMutex" {
				mutexVar = a.Comment
				continue
			}
			if !captured[a.Comment] {
				continue
			}
			switch {
			case types.Identical(et, dbiT):
				dbiVar = a.Comment
			case types.Identical(et, types.Typ[types.Bool]):
				flagVar = a.Comment
			}
		}
	}
	if mutexVar == "" || dbiVar == "" || flagVar == "" {
		if c06ChanHandover(c, rule, reload) {
			return
		}
		c.Undecided(rule, fnName(reload)+"|anchors", reload.Pos(), fmt.Sprintf("hand-over variables not found (mutex=%q backend=%q flag=%q) and no channel hand-over recognised", mutexVar, dbiVar, flagVar))
		return
	}
	// the goroutine
	var gor *ssa.Function
	for _, b := range reload.Blocks {
		for _, in := range b.Instrs {
			if g, ok := in.(*ssa.Go); ok {
				if mc, ok := g.Call.Value.(*ssa.MakeClosure); ok {
					gor = mc.Fn.(*ssa.Function)
				}
			}
		}
	}
	if gor == nil {
		c.Undecided(rule, fnName(reload)+"|goroutine", reload.Pos(), "reload goroutine not found")
		return
	}
	c.Examined(gor)
	// the select and its arms
	var sel *ssa.Select
	for _, b := range reload.Blocks {
		for _, in := range b.Instrs {
			if s, ok := in.(*ssa.Select); ok {
				sel = s
			}
		}
	}
	if sel == nil {
		c.Undecided(rule, fnName(reload)+"|select", reload.Pos(), "select not found")
		return
	}
	// completion channel = the channel the goroutine closes
	doneArm, timeoutArm := -1, -1
	closedChan := ""
	for _, ci := range callInstrs(gor) {
		if b, ok := ci.Common().Value.(*ssa.Builtin); ok && b.Name() == "close" {
			closedChan = varNameOfLoad(ci.Common().Args[0])
		}
	}
	for i, st := range sel.States {
		if n := varNameOfLoad(st.Chan); n != "" && n == closedChan {
			doneArm = i
		} else {
			timeoutArm = i
		}
	}
	if doneArm < 0 || timeoutArm < 0 || len(sel.States) != 2 {
		c.Undecided(rule, fnName(reload)+"|arms", sel.Pos(), "cannot identify the completion and timeout arms of the select")
		return
	}
	// lockset: accesses in the goroutine and in the parent outside the completion arm
	for _, v := range []string{dbiVar, flagVar} {
		spec := &GuardSpec{Name: "local " + v, Local: v, Mutex: mutexVar}
		for _, fn := range []*ssa.Function{reload, gor} {
			ls := computeLockset(fn)
			okAll := true
			var bad []string
			cnt := 0
			for _, a := range findAccesses(spec, fn) {
				if fn == reload {
					if selectArmDominates(sel, doneArm, a.Instr.Block()) {
						continue // ordered after the goroutine by close(c)
					}
					if !sel.Block().Dominates(a.Instr.Block()) {
						// before the goroutine can have run? only if it precedes the go statement
						continue
					}
				}
				cnt++
				if ls.At(a.Instr)[mutexVar] != modeW {
					okAll = false
					bad = append(bad, fmt.Sprintf("%s (%s)", c.relPos(a.Instr.Pos()), a.How))
				}
			}
			c.Check(rule, fmt.Sprintf("%s|%s|under:%s", fnName(fn), v, mutexVar), okAll, fn.Pos(), fmt.Sprintf("%d concurrent accesses; without the mutex: %v", cnt, bad))
		}
	}
	// timeout arm: every path closes the late backend or sets the flag
	blocked := map[*ssa.BasicBlock]bool{}
	for _, ci := range callInstrs(reload) {
		if isDBIMethodInvoke(c, ci.Common(), "Close") && varNameOfLoad(ci.Common().Value) == dbiVar {
			blocked[ci.Block()] = true
		}
	}
	for _, b := range reload.Blocks {
		for _, in := range b.Instrs {
			if st, ok := in.(*ssa.Store); ok && varNameOfAddr(st.Addr) == flagVar {
				if k, ok := st.Val.(*ssa.Const); ok && k.Value != nil && k.Value.String() == "true" {
					blocked[b] = true
				}
			}
		}
	}
	var armEntry *ssa.BasicBlock
	for _, b := range reload.Blocks {
		if selectArmDominates(sel, timeoutArm, b) && (armEntry == nil || b.Dominates(armEntry)) {
			armEntry = b
		}
	}
	if armEntry == nil {
		c.Undecided(rule, fnName(reload)+"|timeout-arm", sel.Pos(), "timeout arm not found")
	} else {
		leak := false
		if !blocked[armEntry] {
			for b := range reachAvoiding(armEntry, blocked, nil) {
				if len(b.Succs) == 0 {
					leak = true
				}
			}
		}
		c.Check(rule, fnName(reload)+"|timeout-arm|close-or-flag", !leak, armEntry.Instrs[0].Pos(), "on timeout every path closes the late backend or sets the flag that makes the goroutine close it (no leak of a backend opened by a timed-out reload)")
	}
	// goroutine: Close only under the flag; every path closes or publishes
	gblocked := map[*ssa.BasicBlock]bool{}
	closeUnderFlag := true
	nclose := 0
	for _, ci := range callInstrs(gor) {
		if isDBIMethodInvoke(c, ci.Common(), "Close") {
			nclose++
			gblocked[ci.Block()] = true
			under := hasFact(ci.Block(), func(v ssa.Value, truth bool) bool { return truth && varNameOfLoad(v) == flagVar })
			if !under {
				closeUnderFlag = false
			}
		}
	}
	for _, b := range gor.Blocks {
		for _, in := range b.Instrs {
			if st, ok := in.(*ssa.Store); ok && varNameOfAddr(st.Addr) == dbiVar {
				gblocked[b] = true
			}
		}
	}
	c.Check(rule, fnName(gor)+"|close-iff-flag", closeUnderFlag && nclose > 0, gor.Pos(), fmt.Sprintf("%d Close calls in the goroutine, each control dependent on the destroy flag", nclose))
	leak := false
	if !gblocked[gor.Blocks[0]] {
		for b := range reachAvoiding(gor.Blocks[0], gblocked, nil) {
			if len(b.Succs) == 0 {
				leak = true
			}
		}
	}
	c.Check(rule, fnName(gor)+"|close-or-publish", !leak, gor.Pos(), "every path of the goroutine either closes the backend it opened or publishes it to the waiting Reload")
	c.Floor(rule, 6)
}

// c06ChanHandover decides the hand-over when the reload goroutine delivers its result over a channel instead of the
// mutex/flag protocol. Returns false when that shape is not present (the caller then reports undecided).
//
//	(delivers)  every path of the goroutine that calls DBI.Reload sends on the result channel;
//	(buffered)  the result channel has constant capacity >= 1, so the goroutine can deliver after the waiter left;
//	(reaped)    every select arm that does not receive the result starts a goroutine (or receives itself) that
//	            takes the late result from the channel and can Close it (whether that Close spares the served
//	            backend is C06.alias-guard's obligation, which follows the value through the channel).
func c06ChanHandover(c *Ctx, rule string, reload *ssa.Function) bool {
	// the goroutine that invokes DBI.Reload
	var gor *ssa.Function
	for _, a := range reload.AnonFuncs {
		for _, ci := range callInstrs(a) {
			if isDBIMethodInvoke(c, ci.Common(), "Reload") {
				gor = a
			}
		}
	}
	if gor == nil {
		return false
	}
	var sends []*ssa.Send
	for _, b := range gor.Blocks {
		for _, in := range b.Instrs {
			if sd, ok := in.(*ssa.Send); ok && varNameOfLoad(sd.Chan) != "" {
				sends = append(sends, sd)
			}
		}
	}
	if len(sends) == 0 {
		return false
	}
	ch := varNameOfLoad(sends[0].Chan)
	var sel *ssa.Select
	var mk *ssa.MakeChan
	for _, b := range reload.Blocks {
		for _, in := range b.Instrs {
			switch x := in.(type) {
			case *ssa.Select:
				sel = x
			case *ssa.Store:
				if m, ok := x.Val.(*ssa.MakeChan); ok && varNameOfAddr(x.Addr) == ch {
					mk = m
				}
			}
		}
	}
	if sel == nil || mk == nil {
		return false
	}
	c.Examined(gor)
	// (delivers)
	blocked := map[*ssa.BasicBlock]bool{}
	for _, sd := range sends {
		if varNameOfLoad(sd.Chan) == ch {
			blocked[sd.Block()] = true
		}
	}
	leak := false
	if !blocked[gor.Blocks[0]] {
		for b := range reachAvoiding(gor.Blocks[0], blocked, nil) {
			if len(b.Succs) == 0 {
				leak = true
			}
		}
	}
	c.Check(rule, fnName(reload)+"|goroutine|delivers", !leak, gor.Pos(), "every path of the reload goroutine sends its result on channel "+ch)
	// (buffered)
	k, isK := constInt(mk.Size)
	c.Check(rule, fnName(reload)+"|chan:"+ch+"|buffered", isK && k >= 1, mk.Pos(), "the result channel has room for the one late result, so the goroutine never blocks forever holding an open backend")
	// (reaped)
	recvArm := -1
	for i, st := range sel.States {
		if st.Dir == types.RecvOnly && varNameOfLoad(st.Chan) == ch {
			recvArm = i
		}
	}
	c.Check(rule, fnName(reload)+"|select|receives:"+ch, recvArm >= 0, sel.Pos(), "the waiter selects on the result channel")
	reaps := func(fn *ssa.Function) bool {
		recv, closes := false, false
		for _, b := range fn.Blocks {
			for _, in := range b.Instrs {
				if u, ok := in.(*ssa.UnOp); ok && u.Op == token.ARROW && varNameOfLoad(u.X) == ch {
					recv = true
				}
			}
		}
		for _, ci := range callInstrs(fn) {
			if isDBIMethodInvoke(c, ci.Common(), "Close") {
				closes = true
			}
		}
		return recv && closes
	}
	for i := range sel.States {
		if i == recvArm {
			continue
		}
		var entry *ssa.BasicBlock
		for _, b := range reload.Blocks {
			if selectArmDominates(sel, i, b) && (entry == nil || b.Dominates(entry)) {
				entry = b
			}
		}
		if entry == nil {
			c.Undecided(rule, fmt.Sprintf("%s|arm#%d", fnName(reload), i), sel.Pos(), "select arm not found")
			continue
		}
		rb := map[*ssa.BasicBlock]bool{}
		for _, b := range reload.Blocks {
			for _, in := range b.Instrs {
				if g, ok := in.(*ssa.Go); ok {
					if mc, ok := g.Call.Value.(*ssa.MakeClosure); ok && reaps(mc.Fn.(*ssa.Function)) {
						c.Examined(mc.Fn.(*ssa.Function))
						rb[b] = true
					}
				}
			}
		}
		leak := false
		if !rb[entry] {
			for b := range reachAvoiding(entry, rb, nil) {
				if len(b.Succs) == 0 {
					leak = true
				}
			}
		}
		c.Check(rule, fmt.Sprintf("%s|arm#%d|reaped", fnName(reload), i), !leak, entry.Instrs[0].Pos(), "an arm that gives up on the reload starts a reaper that receives the late result and closes what was opened")
	}
	c.Floor(rule, 4)
	c.Note("%s: channel hand-over protocol recognised (channel %s)", rule, ch)
	return true
}

// ---------------------------------------------------------------------------

func c06CloseGuard(c *Ctx) {
	rule := "C06.close-guard"
	c.Rule(rule, "A2: dbi.Close() in Destroy is control dependent on refCount == 0 and follows the destroyable store; in DataReader.Close it is control dependent on destroyable && refCount == 0 and follows exactly one decrement; NewReader increments refCount exactly once, outside loops, before every success return")
	fRef := c.Field("db", "DB", "refCount")
	fDes := c.Field("db", "DB", "destroyable")

	refZeroEdge := func(in ssa.Instruction) bool {
		return hasFact(in.Block(), func(v ssa.Value, truth bool) bool {
			b, ok := v.(*ssa.BinOp)
			if !ok || !isFieldLoad(b.X, fRef) {
				return false
			}
			k, isC := constInt(b.Y)
			if !isC || k != 0 {
				return false
			}
			switch b.Op {
			case token.EQL, token.LEQ:
				return truth
			case token.NEQ, token.GTR:
				return !truth
			}
			return false
		})
	}
	desTrueEdge := func(in ssa.Instruction) bool {
		return hasFact(in.Block(), func(v ssa.Value, truth bool) bool { return factFlagSet(v, truth, fDes) })
	}
	closeCalls := func(fn *ssa.Function) []ssa.CallInstruction {
		var out []ssa.CallInstruction
		for _, ci := range callInstrs(fn) {
			if isDBIMethodInvoke(c, ci.Common(), "Close") {
				out = append(out, ci)
			}
		}
		return out
	}
	// Destroy
	destroy := c.Func("db", "(*DB).Destroy")
	c.Examined(destroy)
	cc := closeCalls(destroy)
	c.Check(rule, fnName(destroy)+"|closes", len(cc) >= 1, destroy.Pos(), "Destroy can close the backend (no leak once the last reader is gone)")
	for i, ci := range cc {
		k := fmt.Sprintf("%s|close#%d", fnName(destroy), i)
		c.Check(rule, k+"|refCount==0", refZeroEdge(ci), ci.Pos(), "the backend is closed by Destroy only when no reader holds it")
		after := false
		for _, st := range flagSetters(destroy, fDes) {
			if instrDominates(st, ci) {
				after = true
			}
		}
		c.Check(rule, k+"|after-destroyable", after, ci.Pos(), "destroyable is set before the close decision, so a reader released later closes the backend")
	}
	// every exit of Destroy is reached with destroyable == true: after the store, or on the true edge of a test of the flag
	sets := true
	for _, ret := range returnsOf(destroy) {
		okRet := false
		for _, st := range flagSetters(destroy, fDes) {
			if instrDominates(st, ret) {
				okRet = true
			}
		}
		if desTrueEdge(ret) {
			okRet = true
		}
		if !okRet {
			sets = false
		}
	}
	c.Check(rule, fnName(destroy)+"|sets-destroyable", sets, destroy.Pos(), "Destroy marks the generation destroyable on every path")

	// DataReader.Close
	rclose := c.Func("db", "(*DataReader).Close")
	c.Examined(rclose)
	cc = closeCalls(rclose)
	c.Check(rule, fnName(rclose)+"|closes", len(cc) >= 1, rclose.Pos(), "the last reader of a replaced generation closes the backend")
	var decs []*ssa.Store
	for _, st := range storesToField(rclose, fRef) {
		if b, ok := st.Val.(*ssa.BinOp); ok && b.Op == token.SUB && isFieldLoad(b.X, fRef) {
			if v, ok := constInt(b.Y); ok && v == 1 {
				decs = append(decs, st)
			}
		}
	}
	okDec := len(decs) == 1 && len(storesToField(rclose, fRef)) == 1 && !inCycle(decs[0].Block())
	if okDec {
		pd := postDominators(rclose)
		okDec = pd[rclose.Blocks[0]][decs[0].Block()]
	}
	c.Check(rule, fnName(rclose)+"|one-decrement", okDec, rclose.Pos(), fmt.Sprintf("%d decrement(s) of refCount, on every path, not in a loop", len(decs)))
	for i, ci := range cc {
		k := fmt.Sprintf("%s|close#%d", fnName(rclose), i)
		c.Check(rule, k+"|refCount==0", refZeroEdge(ci), ci.Pos(), "closed only when this was the last reader")
		c.Check(rule, k+"|destroyable", desTrueEdge(ci), ci.Pos(), "closed only when the generation was replaced or shut down (a served generation stays open with zero readers)")
		after := len(decs) == 1 && instrDominates(decs[0], ci)
		c.Check(rule, k+"|after-decrement", after, ci.Pos(), "the zero test sees the count after this reader's release")
	}

	// NewReader
	nr := c.Func("db", "NewReader")
	c.Examined(nr)
	var incs []*ssa.Store
	for _, st := range storesToField(nr, fRef) {
		if b, ok := st.Val.(*ssa.BinOp); ok && b.Op == token.ADD && isFieldLoad(b.X, fRef) {
			if v, ok := constInt(b.Y); ok && v == 1 {
				incs = append(incs, st)
			}
		}
	}
	okInc := len(incs) == 1 && len(storesToField(nr, fRef)) == 1 && !inCycle(incs[0].Block())
	detail := fmt.Sprintf("%d increment(s)", len(incs))
	if okInc {
		// every return with a nil error is dominated by the increment
		for _, ret := range returnsOf(nr) {
			if len(ret.Results) < 2 {
				continue
			}
			succ := true
			for s := range sourcesOf(ret.Results[1]) {
				if s == nil || !isNilConst(s) {
					succ = false
				}
			}
			if succ && !instrDominates(incs[0], ret) {
				okInc = false
				detail = "success return at " + c.relPos(ret.Pos()) + " not preceded by the increment"
			}
			if !succ && instrDominates(incs[0], ret) {
				okInc = false
				detail = "error return at " + c.relPos(ret.Pos()) + " after the increment (count leaks, backend never closed)"
			}
		}
	}
	c.Check(rule, fnName(nr)+"|one-increment", okInc, nr.Pos(), detail)
	c.Floor(rule, 10)
}

// ---------------------------------------------------------------------------

func c06RejectCloses(c *Ctx) { c06RejectClosesAs(c, "C06.reject-closes") }

func c06RejectClosesAs(c *Ctx, rule string) {
	c.Rule(rule, "A2: a method used to validate a fresh backend destroys it before returning the validation error; (*DB).Reload validates fresh backends with such a method; a new *DB is returned only after the old generation's Destroy")
	destroyF := c.TypesFunc("db", "(*DB).Destroy")
	validate := c.TypesFunc("db", "(*DB).ValidateDbKey")
	reload := c.Func("db", "(*DB).Reload")
	// destroys-on-failure methods
	dof := map[*ssa.Function]bool{}
	for _, fn := range c.OurFuncs("db") {
		if fn.Parent() != nil || fn.Signature.Recv() == nil || len(fn.Params) == 0 {
			continue
		}
		recv := fn.Params[0]
		vcalls := callsTo(fn, func(f *types.Func) bool { return f == validate })
		dcalls := callsTo(fn, func(f *types.Func) bool { return f == destroyF })
		if len(vcalls) == 0 || len(dcalls) == 0 {
			continue
		}
		onRecv := func(ci ssa.CallInstruction) bool { return len(ci.Common().Args) > 0 && ci.Common().Args[0] == recv }
		if !onRecv(vcalls[0]) {
			continue
		}
		c.Examined(fn)
		// every return of a non-nil error is dominated by a Destroy on the receiver
		ok := true
		nerr := 0
		for _, ret := range returnsOf(fn) {
			if len(ret.Results) == 0 {
				continue
			}
			last := ret.Results[len(ret.Results)-1]
			nonNil := false
			for s := range sourcesOf(last) {
				if s == nil || !isNilConst(s) {
					nonNil = true
				}
			}
			if !nonNil {
				continue
			}
			nerr++
			d := false
			for _, dc := range dcalls {
				if onRecv(dc) && instrDominates(dc, ret) {
					d = true
				}
			}
			if !d {
				ok = false
			}
		}
		c.Check(rule, fnName(fn)+"|destroy-before-error-return", ok && nerr > 0, fn.Pos(), fmt.Sprintf("%d error returns, each preceded by Destroy of the rejected candidate", nerr))
		if ok && nerr > 0 {
			dof[fn] = true
		}
	}
	// in Reload: every validation call on the candidate, unless it is restricted to the same-backend case
	// (== f.dbi), either destroys the candidate itself on failure or is followed, on its own error edge,
	// by a Destroy/Close of the candidate on every path.
	c.Examined(reload)
	fDbi := c.Field("db", "DB", "dbi")
	recvName := reload.Params[0].Name()
	sameBackendOnly := func(b *ssa.BasicBlock) bool {
		return hasFact(b, func(v ssa.Value, truth bool) bool {
			bo, ok := v.(*ssa.BinOp)
			if !ok || (bo.Op != token.NEQ && bo.Op != token.EQL) {
				return false
			}
			served := func(x ssa.Value) bool {
				u, ok := unwrap(x).(*ssa.UnOp)
				if !ok || u.Op != token.MUL {
					return false
				}
				fa, ok := u.X.(*ssa.FieldAddr)
				return ok && fieldOf(fa) == fDbi && pathOf(fa.X) == recvName
			}
			if !served(bo.X) && !served(bo.Y) {
				return false
			}
			return (bo.Op == token.EQL) == truth
		})
	}
	nv := 0
	for _, ci := range callInstrs(reload) {
		sf := ci.Common().StaticCallee()
		if sf == nil || len(ci.Common().Args) == 0 {
			continue
		}
		if !(sf.Object() == validate || dof[sf]) || pathOf(ci.Common().Args[0]) == recvName {
			continue
		}
		call, ok := ci.(*ssa.Call)
		if !ok || sameBackendOnly(call.Block()) {
			continue
		}
		nv++
		construct := fmt.Sprintf("%s|candidate-validation#%d|%s", fnName(reload), nv, sf.Name())
		if dof[sf] {
			c.Check(rule, construct, true, call.Pos(), "validated with a method that destroys the rejected candidate before returning the error")
			continue
		}
		// plain validation: its own error test must lead to a Destroy/Close of the same wrapper
		wrapper := call.Call.Args[0]
		closesWrapper := map[*ssa.BasicBlock]bool{}
		for _, x := range callInstrs(reload) {
			cc := x.Common()
			if f := calleeOf(cc); f == destroyF && len(cc.Args) > 0 && sameSources(cc.Args[0], wrapper) {
				closesWrapper[x.Block()] = true
			}
		}
		okc := false
		for _, e := range nilEdgesOf(reload, func(v ssa.Value) bool { cl, _ := callOfValue(v); return cl == call }) {
			fail := e.If.Block().Succs[1-e.Succ]
			leak := false
			if !closesWrapper[fail] {
				for b := range reachAvoiding(fail, closesWrapper, nil) {
					if len(b.Succs) == 0 {
						leak = true
					}
				}
			}
			if !leak {
				okc = true
			}
		}
		c.Check(rule, construct, okc, call.Pos(), "a fresh candidate that fails validation must be destroyed on every path from the failed test to the return (no leak of rejected backends)")
	}
	if nv == 0 {
		c.Check(rule, fnName(reload)+"|candidate-validation", false, reload.Pos(), "no validation of a fresh candidate found in Reload")
	}
	// success with a fresh backend: old generation destroyed before the new one is returned
	recv := reload.Params[0]
	n := 0
	for _, ret := range returnsOf(reload) {
		if len(ret.Results) == 0 {
			continue
		}
		isNew := false
		for s := range sourcesOf(ret.Results[0]) {
			if s != nil && s != recv && pathOf(s) != recv.Name() && !isNilConst(s) {
				isNew = true
			}
		}
		if !isNew {
			continue
		}
		n++
		d := false
		for _, dc := range callsTo(reload, func(f *types.Func) bool { return f == destroyF }) {
			if len(dc.Common().Args) > 0 && pathOf(dc.Common().Args[0]) == recv.Name() && instrDominates(dc, ret) {
				d = true
			}
		}
		c.Check(rule, fmt.Sprintf("%s|old-destroyed-before-return-new#%d", fnName(reload), n), d, ret.Pos(), "the replaced generation is marked destroyable (closed now or by its last reader) before the new one is handed out")
	}
	c.Floor(rule, 3)
}

// ---------------------------------------------------------------------------

func c06WhoCloses(c *Ctx) {
	rule := "C06.who-closes"
	c.Rule(rule, "A8 who-may-call over the whole module (resolved callees): DBI.Close is invoked only by the life-cycle functions of db.DB (and by backend drivers on what they own); (*DB).Destroy is called only by (*DB).Reload, the validate-or-destroy helper and (*FBDNSDB).Close")
	allowClose := map[string]string{
		"(*db.DB).Destroy":       "closes when no reader is left",
		"(*db.DataReader).Close": "last reader of a replaced generation",
		"(*db.DB).Reload":        "timeout arm / reload goroutine close a late fresh backend",
	}
	allowDestroy := map[string]string{
		"(*db.DB).Reload":                 "replaces the old generation",
		"(*db.DB).validateDbKeyOrDestroy": "rejects a fresh candidate",
		"(*dnsserver.FBDNSDB).Close":      "shutdown",
	}
	destroyF := c.TypesFunc("db", "(*DB).Destroy")
	nClose, nDestroy := 0, 0
	for _, fn := range c.OurFuncs() {
		if fn.Pkg.Pkg.Name() == "main" {
			continue
		}
		for _, ci := range callInstrs(fn) {
			cc := ci.Common()
			if isDBIMethodInvoke(c, cc, "Close") {
				nClose++
				root := fn
				for root.Parent() != nil {
					root = root.Parent()
				}
				_, ok := allowClose[fnName(root)]
				who := fnName(root)
				if root != fn {
					who += "$closure"
				}
				c.Check(rule, "DBI.Close|caller:"+who, ok, ci.Pos(), "only the reference-counting life cycle may close a backend")
			}
			if calleeOf(cc) == destroyF {
				nDestroy++
				_, ok := allowDestroy[fnName(fn)]
				c.Check(rule, "DB.Destroy|caller:"+fnName(fn), ok, ci.Pos(), "only reload, candidate rejection and shutdown may destroy a generation")
			}
		}
	}
	// a *DB wrapper's backend reached around the DB methods: any other access to DB.dbi outside package db's own methods
	fDbi := c.Field("db", "DB", "dbi")
	for _, fn := range c.OurFuncs() {
		if shortPkg(fn.Pkg.Pkg.Path()) == "db" {
			continue
		}
		for _, b := range fn.Blocks {
			for _, in := range b.Instrs {
				if fa, ok := in.(*ssa.FieldAddr); ok && fieldOf(fa) == fDbi {
					c.Check(rule, "DB.dbi|outside-db|"+fnName(fn), false, fa.Pos(), "the backend handle escapes the package that counts its references")
				}
			}
		}
	}
	c.Note("C06.who-closes: %d DBI.Close call sites, %d Destroy call sites examined", nClose, nDestroy)
	c.Floor(rule, 6)
}

// ---------------------------------------------------------------------------

func c06ClosedState(c *Ctx) {
	rule := "C06.closed-state"
	c.Rule(rule, "A2 typestate after shutdown, accepted in either form: (a) db.NewReader refuses a DB whose destroyable flag is set (the increment is dominated by a test of it) and Destroy closes at most once; or (b) every FBDNSDB method that uses dnsdb after construction tests a closed indicator under reloadMu first")
	fDes := c.Field("db", "DB", "destroyable")
	nr := c.Func("db", "NewReader")
	destroy := c.Func("db", "(*DB).Destroy")
	fRef := c.Field("db", "DB", "refCount")
	// form (a), part 1
	a1 := false
	for _, st := range storesToField(nr, fRef) {
		if hasFact(st.Block(), func(v ssa.Value, truth bool) bool { return factFlagWasClear(v, truth, fDes) }) {
			a1 = true
		}
	}
	// form (a), part 2: the close in Destroy is dominated by the "was not destroyable before" edge
	a2 := false
	for _, ci := range callInstrs(destroy) {
		if !isDBIMethodInvoke(c, ci.Common(), "Close") {
			continue
		}
		if hasFact(ci.Block(), func(v ssa.Value, truth bool) bool { return factFlagWasClear(v, truth, fDes) }) {
			a2 = true
		}
	}
	// form (b)
	b := true
	fDnsdb := c.tabledFieldByName("dnsserver", "FBDNSDB", "dnsdb")
	nb := 0
	for _, fn := range c.OurFuncs("dnsserver") {
		if fn.Parent() != nil || fn.Signature.Recv() == nil {
			continue
		}
		loads := loadsOfField(fn, fDnsdb)
		if len(loads) == 0 || lockExempt[fnName(fn)] != "" {
			continue
		}
		nb++
		for _, ld := range loads {
			g := false
			for _, e := range guardingEdges(ld.Block()) {
				cond, _ := stripNot(e.If.Cond)
				if u, ok := unwrap(cond).(*ssa.UnOp); ok && u.Op == token.MUL {
					if fa, ok := u.X.(*ssa.FieldAddr); ok && pathOf(fa.X) == fn.Params[0].Name() {
						if bt, ok := fa.Type().(*types.Pointer).Elem().Underlying().(*types.Basic); ok && bt.Kind() == types.Bool {
							g = true
						}
					}
				}
			}
			if !g {
				b = false
			}
		}
	}
	c.Check(rule, "db.NewReader|refuse-destroyed", a1 || (b && nb > 0), nr.Pos(), "history shutdown → acquire → use: NewReader hands out a reader on a generation that Destroy already closed (neither NewReader tests destroyable nor do the FBDNSDB entry points test a closed flag)")
	c.Check(rule, "(*db.DB).Destroy|close-once", a2 || (b && nb > 0), destroy.Pos(), "history shutdown → reload-new-ok (or any second Destroy with refCount 0): the backend is closed a second time (the close is not guarded by a state entered only once)")
}
