package main

// inline.go — the "baseline view" of the program.
//
// Most rules are anchored in named functions of the pinned tree (FBDNSDB.Reload, sortedDataReader.find,
// putrrhead, …) and decide a structural necessary condition on the body of that function. The commonest
// behaviour-preserving maintenance edit — extracting part of such a function into a new helper — moves the
// constructs a rule looks for out of the anchor. To keep the rules exact under that edit the checker can
// build a second, semantically equivalent view of the program in which every function that is NOT in the
// frozen list of baseline functions (tool/baseline_funcs.txt) is inlined, at source level, into its callers
// of the same package. The rules are then re-run on that view; an obligation is reported only if its rule
// fails in both views (the views are equivalent programs, so a necessary condition that is shown to hold in
// one of them holds in the other).
//
// The inliner is deliberately conservative: it only inlines static calls to same-package functions/methods
// without defer/recover, never changes the order of impure evaluations, and gives up (leaves the call in
// place) on anything it does not handle. If the rewritten files do not type-check the view is discarded and
// the first view's verdict stands. On a tree with no new functions the view is identical to the source and
// is never built.

import (
	"bytes"
	_ "embed"
	"fmt"
	"go/ast"
	"go/format"
	"go/token"
	"go/types"
	"reflect"
	"sort"
	"strings"

	"golang.org/x/tools/go/ast/astutil"
	"golang.org/x/tools/go/packages"
)

//go:embed baseline_funcs.txt
var baselineFuncsTxt string

// baselineFuncs: "pkg\tName" -> signature as recorded on the baseline tree ("" if the list has no signature column).
// A function whose signature differs from the recorded one changed together with its callers (an internal helper
// that now takes or returns something else): it is treated like a new function and inlined in the baseline view.
var baselineFuncs = func() map[string]string {
	m := map[string]string{}
	for _, l := range strings.Split(baselineFuncsTxt, "\n") {
		l = strings.TrimRight(l, " \r")
		if l == "" || strings.HasPrefix(l, "#") {
			continue
		}
		parts := strings.SplitN(l, "\t", 3)
		if len(parts) < 2 {
			continue
		}
		sig := ""
		if len(parts) == 3 {
			sig = parts[2]
		}
		m[parts[0]+"\t"+parts[1]] = sig
	}
	return m
}()

func sigString(f *types.Func) string {
	if f == nil {
		return ""
	}
	sig := f.Type().(*types.Signature)
	// the names of parameters and results are not part of the identity (naming or un-naming results is a common edit)
	anon := func(t *types.Tuple) *types.Tuple {
		var vs []*types.Var
		for i := 0; i < t.Len(); i++ {
			vs = append(vs, types.NewVar(token.NoPos, nil, "", t.At(i).Type()))
		}
		return types.NewTuple(vs...)
	}
	return types.TypeString(types.NewSignatureType(nil, nil, nil, anon(sig.Params()), anon(sig.Results()), sig.Variadic()), func(p *types.Package) string { return p.Path() })
}

func sigStringOld(f *types.Func) string {
	sig := f.Type().(*types.Signature)
	return types.TypeString(types.NewSignatureType(nil, nil, nil, sig.Params(), sig.Results(), sig.Variadic()), func(p *types.Package) string { return p.Path() })
}

// declName: "pkg\tName" or "pkg\tRecv.Name" (pointer-ness of the receiver ignored).
func declName(pkgShort string, fd *ast.FuncDecl) string {
	n := fd.Name.Name
	if fd.Recv != nil && len(fd.Recv.List) == 1 {
		t := fd.Recv.List[0].Type
		for {
			switch x := t.(type) {
			case *ast.StarExpr:
				t = x.X
				continue
			case *ast.ParenExpr:
				t = x.X
				continue
			case *ast.IndexExpr:
				t = x.X
				continue
			}
			break
		}
		if id, ok := t.(*ast.Ident); ok {
			n = id.Name + "." + n
		}
	}
	return pkgShort + "\t" + n
}

// dumpFuncs prints the function list of the loaded tree (used to regenerate baseline_funcs.txt).
func dumpFuncs(p *Prog) []string {
	var out []string
	for _, pk := range p.All {
		for _, f := range pk.Syntax {
			if p.isMockFile(f.Pos()) {
				continue
			}
			for _, d := range f.Decls {
				if fd, ok := d.(*ast.FuncDecl); ok {
					f, _ := pk.TypesInfo.Defs[fd.Name].(*types.Func)
					out = append(out, declName(shortPkg(pk.PkgPath), fd)+"\t"+sigString(f))
				}
			}
		}
	}
	sort.Strings(out)
	return out
}

type inlineStats struct {
	NewFuncs  []string
	Inlined   int
	Skipped   []string
	Dropped   []string
	Files     []string
	TypeError string
}

type inliner struct {
	sentinels     map[*types.Var]bool
	p             *Prog
	pk            *packages.Package
	file          *ast.File
	newFn         map[*types.Func]*ast.FuncDecl
	orig          map[ast.Node]ast.Node // clone -> original node (idents, calls)
	n             int
	stats         *inlineStats
	changed       bool
	imports       map[string]string // path -> local name to add to the current file
	writtenObjs   map[types.Object]bool
	pendingThread *threadInfo
	pendingRange  *rangeInfo                   // the next inlined call is the operand of a range statement: unroll the body at its return sites
	litFuncs      map[types.Object]*types.Func // local variable / parameter bound once to a function literal and only ever called
	litSynth      map[*types.Func]bool         // … bound while inlining (a callback argument): its free variables are the caller's
	litVars       map[types.Object]bool        // closure variables of the source that are being inlined (their definition gets a blank use)
	pendingSinks  []ast.Expr                   // where the next inlined call has to leave its results (instead of fresh temporaries)
}

// buildInlinedView returns an overlay in which calls to non-baseline functions are inlined, or nil if there is nothing to do.
func buildInlinedView(p *Prog) (map[string][]byte, *inlineStats) {
	st := &inlineStats{}
	overlay := map[string][]byte{}
	for _, pk := range p.All {
		if !p.isOurs(pk.Types) {
			continue
		}
		newFn := map[*types.Func]*ast.FuncDecl{}
		for _, f := range pk.Syntax {
			if p.isMockFile(f.Pos()) {
				continue
			}
			for _, d := range f.Decls {
				fd, ok := d.(*ast.FuncDecl)
				if !ok || fd.Body == nil {
					continue
				}
				obj0, _ := pk.TypesInfo.Defs[fd.Name].(*types.Func)
				if bsig, known := baselineFuncs[declName(shortPkg(pk.PkgPath), fd)]; known && (bsig == "" || bsig == sigString(obj0) || fd.Name.IsExported()) {
					continue // a baseline function with its baseline signature (exported API is never inlined)
				}
				if obj, ok := pk.TypesInfo.Defs[fd.Name].(*types.Func); ok {
					if fd.Type.TypeParams != nil {
						continue
					}
					newFn[obj] = fd
					st.NewFuncs = append(st.NewFuncs, strings.ReplaceAll(declName(shortPkg(pk.PkgPath), fd), "\t", "."))
				}
			}
		}
		if len(newFn) == 0 {
			continue
		}
		in := &inliner{p: p, pk: pk, newFn: newFn, orig: map[ast.Node]ast.Node{}, stats: st}
		in.registerClosures()
		type fileState struct {
			orig, clone *ast.File
			imports     map[string]string
			changed     bool
		}
		var files []*fileState
		for _, f := range pk.Syntax {
			if p.isMockFile(f.Pos()) {
				continue
			}
			usesCgo := false
			for _, im := range f.Imports {
				if im.Path.Value == `"C"` {
					usesCgo = true
				}
			}
			if usesCgo {
				continue
			}
			in.file = f
			in.imports = map[string]string{}
			in.changed = false
			nf := in.cloneNode(f).(*ast.File)
			// File.Imports has to alias the specs of the import declarations (astutil relies on it); the clone copied them twice
			nf.Imports = nil
			for _, d := range nf.Decls {
				if gd, ok := d.(*ast.GenDecl); ok && gd.Tok == token.IMPORT {
					for _, sp := range gd.Specs {
						nf.Imports = append(nf.Imports, sp.(*ast.ImportSpec))
					}
				}
			}
			for _, d := range nf.Decls {
				fd, ok := d.(*ast.FuncDecl)
				if !ok || fd.Body == nil {
					continue
				}
				labelLoopBranches(fd)
				fd.Body.List = in.processList(fd.Body.List, nil, nil)
			}
			files = append(files, &fileState{orig: f, clone: nf, imports: in.imports, changed: in.changed})
		}
		// a new, unexported function whose every call was inlined is dead in this view: drop its declaration, so that
		// the view is the program "before the helper was extracted"
		refs := map[*types.Func]int{}
		for _, fs := range files {
			ast.Inspect(fs.clone, func(n ast.Node) bool {
				if id, ok := n.(*ast.Ident); ok {
					if o, _ := in.origOf(id).(*ast.Ident); o != nil {
						if fn, ok := pk.TypesInfo.Uses[o].(*types.Func); ok && newFn[fn] != nil {
							refs[fn]++
						}
					}
				}
				return true
			})
		}
		for _, fs := range files {
			var keepDecls []ast.Decl
			for _, d := range fs.clone.Decls {
				if fd, ok := d.(*ast.FuncDecl); ok {
					if ofd, _ := in.origOf(fd).(*ast.FuncDecl); ofd != nil {
						if fn, ok := pk.TypesInfo.Defs[ofd.Name].(*types.Func); ok && newFn[fn] != nil && !fn.Exported() && refs[fn] == 0 && st.Inlined > 0 {
							fs.changed = true
							st.Dropped = append(st.Dropped, fn.Name())
							continue
						}
					}
				}
				keepDecls = append(keepDecls, d)
			}
			fs.clone.Decls = keepDecls
		}
		for _, fs := range files {
			if !fs.changed {
				continue
			}
			f, nf := fs.orig, fs.clone
			// keep only the comments in front of the package clause (build constraints); the others have lost their anchors
			var keep []*ast.CommentGroup
			for _, cg := range nf.Comments {
				if cg.End() < nf.Package {
					keep = append(keep, cg)
				}
			}
			nf.Comments = keep
			nf.Doc = nil
			for _, d := range nf.Decls {
				stripDocs(d)
			}
			for path, name := range fs.imports {
				astutil.AddNamedImport(p.Fset, nf, name, path)
			}
			// imports that nothing refers to any more
			usedQual := map[string]bool{}
			ast.Inspect(nf, func(n ast.Node) bool {
				if se, ok := n.(*ast.SelectorExpr); ok {
					if id, ok := se.X.(*ast.Ident); ok {
						usedQual[id.Name] = true
					}
				}
				if id, ok := n.(*ast.Ident); ok && strings.Contains(id.Name, ".") {
					// type expressions printed verbatim ("pkg.Type")
					for _, part := range strings.FieldsFunc(id.Name, func(r rune) bool {
						return !(r == '_' || r == '.' || r >= '0' && r <= '9' || r >= 'a' && r <= 'z' || r >= 'A' && r <= 'Z')
					}) {
						if i := strings.Index(part, "."); i > 0 {
							usedQual[part[:i]] = true
						}
					}
				}
				return true
			})
			for _, im := range f.Imports {
				path := strings.Trim(im.Path.Value, `"`)
				name, explicit := "", ""
				if im.Name != nil {
					name, explicit = im.Name.Name, im.Name.Name
				} else if pn := pk.TypesInfo.Implicits[im]; pn != nil {
					name = pn.Name()
				}
				if name == "" || name == "_" || name == "." || usedQual[name] {
					continue
				}
				astutil.DeleteNamedImport(p.Fset, nf, explicit, path)
			}
			var buf bytes.Buffer
			if err := format.Node(&buf, p.Fset, nf); err != nil {
				st.Skipped = append(st.Skipped, fmt.Sprintf("%s: print: %v", p.Fset.Position(f.Pos()).Filename, err))
				continue
			}
			fname := p.Fset.Position(f.Pos()).Filename
			overlay[fname] = buf.Bytes()
			st.Files = append(st.Files, fname)
		}
	}
	sort.Strings(st.NewFuncs)
	if len(overlay) == 0 {
		return nil, st
	}
	return overlay, st
}

func stripDocs(d ast.Decl) {
	ast.Inspect(d, func(n ast.Node) bool {
		switch x := n.(type) {
		case *ast.FuncDecl:
			x.Doc = nil
		case *ast.GenDecl:
			x.Doc = nil
		case *ast.ValueSpec:
			x.Doc, x.Comment = nil, nil
		case *ast.TypeSpec:
			x.Doc, x.Comment = nil, nil
		case *ast.Field:
			x.Doc, x.Comment = nil, nil
		case *ast.ImportSpec:
			x.Doc, x.Comment = nil, nil
		}
		return true
	})
}

// ---------------------------------------------------------------------------
// deep copy of AST nodes, remembering the original of every node

var (
	identPtrType = reflect.TypeOf((*ast.Ident)(nil))
	objPtrType   = reflect.TypeOf((*ast.Object)(nil))
	scopePtrType = reflect.TypeOf((*ast.Scope)(nil))
)

func (in *inliner) cloneNode(n ast.Node) ast.Node {
	if n == nil {
		return nil
	}
	v := in.cloneValue(reflect.ValueOf(n))
	return v.Interface().(ast.Node)
}

func (in *inliner) cloneValue(v reflect.Value) reflect.Value {
	switch v.Kind() {
	case reflect.Ptr:
		if v.IsNil() {
			return v
		}
		if v.Type() == objPtrType || v.Type() == scopePtrType {
			return reflect.Zero(v.Type())
		}
		nv := reflect.New(v.Type().Elem())
		nv.Elem().Set(in.cloneValue(v.Elem()))
		if on, ok := v.Interface().(ast.Node); ok {
			nn := nv.Interface().(ast.Node)
			if o, ok := in.orig[on]; ok {
				in.orig[nn] = o
			} else {
				in.orig[nn] = on
			}
		}
		return nv
	case reflect.Interface:
		if v.IsNil() {
			return v
		}
		nv := reflect.New(v.Type()).Elem()
		nv.Set(in.cloneValue(v.Elem()))
		return nv
	case reflect.Slice:
		if v.IsNil() {
			return v
		}
		nv := reflect.MakeSlice(v.Type(), v.Len(), v.Len())
		for i := 0; i < v.Len(); i++ {
			nv.Index(i).Set(in.cloneValue(v.Index(i)))
		}
		return nv
	case reflect.Struct:
		nv := reflect.New(v.Type()).Elem()
		for i := 0; i < v.NumField(); i++ {
			if nv.Field(i).CanSet() {
				nv.Field(i).Set(in.cloneValue(v.Field(i)))
			}
		}
		return nv
	default:
		return v
	}
}

// origOf returns the node of the loaded (type-checked) syntax that n was cloned from, or nil for synthesised nodes.
func (in *inliner) origOf(n ast.Node) ast.Node {
	if o, ok := in.orig[n]; ok {
		return o
	}
	return nil
}

func (in *inliner) objectOf(id *ast.Ident) types.Object {
	o, _ := in.origOf(id).(*ast.Ident)
	if o == nil {
		return nil
	}
	return in.pk.TypesInfo.ObjectOf(o)
}

// ---------------------------------------------------------------------------
// finding inlinable calls

// calleeOfCall resolves a (cloned) call expression to a non-baseline function of this package, if it is a static call.
func (in *inliner) calleeOfCall(call *ast.CallExpr) (*types.Func, *ast.FuncDecl) {
	oc, _ := in.origOf(call).(*ast.CallExpr)
	if oc == nil {
		return nil, nil
	}
	var id *ast.Ident
	switch f := ast.Unparen(oc.Fun).(type) {
	case *ast.Ident:
		id = f
	case *ast.SelectorExpr:
		if sel := in.pk.TypesInfo.Selections[f]; sel != nil {
			if sel.Kind() != types.MethodVal || len(sel.Index()) != 1 {
				return nil, nil
			}
			if types.IsInterface(sel.Recv()) {
				return nil, nil
			}
		} else {
			return nil, nil // qualified identifier of another package
		}
		id = f.Sel
	default:
		return nil, nil
	}
	fn, _ := in.pk.TypesInfo.Uses[id].(*types.Func)
	if fn == nil {
		if v, ok := in.pk.TypesInfo.Uses[id].(*types.Var); ok && in.litFuncs != nil {
			fn = in.litFuncs[v]
		}
	}
	if fn == nil {
		return nil, nil
	}
	fd := in.newFn[fn]
	if fd == nil {
		return nil, nil
	}
	return fn, fd
}

func inlinableBody(fd *ast.FuncDecl) string {
	why := ""
	var walk func(n ast.Node, inLoop bool)
	walk = func(n ast.Node, inLoop bool) {
		ast.Inspect(n, func(x ast.Node) bool {
			if why != "" || x == nil {
				return false
			}
			switch y := x.(type) {
			case *ast.FuncLit:
				// a defer inside a function literal belongs to that literal; recover anywhere is refused
				ast.Inspect(y.Body, func(z ast.Node) bool {
					if c, ok := z.(*ast.CallExpr); ok {
						if id, ok := c.Fun.(*ast.Ident); ok && id.Name == "recover" {
							why = "recover"
						}
					}
					return why == ""
				})
				return false
			case *ast.ForStmt:
				if x != n {
					walk(y.Body, true)
					return false
				}
			case *ast.RangeStmt:
				if x != n {
					walk(y.Body, true)
					return false
				}
			case *ast.DeferStmt:
				if inLoop {
					why = "defer in a loop"
				}
			case *ast.CallExpr:
				if id, ok := y.Fun.(*ast.Ident); ok && id.Name == "recover" {
					why = "recover"
				}
			}
			return true
		})
	}
	walk(fd.Body, false)
	return why
}

// containsInlinable reports whether the expression contains (outside function literals) a call that can be inlined.
func (in *inliner) containsInlinable(e ast.Node, stack []*types.Func) bool {
	found := false
	ast.Inspect(e, func(n ast.Node) bool {
		if found {
			return false
		}
		switch x := n.(type) {
		case *ast.FuncLit:
			return false
		case *ast.CallExpr:
			if fn, fd := in.calleeOfCall(x); fn != nil && !onStack(stack, fn) && inlinableBody(fd) == "" {
				found = true
			}
		}
		return true
	})
	return found
}

func onStack(stack []*types.Func, fn *types.Func) bool {
	for _, s := range stack {
		if s == fn {
			return true
		}
	}
	return false
}

// pureExpr: evaluation has no side effect and does not depend on evaluation order relative to calls
// (identifiers, selectors, literals, index/slice expressions, len/cap, conversions, arithmetic).
func (in *inliner) pureExpr(e ast.Expr) bool {
	pure := true
	ast.Inspect(e, func(n ast.Node) bool {
		switch x := n.(type) {
		case *ast.FuncLit:
			return false
		case *ast.CallExpr:
			if in.isPureCall(x) {
				return true
			}
			pure = false
		case *ast.UnaryExpr:
			if x.Op == token.ARROW {
				pure = false
			}
		}
		return pure
	})
	return pure
}

func (in *inliner) isPureCall(c *ast.CallExpr) bool {
	oc, _ := in.origOf(c).(*ast.CallExpr)
	if oc == nil {
		return false
	}
	if tv, ok := in.pk.TypesInfo.Types[oc.Fun]; ok && tv.IsType() {
		return true // conversion
	}
	if id, ok := ast.Unparen(oc.Fun).(*ast.Ident); ok {
		if b, ok := in.pk.TypesInfo.Uses[id].(*types.Builtin); ok {
			switch b.Name() {
			case "len", "cap", "min", "max", "real", "imag", "complex":
				return true
			}
		}
	}
	return false
}

// ---------------------------------------------------------------------------
// statement lists

// processList rewrites a statement list: nested lists first, then the calls evaluated by each statement itself.
// stack: functions being inlined (recursion guard); sites: positions of the enclosing call sites (capture checks).
func (in *inliner) processList(list []ast.Stmt, stack []*types.Func, sites []token.Pos) []ast.Stmt {
	var out []ast.Stmt
	for i := 0; i < len(list); i++ {
		s := list[i]
		// `x[, err] := h(...)` followed by `if x != nil {…}` / `if err != nil {…}`: thread the test into the return sites
		// of h, which is the shape the code had before h was extracted (no merge of "found" and "not found" paths)
		if as, ok := s.(*ast.AssignStmt); ok && i+1 < len(list) && len(as.Rhs) == 1 {
			if call, ok := ast.Unparen(as.Rhs[0]).(*ast.CallExpr); ok {
				if ifs, ok := list[i+1].(*ast.IfStmt); ok {
					if th := in.threadable(as, ifs); th != nil {
						for _, r := range as.Rhs {
							in.processFuncLits(r, stack, sites)
						}
						in.pendingThread = th
						st := in.sinkAssign(as, call, stack, sites)
						in.pendingThread = nil
						if st != nil {
							out = append(out, st...)
							i++ // the if statement now lives in the return sites
							continue
						}
					}
				}
			}
		}
		out = append(out, in.processStmt(s, stack, sites)...)
	}
	return out
}

// threadInfo: the if statement that follows an assignment from an inlined call and tests one of the assigned variables.
type threadInfo struct {
	ifs          *ast.IfStmt
	sink         int  // index of the tested left-hand side
	whenSet      bool // true: the Body runs when the variable is non-nil / true
	freeContinue bool // the if statement continues a loop that is around it
}

// threadable recognises `if v != nil`, `if v == nil`, `if v`, `if !v` where v is one of the assigned identifiers.
func (in *inliner) threadable(as *ast.AssignStmt, ifs *ast.IfStmt) *threadInfo {
	if ifs.Init != nil {
		return nil
	}
	hasLabel := false
	ast.Inspect(ifs, func(n ast.Node) bool {
		if _, ok := n.(*ast.LabeledStmt); ok {
			hasLabel = true
		}
		return !hasLabel
	})
	if hasLabel {
		return nil
	}
	// an unlabeled break / continue of the if statement that belongs to a statement AROUND it would bind to something
	// else once the if statement sits inside the inlined body (the body is wrapped in a switch, and may have loops)
	freeBreak, freeContinue := false, false
	var scan func(n ast.Node, inLoop, inBreakable bool)
	scan = func(n ast.Node, inLoop, inBreakable bool) {
		ast.Inspect(n, func(x ast.Node) bool {
			if x == nil || x == n {
				return true
			}
			switch y := x.(type) {
			case *ast.FuncLit:
				return false
			case *ast.ForStmt:
				scan(y.Body, true, true)
				return false
			case *ast.RangeStmt:
				scan(y.Body, true, true)
				return false
			case *ast.SwitchStmt:
				scan(y.Body, inLoop, true)
				return false
			case *ast.TypeSwitchStmt:
				scan(y.Body, inLoop, true)
				return false
			case *ast.SelectStmt:
				scan(y.Body, inLoop, true)
				return false
			case *ast.BranchStmt:
				if y.Label == nil {
					if y.Tok == token.BREAK && !inBreakable {
						freeBreak = true
					}
					if y.Tok == token.CONTINUE && !inLoop {
						freeContinue = true
					}
				}
			}
			return true
		})
	}
	scan(ifs, false, false)
	if freeBreak {
		return nil
	}
	var name string
	whenSet := true
	switch c := ast.Unparen(ifs.Cond).(type) {
	case *ast.Ident:
		name = c.Name
	case *ast.UnaryExpr:
		if id, ok := ast.Unparen(c.X).(*ast.Ident); ok && c.Op == token.NOT {
			name, whenSet = id.Name, false
		}
	case *ast.BinaryExpr:
		id, ok := ast.Unparen(c.X).(*ast.Ident)
		n, ok2 := ast.Unparen(c.Y).(*ast.Ident)
		if ok && ok2 && n.Name == "nil" && (c.Op == token.NEQ || c.Op == token.EQL) {
			name, whenSet = id.Name, c.Op == token.NEQ
		}
	}
	if name == "" || name == "_" {
		return nil
	}
	for i, l := range as.Lhs {
		if id, ok := l.(*ast.Ident); ok && id.Name == name {
			return &threadInfo{ifs: ifs, sink: i, whenSet: whenSet, freeContinue: freeContinue}
		}
	}
	return nil
}

func (in *inliner) processBlock(b *ast.BlockStmt, stack []*types.Func, sites []token.Pos) {
	if b != nil {
		b.List = in.processList(b.List, stack, sites)
	}
}

// processFuncLits handles the bodies of function literals inside an expression/statement (own statement lists).
func (in *inliner) processFuncLits(n ast.Node, stack []*types.Func, sites []token.Pos) {
	if n == nil {
		return
	}
	ast.Inspect(n, func(x ast.Node) bool {
		if fl, ok := x.(*ast.FuncLit); ok {
			in.processBlock(fl.Body, stack, sites)
			return false
		}
		switch x.(type) {
		case *ast.BlockStmt:
			// nested statement bodies are handled by processStmt
			return false
		}
		return true
	})
}

func (in *inliner) processStmt(s ast.Stmt, stack []*types.Func, sites []token.Pos) []ast.Stmt {
	switch x := s.(type) {
	case *ast.BlockStmt:
		in.processBlock(x, stack, sites)
		return []ast.Stmt{x}
	case *ast.LabeledStmt:
		inner := in.processStmt(x.Stmt, stack, sites)
		if len(inner) == 1 {
			x.Stmt = inner[0]
			return []ast.Stmt{x}
		}
		// hoisted statements go in front of the label only if the labelled statement is not a loop target of continue:
		// keep it simple and safe: wrap them so the label still names the original statement
		last := inner[len(inner)-1]
		if _, isFor := last.(*ast.ForStmt); isFor {
			x.Stmt = last
			return append(inner[:len(inner)-1:len(inner)-1], x)
		}
		if _, isRange := last.(*ast.RangeStmt); isRange {
			x.Stmt = last
			return append(inner[:len(inner)-1:len(inner)-1], x)
		}
		x.Stmt = &ast.BlockStmt{List: inner}
		return []ast.Stmt{x}
	case *ast.IfStmt:
		return in.processIf(x, stack, sites)
	case *ast.ForStmt:
		in.processBlock(x.Body, stack, sites)
		in.processFuncLits(x.Cond, stack, sites)
		if x.Cond != nil && x.Init == nil && x.Post == nil && in.containsInlinable(x.Cond, stack) {
			// for cond { body }  =>  for { <cond>; if !t { break }; body }
			pre, t := in.lowerBool(x.Cond, stack, sites)
			brk := &ast.IfStmt{Cond: &ast.UnaryExpr{Op: token.NOT, X: t}, Body: &ast.BlockStmt{List: []ast.Stmt{&ast.BranchStmt{Tok: token.BREAK}}}}
			x.Cond = nil
			x.Body.List = append(append(pre, brk), x.Body.List...)
		}
		return []ast.Stmt{x}
	case *ast.RangeStmt:
		in.processBlock(x.Body, stack, sites)
		in.processFuncLits(x.X, stack, sites)
		if st := in.unrollRange(x, stack, sites); st != nil {
			return st
		}
		pre := in.hoist(&x.X, stack, sites)
		return append(pre, x)
	case *ast.SwitchStmt:
		for _, cc := range x.Body.List {
			c := cc.(*ast.CaseClause)
			c.Body = in.processList(c.Body, stack, sites)
		}
		var pre []ast.Stmt
		if x.Tag != nil && in.containsInlinable(x.Tag, stack) {
			if x.Init != nil {
				pre = append(pre, in.processStmt(x.Init, stack, sites)...)
				x.Init = nil
			}
			pre = append(pre, in.hoist(&x.Tag, stack, sites)...)
			return []ast.Stmt{&ast.BlockStmt{List: append(pre, x)}}
		}
		return []ast.Stmt{x}
	case *ast.TypeSwitchStmt:
		for _, cc := range x.Body.List {
			c := cc.(*ast.CaseClause)
			c.Body = in.processList(c.Body, stack, sites)
		}
		return []ast.Stmt{x}
	case *ast.SelectStmt:
		for _, cc := range x.Body.List {
			c := cc.(*ast.CommClause)
			c.Body = in.processList(c.Body, stack, sites)
		}
		return []ast.Stmt{x}
	case *ast.ExprStmt:
		in.processFuncLits(x.X, stack, sites)
		if call, ok := x.X.(*ast.CallExpr); ok {
			if st := in.inlineCall(call, stack, sites, nil); st != nil {
				return st
			}
		}
		pre := in.hoist(&x.X, stack, sites)
		return append(pre, x)
	case *ast.AssignStmt:
		for _, r := range x.Rhs {
			in.processFuncLits(r, stack, sites)
		}
		if x.Tok == token.DEFINE && len(x.Lhs) == 1 && len(x.Rhs) == 1 {
			if id, ok := x.Lhs[0].(*ast.Ident); ok {
				if o, _ := in.origOf(id).(*ast.Ident); o != nil && in.litVars[in.pk.TypesInfo.Defs[o]] {
					// its calls are inlined: keep the variable used
					return []ast.Stmt{x, &ast.AssignStmt{Lhs: []ast.Expr{ast.NewIdent("_")}, Tok: token.ASSIGN, Rhs: []ast.Expr{ast.NewIdent(id.Name)}}}
				}
			}
		}
		if len(x.Rhs) == 1 {
			if call, ok := ast.Unparen(x.Rhs[0]).(*ast.CallExpr); ok {
				if st := in.sinkAssign(x, call, stack, sites); st != nil {
					return st
				}
			}
			if call, ok := ast.Unparen(x.Rhs[0]).(*ast.CallExpr); ok && len(x.Lhs) > 1 {
				// a, b := h(...)
				var temps []ast.Expr
				if fn, _ := in.calleeOfCall(call); fn != nil {
					if st := in.inlineCall(call, stack, sites, &temps); st != nil && len(temps) == len(x.Lhs) {
						x.Rhs = temps
						return append(st, x)
					}
					return []ast.Stmt{x}
				}
				// not an inlinable call itself: its arguments may still hold inlinable calls (handled below)
			}
		}
		var pre []ast.Stmt
		lhsPure := true
		for _, l := range x.Lhs {
			if !in.pureExpr(l) {
				lhsPure = false
			}
		}
		if lhsPure {
			for i := range x.Rhs {
				if i > 0 && !in.allPure(x.Rhs[:i]) {
					break
				}
				if b, ok := x.Rhs[i].(ast.Expr); ok && in.isBoolShortCircuit(b) && in.containsInlinable(b, stack) && len(x.Rhs) == 1 {
					p, t := in.lowerBool(b, stack, sites)
					pre = append(pre, p...)
					x.Rhs[i] = t
					continue
				}
				pre = append(pre, in.hoist(&x.Rhs[i], stack, sites)...)
			}
		}
		return append(pre, x)
	case *ast.ReturnStmt:
		for _, r := range x.Results {
			in.processFuncLits(r, stack, sites)
		}
		if len(x.Results) == 1 {
			if call, ok := ast.Unparen(x.Results[0]).(*ast.CallExpr); ok {
				if fn, fd := in.calleeOfCall(call); fn != nil && !onStack(stack, fn) && inlinableBody(fd) == "" {
					// the callee's own body must end in a return (no falling off the end) for the tail form
					endsInReturn := false
					if n := len(fd.Body.List); n > 0 {
						_, endsInReturn = fd.Body.List[n-1].(*ast.ReturnStmt)
					}
					argsOK := true
					for _, a := range call.Args {
						if in.containsInlinable(a, stack) {
							argsOK = false
						}
					}
					if endsInReturn && argsOK && len(stack) == 0 {
						if st := in.inlineCallMode(call, stack, sites, nil, true); st != nil {
							return st
						}
					}
					if fn.Type().(*types.Signature).Results().Len() > 1 {
						var temps []ast.Expr
						if st := in.inlineCall(call, stack, sites, &temps); st != nil {
							x.Results = temps
							return append(st, x)
						}
						return []ast.Stmt{x}
					}
				}
			}
			if in.isBoolShortCircuit(x.Results[0]) && in.containsInlinable(x.Results[0], stack) {
				p, t := in.lowerBool(x.Results[0], stack, sites)
				x.Results[0] = t
				return append(p, x)
			}
		}
		var pre []ast.Stmt
		for i := range x.Results {
			if i > 0 && !in.allPure(x.Results[:i]) {
				break
			}
			pre = append(pre, in.hoist(&x.Results[i], stack, sites)...)
		}
		return append(pre, x)
	case *ast.DeclStmt:
		gd, ok := x.Decl.(*ast.GenDecl)
		if !ok || gd.Tok != token.VAR || len(gd.Specs) != 1 {
			return []ast.Stmt{x}
		}
		vs := gd.Specs[0].(*ast.ValueSpec)
		var pre []ast.Stmt
		for i := range vs.Values {
			in.processFuncLits(vs.Values[i], stack, sites)
			if len(vs.Values) == 1 && len(vs.Names) == 1 {
				pre = append(pre, in.hoist(&vs.Values[i], stack, sites)...)
			}
		}
		return append(pre, x)
	case *ast.SendStmt:
		in.processFuncLits(x.Value, stack, sites)
		if in.pureExpr(x.Chan) {
			pre := in.hoist(&x.Value, stack, sites)
			return append(pre, x)
		}
		return []ast.Stmt{x}
	case *ast.GoStmt:
		in.processFuncLits(x.Call, stack, sites)
		// go h(a, b) with h new: the arguments are evaluated here, the body runs in the goroutine
		//   ga := a; gb := b; go func() { h(ga, gb) }()   and h is inlined inside the literal
		if fn, fd := in.calleeOfCall(x.Call); fn != nil && !onStack(stack, fn) && inlinableBody(fd) == "" && !x.Call.Ellipsis.IsValid() {
			if sig := fn.Type().(*types.Signature); !sig.Variadic() && sig.Params().Len() == len(x.Call.Args) {
				var pre []ast.Stmt
				ok := true
				for i := range x.Call.Args {
					if in.containsInlinable(x.Call.Args[i], stack) {
						ok = false
					}
				}
				if ok {
					for i := range x.Call.Args {
						switch a := ast.Unparen(x.Call.Args[i]).(type) {
						case *ast.BasicLit:
							continue // a constant stays where it is (its type is decided by the parameter)
						case *ast.Ident:
							if a.Name == "nil" || a.Name == "true" || a.Name == "false" {
								continue
							}
						}
						in.n++
						nm := fmt.Sprintf("goarg_i%d", in.n)
						pre = append(pre, &ast.AssignStmt{Lhs: []ast.Expr{ast.NewIdent(nm)}, Tok: token.DEFINE, Rhs: []ast.Expr{x.Call.Args[i]}})
						x.Call.Args[i] = ast.NewIdent(nm)
					}
				}
				if ok {
					body := &ast.BlockStmt{List: in.processStmt(&ast.ExprStmt{X: x.Call}, stack, sites)}
					x.Call = &ast.CallExpr{Fun: &ast.FuncLit{Type: &ast.FuncType{Params: &ast.FieldList{}}, Body: body}}
					in.changed = true
					return append(pre, x)
				}
			}
		}
		return []ast.Stmt{x}
	case *ast.DeferStmt:
		in.processFuncLits(x.Call, stack, sites)
		return []ast.Stmt{x}
	case *ast.IncDecStmt:
		return []ast.Stmt{x}
	default:
		return []ast.Stmt{s}
	}
}

// sinkAssign inlines `lhs... = h(...)` / `lhs... := h(...)` so that every return of h assigns the left-hand sides
// directly (the shape the code had before h was extracted), instead of going through result temporaries.
func (in *inliner) sinkAssign(x *ast.AssignStmt, call *ast.CallExpr, stack []*types.Func, sites []token.Pos) []ast.Stmt {
	fn, fd := in.calleeOfCall(call)
	if fn == nil || onStack(stack, fn) || inlinableBody(fd) != "" {
		return nil
	}
	sig := fn.Type().(*types.Signature)
	if sig.Results().Len() != len(x.Lhs) || (x.Tok != token.ASSIGN && x.Tok != token.DEFINE) {
		return nil
	}
	hasDefer := false
	ast.Inspect(fd.Body, func(n ast.Node) bool {
		switch n.(type) {
		case *ast.FuncLit:
			return false
		case *ast.DeferStmt:
			hasDefer = true
		}
		return true
	})
	if hasDefer {
		return nil
	}
	var pre []ast.Stmt
	for i, l := range x.Lhs {
		if !in.pureExpr(l) {
			return nil
		}
		if x.Tok == token.DEFINE {
			id, ok := l.(*ast.Ident)
			if !ok {
				return nil
			}
			if id.Name == "_" {
				continue
			}
			o, _ := in.origOf(id).(*ast.Ident)
			if o == nil {
				return nil
			}
			if in.pk.TypesInfo.Defs[o] != nil {
				// newly declared by this statement: declare it with the callee's result type
				t := types.TypeString(sig.Results().At(i).Type(), func(p *types.Package) string {
					if p == in.pk.Types {
						return ""
					}
					for _, im := range in.file.Imports {
						if strings.Trim(im.Path.Value, `"`) == p.Path() {
							if im.Name != nil {
								return im.Name.Name
							}
							return p.Name()
						}
					}
					return "\x00"
				})
				if strings.Contains(t, "\x00") {
					return nil
				}
				pre = append(pre, &ast.DeclStmt{Decl: &ast.GenDecl{Tok: token.VAR, Specs: []ast.Spec{&ast.ValueSpec{Names: []*ast.Ident{ast.NewIdent(id.Name)}, Type: ast.NewIdent(t)}}}},
					&ast.AssignStmt{Lhs: []ast.Expr{ast.NewIdent("_")}, Tok: token.ASSIGN, Rhs: []ast.Expr{ast.NewIdent(id.Name)}})
			}
		}
	}
	in.pendingSinks = x.Lhs
	st := in.inlineCallMode(call, stack, sites, nil, false)
	in.pendingSinks = nil
	if st == nil {
		return nil
	}
	return append(pre, st...)
}

func (in *inliner) allPure(es []ast.Expr) bool {
	for _, e := range es {
		if !in.pureExpr(e) {
			return false
		}
	}
	return true
}

func (in *inliner) processIf(x *ast.IfStmt, stack []*types.Func, sites []token.Pos) []ast.Stmt {
	if x.Init != nil && in.containsInlinable(x.Init, stack) {
		// if v := h(); cond {…}  =>  { v := h(); if cond {…} }  (same scope for v; lets the list logic thread the test)
		init := x.Init
		x.Init = nil
		return []ast.Stmt{&ast.BlockStmt{List: in.processList([]ast.Stmt{init, x}, stack, sites)}}
	}
	in.processBlock(x.Body, stack, sites)
	switch e := x.Else.(type) {
	case *ast.BlockStmt:
		in.processBlock(e, stack, sites)
	case *ast.IfStmt:
		r := in.processIf(e, stack, sites)
		if len(r) == 1 {
			if i2, ok := r[0].(*ast.IfStmt); ok {
				x.Else = i2
			} else {
				x.Else = &ast.BlockStmt{List: r}
			}
		} else {
			x.Else = &ast.BlockStmt{List: r}
		}
	}
	in.processFuncLits(x.Cond, stack, sites)
	initHas := x.Init != nil && in.containsInlinable(x.Init, stack)
	condHas := in.containsInlinable(x.Cond, stack)
	if !initHas && !condHas {
		if x.Init != nil {
			in.processFuncLits(x.Init, stack, sites)
		}
		return []ast.Stmt{x}
	}
	var pre []ast.Stmt
	wrapped := false
	if x.Init != nil {
		pre = append(pre, in.processStmt(x.Init, stack, sites)...)
		x.Init = nil
		wrapped = true
	}
	if condHas {
		if in.isBoolShortCircuit(x.Cond) {
			p, t := in.lowerBool(x.Cond, stack, sites)
			pre = append(pre, p...)
			x.Cond = t
		} else {
			pre = append(pre, in.hoist(&x.Cond, stack, sites)...)
		}
	}
	if wrapped {
		return []ast.Stmt{&ast.BlockStmt{List: append(pre, x)}}
	}
	return append(pre, x)
}

func (in *inliner) isBoolShortCircuit(e ast.Expr) bool {
	switch x := e.(type) {
	case *ast.ParenExpr:
		return in.isBoolShortCircuit(x.X)
	case *ast.UnaryExpr:
		return x.Op == token.NOT && in.isBoolShortCircuit(x.X)
	case *ast.BinaryExpr:
		return x.Op == token.LAND || x.Op == token.LOR
	}
	return false
}

// lowerBool evaluates the boolean expression e into a fresh variable with explicit control flow for && and ||,
// inlining calls on the way. Returns the statements and the variable.
func (in *inliner) lowerBool(e ast.Expr, stack []*types.Func, sites []token.Pos) ([]ast.Stmt, ast.Expr) {
	in.n++
	t := ast.NewIdent(fmt.Sprintf("cond_i%d", in.n))
	decl := &ast.DeclStmt{Decl: &ast.GenDecl{Tok: token.VAR, Specs: []ast.Spec{&ast.ValueSpec{Names: []*ast.Ident{ast.NewIdent(t.Name)}, Type: ast.NewIdent("bool")}}}}
	st := []ast.Stmt{decl}
	st = append(st, in.lowerInto(e, t, stack, sites)...)
	in.changed = true
	return st, ast.NewIdent(t.Name)
}

func (in *inliner) lowerInto(e ast.Expr, t *ast.Ident, stack []*types.Func, sites []token.Pos) []ast.Stmt {
	tv := func() ast.Expr { return ast.NewIdent(t.Name) }
	switch x := e.(type) {
	case *ast.ParenExpr:
		return in.lowerInto(x.X, t, stack, sites)
	case *ast.UnaryExpr:
		if x.Op == token.NOT && in.containsInlinable(x.X, stack) {
			st := in.lowerInto(x.X, t, stack, sites)
			return append(st, &ast.AssignStmt{Lhs: []ast.Expr{tv()}, Tok: token.ASSIGN, Rhs: []ast.Expr{&ast.UnaryExpr{Op: token.NOT, X: tv()}}})
		}
	case *ast.BinaryExpr:
		if (x.Op == token.LAND || x.Op == token.LOR) && in.containsInlinable(x, stack) {
			st := in.lowerInto(x.X, t, stack, sites)
			inner := in.lowerInto(x.Y, t, stack, sites)
			// mirror go/ssa's own lowering of && / || in value context (phi of a constant and the right operand),
			// so that the fact decomposition of the analyses sees the shape it knows
			var cond ast.Expr = tv()
			konst := "false"
			if x.Op == token.LOR {
				cond = &ast.UnaryExpr{Op: token.NOT, X: tv()}
				konst = "true"
			}
			els := &ast.BlockStmt{List: []ast.Stmt{&ast.AssignStmt{Lhs: []ast.Expr{tv()}, Tok: token.ASSIGN, Rhs: []ast.Expr{ast.NewIdent(konst)}}}}
			return append(st, &ast.IfStmt{Cond: cond, Body: &ast.BlockStmt{List: inner}, Else: els})
		}
	}
	ee := e
	pre := in.hoist(&ee, stack, sites)
	// the expression may be an untyped/typed boolean of a named type: convert
	return append(pre, &ast.AssignStmt{Lhs: []ast.Expr{tv()}, Tok: token.ASSIGN, Rhs: []ast.Expr{&ast.CallExpr{Fun: ast.NewIdent("bool"), Args: []ast.Expr{ee}}}})
}

// hoist inlines the calls inside *e that are evaluated unconditionally and before any impure evaluation,
// replacing each by its result variable; returns the statements to put in front of the enclosing statement.
func (in *inliner) hoist(e *ast.Expr, stack []*types.Func, sites []token.Pos) []ast.Stmt {
	if *e == nil || !in.containsInlinable(*e, stack) {
		return nil
	}
	var pre []ast.Stmt
	impure := false
	var walk func(p *ast.Expr, cond bool)
	walkList := func(l []ast.Expr, cond bool) {
		for i := range l {
			walk(&l[i], cond)
		}
	}
	walk = func(p *ast.Expr, cond bool) {
		if *p == nil {
			return
		}
		switch x := (*p).(type) {
		case *ast.FuncLit:
			return
		case *ast.ParenExpr:
			walk(&x.X, cond)
		case *ast.UnaryExpr:
			walk(&x.X, cond)
			if x.Op == token.ARROW {
				impure = true
			}
		case *ast.BinaryExpr:
			walk(&x.X, cond)
			walk(&x.Y, cond || x.Op == token.LAND || x.Op == token.LOR)
		case *ast.StarExpr:
			walk(&x.X, cond)
		case *ast.SelectorExpr:
			walk(&x.X, cond)
		case *ast.IndexExpr:
			walk(&x.X, cond)
			walk(&x.Index, cond)
		case *ast.SliceExpr:
			walk(&x.X, cond)
			walk(&x.Low, cond)
			walk(&x.High, cond)
			walk(&x.Max, cond)
		case *ast.TypeAssertExpr:
			walk(&x.X, cond)
		case *ast.KeyValueExpr:
			walk(&x.Value, cond)
		case *ast.CompositeLit:
			walkList(x.Elts, cond)
		case *ast.CallExpr:
			// operands first
			preImpure := impure
			if se, ok := x.Fun.(*ast.SelectorExpr); ok {
				walk(&se.X, cond)
			}
			// f(g(), h(x)) with h inlinable and g() impure: g() is evaluated into a temporary first, so that hoisting h
			// in front of the call does not reorder the two
			if !cond && !impure {
				last := -1
				for i, a := range x.Args {
					if in.containsInlinable(a, stack) {
						last = i
					}
				}
				for i := 0; i < last; i++ {
					a := x.Args[i]
					if in.pureExpr(a) || in.containsInlinable(a, stack) {
						continue
					}
					oa, _ := in.origOf(a).(ast.Expr)
					if oa == nil {
						break
					}
					t := in.pk.TypesInfo.TypeOf(oa)
					if t == nil {
						break
					}
					if _, isTuple := t.(*types.Tuple); isTuple {
						break
					}
					if b, ok := t.(*types.Basic); ok && b.Info()&types.IsUntyped != 0 {
						t = types.Default(t)
					}
					ts := types.TypeString(t, func(p *types.Package) string {
						if p == in.pk.Types {
							return ""
						}
						for _, im := range in.file.Imports {
							if strings.Trim(im.Path.Value, `"`) == p.Path() {
								if im.Name != nil {
									return im.Name.Name
								}
								return p.Name()
							}
						}
						return "\x00"
					})
					if strings.Contains(ts, "\x00") {
						break
					}
					in.n++
					tn := fmt.Sprintf("arg_i%d", in.n)
					pre = append(pre, &ast.DeclStmt{Decl: &ast.GenDecl{Tok: token.VAR, Specs: []ast.Spec{&ast.ValueSpec{Names: []*ast.Ident{ast.NewIdent(tn)}, Type: ast.NewIdent(ts), Values: []ast.Expr{a}}}}})
					x.Args[i] = ast.NewIdent(tn)
					in.changed = true
				}
			}
			walkList(x.Args, cond)
			fn, fd := in.calleeOfCall(x)
			if fn != nil && !cond && !preImpure && !onStack(stack, fn) && inlinableBody(fd) == "" && fn.Type().(*types.Signature).Results().Len() == 1 {
				var temps []ast.Expr
				if st := in.inlineCall(x, stack, sites, &temps); st != nil && len(temps) == 1 {
					pre = append(pre, st...)
					*p = temps[0]
					return
				}
			}
			if !in.isPureCall(x) {
				impure = true
			}
		}
	}
	walk(e, false)
	return pre
}

// ---------------------------------------------------------------------------
// inlining one call

// inlineCall returns the statements that replace/precede the call. If temps is nil the call is a statement of its own
// (results discarded); otherwise *temps receives one expression per result.
func (in *inliner) inlineCall(call *ast.CallExpr, stack []*types.Func, sites []token.Pos, temps *[]ast.Expr) []ast.Stmt {
	return in.inlineCallMode(call, stack, sites, temps, false)
}

// inlineCallMode with tail=true inlines a call in `return h(...)` position: the callee's returns become returns of the
// caller (possible when the callee has no defer), which keeps one return statement per outcome.
func (in *inliner) inlineCallMode(call *ast.CallExpr, stack []*types.Func, sites []token.Pos, temps *[]ast.Expr, tail bool) []ast.Stmt {
	sinks := in.pendingSinks
	in.pendingSinks = nil
	thread := in.pendingThread
	in.pendingThread = nil
	rng := in.pendingRange
	in.pendingRange = nil
	if sinks == nil {
		thread = nil
	}
	if thread != nil && thread.freeContinue {
		if _, fdc := in.calleeOfCall(call); fdc != nil {
			hasLoop := false
			ast.Inspect(fdc.Body, func(n ast.Node) bool {
				switch n.(type) {
				case *ast.FuncLit:
					return false
				case *ast.ForStmt, *ast.RangeStmt:
					hasLoop = true
				}
				return !hasLoop
			})
			if hasLoop {
				return nil // fall back to the unthreaded form
			}
		}
	}
	fn, fd := in.calleeOfCall(call)
	if fn == nil || onStack(stack, fn) {
		return nil
	}
	skip := func(why string) []ast.Stmt {
		in.stats.Skipped = append(in.stats.Skipped, fmt.Sprintf("%s: %s", fn.Name(), why))
		return nil
	}
	if why := inlinableBody(fd); why != "" {
		return skip(why)
	}
	if len(stack) >= 4 {
		return skip("depth")
	}
	oc := in.origOf(call).(*ast.CallExpr)
	sig := fn.Type().(*types.Signature)
	// the arguments must be pure, or the call must be the only impure thing evaluated (checked by the callers for
	// nested positions); here: no argument may itself contain an inlinable call that we failed to hoist — allowed, they stay calls.
	in.n++
	id := in.n
	suffix := fmt.Sprintf("_i%d", id)
	callSites := append(append([]token.Pos{}, sites...), oc.Pos())

	// capture check + imports for free identifiers of the callee body
	callerFileImports := map[string]string{} // path -> local name
	for _, im := range in.file.Imports {
		path := strings.Trim(im.Path.Value, `"`)
		name := ""
		if im.Name != nil {
			name = im.Name.Name
		} else if pn := in.pk.TypesInfo.Implicits[im]; pn != nil {
			name = pn.Name()
		}
		if name != "" && name != "_" && name != "." {
			callerFileImports[path] = name
		}
	}
	for p, n := range in.imports {
		callerFileImports[p] = n
	}
	localPos := func(pos token.Pos) bool { return pos >= fd.Pos() && pos < fd.End() }
	pkgRename := map[*ast.Ident]string{}
	bad := ""
	var visit func(n ast.Node) bool
	visit = func(n ast.Node) bool {
		if bad != "" {
			return false
		}
		if se, ok := n.(*ast.SelectorExpr); ok {
			// the selector itself names a field, a method or a member of another package: only its operand matters
			ast.Inspect(se.X, visit)
			return false
		}
		if kv, ok := n.(*ast.KeyValueExpr); ok {
			if _, isID := kv.Key.(*ast.Ident); isID {
				if v, ok := in.pk.TypesInfo.ObjectOf(kv.Key.(*ast.Ident)).(*types.Var); ok && v.IsField() {
					ast.Inspect(kv.Value, visit)
					return false
				}
			}
		}
		idn, ok := n.(*ast.Ident)
		if !ok {
			return true
		}
		obj := in.pk.TypesInfo.ObjectOf(idn)
		if obj == nil {
			return true
		}
		if pn, ok := obj.(*types.PkgName); ok {
			path := pn.Imported().Path()
			if n, ok := callerFileImports[path]; ok {
				if n != idn.Name {
					pkgRename[idn] = n
				}
			} else {
				name := pn.Imported().Name()
				// do not collide with anything visible in the caller's file/package scope
				if in.pk.Types.Scope().Lookup(name) != nil {
					name = name + "_imp"
				}
				for _, used := range callerFileImports {
					if used == name {
						name = name + "_imp"
					}
				}
				in.imports[path] = name
				callerFileImports[path] = name
				if name != idn.Name {
					pkgRename[idn] = name
				}
			}
			// the package name must not be shadowed at the call sites
			for _, pos := range callSites {
				if sc := in.pk.Types.Scope().Innermost(pos); sc != nil {
					if _, o := sc.LookupParent(callerFileImports[path], pos); o != nil {
						if _, isPkg := o.(*types.PkgName); !isPkg {
							bad = "package name " + callerFileImports[path] + " shadowed at the call site"
						}
					}
				}
			}
			return true
		}
		if v, ok := obj.(*types.Var); ok && v.IsField() {
			return true
		}
		if localPos(obj.Pos()) {
			return true
		}
		if obj.Parent() == nil {
			return true // methods, fields, labels
		}
		if in.litSynth[fn] && obj.Parent() != in.pk.Types.Scope() && obj.Parent() != types.Universe {
			// a callback literal written at the outer call site: the variables it captures are in scope where the
			// inlined body stands (the callee's own locals are renamed, so nothing shadows them)
			return true
		}
		// package-level or universe object: the same name must resolve to it at every enclosing call site
		for _, pos := range callSites {
			sc := in.pk.Types.Scope().Innermost(pos)
			if sc == nil {
				continue
			}
			if _, o := sc.LookupParent(idn.Name, pos); o != obj {
				bad = "identifier " + idn.Name + " is shadowed at the call site"
			}
		}
		return true
	}
	check := func(root ast.Node) { ast.Inspect(root, visit) }
	check(fd.Body)
	check(fd.Type)
	if bad != "" {
		return skip(bad)
	}

	// parameters that can be replaced by the argument identifier itself (never written in the callee, reference-like
	// or basic type, no function literal in the callee): keeps the caller's access paths intact for the analyses
	subst := map[types.Object]string{}
	hasFuncLit := false
	written := map[types.Object]bool{}
	recvOfCall := map[types.Object]bool{} // variables some method is called on (a pointer-receiver method may write them)
	ast.Inspect(fd.Body, func(n ast.Node) bool {
		mark := func(e ast.Expr) {
			// the variable at the root of x, x.f, x[i], x.f[i].g …
			for {
				switch y := ast.Unparen(e).(type) {
				case *ast.SelectorExpr:
					if t := in.pk.TypesInfo.TypeOf(y.X); t != nil {
						if _, isPtr := t.Underlying().(*types.Pointer); isPtr {
							return // x.f through a pointer x: x itself is not written
						}
					}
					e = y.X
					continue
				case *ast.IndexExpr:
					if t := in.pk.TypesInfo.TypeOf(y.X); t != nil {
						switch t.Underlying().(type) {
						case *types.Slice, *types.Map, *types.Pointer:
							return // element of a slice/map: the variable holding the slice is not written
						}
					}
					e = y.X
					continue
				case *ast.StarExpr:
					return // writes through a pointer do not write the pointer variable
				}
				break
			}
			if id, ok := ast.Unparen(e).(*ast.Ident); ok {
				if o := in.pk.TypesInfo.ObjectOf(id); o != nil {
					written[o] = true
				}
			}
		}
		switch x := n.(type) {
		case *ast.CallExpr:
			if se, ok := ast.Unparen(x.Fun).(*ast.SelectorExpr); ok {
				if sel := in.pk.TypesInfo.Selections[se]; sel != nil && sel.Kind() == types.MethodVal {
					if id, ok := ast.Unparen(se.X).(*ast.Ident); ok {
						if o := in.pk.TypesInfo.ObjectOf(id); o != nil {
							recvOfCall[o] = true
						}
					}
				}
			}
		case *ast.FuncLit:
			hasFuncLit = true
		case *ast.AssignStmt:
			for _, l := range x.Lhs {
				mark(l)
			}
		case *ast.IncDecStmt:
			mark(x.X)
		case *ast.UnaryExpr:
			if x.Op == token.AND {
				mark(x.X)
			}
		case *ast.RangeStmt:
			if x.Key != nil {
				mark(x.Key)
			}
			if x.Value != nil {
				mark(x.Value)
			}
		}
		return true
	})
	substitutable := func(pv *types.Var, arg ast.Expr) bool {
		if pv.Name() == "" || pv.Name() == "_" || written[pv] {
			return false
		}
		if hasFuncLit {
			// a closure of the callee would capture the caller's variable instead of a copy: the same thing only if
			// the caller never writes that variable
			id, ok := arg.(*ast.Ident)
			if !ok {
				return false
			}
			o, _ := in.origOf(id).(*ast.Ident)
			if o == nil {
				return false
			}
			obj := in.pk.TypesInfo.ObjectOf(o)
			if obj == nil || in.writtenAnywhere(obj) {
				return false
			}
		}
		switch pv.Type().Underlying().(type) {
		case *types.Pointer, *types.Interface, *types.Slice, *types.Map, *types.Chan, *types.Signature, *types.Basic:
		case *types.Struct, *types.Array:
			// a value that is only read (no field or element written, no address taken, no method called on it) can
			// stand for its copy
			if recvOfCall[pv] {
				return false
			}
		default:
			return false
		}
		id, ok := arg.(*ast.Ident)
		if !ok || id.Name == "_" {
			return false
		}
		o, _ := in.origOf(id).(*ast.Ident)
		if o == nil {
			return false
		}
		av, ok := in.pk.TypesInfo.ObjectOf(o).(*types.Var)
		if !ok || av.IsField() || av.Parent() == in.pk.Types.Scope() {
			return false
		}
		if !types.Identical(av.Type(), pv.Type()) {
			return false
		}
		return true
	}
	{
		sg := fn.Type().(*types.Signature)
		if rv := sg.Recv(); rv != nil {
			if se, ok := ast.Unparen(call.Fun).(*ast.SelectorExpr); ok && substitutable(rv, se.X) {
				subst[rv] = se.X.(*ast.Ident).Name
			}
		}
		if !(len(call.Args) == 1 && sg.Params().Len() > 1) {
			for i := 0; i < sg.Params().Len() && i < len(call.Args); i++ {
				if sg.Variadic() && i == sg.Params().Len()-1 {
					break
				}
				if substitutable(sg.Params().At(i), call.Args[i]) {
					subst[sg.Params().At(i)] = call.Args[i].(*ast.Ident).Name
				}
			}
		}
	}

	// clone the body with locals renamed
	rename := func(root ast.Node) {
		ast.Inspect(root, func(n ast.Node) bool {
			idn, ok := n.(*ast.Ident)
			if !ok {
				return true
			}
			o, _ := in.origOf(idn).(*ast.Ident)
			if o == nil {
				return true
			}
			if nn, ok := pkgRename[o]; ok {
				idn.Name = nn
				return true
			}
			if idn.Name == "_" {
				return true
			}
			obj := in.pk.TypesInfo.ObjectOf(o)
			if obj != nil {
				if v, ok := obj.(*types.Var); ok && v.IsField() {
					return true
				}
				if _, ok := obj.(*types.Func); ok {
					return true
				}
				if obj.Parent() == nil {
					if _, isLabel := obj.(*types.Label); !isLabel {
						return true
					}
				}
				if sn, ok := subst[obj]; ok {
					idn.Name = sn
					return true
				}
				if localPos(obj.Pos()) {
					idn.Name = o.Name + suffix
				}
				return true
			}
			// defining identifier of a type switch (no object of its own): rename if it is declared inside the callee
			if localPos(o.Pos()) && in.isTypeSwitchSymbol(fd, o) {
				idn.Name = o.Name + suffix
			}
			return true
		})
	}
	body := in.cloneNode(fd.Body).(*ast.BlockStmt)
	rename(body)

	qual := func(p *types.Package) string {
		if p == in.pk.Types {
			return ""
		}
		if n, ok := callerFileImports[p.Path()]; ok {
			return n
		}
		name := p.Name()
		in.imports[p.Path()] = name
		callerFileImports[p.Path()] = name
		return name
	}
	typeExpr := func(t types.Type) ast.Expr {
		// print and re-parse is the simplest way to get an expression for a type
		s := types.TypeString(t, qual)
		return ast.NewIdent(s) // printed verbatim by go/printer
	}

	var stmts []ast.Stmt // go in front, in the enclosing scope (result variables)
	var inner []ast.Stmt // parameter bindings + body
	// results
	var resNames []string
	res := sig.Results()
	for i := 0; i < res.Len(); i++ {
		name := fmt.Sprintf("r%d%s", i, suffix)
		if rn := res.At(i).Name(); rn != "" && rn != "_" {
			name = rn + suffix // named result: the (renamed) body refers to it by this name
		}
		resNames = append(resNames, name)
		if sinks != nil {
			if rn := res.At(i).Name(); rn == "" || rn == "_" {
				continue
			}
			// a named result is a variable of the body: it is declared, and handed to the sink at every return
		}
		if tail {
			if rn := res.At(i).Name(); rn == "" || rn == "_" {
				continue
			}
		}
		stmts = append(stmts, &ast.DeclStmt{Decl: &ast.GenDecl{Tok: token.VAR, Specs: []ast.Spec{&ast.ValueSpec{Names: []*ast.Ident{ast.NewIdent(name)}, Type: typeExpr(res.At(i).Type())}}}})
		stmts = append(stmts, &ast.AssignStmt{Lhs: []ast.Expr{ast.NewIdent("_")}, Tok: token.ASSIGN, Rhs: []ast.Expr{ast.NewIdent(name)}})
	}
	bind := func(name string, t types.Type, val ast.Expr) {
		if name == "" || name == "_" {
			inner = append(inner, &ast.AssignStmt{Lhs: []ast.Expr{ast.NewIdent("_")}, Tok: token.ASSIGN, Rhs: []ast.Expr{val}})
			return
		}
		n := name + suffix
		vs := &ast.ValueSpec{Names: []*ast.Ident{ast.NewIdent(n)}, Type: typeExpr(t)}
		if val != nil {
			vs.Values = []ast.Expr{val}
		}
		inner = append(inner, &ast.DeclStmt{Decl: &ast.GenDecl{Tok: token.VAR, Specs: []ast.Spec{vs}}})
		inner = append(inner, &ast.AssignStmt{Lhs: []ast.Expr{ast.NewIdent("_")}, Tok: token.ASSIGN, Rhs: []ast.Expr{ast.NewIdent(n)}})
	}
	// receiver
	if recv := sig.Recv(); recv != nil {
		se, ok := ast.Unparen(call.Fun).(*ast.SelectorExpr)
		if !ok {
			return skip("method call without selector")
		}
		ose := ast.Unparen(oc.Fun).(*ast.SelectorExpr)
		sel := in.pk.TypesInfo.Selections[ose]
		var rx ast.Expr = se.X
		_, wantPtr := recv.Type().(*types.Pointer)
		_, havePtr := sel.Recv().Underlying().(*types.Pointer)
		if _, isNamedPtr := sel.Recv().(*types.Pointer); isNamedPtr {
			havePtr = true
		}
		switch {
		case wantPtr && !havePtr:
			rx = &ast.UnaryExpr{Op: token.AND, X: rx}
		case !wantPtr && havePtr:
			rx = &ast.StarExpr{X: rx}
		}
		if _, ok := subst[recv]; !ok {
			bind(recv.Name(), recv.Type(), rx)
		}
	}
	// parameters
	var boundLits []*types.Var
	defer func() {
		for _, pv := range boundLits {
			if lfn := in.litFuncs[pv]; lfn != nil {
				delete(in.newFn, lfn)
				delete(in.litSynth, lfn)
			}
			delete(in.litFuncs, pv)
		}
	}()
	params := sig.Params()
	args := call.Args
	if len(args) == 1 && params.Len() > 1 {
		return skip("multi-value argument")
	}
	for i := 0; i < params.Len(); i++ {
		pv := params.At(i)
		if sig.Variadic() && i == params.Len()-1 {
			if call.Ellipsis.IsValid() {
				bind(pv.Name(), pv.Type(), args[i])
			} else if len(args) <= i {
				bind(pv.Name(), pv.Type(), nil)
				if pv.Name() == "" || pv.Name() == "_" {
					inner = inner[:len(inner)-1]
				}
			} else {
				cl := &ast.CompositeLit{Type: typeExpr(pv.Type()), Elts: append([]ast.Expr{}, args[i:]...)}
				bind(pv.Name(), pv.Type(), cl)
			}
			break
		}
		if i >= len(args) {
			return skip("argument count")
		}
		if _, ok := subst[pv]; ok {
			continue
		}
		// a function literal handed to a parameter that the callee only ever calls: its calls become the literal's body
		if lit, ok := args[i].(*ast.FuncLit); ok && pv.Name() != "" && pv.Name() != "_" && in.litFuncs != nil {
			if olit, _ := in.origOf(lit).(*ast.FuncLit); olit != nil && paramOnlyCalled(in.pk.TypesInfo, fd, pv) {
				if lsig, ok := in.pk.TypesInfo.TypeOf(olit).(*types.Signature); ok {
					lfd := &ast.FuncDecl{Name: ast.NewIdent(pv.Name()), Type: olit.Type, Body: olit.Body}
					if inlinableBody(lfd) == "" {
						lfn := types.NewFunc(olit.Pos(), in.pk.Types, pv.Name(), lsig)
						in.litFuncs[pv] = lfn
						in.litSynth[lfn] = true
						in.newFn[lfn] = lfd
						boundLits = append(boundLits, pv)
						continue
					}
				}
			}
		}
		bind(pv.Name(), pv.Type(), args[i])
	}
	// named results are ordinary variables of the body (already declared above under their renamed names)

	// deferred calls of the callee run when the inlined body is left: at every return site (and at the end of the body)
	// the defers that can have been executed by then are called, last first, after the results have been assigned.
	// A defer that structurally dominates the exit is called directly; one on another branch is guarded by an
	// "armed" flag set where the defer statement stood. (Not modelled: they would also run on a panic.)
	type deferInfo struct {
		orig       *ast.DeferStmt
		pos        token.Pos
		encl       [2]token.Pos // innermost enclosing statement list
		armed      string       // flag name ("" until needed)
		argNames   []string
		nestedOnly bool // refers to identifiers declared in a nested scope: cannot be called from elsewhere
	}
	var defers []*deferInfo
	deferBad := ""
	{
		var enclStack [][2]token.Pos
		var scan func(n ast.Node)
		scanList := func(pos, end token.Pos, list []ast.Stmt) {
			enclStack = append(enclStack, [2]token.Pos{pos, end})
			for _, st := range list {
				scan(st)
			}
			enclStack = enclStack[:len(enclStack)-1]
		}
		scan = func(n ast.Node) {
			switch x := n.(type) {
			case nil:
			case *ast.DeferStmt:
				di := &deferInfo{orig: x, pos: x.Pos(), encl: enclStack[len(enclStack)-1]}
				// free identifiers declared in a nested scope?
				ast.Inspect(x.Call, func(m ast.Node) bool {
					if id, ok := m.(*ast.Ident); ok {
						if obj := in.pk.TypesInfo.Uses[id]; obj != nil && localPos(obj.Pos()) && !(obj.Pos() >= x.Pos() && obj.Pos() < x.End()) {
							if v, isVar := obj.(*types.Var); !isVar || !v.IsField() {
								if sc := obj.Parent(); sc != nil && sc != in.pk.TypesInfo.Scopes[fd.Type] {
									di.nestedOnly = true
								}
							}
						}
					}
					return true
				})
				defers = append(defers, di)
			case *ast.BlockStmt:
				scanList(x.Pos(), x.End(), x.List)
			case *ast.IfStmt:
				scan(x.Body)
				scan(x.Else)
			case *ast.ForStmt:
				scan(x.Body)
			case *ast.RangeStmt:
				scan(x.Body)
			case *ast.SwitchStmt:
				for _, cc := range x.Body.List {
					c := cc.(*ast.CaseClause)
					scanList(c.Pos(), c.End(), c.Body)
				}
			case *ast.TypeSwitchStmt:
				for _, cc := range x.Body.List {
					c := cc.(*ast.CaseClause)
					scanList(c.Pos(), c.End(), c.Body)
				}
			case *ast.SelectStmt:
				for _, cc := range x.Body.List {
					c := cc.(*ast.CommClause)
					scanList(c.Pos(), c.End(), c.Body)
				}
			case *ast.LabeledStmt:
				scan(x.Stmt)
			case *ast.BranchStmt:
				if x.Tok == token.GOTO && len(defers) >= 0 {
					deferBad = "goto"
				}
			}
		}
		scan(fd.Body)
		if len(defers) == 0 {
			deferBad = ""
		}
	}
	if tail && len(defers) > 0 {
		return nil
	}
	if sinks != nil {
		if len(defers) > 0 || len(sinks) != sig.Results().Len() {
			return nil
		}
	}
	var deferDecls []ast.Stmt // go to the top of the inlined body
	deferN := 0
	// statements to run when leaving the body from (original) position rp
	exitsAt := func(rp token.Pos) []ast.Stmt {
		var out []ast.Stmt
		for i := len(defers) - 1; i >= 0; i-- {
			d := defers[i]
			if rp < d.pos {
				continue
			}
			call := in.cloneNode(d.orig.Call).(*ast.CallExpr)
			rename(call)
			for j, an := range d.argNames {
				if an != "" {
					call.Args[j] = ast.NewIdent(an)
				}
			}
			var st ast.Stmt = &ast.ExprStmt{X: call}
			if !(d.encl[0] <= rp && rp <= d.encl[1]) {
				if d.nestedOnly {
					deferBad = "defer in a nested scope"
					continue
				}
				if d.armed == "" {
					deferN++
					d.armed = fmt.Sprintf("d%d%s_armed", deferN, suffix)
					deferDecls = append(deferDecls, &ast.DeclStmt{Decl: &ast.GenDecl{Tok: token.VAR, Specs: []ast.Spec{&ast.ValueSpec{Names: []*ast.Ident{ast.NewIdent(d.armed)}, Type: ast.NewIdent("bool")}}}})
				}
				st = &ast.IfStmt{Cond: ast.NewIdent(d.armed), Body: &ast.BlockStmt{List: []ast.Stmt{st}}}
			}
			out = append(out, st)
		}
		return out
	}
	mkDefer := func(ds *ast.DeferStmt) ast.Stmt {
		ods, _ := in.origOf(ds).(*ast.DeferStmt)
		var d *deferInfo
		for _, x := range defers {
			if x.orig == ods {
				d = x
			}
		}
		if d == nil {
			deferBad = "synthesised defer"
			return ds
		}
		var at []ast.Stmt
		d.argNames = make([]string, len(ds.Call.Args))
		for i := range ds.Call.Args {
			if _, ok := ds.Call.Args[i].(*ast.BasicLit); ok {
				continue
			}
			t := in.pk.TypesInfo.TypeOf(ods.Call.Args[i])
			if t == nil {
				deferBad = "defer argument of unknown type"
				return ds
			}
			if b, ok := t.(*types.Basic); ok && b.Info()&types.IsUntyped != 0 {
				t = types.Default(t)
			}
			deferN++
			an := fmt.Sprintf("d%d%s_a%d", deferN, suffix, i)
			d.argNames[i] = an
			deferDecls = append(deferDecls,
				&ast.DeclStmt{Decl: &ast.GenDecl{Tok: token.VAR, Specs: []ast.Spec{&ast.ValueSpec{Names: []*ast.Ident{ast.NewIdent(an)}, Type: typeExpr(t)}}}},
				&ast.AssignStmt{Lhs: []ast.Expr{ast.NewIdent("_")}, Tok: token.ASSIGN, Rhs: []ast.Expr{ast.NewIdent(an)}})
			at = append(at, &ast.AssignStmt{Lhs: []ast.Expr{ast.NewIdent(an)}, Tok: token.ASSIGN, Rhs: []ast.Expr{ds.Call.Args[i]}})
		}
		// the flag is assigned whether or not some exit needs it; it is declared on demand (see finish below)
		at = append(at, &ast.AssignStmt{Lhs: []ast.Expr{ast.NewIdent("\x00armed:" + fmt.Sprint(d.pos))}, Tok: token.ASSIGN, Rhs: []ast.Expr{ast.NewIdent("true")}})
		return &ast.BlockStmt{List: at}
	}

	// rewrite returns
	label := "ret" + suffix
	usedLabel := false
	var rewrite func(list []ast.Stmt) []ast.Stmt
	rewriteStmt := func(s ast.Stmt) ast.Stmt { return s }
	rewrite = func(list []ast.Stmt) []ast.Stmt {
		for i, s := range list {
			list[i] = rewriteStmt(s)
		}
		return list
	}
	rewriteStmt = func(s ast.Stmt) ast.Stmt {
		switch x := s.(type) {
		case *ast.DeferStmt:
			return mkDefer(x)
		case *ast.ReturnStmt:
			if tail {
				if len(x.Results) == 0 {
					var rs []ast.Expr
					for _, n := range resNames {
						rs = append(rs, ast.NewIdent(n))
					}
					x.Results = rs
				}
				return x
			}
			usedLabel = true
			var out []ast.Stmt
			if len(x.Results) == 0 && sinks != nil && len(resNames) > 0 {
				// bare return of named results: hand them to the sinks
				var rs []ast.Expr
				for _, n := range resNames {
					rs = append(rs, ast.NewIdent(n))
				}
				x.Results = rs
			}
			if rng != nil {
				// for v := range h(...) with h returning literal lists: the body once per element, at the return site
				ok := false
				if len(x.Results) == 1 {
					if cl, isLit := ast.Unparen(x.Results[0]).(*ast.CompositeLit); isLit && len(cl.Elts) <= 6 {
						ok = true
						for _, e := range cl.Elts {
							if _, kv := e.(*ast.KeyValueExpr); kv {
								ok = false
							}
						}
						if ok {
							for _, e := range cl.Elts {
								blk := &ast.BlockStmt{List: []ast.Stmt{
									&ast.AssignStmt{Lhs: []ast.Expr{ast.NewIdent(rng.name)}, Tok: token.DEFINE, Rhs: []ast.Expr{e}},
									&ast.AssignStmt{Lhs: []ast.Expr{ast.NewIdent("_")}, Tok: token.ASSIGN, Rhs: []ast.Expr{ast.NewIdent(rng.name)}},
								}}
								blk.List = append(blk.List, in.cloneNode(rng.body).(*ast.BlockStmt).List...)
								out = append(out, blk)
							}
						}
					}
				}
				if !ok {
					deferBad = "range over a result that is not a literal list at every return"
				}
			} else if len(x.Results) > 0 {
				var lhs []ast.Expr
				for i, n := range resNames {
					if sinks != nil {
						lhs = append(lhs, in.cloneNode(sinks[i]).(ast.Expr))
					} else {
						lhs = append(lhs, ast.NewIdent(n))
					}
				}
				out = append(out, &ast.AssignStmt{Lhs: lhs, Tok: token.ASSIGN, Rhs: x.Results})
				if thread != nil && len(x.Results) == len(resNames) {
					// what does this return site assign to the tested variable?
					known, set := false, false
					if id, ok := ast.Unparen(x.Results[thread.sink]).(*ast.Ident); ok {
						if o, _ := in.origOf(id).(*ast.Ident); o != nil {
							switch obj := in.pk.TypesInfo.Uses[o].(type) {
							case *types.Nil:
								known, set = true, false
							case *types.Var:
								// a package-level sentinel: var ErrX = errors.New(...), never assigned again
								if in.sentinelError(obj) {
									known, set = true, true
								}
							case *types.Const:
								if obj.Parent() == types.Universe && (obj.Name() == "true" || obj.Name() == "false") {
									known, set = true, obj.Name() == "true"
								}
							}
						}
					}
					if !known {
						// a freshly made error / object is known to be non-nil
						switch y := ast.Unparen(x.Results[thread.sink]).(type) {
						case *ast.CallExpr:
							if se, ok := y.Fun.(*ast.SelectorExpr); ok {
								if pk, ok := se.X.(*ast.Ident); ok {
									if o, _ := in.origOf(pk).(*ast.Ident); o != nil {
										if pn, ok := in.pk.TypesInfo.Uses[o].(*types.PkgName); ok {
											path := pn.Imported().Path()
											if (path == "fmt" && se.Sel.Name == "Errorf") || (path == "errors" && se.Sel.Name == "New") {
												known, set = true, true
											}
										}
									}
								}
							}
						case *ast.UnaryExpr:
							if _, isLit := y.X.(*ast.CompositeLit); isLit && y.Op == token.AND {
								known, set = true, true
							}
						}
					}
					if !known {
						out = append(out, in.cloneNode(thread.ifs).(ast.Stmt))
					} else if set == thread.whenSet {
						out = append(out, in.cloneNode(thread.ifs.Body).(ast.Stmt))
					} else if thread.ifs.Else != nil {
						out = append(out, in.cloneNode(thread.ifs.Else).(ast.Stmt))
					}
				} else if thread != nil {
					// return f(...) with a multi-value call: nothing is known about the tested result here
					out = append(out, in.cloneNode(thread.ifs).(ast.Stmt))
				}
			}
			if o, _ := in.origOf(x).(*ast.ReturnStmt); o != nil {
				out = append(out, exitsAt(o.Pos())...)
			} else if len(defers) > 0 {
				deferBad = "synthesised return"
			}
			out = append(out, &ast.BranchStmt{Tok: token.BREAK, Label: ast.NewIdent(label)})
			return &ast.BlockStmt{List: out}
		case *ast.BlockStmt:
			x.List = rewrite(x.List)
		case *ast.IfStmt:
			x.Body.List = rewrite(x.Body.List)
			if x.Else != nil {
				x.Else = rewriteStmt(x.Else)
			}
		case *ast.ForStmt:
			x.Body.List = rewrite(x.Body.List)
		case *ast.RangeStmt:
			x.Body.List = rewrite(x.Body.List)
		case *ast.SwitchStmt:
			for _, cc := range x.Body.List {
				c := cc.(*ast.CaseClause)
				c.Body = rewrite(c.Body)
			}
		case *ast.TypeSwitchStmt:
			for _, cc := range x.Body.List {
				c := cc.(*ast.CaseClause)
				c.Body = rewrite(c.Body)
			}
		case *ast.SelectStmt:
			for _, cc := range x.Body.List {
				c := cc.(*ast.CommClause)
				c.Body = rewrite(c.Body)
			}
		case *ast.LabeledStmt:
			x.Stmt = rewriteStmt(x.Stmt)
		}
		return s
	}
	body.List = rewrite(body.List)
	if len(defers) > 0 {
		// leaving the body by falling off its end
		fall := true
		if n := len(fd.Body.List); n > 0 {
			if _, isRet := fd.Body.List[n-1].(*ast.ReturnStmt); isRet {
				fall = false
			}
		}
		if fall {
			body.List = append(body.List, exitsAt(fd.Body.Rbrace)...)
		}
		// resolve the placeholder flag assignments: keep those whose flag is used, drop the others
		flagOf := map[string]string{}
		for _, d := range defers {
			flagOf["\x00armed:"+fmt.Sprint(d.pos)] = d.armed
		}
		var fix func(list []ast.Stmt) []ast.Stmt
		fix = func(list []ast.Stmt) []ast.Stmt {
			var out []ast.Stmt
			for _, st := range list {
				if as, ok := st.(*ast.AssignStmt); ok && len(as.Lhs) == 1 {
					if id, ok := as.Lhs[0].(*ast.Ident); ok && strings.HasPrefix(id.Name, "\x00armed:") {
						if f := flagOf[id.Name]; f != "" {
							id.Name = f
							out = append(out, st)
						}
						continue
					}
				}
				out = append(out, st)
			}
			return out
		}
		ast.Inspect(body, func(n ast.Node) bool {
			switch x := n.(type) {
			case *ast.BlockStmt:
				x.List = fix(x.List)
			case *ast.CaseClause:
				x.Body = fix(x.Body)
			case *ast.CommClause:
				x.Body = fix(x.Body)
			}
			return true
		})
		body.List = append(deferDecls, body.List...)
	}
	if deferBad != "" {
		return skip(deferBad)
	}
	// nested inlining inside the cloned body
	body.List = in.processList(body.List, append(append([]*types.Func{}, stack...), fn), callSites)

	if tail {
		inner = append(inner, body.List...)
		stmts = append(stmts, &ast.BlockStmt{List: inner})
		in.changed = true
		in.stats.Inlined++
		return stmts
	}
	var sw ast.Stmt = &ast.SwitchStmt{Body: &ast.BlockStmt{List: []ast.Stmt{&ast.CaseClause{Body: body.List}}}}
	if usedLabel {
		sw = &ast.LabeledStmt{Label: ast.NewIdent(label), Stmt: sw}
	}
	inner = append(inner, sw)
	stmts = append(stmts, &ast.BlockStmt{List: inner})
	if temps != nil {
		for _, n := range resNames {
			*temps = append(*temps, ast.NewIdent(n))
		}
	}
	in.changed = true
	in.stats.Inlined++
	return stmts
}

// registerClosures finds, in the package, the local variables that are bound exactly once to a function literal and
// only ever called (never passed on, stored or compared): calls of such a variable are calls of the literal. Only
// literals introduced by non-baseline code are of interest, but a closure has no name to look up in the baseline, so
// every such closure qualifies; the view is only consulted when the source view fails anyway.
func (in *inliner) registerClosures() {
	in.litFuncs = map[types.Object]*types.Func{}
	in.litSynth = map[*types.Func]bool{}
	in.litVars = map[types.Object]bool{}
	info := in.pk.TypesInfo
	for _, f := range in.pk.Syntax {
		if in.p.isMockFile(f.Pos()) {
			continue
		}
		called := map[*ast.Ident]bool{}
		cand := map[types.Object]*ast.FuncLit{}
		ast.Inspect(f, func(n ast.Node) bool {
			switch x := n.(type) {
			case *ast.CallExpr:
				if id, ok := ast.Unparen(x.Fun).(*ast.Ident); ok {
					called[id] = true
				}
			case *ast.AssignStmt:
				if x.Tok == token.DEFINE && len(x.Lhs) == 1 && len(x.Rhs) == 1 {
					if id, ok := x.Lhs[0].(*ast.Ident); ok {
						if lit, ok := x.Rhs[0].(*ast.FuncLit); ok {
							if obj := info.Defs[id]; obj != nil {
								cand[obj] = lit
							}
						}
					}
				}
			}
			return true
		})
		if len(cand) == 0 {
			continue
		}
		bad := map[types.Object]bool{}
		ast.Inspect(f, func(n ast.Node) bool {
			if id, ok := n.(*ast.Ident); ok {
				if obj := info.Uses[id]; obj != nil && cand[obj] != nil && !called[id] {
					bad[obj] = true // used as a value
				}
			}
			return true
		})
		for obj, lit := range cand {
			if bad[obj] || in.writtenAnywhere(obj) {
				continue
			}
			sig, ok := info.TypeOf(lit).(*types.Signature)
			if !ok {
				continue
			}
			fd := &ast.FuncDecl{Name: ast.NewIdent(obj.Name()), Type: lit.Type, Body: lit.Body}
			if inlinableBody(fd) != "" {
				continue
			}
			fn := types.NewFunc(lit.Pos(), in.pk.Types, obj.Name(), sig)
			in.litFuncs[obj] = fn
			in.litVars[obj] = true
			in.newFn[fn] = fd
		}
	}
}

// writtenAnywhere: the variable is assigned, incremented, address-taken or used as a range variable somewhere in the
// package (beyond its declaration).
func (in *inliner) writtenAnywhere(obj types.Object) bool {
	if in.writtenObjs == nil {
		in.writtenObjs = map[types.Object]bool{}
		mark := func(e ast.Expr) {
			if id, ok := ast.Unparen(e).(*ast.Ident); ok {
				if o := in.pk.TypesInfo.Uses[id]; o != nil {
					in.writtenObjs[o] = true
				}
			}
		}
		for _, f := range in.pk.Syntax {
			ast.Inspect(f, func(n ast.Node) bool {
				switch x := n.(type) {
				case *ast.AssignStmt:
					for _, l := range x.Lhs {
						mark(l)
					}
				case *ast.IncDecStmt:
					mark(x.X)
				case *ast.UnaryExpr:
					if x.Op == token.AND {
						mark(x.X)
					}
				case *ast.RangeStmt:
					if x.Tok == token.ASSIGN {
						if x.Key != nil {
							mark(x.Key)
						}
						if x.Value != nil {
							mark(x.Value)
						}
					}
				}
				return true
			})
		}
	}
	return in.writtenObjs[obj]
}

// paramOnlyCalled: every use of the parameter in the function body is as the function of a call expression.
func paramOnlyCalled(info *types.Info, fd *ast.FuncDecl, pv *types.Var) bool {
	called := map[*ast.Ident]bool{}
	ast.Inspect(fd.Body, func(n ast.Node) bool {
		if c, ok := n.(*ast.CallExpr); ok {
			if id, ok := ast.Unparen(c.Fun).(*ast.Ident); ok {
				called[id] = true
			}
		}
		return true
	})
	ok, n := true, 0
	ast.Inspect(fd.Body, func(x ast.Node) bool {
		if id, isID := x.(*ast.Ident); isID && info.Uses[id] == types.Object(pv) {
			n++
			if !called[id] {
				ok = false
			}
		}
		return true
	})
	return ok && n > 0
}

func (in *inliner) isTypeSwitchSymbol(fd *ast.FuncDecl, id *ast.Ident) bool {
	found := false
	ast.Inspect(fd.Body, func(n ast.Node) bool {
		if ts, ok := n.(*ast.TypeSwitchStmt); ok {
			if as, ok := ts.Assign.(*ast.AssignStmt); ok && len(as.Lhs) == 1 && as.Lhs[0] == ast.Expr(id) {
				found = true
			}
		}
		return !found
	})
	return found
}

// labelLoopBranches gives every unlabeled break / continue that leaves or continues a for / range loop the label of
// that loop (a fresh label if the loop has none). An if statement that is threaded into an inlined body then keeps
// its meaning although the body is wrapped in a switch statement and may contain loops of its own.
func labelLoopBranches(fd *ast.FuncDecl) {
	n := 0
	type loopCtx struct {
		name string
		used bool
	}
	var stmt func(s ast.Stmt, loop *loopCtx, breakToLoop bool) ast.Stmt
	list := func(l []ast.Stmt, loop *loopCtx, breakToLoop bool) {
		for i, s := range l {
			l[i] = stmt(s, loop, breakToLoop)
		}
	}
	loopBody := func(s ast.Stmt, body *ast.BlockStmt, label string) ast.Stmt {
		ctx := &loopCtx{name: label}
		if label == "" {
			n++
			ctx.name = fmt.Sprintf("loop_L%d", n)
		}
		list(body.List, ctx, true)
		if label == "" && ctx.used {
			return &ast.LabeledStmt{Label: ast.NewIdent(ctx.name), Stmt: s}
		}
		return s
	}
	stmt = func(s ast.Stmt, loop *loopCtx, breakToLoop bool) ast.Stmt {
		switch x := s.(type) {
		case *ast.LabeledStmt:
			switch y := x.Stmt.(type) {
			case *ast.ForStmt:
				loopBody(y, y.Body, x.Label.Name)
			case *ast.RangeStmt:
				loopBody(y, y.Body, x.Label.Name)
			default:
				x.Stmt = stmt(x.Stmt, loop, breakToLoop)
			}
		case *ast.ForStmt:
			return loopBody(x, x.Body, "")
		case *ast.RangeStmt:
			return loopBody(x, x.Body, "")
		case *ast.BlockStmt:
			list(x.List, loop, breakToLoop)
		case *ast.IfStmt:
			list(x.Body.List, loop, breakToLoop)
			if x.Else != nil {
				x.Else = stmt(x.Else, loop, breakToLoop)
			}
		case *ast.SwitchStmt:
			for _, cc := range x.Body.List {
				list(cc.(*ast.CaseClause).Body, loop, false)
			}
		case *ast.TypeSwitchStmt:
			for _, cc := range x.Body.List {
				list(cc.(*ast.CaseClause).Body, loop, false)
			}
		case *ast.SelectStmt:
			for _, cc := range x.Body.List {
				list(cc.(*ast.CommClause).Body, loop, false)
			}
		case *ast.BranchStmt:
			if x.Label == nil && loop != nil && ((x.Tok == token.BREAK && breakToLoop) || x.Tok == token.CONTINUE) {
				x.Label = ast.NewIdent(loop.name)
				loop.used = true
			}
		}
		return s
	}
	list(fd.Body.List, nil, false)
	// function literals have statement lists of their own
	ast.Inspect(fd.Body, func(nd ast.Node) bool {
		if fl, ok := nd.(*ast.FuncLit); ok && fl.Body != nil {
			list(fl.Body.List, nil, false)
		}
		return true
	})
}

// sentinelError: v is a package-level variable of this package declared with an errors.New / fmt.Errorf initialiser,
// and nothing in the package assigns to it or takes its address: it is non-nil whenever it is read.
func (in *inliner) sentinelError(v *types.Var) bool {
	if v.Pkg() == nil || v.Parent() != v.Pkg().Scope() || v.Pkg() != in.pk.Types {
		return false
	}
	if in.sentinels == nil {
		in.sentinels = map[*types.Var]bool{}
		written := map[*types.Var]bool{}
		for _, f := range in.pk.Syntax {
			ast.Inspect(f, func(n ast.Node) bool {
				switch x := n.(type) {
				case *ast.ValueSpec:
					if len(x.Values) != len(x.Names) {
						return true
					}
					for i, nm := range x.Names {
						obj, _ := in.pk.TypesInfo.Defs[nm].(*types.Var)
						if obj == nil || obj.Parent() != in.pk.Types.Scope() {
							continue
						}
						if call, ok := ast.Unparen(x.Values[i]).(*ast.CallExpr); ok {
							if se, ok := call.Fun.(*ast.SelectorExpr); ok {
								if pk, ok := se.X.(*ast.Ident); ok {
									if pn, ok := in.pk.TypesInfo.Uses[pk].(*types.PkgName); ok {
										path := pn.Imported().Path()
										if (path == "fmt" && se.Sel.Name == "Errorf") || (path == "errors" && se.Sel.Name == "New") {
											in.sentinels[obj] = true
										}
									}
								}
							}
						}
					}
				case *ast.AssignStmt:
					for _, l := range x.Lhs {
						if id, ok := ast.Unparen(l).(*ast.Ident); ok {
							if obj, ok := in.pk.TypesInfo.Uses[id].(*types.Var); ok {
								written[obj] = true
							}
						}
					}
				case *ast.UnaryExpr:
					if x.Op == token.AND {
						if id, ok := ast.Unparen(x.X).(*ast.Ident); ok {
							if obj, ok := in.pk.TypesInfo.Uses[id].(*types.Var); ok {
								written[obj] = true
							}
						}
					}
				case *ast.IncDecStmt, *ast.RangeStmt:
				}
				return true
			})
		}
		for obj := range written {
			delete(in.sentinels, obj)
		}
	}
	return in.sentinels[v]
}

// rangeInfo: `for _, v := range h(...)` whose operand is a call to a new function.
type rangeInfo struct {
	name string         // the value variable
	body *ast.BlockStmt // the loop body (already processed)
}

// unrollRange handles a range statement over the result of a new function all of whose returns are literal lists
// (`return []T{a, b}`): the list disappears, and the loop body is copied once per element to every return site of the
// inlined callee — the shape the code had before "the things to visit" were put in a list. Only for bodies without
// break / continue / labels / goto, a blank key and a newly declared value variable.
func (in *inliner) unrollRange(x *ast.RangeStmt, stack []*types.Func, sites []token.Pos) []ast.Stmt {
	if x.Tok != token.DEFINE || x.Value == nil {
		return nil
	}
	if x.Key != nil {
		if id, ok := x.Key.(*ast.Ident); !ok || id.Name != "_" {
			return nil
		}
	}
	val, ok := x.Value.(*ast.Ident)
	if !ok || val.Name == "_" {
		return nil
	}
	call, ok := ast.Unparen(x.X).(*ast.CallExpr)
	if !ok {
		return nil
	}
	fn, fd := in.calleeOfCall(call)
	if fn == nil || onStack(stack, fn) || inlinableBody(fd) != "" {
		return nil
	}
	sig := fn.Type().(*types.Signature)
	if sig.Results().Len() != 1 || sig.Results().At(0).Name() != "" {
		return nil
	}
	for _, a := range call.Args {
		if in.containsInlinable(a, stack) {
			return nil
		}
	}
	good := true
	ast.Inspect(fd.Body, func(n ast.Node) bool {
		switch y := n.(type) {
		case *ast.FuncLit:
			return false
		case *ast.DeferStmt:
			good = false
		case *ast.ReturnStmt:
			if len(y.Results) != 1 {
				good = false
			} else if _, isLit := ast.Unparen(y.Results[0]).(*ast.CompositeLit); !isLit {
				good = false
			}
		}
		return good
	})
	ast.Inspect(x.Body, func(n ast.Node) bool {
		switch n.(type) {
		case *ast.FuncLit:
			return false
		case *ast.BranchStmt, *ast.LabeledStmt:
			good = false
		}
		return good
	})
	if !good {
		return nil
	}
	in.pendingRange = &rangeInfo{name: val.Name, body: x.Body}
	in.pendingSinks = []ast.Expr{ast.NewIdent("_")}
	st := in.inlineCallMode(call, stack, sites, nil, false)
	in.pendingSinks, in.pendingRange = nil, nil
	return st
}
