package main

func init() {
	const wrs = "db/wrs.go"
	const q = "dnsdata/quote/quote.go"
	const mt = "dnsdata/data_marshaltext.go"
	const svcb = "dnsdata/svcb/svcb.go"
	addVariants(
		variant{Name: "c11-weights-summed-in-uint32(seed c11a)", Props: []string{"C11"}, Expect: []string{"C11.weight-arith|(*db.Wrs).Add"},
			Edits: []edit{{"db/wrs.go", "\tif rec.Qtype == dns.TypeA {\n\t\tw.V4Count++\n", "\tif rec.Qtype == dns.TypeA {\n\t\tw.V4Count++\n\t\tvar total uint32\n\t\tfor range w.V4 {\n\t\t\ttotal += rec.Weight\n\t\t}\n\t\tif total == 0 && rec.Weight > 0 && len(w.V4) > 0 {\n\t\t\treturn nil\n\t\t}\n"}}},
		variant{Name: "c11-weights-summed-in-uint64(benign)", Benign: true, Props: []string{"C11"},
			Edits: []edit{{"db/wrs.go", "\tif rec.Qtype == dns.TypeA {\n\t\tw.V4Count++\n", "\tif rec.Qtype == dns.TypeA {\n\t\tw.V4Count++\n\t\tvar total uint64\n\t\tfor range w.V4 {\n\t\t\ttotal += uint64(rec.Weight)\n\t\t}\n\t\tif total == 0 && rec.Weight > 0 && len(w.V4) > 0 {\n\t\t\treturn fmt.Errorf(\"impossible\")\n\t\t}\n"}}},
		variant{Name: "c17-unquote-ignores-multibyte(seed c17b)", Props: []string{"C17"}, Expect: []string{"C17.unquote-multibyte|Bunquote|byte(rune)#1|under-multibyte-test"},
			Edits: []edit{{"dnsdata/quote/quote.go", "\t\tif c < utf8.RuneSelf || !multibyte {", "\t\t_ = multibyte\n\t\tif c <= 255 {"}}},
		variant{Name: "c17-quote-skips-clean-prefix(seed c17a)", Props: []string{"C17"}, Expect: []string{"C17.escapes|Bquote|strconv.Quote-sees-the-whole-input", "C17.escapes|Bquote|return#"},
			Edits: []edit{{"dnsdata/quote/quote.go", "\ts := []byte(strconv.Quote(string(b[:])))\n", "\ti := bytes.IndexFunc(b, func(r rune) bool { return r == ',' || r == ':' || r == '\\\\' || !strconv.IsPrint(r) })\n\tif i < 0 {\n\t\treturn b\n\t}\n\ts := []byte(strconv.Quote(string(b[i:])))\n"}, {"dnsdata/quote/quote.go", "\ts = bytes.ReplaceAll(s, []byte(`\\\"`), []byte(`\"`))\n\treturn s\n", "\ts = bytes.ReplaceAll(s, []byte(`\\\"`), []byte(`\"`))\n\treturn append(b[:i:i], s...)\n"}}},
		variant{Name: "c17-unquote-switch-form(benign)", Benign: true, Props: []string{"C17"},
			Edits: []edit{{"dnsdata/quote/quote.go", "\t\tif c < utf8.RuneSelf || !multibyte {\n\t\t\tbuf = append(buf, byte(c))\n\t\t} else {\n\t\t\tn := utf8.EncodeRune(runeTmp[:], c)\n\t\t\tbuf = append(buf, runeTmp[:n]...)\n\t\t}", "\t\tswitch {\n\t\tcase multibyte && c >= utf8.RuneSelf:\n\t\t\tn := utf8.EncodeRune(runeTmp[:], c)\n\t\t\tbuf = append(buf, runeTmp[:n]...)\n\t\tdefault:\n\t\t\tbuf = append(buf, byte(c))\n\t\t}"}}},
		// C11
		variant{Name: "c11-append-without-length-test", Props: []string{"C11"}, Expect: []string{"C11.bounded|"},
			Edits: []edit{{wrs, "\t\tif len(items) < w.MaxAnswers {\n\t\t\titems = append(items, wrsItem)\n\t\t} else {", "\t\tif len(items) < w.MaxAnswers || wrsItem.Key > 0.5 {\n\t\t\titems = append(items, wrsItem)\n\t\t} else {"}}},
		variant{Name: "c11-zero-weight-served", Props: []string{"C11"}, Expect: []string{"C11.zero|"},
			Edits: []edit{{wrs, "\t\tif item.Key > 0.0 {", "\t\tif item.Key >= 0.0 {"}}},
		variant{Name: "c11-located-lookup-unconditional", Props: []string{"C11"}, Expect: []string{"C11.once|(*db.DataReader).FindAnswer"},
			Edits: []edit{{"db/answer.go", "\t\t// Add location prefix to qname\n\t\tif loc.LocID != EmptyLocation.LocID {\n\t\t\tlocalQ := append(loc.LocID[:], q[:]...)\n\t\t\terr = r.ForEach(localQ, parseResult)\n\t\t\tif err != nil {\n\t\t\t\tglog.Errorf(\"%v\", err)\n\t\t\t}\n\t\t}\n", "\t\t// Add location prefix to qname\n\t\t{\n\t\t\tlocalQ := append(loc.LocID[:], q[:]...)\n\t\t\terr = r.ForEach(localQ, parseResult)\n\t\t\tif err != nil {\n\t\t\t\tglog.Errorf(\"%v\", err)\n\t\t\t}\n\t\t}\n"}}},
		variant{Name: "c11-rand-seeded-per-query", Props: []string{"C11"}, Expect: []string{"C11.rand|module|no-Rand.Seed-or-Read"},
			Edits: []edit{{wrs, "\tkey := math.Pow(", "\tlocalRand.Seed(int64(rec.TTL))\n\tkey := math.Pow("}}},
		variant{Name: "c11-additional-section-two-answers", Props: []string{"C11"}, Expect: []string{"C11.max|db.AdditionalSectionForRecords|one-address-per-family"},
			Edits: []edit{{"db/utils.go", "\t\tvar wrs = Wrs{MaxAnswers: 1}", "\t\tvar wrs = Wrs{MaxAnswers: 2}"}}},
		variant{Name: "c11-max-answers-default-from-config", Props: []string{"C11"}, Expect: []string{"C11.max|(*dnsserver.FBDNSDB).ServeDNSWithRCODE|limit-from-context-or-default-1"},
			Edits: []edit{{"dnsserver/handler.go", "\t\t\tmaxAns = DefaultMaxAnswer\n", "\t\t\tmaxAns = h.cacheConfig.LRUSize\n"}}},
		// C17
		variant{Name: "c17-colon-not-rewritten", Props: []string{"C17"}, Expect: []string{"C17.escapes|Bquote|rewrites|SEP"},
			Edits: []edit{{q, "\tif bytes.ContainsRune(s, ':') {\n\t\ts = bytes.ReplaceAll(s, []byte(\":\"), []byte(\"\\\\072\"))\n\t}\n", ""}}},
		variant{Name: "c17-comma-rewritten-to-colon", Props: []string{"C17"}, Expect: []string{"C17.escapes|Bquote|"},
			Edits: []edit{{q, "[]byte(\",\"), []byte(\"\\\\054\"))", "[]byte(\",\"), []byte(\":\"))"}}},
		variant{Name: "c17-txt-written-raw", Props: []string{"C17"}, Expect: []string{"C17.taint|"},
			Edits: []edit{{mt, "\tw.WriteString(string(prefixTXT))\n", "\tw.WriteString(string(prefixTXT))\n\tw.Write(r.dom)\n"}}},
		// C18
		variant{Name: "c18-alpn-number-changed", Props: []string{"C18"}, Expect: []string{"C18.registry|paramNum|alpn"},
			Edits: []edit{{svcb, "\talpn          paramNum = 1\n\tnodefaultalpn paramNum = 2", "\talpn          paramNum = 2\n\tnodefaultalpn paramNum = 1"}}},
		variant{Name: "c18-unmarshaller-table-without-port", Props: []string{"C18"}, Expect: []string{"C18.tables|valueUnmarshallers|covers-exactly-the-declared-keys"},
			Edits: []edit{{svcb, "\t\tport:          portUnmarshaller,\n", ""}}},
		variant{Name: "c18-return-before-sort", Props: []string{"C18"}, Expect: []string{"C18.sorted|(*dnsdata/svcb.ParamList).FromText|sorted-on-every-success-path"},
			Edits: []edit{{svcb, "\tmandatoryidx, hasmandatory := seen[mandatory]\n\tif hasmandatory {", "\tmandatoryidx, hasmandatory := seen[mandatory]\n\tif !hasmandatory && len(*l) < 2 {\n\t\treturn nil\n\t}\n\tif hasmandatory {"}}},
		variant{Name: "c18-duplicate-keys-accepted", Props: []string{"C18"}, Expect: []string{"C18.checks|(*dnsdata/svcb.ParamList).FromText|duplicate-key-rejected"},
			Edits: []edit{{svcb, "\t\tif presence {\n\t\t\treturn fmt.Errorf(\"error parsing %s: keys have to be unique\", text[idx])\n\t\t}\n", "\t\tif presence {\n\t\t\tcontinue\n\t\t}\n"}}},
		variant{Name: "c18-skip-empty-segments(seed-c18a)", Props: []string{"C18"}, Expect: []string{"C18.checks|(*dnsdata/svcb.ParamList).FromText|seen-index-is-list-index"},
			Edits: []edit{{svcb, "\tfor idx := 0; idx < len(text) && len(text[idx]) > 0; idx++ {\n\t\tp := param{}", "\tfor idx := 0; idx < len(text); idx++ {\n\t\tif len(text[idx]) == 0 {\n\t\t\tcontinue\n\t\t}\n\t\tp := param{}"}}},
		variant{Name: "c18-towire-length-32bit", Props: []string{"C18"}, Expect: []string{"C18.wire|(*dnsdata/svcb.param).toWire|"},
			Edits: []edit{{svcb, "\terr = binary.Write(buf, binary.BigEndian, uint16(len(p.value)))", "\terr = binary.Write(buf, binary.BigEndian, uint32(len(p.value)))"}}},
		variant{Name: "benign-skip-empty-segments-with-len-index", Props: []string{"C18"}, Benign: true,
			Edits: []edit{{svcb, "\tfor idx := 0; idx < len(text) && len(text[idx]) > 0; idx++ {\n\t\tp := param{}", "\tfor idx := 0; idx < len(text); idx++ {\n\t\tif len(text[idx]) == 0 {\n\t\t\tcontinue\n\t\t}\n\t\tp := param{}"},
				{svcb, "\t\tseen[p.keynum] = idx\n", "\t\tseen[p.keynum] = len(*l)\n"}}},
	)
}
