package main

import (
	"fmt"
	"go/token"
	"go/types"
	"strings"

	"golang.org/x/tools/go/ssa"
)

// c11WeightArith implements C11.weight-arith: a record weight is a full 32-bit unsigned value taken from the data
// file. Any sum or product of weights computed in an integer type of 32 bits or fewer can wrap for declared weights
// (two weights of 2^31 sum to 0), after which selection probabilities are no longer proportional to the weights and
// a positive-weight candidate can become unselectable. Weights may be compared, converted to a float or to a 64-bit
// integer, and then combined.
func c11WeightArith(c *Ctx) {
	rule := "C11.weight-arith"
	c.Rule(rule, "A8 on SSA in packages db and dnsserver: every arithmetic instruction (+ - * << and the compound assignments) that has an operand derived, without passing a widening conversion, from a load of ResourceRecord.Weight is computed in float64 or a 64-bit integer type")
	fW := c.Field("db", "ResourceRecord", "Weight")
	uses, arith := 0, 0
	for _, fn := range c.OurFuncs("db", "dnsserver") {
		for _, b := range fn.Blocks {
			for _, in := range b.Instrs {
				u, ok := in.(*ssa.UnOp)
				if !ok || u.Op != token.MUL {
					continue
				}
				fa, ok := u.X.(*ssa.FieldAddr)
				if !ok || fieldOf(fa) != fW {
					// value form: rec.Weight on a struct value
					continue
				}
				uses++
				c.Examined(fn)
				arith += c11FollowWeight(c, rule, fn, u, map[ssa.Value]bool{})
			}
			for _, in := range b.Instrs {
				if f, ok := in.(*ssa.Field); ok && fieldOf(f) == fW {
					uses++
					c.Examined(fn)
					arith += c11FollowWeight(c, rule, fn, f, map[ssa.Value]bool{})
				}
			}
		}
	}
	// the selection key u^(1/w): for weights up to 2^32-1 the keys of different weights differ in about the 10th
	// significant digit; single precision (24-bit mantissa) rounds them all to 1.0 and the first candidate always wins
	// (seed c11f). Every float in the sampler — fields of its item type and values in its methods — is float64.
	{
		var narrow []string
		for _, tn := range []string{"Wrs", "WrsItem"} {
			if st := structOf(c.Named("db", tn)); st != nil {
				for i := 0; i < st.NumFields(); i++ {
					if bt, ok := st.Field(i).Type().Underlying().(*types.Basic); ok && bt.Kind() == types.Float32 {
						narrow = append(narrow, "field "+tn+"."+st.Field(i).Name())
					}
				}
			}
		}
		nf := 0
		for _, fn := range c.OurFuncs("db") {
			rv := fn.Signature.Recv()
			if fn.Parent() != nil {
				rv = fn.Parent().Signature.Recv()
			}
			if rv == nil || !(strings.HasSuffix(rv.Type().String(), "db.Wrs") || strings.HasSuffix(rv.Type().String(), "db.WrsItem")) {
				continue
			}
			nf++
			for _, b := range fn.Blocks {
				for _, in := range b.Instrs {
					if v, ok := in.(ssa.Value); ok {
						if bt, ok := v.Type().Underlying().(*types.Basic); ok && bt.Kind() == types.Float32 {
							narrow = append(narrow, fmt.Sprintf("%s at %s", fnName(fn), c.relPos(in.Pos())))
						}
					}
				}
			}
		}
		c.Check(rule, "sampler|keys-in-float64", len(narrow) == 0 && nf > 0, token.NoPos, fmt.Sprintf("%d sampler methods examined; single-precision values: %v", nf, narrow))
	}
	c.CheckConst(rule, "matcher|weight-reads-seen", uses >= 1, token.NoPos, fmt.Sprintf("%d reads of ResourceRecord.Weight followed, %d arithmetic uses examined", uses, arith))
}

// c11FollowWeight follows a weight value forward (through phis, narrowing/same-width conversions, and stores to
// local cells) and checks each arithmetic use. A conversion to float or to a 64-bit integer ends the walk.
func c11FollowWeight(c *Ctx, rule string, fn *ssa.Function, v ssa.Value, seen map[ssa.Value]bool) int {
	if seen[v] || v.Referrers() == nil {
		return 0
	}
	seen[v] = true
	wide := func(t types.Type) bool {
		bt, ok := t.Underlying().(*types.Basic)
		if !ok {
			return false
		}
		switch bt.Kind() {
		case types.Float64, types.Int64, types.Uint64, types.UntypedFloat:
			return true // float32 is NOT wide: 24 bits of mantissa cannot tell 32-bit weights apart
		case types.Int, types.Uint, types.Uintptr:
			return false // 32 bits on GOARCH=386
		}
		return false
	}
	n := 0
	for _, r := range *v.Referrers() {
		switch x := r.(type) {
		case *ssa.Convert:
			if wide(x.Type()) {
				continue
			}
			n += c11FollowWeight(c, rule, fn, x, seen)
		case *ssa.ChangeType:
			n += c11FollowWeight(c, rule, fn, x, seen)
		case *ssa.Phi:
			n += c11FollowWeight(c, rule, fn, x, seen)
		case *ssa.BinOp:
			switch x.Op {
			case token.ADD, token.SUB, token.MUL, token.SHL:
				n++
				c.Check(rule, fmt.Sprintf("%s|%s@%s", fnName(x.Parent()), x.Op, describeValue(x)), wide(x.Type()), x.Pos(),
					fmt.Sprintf("arithmetic on a record weight in %s: declared weights use all 32 bits, sums and products wrap", x.Type()))
				n += c11FollowWeight(c, rule, fn, x, seen)
			}
		case *ssa.Store:
			if x.Val == v {
				if al, ok := x.Addr.(*ssa.Alloc); ok {
					for _, rr := range *al.Referrers() {
						if ld, ok := rr.(*ssa.UnOp); ok && ld.Op == token.MUL {
							n += c11FollowWeight(c, rule, fn, ld, seen)
						}
					}
				}
			}
		}
	}
	return n
}

// c11WeightedFlag implements C11/C12.weighted-flag: the response cache key does not contain the listener's max-answer
// setting, and an answer drawn from several address candidates is a sample: it may be cached only under the explicit
// WRS timeout. "Weighted" must therefore mean "more than one candidate of a family", whatever the limit: a flag that
// says "not weighted" whenever all candidates fit (seed c11r4h) lets a listener with a larger limit fill the cache with
// an answer that is then replayed, over the limit, to a listener with a smaller one.
func c11WeightedFlag(c *Ctx, rule string) {
	c.Rule(rule, "A8 on (*Wrs).WeightedAnswer: the result depends on the candidate counts and constants only — no load of MaxAnswers (or of any other field than the per-family counts) in its data or control dependences")
	fn := c.Func("db", "(*Wrs).WeightedAnswer")
	c.Examined(fn)
	var other []string
	nCount := 0
	for _, leaf := range resultLeaves(fn, 0) {
		deps := backSliceCtl(leaf.V)
		for _, f := range factsAt(leaf.At) {
			for v := range backSlice(f.V, nil) {
				deps[v] = true
			}
		}
		for v := range deps {
			if fa, ok := v.(*ssa.FieldAddr); ok {
				name := fieldName(fa.X.Type(), fa.Field)
				if strings.HasSuffix(name, "Count") {
					nCount++
				} else {
					other = append(other, name)
				}
			}
		}
	}
	c.Check(rule, fnName(fn)+"|depends-on-candidate-counts-only", len(other) == 0 && nCount > 0, fn.Pos(), fmt.Sprintf("other fields the flag depends on: %v", other))
}

// c11WeightNotAFilter implements C11.weight-not-a-filter. "An address with weight 0 is never served while the response
// still reports that the name exists": the row parser decides whether a row matches (location, wildcard) and its
// callers count a parsed row as "record found" before the sampler ever sees the weight. A branch in the parser whose
// condition is derived from the weight it has just read (seed c11k: weight 0 => ErrZeroWeight) makes existence depend
// on the weight: a name whose addresses are all drained becomes NXDOMAIN. Decided on SSA: in db.ExtractRRFromRow no
// conditional branch's condition is derived from the value stored into ResourceRecord.Weight or from a load of it.
func c11WeightNotAFilter(c *Ctx) {
	rule := "C11.weight-not-a-filter"
	c.Rule(rule, "A8 on SSA: in db.ExtractRRFromRow no If condition is derived from the value stored into, or loaded from, ResourceRecord.Weight (the weight reaches only the sampler)")
	fW := c.Field("db", "ResourceRecord", "Weight")
	fn := c.Func("db", "ExtractRRFromRow")
	c.Examined(fn)
	weights := map[ssa.Value]bool{}
	stores := 0
	for _, b := range fn.Blocks {
		for _, in := range b.Instrs {
			switch x := in.(type) {
			case *ssa.Store:
				if fa, ok := x.Addr.(*ssa.FieldAddr); ok && fieldOf(fa) == fW {
					weights[x.Val] = true
					stores++
				}
			case *ssa.UnOp:
				if fa, ok := x.X.(*ssa.FieldAddr); ok && x.Op == token.MUL && fieldOf(fa) == fW {
					weights[x] = true
				}
			case *ssa.Field:
				if fieldOf(x) == fW {
					weights[x] = true
				}
			}
		}
	}
	var bad []string
	for _, b := range fn.Blocks {
		if len(b.Instrs) == 0 {
			continue
		}
		iff, ok := b.Instrs[len(b.Instrs)-1].(*ssa.If)
		if !ok {
			continue
		}
		for v := range backSlice(iff.Cond, func(v ssa.Value) bool {
			if weights[v] {
				return true
			}
			switch v.(type) {
			case *ssa.Alloc, *ssa.FieldAddr: // field-sensitive: loads of other fields of the record are not the weight
				return true
			}
			if u, ok := v.(*ssa.UnOp); ok && u.Op == token.MUL {
				return true
			}
			return false
		}) {
			if weights[v] {
				pos := iff.Cond.Pos()
				bad = append(bad, c.relPos(pos))
				break
			}
		}
	}
	c.Check(rule, fnName(fn)+"|no-branch-on-weight", len(bad) == 0 && stores > 0, fn.Pos(), fmt.Sprintf("%d stores to Weight; branches on the weight at %v", stores, bad))
}
