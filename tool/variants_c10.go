package main

func init() {
	const loc = "db/location.go"
	const hgo = "dnsserver/handler.go"
	addVariants(
		variant{Name: "c10-scope-sub-unguarded(F7)", Props: []string{"C10"}, Expect: []string{"C10.scope-guard|(*db.DataReader).EcsLocation|sub96"},
			Edits: []edit{{loc, "\t\t\tif ecs.SourceScope >= 96 {\n\t\t\t\tecs.SourceScope -= 96\n\t\t\t} else {\n\t\t\t\t// not an IPv4 subnet: it says nothing about the client's family\n\t\t\t\tecs.SourceScope = 0\n\t\t\t}\n", "\t\t\tecs.SourceScope -= 96\n"}}},
		variant{Name: "c10-scope-by-lookup-family(seed c10b)", Props: []string{"C10"}, Expect: []string{"C10.scope-family|(*db.DataReader).EcsLocation|scope-store"},
			Edits: []edit{{"db/location.go", "\t\tecs.SourceScope = loc.Mask\n\t\tif ecs.Family == 1 {", "\t\tecs.SourceScope = loc.Mask\n\t\tif family == 1 {"}}},
		variant{Name: "c10-default-scope-by-lookup-family", Props: []string{"C10"}, Expect: []string{"C10.scope-family|(*db.DataReader).EcsLocation|scope-store"},
			Edits: []edit{{"db/location.go", "\t\tecs.SourceScope = 24\n\t\tif ecs.Family == 2 {", "\t\tecs.SourceScope = 24\n\t\tif family == 2 {"}}},
		variant{Name: "c10-cache-stores-alias(seed c10a)", Props: []string{"C10"}, Expect: []string{"C10.cache-isolation|(*dnsserver.FBDNSDB).ServeDNSWithRCODE|add#0|stores-a-copy"},
			Edits: []edit{{"dnsserver/handler.go", "\t\t\th.cacheAdd(generation, cacheKey, cacheEntry{expiration: timeout, response: a.Copy()})\n\t\t} else if", "\t\t\th.cacheAdd(generation, cacheKey, cacheEntry{expiration: timeout, response: a})\n\t\t} else if"}}},
		variant{Name: "c10-scope-family-local-copy(benign)", Benign: true, Props: []string{"C10"},
			Edits: []edit{{"db/location.go", "\t\tecs.SourceScope = loc.Mask\n\t\tif ecs.Family == 1 {", "\t\tecs.SourceScope = loc.Mask\n\t\tif echoed := ecs.Family; echoed == 1 {"}}},
		variant{Name: "c10-netmask-rewritten", Props: []string{"C10"}, Expect: []string{"C10.readonly|(*db.DataReader).EcsLocation|store:SourceNetmask"},
			Edits: []edit{{loc, "\tif loc.LocID != [2]byte{0, 0} {\n\t\tecs.SourceScope = loc.Mask\n", "\tif loc.LocID != [2]byte{0, 0} {\n\t\tecs.SourceNetmask = uint8(bits)\n\t\tecs.SourceScope = loc.Mask\n"}}},
		variant{Name: "c10-address-masked-in-place", Props: []string{"C10"}, Expect: []string{"C10.readonly|(*db.DataReader).EcsLocation|store:Address"},
			Edits: []edit{{loc, "\tipnet := net.IPNet{IP: address, Mask: mask}\n\n\tloc, err := r.findLocation(q, []byte{0, '8'}, &ipnet)", "\tecs.Address = address.Mask(mask)\n\tipnet := net.IPNet{IP: ecs.Address, Mask: mask}\n\n\tloc, err := r.findLocation(q, []byte{0, '8'}, &ipnet)"}}},
		variant{Name: "c10-default-scope-32", Props: []string{"C10"}, Expect: []string{"C10.defaults|(*db.DataReader).EcsLocation|const-scope:32"},
			Edits: []edit{{loc, "\t\tecs.SourceScope = 24\n", "\t\tecs.SourceScope = 32\n"}}},
		variant{Name: "c10-resolver-fallback-inverted", Props: []string{"C10"}, Expect: []string{"C10.fallback|(*db.DataReader).FindLocation|resolver-iff-no-ecs-location"},
			Edits: []edit{{loc, "\tif loc == nil || loc.LocID == [2]byte{0, 0} {\n\t\tloc, err = r.ResolverLocation(qname, ip)", "\tif loc == nil || loc.LocID != [2]byte{0, 0} {\n\t\tloc, err = r.ResolverLocation(qname, ip)"}}},
		variant{Name: "c10-resolver-always", Props: []string{"C10"}, Expect: []string{"C10.fallback|(*db.DataReader).FindLocation|resolver-iff-no-ecs-location"},
			Edits: []edit{{loc, "\tif loc == nil || loc.LocID == [2]byte{0, 0} {\n\t\tloc, err = r.ResolverLocation(qname, ip)\n\t}", "\tloc, err = r.ResolverLocation(qname, ip)"}}},
		variant{Name: "c10-cache-hit-opt-without-ecs", Props: []string{"C10"}, Expect: []string{"C10.opt|(*dnsserver.FBDNSDB).ServeDNSWithRCODE|opt#0|ecs-appended-when-present"},
			Edits: []edit{{hgo, "\t\t\t\t\to.Hdr.Rrtype = dns.TypeOPT\n\n\t\t\t\t\tif ecs != nil {\n\t\t\t\t\t\to.Option = append(o.Option, ecs)\n\t\t\t\t\t}\n", "\t\t\t\t\to.Hdr.Rrtype = dns.TypeOPT\n"}}},
		variant{Name: "c10-opt-unconditional", Props: []string{"C10"}, Expect: []string{"C10.opt|(*dnsserver.FBDNSDB).ServeDNSWithRCODE|opt#"},
			Edits: []edit{{hgo, "\tif r.IsEdns0() != nil {\n\t\to = new(dns.OPT)\n\t\to.Hdr.Name = \".\"\n\t\to.Hdr.Rrtype = dns.TypeOPT\n\n\t\tif ecs != nil {\n\t\t\to.Option = append(o.Option, ecs)\n\t\t}\n\n\t\ta.Extra = append([]dns.RR{o}, a.Extra...)\n\t}\n\n\treturn h.writeAndLog(state, a, ecs)", "\tif r.IsEdns0() != nil || ecs != nil {\n\t\to = new(dns.OPT)\n\t\to.Hdr.Name = \".\"\n\t\to.Hdr.Rrtype = dns.TypeOPT\n\n\t\tif ecs != nil {\n\t\t\to.Option = append(o.Option, ecs)\n\t\t}\n\n\t\ta.Extra = append([]dns.RR{o}, a.Extra...)\n\t}\n\n\treturn h.writeAndLog(state, a, ecs)"}}},
		variant{Name: "c10-echo-rebuilt-option", Props: []string{"C10"}, Expect: []string{"C10.readonly|(*dnsserver.FBDNSDB).ServeDNSWithRCODE|opt-option#"},
			Edits: []edit{{hgo, "\t\tif ecs != nil {\n\t\t\to.Option = append(o.Option, ecs)\n\t\t}\n\n\t\ta.Extra = append([]dns.RR{o}, a.Extra...)\n\t}\n\n\treturn h.writeAndLog(state, a, ecs)", "\t\tif ecs != nil {\n\t\t\te2 := &dns.EDNS0_SUBNET{Code: dns.EDNS0SUBNET, Family: ecs.Family, SourceNetmask: ecs.SourceScope, SourceScope: ecs.SourceScope, Address: ecs.Address}\n\t\t\to.Option = append(o.Option, e2)\n\t\t}\n\n\t\ta.Extra = append([]dns.RR{o}, a.Extra...)\n\t}\n\n\treturn h.writeAndLog(state, a, ecs)"}}},
	)
}
