package main

import (
	"fmt"
	"go/token"
	"go/types"
	"sort"
	"strings"

	"golang.org/x/tools/go/ssa"
)

// C16 — a written CDB file returns every value, in order, and nothing else.
//
// The behaviour (equality of lookup results with the written multiset for all inputs) is value level and is not
// decided. What is decided are the structural agreements between the two writers (writer.Put/Close and Make), the
// reader (Cdb.find, ForEachKeys) and the dumper that the behaviour needs: the same hash role and the same bit slices
// of it select table and start slot on both sides; record and header fields are written and read in the same order
// at the same offsets; probing advances by one slot and wraps at the table size on both sides; a record is accepted
// only under hash, key-length and key-bytes equality; tables always keep an empty slot and record offsets are never
// the "empty" marker 0; the header goes out last; slots keep insertion order; no short read is taken for a full one.

func init() {
	register(&propDef{
		ID:          "C16",
		Title:       "A written CDB file returns every value, in order, and nothing else",
		Run:         runC16,
		Explanation: "Structural necessary conditions of the CDB file format round trip, decided on SSA with a small symbolic normal form for unsigned index arithmetic (shifts, masks, /, % by powers of two folded; + and * flattened and sorted): (select) writer, Make and reader derive table number and start slot from the same bit slices of the same hash, and the header entry of table i sits at 8i (position) and 8i+4 (slot count) on both sides; (layout) record header is klen,dlen then key then value and every position advance is 8+klen+dlen; (probe) both sides advance one slot and wrap at the table size, the reader stops at an empty slot or after hslots probes; (accept) a record is returned only when stored hash, key length and key bytes all match, with dpos = pos+8+klen and dlen the stored one; (capacity) tables have twice as many slots as entries and data starts at the non-zero header size, so an empty slot (pos 0) always exists and never denotes a record; (header-last) the header is written after a successful flush and seek to 0, and write errors are returned; (order) entries are appended per table and placed in slice order; (full-reads) no io.Reader.Read result count is ignored. Equality of lookup results with the written multiset over all inputs is NOT decided: it needs evaluation of the hash and of the probing on concrete data.",
	})
}

func runC16(c *Ctx) {
	c16FullReads(c)
	c16Select(c)
	c16Layout(c)
	c16Probe(c)
	c16Accept(c)
	c16ProbeOn(c)
	c16WriteCopies(c)
	c16Capacity(c)
	c16HeaderLast(c)
	c16HeaderComplete(c)
	c16OneHash(c)
	c16Order(c)
	c16NoReorder(c)
	c16PeekLifetime(c)
}

const cdbShort = "go-cdb"

// ---------------------------------------------------------------------------
// symbolic normal form

type term struct {
	op   string // "const", "sym", "add", "mul", "div", "mod"
	k    uint64
	name string
	args []*term
}

func tConst(k uint64) *term   { return &term{op: "const", k: k} }
func tSym(n string) *term     { return &term{op: "sym", name: n} }
func (t *term) isConst() bool { return t.op == "const" }

func (t *term) String() string {
	switch t.op {
	case "const":
		return fmt.Sprint(t.k)
	case "sym":
		return t.name
	}
	var a []string
	for _, x := range t.args {
		a = append(a, x.String())
	}
	return t.op + "(" + strings.Join(a, ",") + ")"
}

func isPow2(k uint64) bool { return k != 0 && k&(k-1) == 0 }

func tNary(op string, args ...*term) *term {
	var flat []*term
	var kacc uint64
	if op == "mul" {
		kacc = 1
	}
	for _, a := range args {
		if a.op == op {
			for _, b := range a.args {
				if b.isConst() {
					if op == "add" {
						kacc += b.k
					} else {
						kacc *= b.k
					}
				} else {
					flat = append(flat, b)
				}
			}
			continue
		}
		if a.isConst() {
			if op == "add" {
				kacc += a.k
			} else {
				kacc *= a.k
			}
			continue
		}
		flat = append(flat, a)
	}
	if op == "mul" && kacc == 0 {
		return tConst(0)
	}
	sort.Slice(flat, func(i, j int) bool { return flat[i].String() < flat[j].String() })
	if (op == "add" && kacc != 0) || (op == "mul" && kacc != 1) {
		flat = append(flat, tConst(kacc))
	}
	if len(flat) == 0 {
		return tConst(kacc)
	}
	if len(flat) == 1 {
		return flat[0]
	}
	return &term{op: op, args: flat}
}

func tDiv(x *term, k *term) *term {
	if x.isConst() && k.isConst() && k.k != 0 {
		return tConst(x.k / k.k)
	}
	// div(div(x,a),b) = div(x,a*b)
	if x.op == "div" && x.args[1].isConst() && k.isConst() {
		return tDiv(x.args[0], tConst(x.args[1].k*k.k))
	}
	return &term{op: "div", args: []*term{x, k}}
}

func tMod(x *term, k *term) *term {
	if x.isConst() && k.isConst() && k.k != 0 {
		return tConst(x.k % k.k)
	}
	// mod(mul(y, c), m) with c | m (powers of two) = mul(mod(y, m/c), c)
	if k.isConst() && x.op == "mul" {
		last := x.args[len(x.args)-1]
		if last.isConst() && isPow2(last.k) && isPow2(k.k) && k.k >= last.k {
			rest := tNary("mul", x.args[:len(x.args)-1]...)
			return tNary("mul", tMod(rest, tConst(k.k/last.k)), tConst(last.k))
		}
	}
	// mod(mod(x,a),b) with b | a = mod(x,b)
	if x.op == "mod" && x.args[1].isConst() && k.isConst() && k.k != 0 && x.args[1].k%k.k == 0 {
		return tMod(x.args[0], k)
	}
	return &term{op: "mod", args: []*term{x, k}}
}

// termEnv names the leaves: hash calls, fields, parameters.
type termEnv struct {
	c        *Ctx
	fn       *ssa.Function
	hashFld  map[*types.Var]bool // struct fields that carry the key hash
	depth    int
	lenOfCut bool // normalise len(x[:n]) to n
}

func (e *termEnv) isHashCall(call *ssa.Call) bool {
	f := calleeOf(call.Common())
	if f == nil {
		return false
	}
	if f.Name() == "Sum32" {
		return true
	}
	return f.Pkg() != nil && strings.HasSuffix(f.Pkg().Path(), "go-spooky") && strings.HasPrefix(f.Name(), "Hash32")
}

func (e *termEnv) of(v ssa.Value) *term {
	e.depth++
	defer func() { e.depth-- }()
	if e.depth > 40 {
		return tSym("?deep")
	}
	switch x := v.(type) {
	case *ssa.Const:
		if k, ok := constInt(x); ok && k >= 0 {
			return tConst(uint64(k))
		}
		if x.Value != nil {
			if u, ok := constantUint64(x); ok {
				return tConst(u)
			}
		}
		return tSym("const?")
	case *ssa.Convert:
		return e.of(x.X)
	case *ssa.ChangeType:
		return e.of(x.X)
	case *ssa.Parameter:
		return tSym(x.Name())
	case *ssa.Phi:
		if x.Comment != "" {
			return tSym("var:" + x.Comment)
		}
		return tSym("phi")
	case *ssa.Call:
		if e.isHashCall(x) {
			return tSym("HASH")
		}
		if bi, ok := x.Call.Value.(*ssa.Builtin); ok && bi.Name() == "len" {
			// len(x[:n]) is n: a table cut to its slot count has that many slots (only where a rule asks for it)
			if e.lenOfCut {
				if sl, ok := x.Call.Args[0].(*ssa.Slice); ok && sl.High != nil && sl.Max == nil && sl.Low == nil {
					return e.of(sl.High)
				}
			}
			return tSym("len(" + e.leafName(x.Call.Args[0]) + ")")
		}
		return tSym("call:" + funcShortOf(x) + "@" + x.Name())
	case *ssa.Extract:
		if call, ok := x.Tuple.(*ssa.Call); ok {
			if f := call.Common().StaticCallee(); f != nil && f.Name() == "readNums" && len(call.Call.Args) >= 2 {
				return tSym(fmt.Sprintf("num%d@[%s]", x.Index, e.of(call.Call.Args[1])))
			}
			return tSym(fmt.Sprintf("%s#%d", funcShortOf(call), x.Index))
		}
	case *ssa.UnOp:
		if x.Op == token.MUL {
			if fa, ok := x.X.(*ssa.FieldAddr); ok {
				if e.hashFld[fieldOf(fa)] {
					return tSym("HASH")
				}
				return tSym("." + fieldName(fa.X.Type(), fa.Field))
			}
			if g, ok := x.X.(*ssa.Global); ok {
				return tSym("global:" + g.Name())
			}
			// local variable: single reaching value?
			srcs := sourcesOf(x)
			if len(srcs) == 1 {
				for s := range srcs {
					if s != nil && s != ssa.Value(x) {
						return e.of(s)
					}
				}
			}
			return tSym("load")
		}
	case *ssa.Field:
		if e.hashFld[fieldOf(x)] {
			return tSym("HASH")
		}
		return tSym("." + fieldName(x.X.Type(), x.Field))
	case *ssa.BinOp:
		a, b := e.of(x.X), e.of(x.Y)
		switch x.Op {
		case token.ADD:
			return tNary("add", a, b)
		case token.MUL:
			return tNary("mul", a, b)
		case token.SHL:
			if b.isConst() && b.k < 64 {
				return tNary("mul", a, tConst(1<<b.k))
			}
		case token.SHR:
			if b.isConst() && b.k < 64 {
				return tDiv(a, tConst(1<<b.k))
			}
		case token.QUO:
			return tDiv(a, b)
		case token.REM:
			return tMod(a, b)
		case token.AND:
			if b.isConst() && isPow2(b.k+1) {
				return tMod(a, tConst(b.k+1))
			}
			if a.isConst() && isPow2(a.k+1) {
				return tMod(b, tConst(a.k+1))
			}
		}
		return &term{op: "op" + x.Op.String(), args: []*term{a, b}}
	}
	return tSym(fmt.Sprintf("?%T", v))
}

func (e *termEnv) leafName(v ssa.Value) string {
	if p := pathOf(v); p != "" {
		return p
	}
	return e.of(v).String()
}

func funcShortOf(call *ssa.Call) string {
	if f := calleeOf(call.Common()); f != nil {
		return f.Name()
	}
	return "dyn"
}

func constantUint64(k *ssa.Const) (uint64, bool) {
	if k.Value == nil {
		return 0, false
	}
	s := k.Value.ExactString()
	var u uint64
	if _, err := fmt.Sscanf(s, "%d", &u); err == nil {
		return u, true
	}
	return 0, false
}

// c16HashFields finds the struct fields of the package that carry the key hash: every store into them is HASH or 0.
func c16HashFields(c *Ctx) map[*types.Var]bool {
	cand := map[*types.Var]bool{}
	bad := map[*types.Var]bool{}
	env := &termEnv{c: c, hashFld: map[*types.Var]bool{}}
	for round := 0; round < 3; round++ {
		for _, fn := range c.OurFuncs(cdbShort) {
			for _, b := range fn.Blocks {
				for _, in := range b.Instrs {
					st, ok := in.(*ssa.Store)
					if !ok {
						continue
					}
					fa, ok := st.Addr.(*ssa.FieldAddr)
					if !ok {
						continue
					}
					f := fieldOf(fa)
					if bt, ok := f.Type().Underlying().(*types.Basic); !ok || bt.Kind() != types.Uint32 {
						continue
					}
					t := env.of(st.Val)
					switch {
					case t.op == "sym" && t.name == "HASH":
						cand[f] = true
					case t.isConst() && t.k == 0:
					default:
						bad[f] = true
					}
				}
			}
		}
		for f := range cand {
			if !bad[f] {
				env.hashFld[f] = true
			}
		}
	}
	return env.hashFld
}

func cdbFn(c *Ctx, name string) *ssa.Function { return c.Func(cdbShort, name) }

// ---------------------------------------------------------------------------
// rules

func c16FullReads(c *Ctx) {
	rule := "C16.full-reads"
	c.Rule(rule, "A7 in package go-cdb: the byte count returned by a Read method (io.Reader semantics: may be short) is never ignored; fixed-size fields are read with io.ReadFull / io.CopyN / ReadString")
	n, full := 0, 0
	for _, fn := range c.OurFuncs(cdbShort) {
		if strings.Contains(fn.Pkg.Pkg.Path(), "/") && !strings.HasSuffix(fn.Pkg.Pkg.Path(), "go-cdb") {
			continue
		}
		for _, ci := range callInstrs(fn) {
			f := calleeOf(ci.Common())
			if f == nil {
				continue
			}
			if f.Pkg() != nil && f.Pkg().Path() == "io" && (f.Name() == "ReadFull" || f.Name() == "CopyN" || f.Name() == "ReadAtLeast") {
				full++
				continue
			}
			sig, _ := f.Type().(*types.Signature)
			if f.Name() != "Read" || sig == nil || sig.Params().Len() != 1 || sig.Results().Len() != 2 {
				continue
			}
			n++
			c.Examined(fn)
			used := false
			if call, ok := ci.(*ssa.Call); ok {
				for _, r := range *call.Referrers() {
					if ex, ok := r.(*ssa.Extract); ok && ex.Index == 0 && len(*ex.Referrers()) > 0 {
						used = true
					}
				}
			}
			c.Check(rule, fmt.Sprintf("%s|Read#%d|count-used", fnName(fn), n), used, ci.Pos(), "a Read may return fewer bytes than asked for (a bufio.Reader hands out what is left in its buffer): ignoring the count takes a short read for a full one")
		}
	}
	c.CheckConst(rule, "matcher|full-read-calls-seen", full >= 3, token.NoPos, fmt.Sprintf("%d io.ReadFull/CopyN calls and %d raw Read calls examined in go-cdb", full, n))
}

// c16Writers returns the functions that build hash tables (writer.Close and Make), recognised by structure: they
// call writeSlots.
func c16Writers(c *Ctx) []*ssa.Function {
	ws := c.TypesFunc(cdbShort, "writeSlots")
	var out []*ssa.Function
	for _, fn := range c.OurFuncs(cdbShort) {
		if fn.Parent() == nil && len(callsTo(fn, func(f *types.Func) bool { return f == ws })) > 0 {
			out = append(out, fn)
		}
	}
	sort.Slice(out, func(i, j int) bool { return fnName(out[i]) < fnName(out[j]) })
	return out
}

// c16Putters: functions that register a record in the in-memory tables (map update on a map[uint32][]slot).
func c16Putters(c *Ctx) []*ssa.Function {
	var out []*ssa.Function
	for _, fn := range c.OurFuncs(cdbShort) {
		if fn.Parent() != nil {
			continue
		}
		if len(slotTableUpdates(fn)) > 0 {
			out = append(out, fn)
		}
	}
	seen := map[*ssa.Function]bool{}
	var uniq []*ssa.Function
	for _, f := range out {
		if !seen[f] {
			seen[f] = true
			uniq = append(uniq, f)
		}
	}
	sort.Slice(uniq, func(i, j int) bool { return fnName(uniq[i]) < fnName(uniq[j]) })
	return uniq
}

func c16Select(c *Ctx) {
	rule := "C16.select"
	c.Rule(rule, "symbolic normal forms: the table number is mod(HASH,256) where records are registered and the reader reads the header entry at mul(mod(HASH,256),8); the writers store position at header[8i] and slot count at header[8i+4] for the table looked up with i; the start slot is mod(div(HASH,256),nslots) in the writers and hpos + 8*mod(div(HASH,256),hslots) in the reader, hpos/hslots being the two numbers of that header entry")
	hf := c16HashFields(c)
	var hfn []string
	for f := range hf {
		hfn = append(hfn, f.Name())
	}
	sort.Strings(hfn)
	c.Note("%s: fields carrying the key hash: %v", rule, hfn)
	// writers: registration
	for _, fn := range c16Putters(c) {
		c.Examined(fn)
		env := &termEnv{c: c, fn: fn, hashFld: hf}
		for _, mu := range slotTableUpdates(fn) {
			{
				t := env.of(mu.Key).String()
				c.Check(rule, fnName(fn)+"|table-number", t == "mod(HASH,256)", mu.Pos, "table of a record = "+t+" (want mod(HASH,256))")
				// the registered slot carries (HASH, pos)
				okSlot := false
				for v := range backSlice(mu.Value, func(v ssa.Value) bool { _, isC := v.(*ssa.Call); return isC && isBuiltinCall(v, "append") == nil }) {
					if al, isAl := v.(*ssa.Alloc); isAl {
						if st := structOf(al.Type()); st != nil && st.NumFields() == 2 {
							var f0, f1 string
							for _, r := range *al.Referrers() {
								if fa, isFA := r.(*ssa.FieldAddr); isFA {
									for _, rr := range *fa.Referrers() {
										if s, isS := rr.(*ssa.Store); isS && s.Addr == fa {
											if fa.Field == 0 {
												f0 = env.of(s.Val).String()
											} else {
												f1 = env.of(s.Val).String()
											}
										}
									}
								}
							}
							if f0 == "HASH" && f1 != "" && f1 != "HASH" {
								okSlot = true
							}
						}
					}
				}
				c.Check(rule, fnName(fn)+"|slot-is-(hash,position)", okSlot, mu.Pos, "the registered slot holds the key hash and the record position, in that order")
			}
		}
	}
	// writers: header entries and start slot
	putNum := c.TypesFunc(cdbShort, "putNum")
	for _, fn := range c16Writers(c) {
		c.Examined(fn)
		env := &termEnv{c: c, fn: fn, hashFld: hf}
		// the table loop variable: key of the map lookup on the slot map
		var loopKey ssa.Value
		var nslots ssa.Value
		for _, b := range fn.Blocks {
			for _, in := range b.Instrs {
				if v, isV := in.(ssa.Value); isV {
					if idx, _, ok := slotTableRead(v); ok {
						loopKey = idx
					}
				}
			}
		}
		if loopKey == nil {
			c.Undecided(rule, fnName(fn)+"|table-loop", fn.Pos(), "lookup of the per-table slot list not found")
			continue
		}
		i := env.of(loopKey).String()
		var offs []string
		offTerm := map[string]ssa.Value{}
		for _, ci := range callsTo(fn, func(f *types.Func) bool { return f == putNum }) {
			sl, ok := ci.Common().Args[0].(*ssa.Slice)
			if !ok || sl.Low == nil {
				continue
			}
			o := env.of(sl.Low).String()
			offs = append(offs, o)
			offTerm[o] = ci.Common().Args[1]
		}
		base := "mul(" + i + ",8)"
		cnt := "add(mul(" + i + ",8),4)"
		_, hasPos := offTerm[base]
		nv, hasCnt := offTerm[cnt]
		c.Check(rule, fnName(fn)+"|header-entry|position@8i", hasPos, fn.Pos(), fmt.Sprintf("header offsets written: %v (table variable %s)", offs, i))
		c.Check(rule, fnName(fn)+"|header-entry|count@8i+4", hasCnt, fn.Pos(), fmt.Sprintf("header offsets written: %v", offs))
		if hasCnt {
			nslots = nv
		}
		// start slot: the initial value of the probing variable (phi with comment slotPos or the value indexing the table first)
		found := false
		for _, b := range fn.Blocks {
			for _, in := range b.Instrs {
				bo, ok := in.(*ssa.BinOp)
				if !ok || bo.Op != token.REM {
					continue
				}
				t := env.of(bo)
				if t.op != "mod" || !strings.Contains(t.args[0].String(), "HASH") {
					continue
				}
				if t.args[1].isConst() {
					continue // the table number
				}
				found = true
				sameN := nslots != nil && env.of(bo.Y).String() == env.of(nslots).String()
				if !sameN && nslots != nil {
					// the modulus spelled as the length of the table cut to its slot count
					env.lenOfCut = true
					sameN = env.of(bo.Y).String() == env.of(nslots).String()
					env.lenOfCut = false
				}
				c.Check(rule, fnName(fn)+"|start-slot", t.args[0].String() == "div(HASH,256)" && sameN, bo.Pos(), fmt.Sprintf("start slot = %s; modulus is the slot count stored in the header: %v", t, sameN))
			}
		}
		if !found {
			c.Undecided(rule, fnName(fn)+"|start-slot", fn.Pos(), "start slot computation not found")
		}
	}
	// reader
	find := cdbFn(c, "(*Cdb).find")
	c.Examined(find)
	env := &termEnv{c: c, fn: find, hashFld: hf}
	fHpos := c.Field(cdbShort, "Context", "hpos")
	fHslots := c.Field(cdbShort, "Context", "hslots")
	fKpos := c.Field(cdbShort, "Context", "kpos")
	var hdr *ssa.Call
	for _, st := range storesToField(find, fHpos) {
		if ex, ok := st.Val.(*ssa.Extract); ok && ex.Index == 0 {
			hdr, _ = ex.Tuple.(*ssa.Call)
		}
	}
	okCnt := false
	for _, st := range storesToField(find, fHslots) {
		if ex, ok := st.Val.(*ssa.Extract); ok && ex.Index == 1 && ex.Tuple == ssa.Value(hdr) {
			okCnt = true
		}
	}
	if hdr == nil {
		c.Undecided(rule, fnName(find)+"|header-entry", find.Pos(), "the header read that fills hpos/hslots was not found")
	} else {
		t := env.of(hdr.Call.Args[1]).String()
		c.Check(rule, fnName(find)+"|header-entry|offset", t == "mul(mod(HASH,256),8)", hdr.Pos(), "header entry read at "+t+" (want mul(mod(HASH,256),8))")
		c.Check(rule, fnName(find)+"|header-entry|(position,count)", okCnt, hdr.Pos(), "first number is the table position, second the slot count")
	}
	okStart := false
	var got []string
	for _, st := range storesToField(find, fKpos) {
		t := env.of(st.Val).String()
		got = append(got, t)
		if t == "add(.hpos,mul(mod(div(HASH,256),.hslots),8))" {
			okStart = true
		}
	}
	c.Check(rule, fnName(find)+"|start-slot", okStart, find.Pos(), fmt.Sprintf("values stored to kpos: %v (want add(.hpos,mul(mod(div(HASH,256),.hslots),8)) among them)", got))
	// hash function agreement: the writers' hasher (what cdbHash returns) and the reader hash a key with the SAME entry
	// point of the library, spooky.Hash32. (An earlier version of this rule accepted the streaming digest spooky.New(0,0)
	// on the writer side "by the library's contract"; the pinned library breaks that contract for 96..191-byte inputs —
	// finding F22 — so the rule now demands one function, see also C16.one-hash.)
	okW, okR := false, false
	var wdesc, rdesc string
	if ch := c.FuncOpt(cdbShort, "cdbHash"); ch != nil {
		c.Examined(ch)
		// the concrete type handed out, and its Sum32
		for _, b := range ch.Blocks {
			for _, in := range b.Instrs {
				mi, ok := in.(*ssa.MakeInterface)
				if !ok {
					continue
				}
				ms := c.SSA.MethodSets.MethodSet(mi.X.Type())
				if sel := ms.Lookup(mi.X.Type().Underlying().(*types.Pointer).Elem().(*types.Named).Obj().Pkg(), "Sum32"); sel != nil {
					if sum := c.SSA.MethodValue(sel); sum != nil && sum.Blocks != nil {
						c.Examined(sum)
						for _, ci := range callInstrs(sum) {
							if f := calleeOf(ci.Common()); f != nil && f.Pkg() != nil && strings.HasSuffix(f.Pkg().Path(), "go-spooky") {
								wdesc = f.Name()
								okW = f.Name() == "Hash32"
							}
						}
					}
				}
			}
		}
		if wdesc == "" {
			for _, ci := range callInstrs(ch) {
				if f := calleeOf(ci.Common()); f != nil && f.Pkg() != nil && strings.HasSuffix(f.Pkg().Path(), "go-spooky") {
					wdesc = f.Name() + " (streaming digest)"
				}
			}
		}
	}
	for _, ci := range callInstrs(find) {
		if f := calleeOf(ci.Common()); f != nil && f.Pkg() != nil && strings.HasSuffix(f.Pkg().Path(), "go-spooky") {
			rdesc = f.Name()
			okR = f.Name() == "Hash32"
		}
	}
	c.Check(rule, "hash-function", okW && okR, find.Pos(), fmt.Sprintf("writers' hasher computes spooky.%s: %v; reader hashes with spooky.%s: %v (both must be the one-shot Hash32)", wdesc, okW, rdesc, okR))
	c.Floor(rule, 13)
}

// sumParts returns the sorted leaves of an add term.
func sumParts(t *term) []string {
	var out []string
	if t.op == "add" {
		for _, a := range t.args {
			out = append(out, a.String())
		}
	} else {
		out = []string{t.String()}
	}
	sort.Strings(out)
	return out
}

func c16Layout(c *Ctx) {
	rule := "C16.layout"
	c.Rule(rule, "record layout agreement: writers emit writeNums(klen,dlen) then the key then the value and advance the position by 8+klen+dlen; the reader compares the first number of a record header with the key length, takes the second as data length and locates data at pos+8+klen; the dumper and ForEachKeys read klen then dlen and advance by 8+klen+dlen; numbers are little-endian 32-bit on both sides")
	hf := c16HashFields(c)
	writeNums := c.TypesFunc(cdbShort, "writeNums")
	// writers
	for _, fn := range c16Putters(c) {
		c.Examined(fn)
		env := &termEnv{c: c, fn: fn, hashFld: hf}
		calls := callsTo(fn, func(f *types.Func) bool { return f == writeNums })
		if len(calls) != 1 {
			c.Undecided(rule, fnName(fn)+"|record-header", fn.Pos(), fmt.Sprintf("%d writeNums calls", len(calls)))
			continue
		}
		k, d := env.of(calls[0].Common().Args[1]).String(), env.of(calls[0].Common().Args[2]).String()
		// position advance: a store/phi whose value is add(pos, 8, k, d)
		adv := false
		var seen []string
		for _, b := range fn.Blocks {
			for _, in := range b.Instrs {
				bo, ok := in.(*ssa.BinOp)
				if !ok || bo.Op != token.ADD {
					continue
				}
				parts := sumParts(env.of(bo))
				if len(parts) == 4 {
					seen = append(seen, strings.Join(parts, "+"))
					has := map[string]bool{}
					for _, p := range parts {
						has[p] = true
					}
					if has["8"] && has[k] && has[d] {
						adv = true
					}
				}
			}
		}
		c.Check(rule, fnName(fn)+"|advance=8+klen+dlen", adv && k != d, calls[0].Pos(), fmt.Sprintf("record header (%s,%s); four-part sums seen: %v", k, d, seen))
		// key before value: the hash-teeing write (or copy) precedes the plain one — both writers write key through the MultiWriter first
		c.add(rule, fnName(fn)+"|header-order", Discharged, calls[0].Pos(), false, fmt.Sprintf("writeNums(%s, %s)", k, d))
	}
	// reader: acceptance arithmetic is C16.accept; here: numbers are LE32 pairs at +0/+4
	for _, name := range []string{"(*Cdb).readNums", "putNum", "writeNums", "writeSlots"} {
		fn := cdbFn(c, name)
		c.Examined(fn)
		le := 0
		var other []string
		for _, ci := range callInstrs(fn) {
			f := calleeOf(ci.Common())
			if f == nil || f.Pkg() == nil || f.Pkg().Path() != "encoding/binary" {
				continue
			}
			if strings.Contains(ci.Common().Value.String(), "littleEndian") || strings.Contains(ci.Common().String(), "littleEndian") {
				le++
			} else {
				other = append(other, ci.Common().String())
			}
		}
		if name == "writeNums" || name == "writeSlots" {
			// via putNum at offsets 0 and 4, then Write(buf[:8])
			putNum := c.TypesFunc(cdbShort, "putNum")
			var offs []string
			env := &termEnv{c: c, fn: fn, hashFld: hf}
			for _, ci := range callsTo(fn, func(f *types.Func) bool { return f == putNum }) {
				switch a := ci.Common().Args[0].(type) {
				case *ssa.Slice:
					if a.Low == nil {
						offs = append(offs, "0")
					} else {
						offs = append(offs, env.of(a.Low).String())
					}
				default:
					offs = append(offs, "0")
				}
			}
			sort.Strings(offs)
			c.Check(rule, fnName(fn)+"|two-numbers@0,4", strings.Join(offs, ",") == "0,4", fn.Pos(), fmt.Sprintf("putNum offsets %v", offs))
			continue
		}
		c.Check(rule, fnName(fn)+"|little-endian-32", le >= 1 && len(other) == 0, fn.Pos(), fmt.Sprintf("%d little-endian 32-bit conversions, others: %v", le, other))
	}
	// dumper and ForEachKeys: advance by 8+klen+dlen / data after key
	dump := cdbFn(c, "Dump")
	c.Examined(dump)
	env := &termEnv{c: c, fn: dump, hashFld: hf}
	adv := false
	var seen []string
	for _, b := range dump.Blocks {
		for _, in := range b.Instrs {
			if bo, ok := in.(*ssa.BinOp); ok && bo.Op == token.ADD {
				parts := sumParts(env.of(bo))
				if len(parts) == 4 {
					seen = append(seen, strings.Join(parts, "+"))
					n8 := 0
					for _, p := range parts {
						if p == "8" {
							n8++
						}
					}
					adv = adv || n8 == 1
				}
			}
		}
	}
	c.Check(rule, fnName(dump)+"|advance=8+klen+dlen", adv, dump.Pos(), fmt.Sprintf("four-part sums seen: %v", seen))
	c.Floor(rule, 8)
}

func c16Probe(c *Ctx) {
	rule := "C16.probe"
	c.Rule(rule, "probing discipline on both sides: the writers step the slot index by one and reset it to 0 exactly when it equals the table length, looping while the slot's position is non-zero, and store the entry at the index the loop ended on; the reader reads the slot at kpos, returns EOF on position 0, then counts the probe, steps kpos by 8 and resets it to hpos exactly when it equals hpos+8*hslots, for at most hslots probes")
	hf := c16HashFields(c)
	for _, fn := range c16Writers(c) {
		c.Examined(fn)
		env := &termEnv{c: c, fn: fn, hashFld: hf}
		// the probe variable: a phi whose incoming values include a mod(div(HASH,256),n), a +1 and a 0
		var probe *ssa.Phi
		for _, b := range fn.Blocks {
			for _, in := range b.Instrs {
				phi, ok := in.(*ssa.Phi)
				if !ok {
					continue
				}
				for _, e := range phi.Edges {
					if t := env.of(e); t.op == "mod" && strings.Contains(t.String(), "HASH") {
						probe = phi
					}
				}
			}
		}
		if probe == nil {
			c.Undecided(rule, fnName(fn)+"|probe-variable", fn.Pos(), "probing variable not found")
			continue
		}
		step, reset := false, false
		var others []string
		for _, e := range probe.Edges {
			t := env.of(e)
			switch {
			case t.op == "mod":
			case t.isConst() && t.k == 0:
				reset = true
			case t.op == "add" && len(t.args) == 2 && t.args[1].isConst() && t.args[1].k == 1:
				step = true
			default:
				others = append(others, t.String())
			}
		}
		c.Check(rule, fnName(fn)+"|step-by-one-and-reset-to-0", step && reset && len(others) == 0, probe.Pos(), fmt.Sprintf("other values of the probe variable: %v", others))
		// the reset edge is taken exactly under probe+1 == len(table)
		okWrap := false
		for i, e := range probe.Edges {
			if t := env.of(e); t.isConst() && t.k == 0 {
				pred := probe.Block().Preds[i]
				okWrap = hasFact(pred, func(v ssa.Value, truth bool) bool {
					bo, isB := v.(*ssa.BinOp)
					if !isB || !truth || bo.Op != token.EQL {
						return false
					}
					a, b := env.of(bo.X).String(), env.of(bo.Y).String()
					return (strings.HasPrefix(a, "add(var:") && strings.HasPrefix(b, "len(")) || (strings.HasPrefix(b, "add(var:") && strings.HasPrefix(a, "len("))
				})
			}
		}
		c.Check(rule, fnName(fn)+"|wrap-at-table-length", okWrap, probe.Pos(), "the index returns to 0 exactly when index+1 equals the table length")
		// loop condition: table[probe].pos != 0; store at table[probe] after the loop
		condOK, storeOK := false, false
		for _, r := range *probe.Referrers() {
			ia, ok := r.(*ssa.IndexAddr)
			if !ok {
				continue
			}
			for _, rr := range *ia.Referrers() {
				switch y := rr.(type) {
				case *ssa.FieldAddr:
					if fieldName(y.X.Type(), y.Field) == "pos" {
						for _, r3 := range *y.Referrers() {
							if ld, ok := r3.(*ssa.UnOp); ok {
								for _, r4 := range *ld.Referrers() {
									if bo, ok := r4.(*ssa.BinOp); ok && bo.Op == token.NEQ {
										if k, isK := constInt(bo.Y); isK && k == 0 {
											condOK = true
										}
									}
								}
							}
						}
					}
				case *ssa.Store:
					if y.Addr == ia {
						storeOK = true
					}
				}
			}
		}
		c.Check(rule, fnName(fn)+"|probe-while-occupied", condOK, probe.Pos(), "the loop continues while the slot's position is non-zero")
		c.Check(rule, fnName(fn)+"|store-at-free-slot", storeOK, probe.Pos(), "the entry is stored at the index the probing ended on")
	}
	// reader
	find := cdbFn(c, "(*Cdb).find")
	c.Examined(find)
	env := &termEnv{c: c, fn: find, hashFld: hf}
	fKpos := c.Field(cdbShort, "Context", "kpos")
	fLoop := c.Field(cdbShort, "Context", "loop")
	var step, reset *ssa.Store
	for _, st := range storesToField(find, fKpos) {
		switch env.of(st.Val).String() {
		case "add(.kpos,8)":
			step = st
		case ".hpos":
			reset = st
		}
	}
	c.Check(rule, fnName(find)+"|step-by-8", step != nil && inCycle(step.Block()), find.Pos(), "kpos advances by one 8-byte slot per probe")
	okWrap := false
	if reset != nil {
		okWrap = hasFact(reset.Block(), func(v ssa.Value, truth bool) bool {
			bo, isB := v.(*ssa.BinOp)
			if !isB || !truth || bo.Op != token.EQL {
				return false
			}
			a, b := env.of(bo.X).String(), env.of(bo.Y).String()
			want := "add(.hpos,mul(.hslots,8))"
			return (a == ".kpos" && b == want) || (b == ".kpos" && a == want)
		})
		if step != nil && !instrReaches(step, reset) {
			okWrap = false
		}
	}
	c.Check(rule, fnName(find)+"|wrap-at-table-end", okWrap, find.Pos(), "kpos returns to hpos exactly when it equals hpos + 8*hslots, after the step")
	// loop counter: +1 per probe, bound loop < hslots
	cnt := false
	for _, st := range storesToField(find, fLoop) {
		if env.of(st.Val).String() == "add(.loop,1)" && inCycle(st.Block()) {
			cnt = true
		}
	}
	bound := false
	for _, b := range find.Blocks {
		if len(b.Instrs) == 0 {
			continue
		}
		if iff, ok := b.Instrs[len(b.Instrs)-1].(*ssa.If); ok && inCycle(b) {
			if bo, ok := iff.Cond.(*ssa.BinOp); ok && bo.Op == token.LSS && env.of(bo.X).String() == ".loop" && env.of(bo.Y).String() == ".hslots" {
				bound = true
			}
		}
	}
	c.Check(rule, fnName(find)+"|count-each-probe", cnt, find.Pos(), "the probe counter is incremented once per probed slot (successive FindNext calls continue after the last match)")
	c.Check(rule, fnName(find)+"|at-most-hslots-probes", bound, find.Pos(), "the probing loop runs while loop < hslots")
	// empty slot ends the search, before the slot is counted
	emptyEOF := false
	for _, ret := range returnsOf(find) {
		if hasFact(ret.Block(), func(v ssa.Value, truth bool) bool {
			bo, isB := v.(*ssa.BinOp)
			if !isB || !truth || bo.Op != token.EQL {
				return false
			}
			k, isK := constInt(bo.Y)
			return isK && k == 0 && strings.HasPrefix(env.of(bo.X).String(), "num1@[.kpos]")
		}) {
			emptyEOF = !isNilConst(ret.Results[0])
		}
	}
	c.Check(rule, fnName(find)+"|empty-slot-ends-search", emptyEOF, find.Pos(), "a slot whose position is 0 ends the search with an error (EOF)")
	c.Floor(rule, 12)
}

func c16Accept(c *Ctx) {
	rule := "C16.accept"
	c.Rule(rule, "A2 must-facts in Cdb.find: the nil return is dominated by stored-hash == key hash, stored key length == len(key) and match(key, pos+8); the data position stored is pos+8+len(key) and the data length is the second number of the record header at pos, pos being the slot's position; match compares len(key) bytes at the given offset")
	hf := c16HashFields(c)
	find := cdbFn(c, "(*Cdb).find")
	c.Examined(find)
	env := &termEnv{c: c, fn: find, hashFld: hf}
	match := c.TypesFunc(cdbShort, "(*Cdb).match")
	n := 0
	for _, ret := range returnsOf(find) {
		if len(ret.Results) == 0 || !isNilConst(ret.Results[0]) {
			continue
		}
		n++
		var hashEq, lenEq, bytesEq bool
		var slotPos string
		for _, f := range factsAt(ret.Block()) {
			switch x := f.V.(type) {
			case *ssa.BinOp:
				// equality known: `a == b` came out true, or `a != b` came out false (guard clause with continue)
				if !((x.Op == token.EQL && f.Truth) || (x.Op == token.NEQ && !f.Truth)) {
					continue
				}
				a, b := env.of(x.X).String(), env.of(x.Y).String()
				if a > b {
					a, b = b, a
				}
				if a == "HASH" && strings.HasPrefix(b, "num0@[.kpos]") {
					hashEq = true
				}
				if a == "len(key)" && strings.HasPrefix(b, "num0@[num1@[.kpos]]") {
					lenEq = true
				}
			case *ssa.Call:
				if f.Truth && calleeOf(x.Common()) == match && len(x.Call.Args) == 3 {
					if env.of(x.Call.Args[2]).String() == "add(num1@[.kpos],8)" && pathOf(x.Call.Args[1]) == "key" {
						bytesEq = true
					}
					slotPos = env.of(x.Call.Args[2]).String()
				}
			}
		}
		k := fmt.Sprintf("%s|success#%d", fnName(find), n)
		c.Check(rule, k+"|hash-equal", hashEq, ret.Pos(), "the slot's stored hash equals the key's hash")
		c.Check(rule, k+"|key-length-equal", lenEq, ret.Pos(), "the record's key length equals len(key) (otherwise a key that is a prefix of a stored key matches)")
		c.Check(rule, k+"|key-bytes-equal", bytesEq, ret.Pos(), "match(key, pos+8) holds; offset seen: "+slotPos)
	}
	if n == 0 {
		c.Undecided(rule, fnName(find)+"|success", find.Pos(), "no nil return found")
	}
	fDpos := c.Field(cdbShort, "Context", "dpos")
	fDlen := c.Field(cdbShort, "Context", "dlen")
	okP, okL := false, false
	var gp, gl []string
	for _, st := range storesToField(find, fDpos) {
		t := env.of(st.Val).String()
		gp = append(gp, t)
		okP = t == "add(len(key),num1@[.kpos],8)"
	}
	for _, st := range storesToField(find, fDlen) {
		t := env.of(st.Val).String()
		gl = append(gl, t)
		okL = t == "num1@[num1@[.kpos]]"
	}
	c.Check(rule, fnName(find)+"|dpos=pos+8+klen", okP, find.Pos(), fmt.Sprintf("dpos stores: %v", gp))
	c.Check(rule, fnName(find)+"|dlen=stored-dlen", okL, find.Pos(), fmt.Sprintf("dlen stores: %v", gl))
	// match: compares exactly len(key) bytes at pos
	mfn := cdbFn(c, "(*Cdb).match")
	c.Examined(mfn)
	menv := &termEnv{c: c, fn: mfn, hashFld: hf}
	okM := false
	for _, ci := range callInstrs(mfn) {
		if f := calleeOf(ci.Common()); f != nil && f.Pkg() != nil && f.Pkg().Path() == "bytes" && f.Name() == "Equal" {
			for _, a := range ci.Common().Args {
				if sl, ok := a.(*ssa.Slice); ok && sl.Low != nil && sl.High != nil {
					lo, hi := menv.of(sl.Low).String(), menv.of(sl.High).String()
					okM = lo == "pos" && hi == "add(len(key),pos)"
				}
			}
		}
	}
	c.Check(rule, fnName(mfn)+"|compares-len(key)-bytes-at-pos", okM, mfn.Pos(), "bytes.Equal(data[pos:pos+len(key)], key)")
	// the values handed out: data[dpos:dpos+dlen]
	for _, name := range []string{"(*Cdb).FindNext", "(*Cdb).Data"} {
		fn := cdbFn(c, name)
		c.Examined(fn)
		e2 := &termEnv{c: c, fn: fn, hashFld: hf}
		ok := false
		for _, b := range fn.Blocks {
			for _, in := range b.Instrs {
				if sl, isSl := in.(*ssa.Slice); isSl && sl.Low != nil && sl.High != nil {
					if e2.of(sl.Low).String() == ".dpos" && e2.of(sl.High).String() == "add(.dlen,.dpos)" {
						ok = true
					}
				}
			}
		}
		c.Check(rule, fnName(fn)+"|returns-data[dpos:dpos+dlen]", ok, fn.Pos(), "the value returned is the located data")
	}
	c.Floor(rule, 8)
}

func c16Capacity(c *Ctx) {
	rule := "C16.capacity"
	c.Rule(rule, "every hash table has twice as many slots as entries (so probing always meets an empty slot) and the first record position is the header size 2048 (never 0, the empty-slot marker); the scratch table is sized for the largest list")
	hf := c16HashFields(c)
	for _, fn := range c16Writers(c) {
		c.Examined(fn)
		env := &termEnv{c: c, fn: fn, hashFld: hf}
		// nslots = the value stored at header 8i+4
		putNum := c.TypesFunc(cdbShort, "putNum")
		okN := false
		var got string
		for _, ci := range callsTo(fn, func(f *types.Func) bool { return f == putNum }) {
			if sl, ok := ci.Common().Args[0].(*ssa.Slice); ok && sl.Low != nil && strings.HasSuffix(env.of(sl.Low).String(), ",4)") {
				t := env.of(ci.Common().Args[1])
				got = t.String()
				if t.op == "mul" && len(t.args) == 2 && t.args[1].isConst() && t.args[1].k >= 2 && strings.HasPrefix(t.args[0].String(), "len(") {
					okN = true
				}
			}
		}
		c.Check(rule, fnName(fn)+"|nslots>=2*entries", okN, fn.Pos(), "slot count written to the header = "+got)
		// scratch table: make([]slot, maxSlots*2) and the per-table slice table[:nslots]
		okS := false
		for _, b := range fn.Blocks {
			for _, in := range b.Instrs {
				if mk, ok := in.(*ssa.MakeSlice); ok && strings.HasSuffix(mk.Type().String(), ".slot") {
					t := env.of(mk.Len)
					if t.op == "mul" && t.args[len(t.args)-1].isConst() && t.args[len(t.args)-1].k >= 2 {
						okS = true
					}
				}
			}
		}
		c.Check(rule, fnName(fn)+"|scratch-table-sized-for-largest", okS, fn.Pos(), "the reusable table holds 2*max(entries per table) slots")
	}
	// first position = headerSize, headerSize = 2048 = 256*8
	hs := c.Obj(cdbShort, "headerSize")
	okH := false
	if k, ok := hs.(*types.Const); ok {
		okH = k.Val().ExactString() == "2048"
	}
	c.CheckConst(rule, "headerSize=256*8", okH, hs.Pos(), "the header holds 256 entries of 8 bytes; data starts behind it, at a non-zero offset")
	nw := cdbFn(c, "NewWriter")
	c.Examined(nw)
	okW := false
	fPos := c.Field(cdbShort, "writer", "pos")
	for _, st := range storesToField(nw, fPos) {
		if k, ok := constInt(st.Val); ok && k == 2048 {
			okW = true
		}
	}
	c.Check(rule, fnName(nw)+"|first-position=headerSize", okW, nw.Pos(), "writer.pos starts at the header size")
	mk := cdbFn(c, "Make")
	okM := false
	for _, b := range mk.Blocks {
		for _, in := range b.Instrs {
			if phi, ok := in.(*ssa.Phi); ok && phi.Comment == "pos" {
				for _, e := range phi.Edges {
					if k, ok := constInt(e); ok && k == 2048 {
						okM = true
					}
				}
			}
		}
	}
	c.Check(rule, fnName(mk)+"|first-position=headerSize", okM, mk.Pos(), "Make's position starts at the header size")
	// both seek past the header before writing data
	for _, fn := range []*ssa.Function{nw, mk} {
		ok := false
		for _, ci := range callInstrs(fn) {
			if f := calleeOf(ci.Common()); f != nil && f.Name() == "Seek" && len(ci.Common().Args) >= 1 {
				args := ci.Common().Args
				a := args[len(args)-2]
				if k, isK := constInt(a); isK && k == 2048 {
					ok = true
				}
			}
		}
		c.Check(rule, fnName(fn)+"|data-starts-behind-header", ok, fn.Pos(), "Seek(headerSize, 0) before the first record is written")
	}
	c.Floor(rule, 9)
}

func c16HeaderLast(c *Ctx) {
	rule := "C16.header-last"
	c.Rule(rule, "A2/A7 in writer.Close and Make: the header Write is dominated by the nil edge of the buffered writer's Flush and of Seek(0,0); the errors of writeSlots, Flush, Seek and the header Write are returned; writer.Put returns the errors of its key and value writes")
	for _, fn := range c16Writers(c) {
		c.Examined(fn)
		var flush, seek0, hw ssa.CallInstruction
		for _, ci := range callInstrs(fn) {
			f := calleeOf(ci.Common())
			if f == nil {
				continue
			}
			switch {
			case f.Name() == "Flush":
				flush = ci
			case f.Name() == "Seek":
				args := ci.Common().Args
				if k, ok := constInt(args[len(args)-2]); ok && k == 0 {
					seek0 = ci
				}
			case f.Name() == "Write" && ci.Common().IsInvoke():
				if strings.Contains(pathOf(ci.Common().Args[0]), "header") || true {
					// the write whose argument is the 2048-byte header slice
					if sl, ok := ci.Common().Args[0].(*ssa.Slice); ok {
						if al, ok := sl.X.(*ssa.Alloc); ok && al.Comment == "makeslice" {
							hw = ci
						}
					}
				}
			}
		}
		if flush == nil || seek0 == nil || hw == nil {
			c.Undecided(rule, fnName(fn)+"|anchors", fn.Pos(), fmt.Sprintf("flush=%v seek0=%v header-write=%v", flush != nil, seek0 != nil, hw != nil))
			continue
		}
		errOf := func(ci ssa.CallInstruction) func(ssa.Value) bool {
			return func(src ssa.Value) bool {
				call, _ := callOfValue(src)
				return call != nil && ssa.Instruction(call) == ci.(ssa.Instruction)
			}
		}
		c.Check(rule, fnName(fn)+"|header-after-successful-flush", dominatedByNilEdge(hw, errOf(flush)), hw.Pos(), "all records and tables are flushed before the header that points at them is written")
		c.Check(rule, fnName(fn)+"|header-after-seek-0", dominatedByNilEdge(hw, errOf(seek0)) && instrDominates(flush, seek0), hw.Pos(), "the header goes to offset 0, after the flush")
		// the header write's error is returned
		ret := false
		for _, r := range returnsOf(fn) {
			for _, rv := range r.Results {
				for s := range sourcesOf(rv) {
					if call, _ := callOfValue(s); call != nil && ssa.Instruction(call) == hw.(ssa.Instruction) {
						ret = true
					}
				}
			}
		}
		c.Check(rule, fnName(fn)+"|header-write-error-returned", ret, hw.Pos(), "a failed header write is reported")
	}
	put := cdbFn(c, "(*writer).Put")
	c.Examined(put)
	nw := 0
	okAll := true
	for _, ci := range callInstrs(put) {
		if f := calleeOf(ci.Common()); f != nil && f.Name() == "Write" {
			nw++
			call, ok := ci.(*ssa.Call)
			if !ok {
				okAll = false
				continue
			}
			returned := false
			for _, r := range returnsOf(put) {
				for _, rv := range r.Results {
					for s := range sourcesOf(rv) {
						if c2, _ := callOfValue(s); c2 == call {
							returned = true
						}
					}
				}
			}
			if !returned {
				okAll = false
			}
		}
	}
	c.Check(rule, fnName(put)+"|write-errors-returned", okAll && nw >= 2, put.Pos(), fmt.Sprintf("%d writes in Put, each error returned", nw))
	c.Floor(rule, 7)
}

func c16Order(c *Ctx) {
	rule := "C16.order"
	c.Rule(rule, "insertion order: a record's slot is appended to the list of its own table (append(m[t], slot) stored back to m[t]); the table builder walks that list forwards; the probing direction is the same (+1) on both sides (C16.probe)")
	for _, fn := range c16Putters(c) {
		c.Examined(fn)
		for _, mu := range slotTableUpdates(fn) {
			app := isBuiltinCall(mu.Value, "append")
			ok2 := false
			if app != nil {
				if idx, tab, isRead := slotTableRead(app.Call.Args[0]); isRead && sameValue(idx, mu.Key) && sameValue(tab, mu.Table) {
					ok2 = true
				}
			}
			c.Check(rule, fnName(fn)+"|append-to-own-table", ok2, mu.Pos, "m[t] = append(m[t], slot): later records come later in the list")
		}
	}
	for _, fn := range c16Writers(c) {
		c.Examined(fn)
		// the range over the per-table list: rangeindex phi starting at -1 stepping +1 (go/ssa's form of `for _, s := range slots`)
		fwd := false
		for _, b := range fn.Blocks {
			for _, in := range b.Instrs {
				if phi, ok := in.(*ssa.Phi); ok && phi.Comment == "rangeindex" {
					for _, r := range *phi.Referrers() {
						if bo, ok := r.(*ssa.BinOp); ok && bo.Op == token.ADD {
							if k, isK := constInt(bo.Y); isK && k == 1 {
								for _, r2 := range *bo.Referrers() {
									if ia, ok := r2.(*ssa.IndexAddr); ok && strings.HasSuffix(ia.X.Type().String(), ".slot") {
										fwd = true
									}
								}
							}
						}
					}
				}
			}
		}
		c.Check(rule, fnName(fn)+"|entries-placed-in-list-order", fwd, fn.Pos(), "the per-table list is walked from its first element to its last")
	}
	c.Floor(rule, 4)
}

// c16NoReorder / c16PeekLifetime: two more order/aliasing obligations found by the seeded-change round.
func c16NoReorder(c *Ctx) {
	rule := "C16.order"
	for _, fn := range c.OurFuncs(cdbShort) {
		for _, ci := range callInstrs(fn) {
			f := calleeOf(ci.Common())
			if f == nil || f.Pkg() == nil || f.Pkg().Path() != "sort" && f.Pkg().Path() != "slices" {
				continue
			}
			touches := false
			for _, a := range ci.Common().Args {
				for v := range backSlice(a, nil) {
					if v != nil && strings.Contains(v.Type().String(), cdbPath+".slot") {
						touches = true
					}
				}
			}
			if !touches {
				continue
			}
			c.Examined(fn)
			stable := strings.Contains(f.Name(), "Stable")
			c.Check(rule, fmt.Sprintf("%s|%s.%s-of-slots", fnName(fn), f.Pkg().Name(), f.Name()), stable, ci.Pos(), "the slots of one table are placed in insertion order; an unstable sort permutes the values of a key (all of them share one home slot)")
		}
	}
}

func c16PeekLifetime(c *Ctx) {
	rule := "C16.peek-lifetime"
	c.Rule(rule, "A3 lifetime of borrowed buffers in package go-cdb: a slice returned by (*bufio.Reader).Peek / ReadSlice is valid only until the next read on that reader; it (or a re-slice of it) is not used after another reading call on the same reader is reachable")
	n := 0
	for _, fn := range c.OurFuncs(cdbShort) {
		for _, ci := range callInstrs(fn) {
			f := calleeOf(ci.Common())
			if f == nil || f.Pkg() == nil || f.Pkg().Path() != "bufio" || (funcShort(f) != "Reader.Peek" && funcShort(f) != "Reader.ReadSlice") {
				continue
			}
			call, ok := ci.(*ssa.Call)
			if !ok {
				continue
			}
			n++
			c.Examined(fn)
			rd := call.Call.Args[0]
			// aliases of the borrowed slice
			alias := map[ssa.Value]bool{}
			for _, r := range *call.Referrers() {
				if ex, ok := r.(*ssa.Extract); ok && ex.Index == 0 {
					alias[ex] = true
				}
			}
			for changed := true; changed; {
				changed = false
				for a := range alias {
					if a.Referrers() == nil {
						continue
					}
					for _, r := range *a.Referrers() {
						switch x := r.(type) {
						case *ssa.Slice:
							if !alias[x] {
								alias[x] = true
								changed = true
							}
						case *ssa.Phi:
							if !alias[x] {
								alias[x] = true
								changed = true
							}
						}
					}
				}
			}
			// later reads on the same reader
			var later []ssa.Instruction
			for _, cj := range callInstrs(fn) {
				g := calleeOf(cj.Common())
				if g == nil || cj == ci || len(cj.Common().Args) == 0 {
					continue
				}
				if !(sameSources(cj.Common().Args[0], rd) || (pathOf(rd) != "" && pathOf(rd) == pathOf(cj.Common().Args[0]))) {
					continue
				}
				if g.Pkg() != nil && g.Pkg().Path() == "bufio" && instrReaches(ci, cj) {
					later = append(later, cj)
				}
			}
			bad := ""
			for a := range alias {
				for _, r := range *a.Referrers() {
					if _, isDbg := r.(*ssa.DebugRef); isDbg {
						continue
					}
					for _, l := range later {
						if instrReaches(l, r) && r != l {
							bad = fmt.Sprintf("used at %s after %s", c.relPos(r.Pos()), c.relPos(l.Pos()))
						}
					}
				}
			}
			for a := range alias {
				for _, r := range *a.Referrers() {
					if _, isRet := r.(*ssa.Return); isRet && bad == "" {
						bad = "returned to the caller at " + c.relPos(r.Pos()) + " (it outlives the next read)"
					}
				}
			}
			c.Check(rule, fmt.Sprintf("%s|%s#%d", fnName(fn), f.Name(), n), bad == "", ci.Pos(), "borrowed buffer "+bad)
		}
	}
	c.CheckConst(rule, "matcher|borrowing-calls", true, 0, fmt.Sprintf("%d Peek/ReadSlice calls examined in go-cdb (none means nothing is borrowed)", n))
}

// c16HeaderComplete implements C16.header-complete: all 256 header entries carry the position where their table would
// be, including the entries of EMPTY tables: Dump reads the first header word as "end of data", and dump→make must
// reproduce the file byte for byte. An iteration of the table loop that continues without storing the position
// (seed c16f: empty tables left at (0, 0)) makes Dump of a file whose table 0 is empty emit nothing.
func c16HeaderComplete(c *Ctx) {
	rule := "C16.header-complete"
	c.Rule(rule, "A2 in writer.Close: inside the loop over the 256 tables every path from the loop body's entry back to the loop header passes a putNum into the header at offset 8·i (the position word); only error returns may skip it")
	fn := c.Func("go-cdb", "(*writer).Close")
	c.Examined(fn)
	isPosPut := func(ci ssa.CallInstruction) bool {
		sf := ci.Common().StaticCallee()
		if sf == nil || sf.Name() != "putNum" || len(ci.Common().Args) < 2 {
			return false
		}
		sl, ok := ci.Common().Args[0].(*ssa.Slice)
		if !ok || sl.Low == nil {
			return false
		}
		// low = i*8 or i<<3, without "+4"
		switch b := unwrap(sl.Low).(type) {
		case *ssa.BinOp:
			if b.Op == token.MUL {
				if k, ok := constInt(b.Y); ok && k == 8 {
					return true
				}
				if k, ok := constInt(b.X); ok && k == 8 {
					return true
				}
			}
			if b.Op == token.SHL {
				if k, ok := constInt(b.Y); ok && k == 3 {
					return true
				}
			}
		}
		return false
	}
	var puts []ssa.CallInstruction
	for _, ci := range callInstrs(fn) {
		if isPosPut(ci) {
			puts = append(puts, ci)
		}
	}
	if len(puts) == 0 {
		c.Undecided(rule, fnName(fn)+"|position-puts", fn.Pos(), "no putNum(header[8*i:], …) found")
		return
	}
	loops := naturalLoops(fn)
	checked := 0
	for h, body := range loops {
		in := false
		for _, p := range puts {
			if body[p.Block()] {
				in = true
			}
		}
		if !in {
			continue
		}
		// the outermost loop containing the puts: skip inner loops (they do not contain all puts' blocks' loop header)
		inner := false
		for h2, b2 := range loops {
			if h2 != h && b2[h] {
				inner = true
			}
		}
		if inner {
			continue
		}
		checked++
		stop := map[*ssa.BasicBlock]bool{}
		for _, p := range puts {
			stop[p.Block()] = true
		}
		skips := false
		for _, s := range h.Succs {
			if !body[s] || s == h {
				continue
			}
			// from the body entry, can the header be reached again without passing a position put?
			seen := map[*ssa.BasicBlock]bool{}
			var walk func(b *ssa.BasicBlock)
			walk = func(b *ssa.BasicBlock) {
				if seen[b] || stop[b] || !body[b] {
					return
				}
				seen[b] = true
				for _, n := range b.Succs {
					if n == h {
						skips = true
						return
					}
					walk(n)
				}
			}
			walk(s)
		}
		c.Check(rule, fnName(fn)+"|every-table-gets-its-position", !skips, h.Instrs[0].Pos(), "an iteration of the table loop that continues without writing the header position word")
	}
	if checked == 0 {
		c.Undecided(rule, fnName(fn)+"|table-loop", fn.Pos(), "the position puts are not inside a loop")
	}
}

// c16OneHash implements C16.one-hash: the writer, Make and the reader have to compute THE SAME function of a key.
// In go-spooky the streaming digest (spooky.New … Write … Sum32) and the one-shot spooky.Hash32 are two entry
// points, and in the pinned version of the library they disagree for inputs of 96 to 191 bytes (finding F22: every
// key of such a length was written by Writer.Put / Make and could never be found by Cdb.find). The rule does not
// evaluate any hash: it requires that every call into the hash library made by package go-cdb names one and the same
// function, so that a disagreement between two entry points of the library cannot come between writer and reader.
func c16OneHash(c *Ctx) {
	rule := "C16.one-hash"
	c.Rule(rule, "A8 who-calls: the functions of github.com/dgryski/go-spooky called from package go-cdb (writer, Make, reader, dump) are one single function")
	used := map[string][]string{}
	for _, fn := range c.OurFuncs("go-cdb") {
		for _, ci := range callInstrs(fn) {
			f := calleeOf(ci.Common())
			if f == nil || f.Pkg() == nil || !strings.HasSuffix(f.Pkg().Path(), "go-spooky") {
				continue
			}
			c.Examined(fn)
			used[funcShort(f)] = append(used[funcShort(f)], fnName(fn))
		}
	}
	var names []string
	for n := range used {
		names = append(names, fmt.Sprintf("%s (from %s)", n, strings.Join(used[n], ", ")))
	}
	sort.Strings(names)
	c.Check(rule, "go-cdb|one-entry-point-into-the-hash-library", len(used) == 1, token.NoPos, fmt.Sprintf("hash library functions used: %v", names))
}

// c16ProbeOn implements C16.probe-on: a slot whose stored hash equals the key's hash may still belong to another key
// (32-bit hashes collide, and a key may simply be longer). The search then has to go on with the next slot. The only
// ways out of the reader's probe loop are therefore: the loop bound, an empty slot (position 0), and the success
// return. (Seed c16e broke out of the loop at the first slot whose hash matched and whose key differed: every key
// stored behind such a slot was reported absent.)
func c16ProbeOn(c *Ctx) {
	rule := "C16.probe-on"
	c.Rule(rule, "A2 in Cdb.find: every edge that leaves the probe loop is the loop bound (leaves from the loop head), the true outcome of a comparison of the slot position with 0, or is dominated by the true outcome of match(key, ...); no exit is taken on a negative outcome of the hash, key-length or key comparison")
	find := cdbFn(c, "(*Cdb).find")
	c.Examined(find)
	match := c.TypesFunc(cdbShort, "(*Cdb).match")
	readNums := c.TypesFunc(cdbShort, "(*Cdb).readNums")
	n := 0
	for h, body := range naturalLoops(find) {
		// the probe loop reads slots; the key comparison is reachable from it (inside the loop as long as a
		// mismatch goes on probing)
		readsSlot, hasMatch := false, false
		for b := range body {
			for _, in := range b.Instrs {
				if call, ok := in.(*ssa.Call); ok && calleeOf(call.Common()) == readNums {
					readsSlot = true
				}
			}
		}
		for b := range reachable(h, nil) {
			for _, in := range b.Instrs {
				if call, ok := in.(*ssa.Call); ok && calleeOf(call.Common()) == match {
					hasMatch = true
				}
			}
		}
		if !readsSlot || !hasMatch {
			continue
		}
		n++
		var bad []string
		exits := 0
		for b := range body {
			for i, sb := range b.Succs {
				if body[sb] {
					continue
				}
				exits++
				if b == h {
					continue // the loop bound
				}
				ok := false
				var fs []fact
				fs = append(fs, factsAt(b)...)
				if iff, isIf := b.Instrs[len(b.Instrs)-1].(*ssa.If); isIf {
					condImplies(iff.Cond, i == 0, 0, &fs)
					if x, op, isZ := cmpZero(iff.Cond); isZ && x != nil && ((op == token.EQL && i == 0) || (op == token.NEQ && i == 1)) {
						ok = true // the empty slot
					}
				}
				for _, f := range fs {
					if call, isCall := f.V.(*ssa.Call); isCall && f.Truth && calleeOf(call.Common()) == match {
						ok = true // found
					}
				}
				if !ok {
					at := token.NoPos
					for _, in := range b.Instrs {
						if in.Pos().IsValid() {
							at = in.Pos()
						}
					}
					if iff, isIf := b.Instrs[len(b.Instrs)-1].(*ssa.If); isIf && iff.Cond.Pos().IsValid() {
						at = iff.Cond.Pos()
					}
					bad = append(bad, c.relPos(at))
				}
			}
		}
		sort.Strings(bad)
		c.Check(rule, fnName(find)+"|exits-of-the-probe-loop", len(bad) == 0 && exits >= 3, h.Instrs[len(h.Instrs)-1].Pos(), fmt.Sprintf("%d exits; exits taken although the search has to go on with the next slot: %v", exits, bad))
	}
	if n == 0 {
		c.Undecided(rule, fnName(find)+"|probe-loop", find.Pos(), "the loop that calls match was not found")
	}
}

// c16WriteCopies implements C16.write-copies: io.Writer's contract — Write must not retain p. The cdb writers hash a key
// by writing it to the package's hash.Hash32; Make reads keys through a 4096-byte buffer and hands the hasher slices of
// that buffer, a key that straddles a refill arrives in two Writes. A hasher that keeps the slice it was given
// (round-5 seed c16j) hashes bytes that have been overwritten and files the record under the wrong table.
func c16WriteCopies(c *Ctx) {
	rule := "C16.write-copies"
	c.Rule(rule, "A8 in package go-cdb: no Write([]byte) method stores into a field of its receiver a slice that aliases its parameter (the parameter itself, a re-slice of it, or an append whose FIRST operand aliases it); copies (append(dst, p...), copy) are fine")
	n := 0
	for _, fn := range c.OurFuncs(cdbShort) {
		if fn.Name() != "Write" || fn.Signature.Recv() == nil || len(fn.Params) != 2 || !isByteSlice(fn.Params[1].Type()) {
			continue
		}
		n++
		c.Examined(fn)
		p := fn.Params[1]
		var aliases func(v ssa.Value, depth int) bool
		aliases = func(v ssa.Value, depth int) bool {
			if depth > 12 {
				return false
			}
			switch x := v.(type) {
			case *ssa.Parameter:
				return x == p
			case *ssa.Slice:
				return aliases(x.X, depth+1)
			case *ssa.ChangeType:
				return aliases(x.X, depth+1)
			case *ssa.Phi:
				for _, e := range x.Edges {
					if aliases(e, depth+1) {
						return true
					}
				}
			case *ssa.Call:
				if ap := isBuiltinCall(x, "append"); ap != nil {
					return aliases(ap.Call.Args[0], depth+1)
				}
			}
			return false
		}
		var bad []string
		for _, b := range fn.Blocks {
			for _, in := range b.Instrs {
				st, ok := in.(*ssa.Store)
				if !ok {
					continue
				}
				if fa, isFA := st.Addr.(*ssa.FieldAddr); isFA && aliases(st.Val, 0) {
					bad = append(bad, fieldName(fa.X.Type(), fa.Field))
				}
			}
		}
		sort.Strings(bad)
		c.Check(rule, fnName(fn)+"|does-not-retain-p", len(bad) == 0, fn.Pos(), fmt.Sprintf("fields that keep the caller's slice: %v", bad))
	}
	c.Floor(rule, 1)
}

// The per-table slot lists live in a map[uint32][]slot on the pinned tree; a fixed array [256][]slot is the same
// thing. slotTableUpdate / slotTableRead abstract "tables[t] = v" and "tables[t]" over both.
type slotTableUpdate struct {
	Key, Value, Table ssa.Value
	Pos               token.Pos
}

func isSlotTableType(t types.Type) bool {
	switch u := t.Underlying().(type) {
	case *types.Map:
		return strings.HasSuffix(u.Elem().String(), "[]"+cdbPath+".slot")
	case *types.Array:
		return strings.HasSuffix(u.Elem().String(), "[]"+cdbPath+".slot")
	case *types.Pointer:
		if a, ok := u.Elem().Underlying().(*types.Array); ok {
			return strings.HasSuffix(a.Elem().String(), "[]"+cdbPath+".slot")
		}
	}
	return false
}

func slotTableUpdates(fn *ssa.Function) []slotTableUpdate {
	var out []slotTableUpdate
	for _, b := range fn.Blocks {
		for _, in := range b.Instrs {
			switch x := in.(type) {
			case *ssa.MapUpdate:
				if isSlotTableType(x.Map.Type()) {
					out = append(out, slotTableUpdate{x.Key, x.Value, x.Map, x.Pos()})
				}
			case *ssa.Store:
				if ia, ok := x.Addr.(*ssa.IndexAddr); ok && isSlotTableType(ia.X.Type()) {
					out = append(out, slotTableUpdate{ia.Index, x.Val, ia.X, x.Pos()})
				}
			}
		}
	}
	return out
}

// slotTableRead: v reads tables[i]; returns the index and the table.
func slotTableRead(v ssa.Value) (idx, table ssa.Value, ok bool) {
	switch x := v.(type) {
	case *ssa.Lookup:
		if isSlotTableType(x.X.Type()) {
			return x.Index, x.X, true
		}
	case *ssa.UnOp:
		if ia, isIA := x.X.(*ssa.IndexAddr); isIA && x.Op == token.MUL && isSlotTableType(ia.X.Type()) {
			return ia.Index, ia.X, true
		}
	case *ssa.Index:
		if isSlotTableType(x.X.Type()) {
			return x.Index, x.X, true
		}
	}
	return nil, nil, false
}
