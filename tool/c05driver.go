package main

import (
	"fmt"
	"go/token"
	"go/types"
	"strings"

	"golang.org/x/tools/go/ssa"
)

// c05DriverPath implements C05.driver-path.
//
// A backend driver decides "same database => catch up the handle I have" versus "other database => open it" by
// comparing the requested path with the path it remembers. If a driver handed out by Reload(path) does not
// remember exactly `path`, a later reload takes the wrong branch (switching back to an earlier directory becomes a
// silent catch-up of the wrong handle). The rule is decided per concrete db.DBI implementation (mocks excluded):
//
//	(self)  Reload returns its own receiver only where `path == recv.<pathField>` is known to hold;
//	        a driver with no path field never returns its receiver.
//	(fresh) every other non-nil result is built from `path`: it is the result of a module constructor that
//	        receives the parameter and (recursively) satisfies (fresh) for that parameter, or a struct allocated
//	        here whose path field is stored from the parameter after any whole-struct copy.
func c05DriverPath(c *Ctx) {
	rule := "C05.driver-path"
	c.Rule(rule, "per db.DBI implementation, SSA origin analysis of Reload(path) results: the receiver is returned only under `path == recv.path`; any other returned driver is constructed from the path parameter (constructor receiving it, or struct whose path field is stored from it after any whole-struct copy)")
	iface := dbiIface(c)
	n := 0
	for _, pkg := range []string{"db"} {
		scope := c.Pkg(pkg).Types.Scope()
		for _, name := range scope.Names() {
			tn, ok := scope.Lookup(name).(*types.TypeName)
			if !ok || c.isMockFile(tn.Pos()) {
				continue
			}
			named, ok := tn.Type().(*types.Named)
			if !ok {
				continue
			}
			if _, isI := named.Underlying().(*types.Interface); isI {
				continue
			}
			pt := types.NewPointer(named)
			if !types.Implements(pt, iface) && !types.Implements(named, iface) {
				continue
			}
			sel := c.Prog.SSA.MethodSets.MethodSet(pt).Lookup(tn.Pkg(), "Reload")
			if sel == nil {
				continue
			}
			fn := c.Prog.SSA.MethodValue(sel)
			if fn == nil || len(fn.Blocks) == 0 || len(fn.Params) < 2 {
				c.Undecided(rule, name+".Reload", tn.Pos(), "Reload method has no body or no path parameter")
				continue
			}
			c.Examined(fn)
			n++
			c05DriverReload(c, rule, name, named, fn)
		}
	}
	c.Floor(rule, 3)
	c.Note("%s: %d driver Reload methods analysed", rule, n)
}

// pathFieldOf finds the field of the receiver that fn compares with its path parameter.
func pathFieldOf(fn *ssa.Function, recv, path ssa.Value) *types.Var {
	var out *types.Var
	for _, b := range fn.Blocks {
		for _, in := range b.Instrs {
			bo, ok := in.(*ssa.BinOp)
			if !ok || (bo.Op != token.EQL && bo.Op != token.NEQ) {
				continue
			}
			for _, pr := range [][2]ssa.Value{{bo.X, bo.Y}, {bo.Y, bo.X}} {
				if pr[0] != path {
					continue
				}
				if fa := fieldAddrOfLoad(pr[1]); fa != nil && fa.X == recv {
					out = fieldOf(fa)
				}
			}
		}
	}
	return out
}

func fieldAddrOfLoad(v ssa.Value) *ssa.FieldAddr {
	if u, ok := v.(*ssa.UnOp); ok && u.Op == token.MUL {
		if fa, ok := u.X.(*ssa.FieldAddr); ok {
			return fa
		}
	}
	return nil
}

func c05DriverReload(c *Ctx, rule, name string, named *types.Named, fn *ssa.Function) {
	recv, path := ssa.Value(fn.Params[0]), ssa.Value(fn.Params[1])
	pf := pathFieldOf(fn, recv, path)
	// the path field of the type, if Reload does not compare: any string field stored from a constructor's path param is found on demand
	for _, ret := range returnsOf(fn) {
		if len(ret.Results) == 0 {
			continue
		}
		for src := range sourcesOf(ret.Results[0]) {
			v := unwrap(src)
			if isNilConst(v) {
				continue
			}
			if cst, ok := v.(*ssa.Const); ok && cst.IsNil() {
				continue
			}
			if v == recv {
				ok := false
				if pf != nil {
					ok = hasFact(ret.Block(), func(x ssa.Value, truth bool) bool {
						bo, isB := x.(*ssa.BinOp)
						if !isB {
							return false
						}
						cmp := (bo.X == path && isFieldLoadOn(bo.Y, recv, pf)) || (bo.Y == path && isFieldLoadOn(bo.X, recv, pf))
						return cmp && ((bo.Op == token.EQL && truth) || (bo.Op == token.NEQ && !truth))
					})
				}
				c.Check(rule, name+".Reload|returns-self", ok, ret.Pos(), fmt.Sprintf("receiver returned; known `path == recv.path` at the return: %v (path field: %s)", ok, varName(pf)))
				continue
			}
			ok, why := builtFromPath(c, v, path, pf, named, 0)
			c.Check(rule, name+".Reload|returns-new", ok, ret.Pos(), why)
		}
	}
}

func varName(v *types.Var) string {
	if v == nil {
		return "<none>"
	}
	return v.Name()
}

func isFieldLoadOn(v, recv ssa.Value, f *types.Var) bool {
	fa := fieldAddrOfLoad(v)
	return fa != nil && fa.X == recv && fieldOf(fa) == f
}

// builtFromPath decides whether v (a driver value) is constructed from the path value `path`.
func builtFromPath(c *Ctx, v, path ssa.Value, pf *types.Var, named *types.Named, depth int) (bool, string) {
	if depth > 3 {
		return false, "constructor chain deeper than 3"
	}
	v = unwrap(v)
	if call, _ := callOfValue(v); call != nil {
		callee := call.Common().StaticCallee()
		if callee == nil || !c.isOurs(callee.Pkg.Pkg) || len(callee.Blocks) == 0 {
			return false, "driver obtained from a call that cannot be resolved to a module function"
		}
		idx := -1
		for i, a := range call.Common().Args {
			if a == path {
				idx = i
			}
		}
		if idx < 0 {
			return false, fmt.Sprintf("driver obtained from %s, which does not receive the requested path", fnName(callee))
		}
		c.Examined(callee)
		p := ssa.Value(callee.Params[idx])
		for _, ret := range returnsOf(callee) {
			if len(ret.Results) == 0 {
				continue
			}
			for src := range sourcesOf(ret.Results[0]) {
				s := unwrap(src)
				if cst, ok := s.(*ssa.Const); ok && cst.IsNil() {
					continue
				}
				if ok, why := builtFromPath(c, s, p, pf, named, depth+1); !ok {
					return false, fnName(callee) + ": " + why
				}
			}
		}
		return true, fmt.Sprintf("constructed by %s(path)", fnName(callee))
	}
	if al, ok := v.(*ssa.Alloc); ok {
		st := structOf(al.Type())
		if st == nil {
			return false, "driver value is not a struct allocation"
		}
		// the path field: the one Reload compares, else any field stored from path
		var pathStore *ssa.Store
		var copies []*ssa.Store
		for _, r := range *al.Referrers() {
			switch x := r.(type) {
			case *ssa.FieldAddr:
				for _, rr := range *x.Referrers() {
					if s, ok := rr.(*ssa.Store); ok && s.Addr == x && s.Val == path {
						if pf == nil || fieldVar(al.Type(), x.Field) == pf {
							pathStore = s
						}
					}
				}
			case *ssa.Store:
				if x.Addr == al {
					copies = append(copies, x)
				}
			}
		}
		if pf == nil {
			// the driver type does not remember a path: being opened from it is all that is required
			usesPath := false
			for _, r := range *al.Referrers() {
				if fa, ok := r.(*ssa.FieldAddr); ok {
					for _, rr := range *fa.Referrers() {
						if s, ok := rr.(*ssa.Store); ok && s.Addr == fa {
							if bs := backSlice(s.Val, nil); bs[path] {
								usesPath = true
							}
						}
					}
				}
			}
			return usesPath, fmt.Sprintf("struct allocated here; some field derives from the path: %v", usesPath)
		}
		if pathStore == nil {
			return false, fmt.Sprintf("struct allocated here but its %s field is never stored from the requested path", pf.Name())
		}
		for _, cp := range copies {
			if instrReaches(pathStore, cp) {
				return false, fmt.Sprintf("whole-struct copy may overwrite the %s field after it was set", pf.Name())
			}
		}
		return true, fmt.Sprintf("struct allocated here, %s field stored from the requested path", pf.Name())
	}
	return false, fmt.Sprintf("driver value of unrecognised origin (%T)", v)
}

// c05IterPool implements C05.iterpool-order: pooled RocksDB iterators pin the database version they were created on.
// A catch-up is visible to closest-key lookups only if no iterator created before it survives it: the pool is
// drained (disable) before the catch-up and refilled (enable) only after it.
func c05IterPool(c *Ctx) {
	rule := "C05.iterpool-order"
	c.Rule(rule, "A2 ordering in (*rdb.RDB).CatchWithPrimary: the iterator pool's disable() dominates the backend catch-up call and every enable() is dominated by that call (iterators created before the catch-up would pin the previous version)")
	fn := c.Func("dnsdata/rdb", "(*RDB).CatchWithPrimary")
	c.Examined(fn)
	var catchup, disable ssa.CallInstruction
	var enables []ssa.CallInstruction
	for _, ci := range callInstrs(fn) {
		cc := ci.Common()
		if cc.IsInvoke() && cc.Method.Name() == "CatchWithPrimary" {
			catchup = ci
		}
		// the backend's method bound to a function value (handed to a helper that was inlined) and called
		if mc, isMC := cc.Value.(*ssa.MakeClosure); isMC {
			if f := calleeOf(cc); f != nil && f.Name() == "CatchWithPrimary" && strings.HasSuffix(mc.Fn.Name(), "$bound") && f != fn.Object() {
				catchup = ci
			}
		}
		if f := cc.StaticCallee(); f != nil && f.Signature.Recv() != nil && strings.HasSuffix(f.Signature.Recv().Type().String(), "IteratorPool") {
			switch f.Name() {
			case "disable":
				disable = ci
			case "enable":
				enables = append(enables, ci)
			}
		}
	}
	if catchup == nil || disable == nil || len(enables) == 0 {
		c.Undecided(rule, fnName(fn)+"|anchors", fn.Pos(), fmt.Sprintf("catch-up=%v disable=%v enable=%d", catchup != nil, disable != nil, len(enables)))
		return
	}
	c.Check(rule, fnName(fn)+"|disable-before-catch-up", instrDominates(disable, catchup), disable.Pos(), "the pool is drained before the backend catches up")
	for i, e := range enables {
		c.Check(rule, fmt.Sprintf("%s|enable#%d-after-catch-up", fnName(fn), i), instrDominates(catchup, e), e.Pos(), "iterators are created only on the caught-up version")
	}
}

// c05FreshContext implements C05.fresh-context: a lookup context that can remember database content (a field of map,
// slice or pointer type) is either created fresh for every reader or fully cleared when it is recycled. A warm
// context that outlives a catch-up answers from the previous generation.
func c05FreshContext(c *Ctx) {
	rule := "C05.fresh-context"
	c.Rule(rule, "per db.DBI implementation: NewContext returns a freshly constructed context, or a pooled one whose type either has no reference-typed field or whose Reset method stores to every reference-typed field")
	iface := dbiIface(c)
	scope := c.Pkg("db").Types.Scope()
	n := 0
	for _, name := range scope.Names() {
		tn, ok := scope.Lookup(name).(*types.TypeName)
		if !ok || c.isMockFile(tn.Pos()) {
			continue
		}
		named, ok := tn.Type().(*types.Named)
		if !ok {
			continue
		}
		if _, isI := named.Underlying().(*types.Interface); isI {
			continue
		}
		pt := types.NewPointer(named)
		if !types.Implements(pt, iface) {
			continue
		}
		sel := c.Prog.SSA.MethodSets.MethodSet(pt).Lookup(tn.Pkg(), "NewContext")
		if sel == nil {
			continue
		}
		fn := c.Prog.SSA.MethodValue(sel)
		if fn == nil || len(fn.Blocks) == 0 {
			continue
		}
		c.Examined(fn)
		n++
		pooled := false
		var ctxT types.Type
		for _, ret := range returnsOf(fn) {
			for v := range backSlice(ret.Results[0], nil) {
				switch x := v.(type) {
				case *ssa.Call:
					if f := calleeOf(x.Common()); f != nil && f.Pkg() != nil && f.Pkg().Path() == "sync" && funcShort(f) == "Pool.Get" {
						pooled = true
					}
				case *ssa.TypeAssert:
					ctxT = x.AssertedType
				case *ssa.MakeInterface:
					if ctxT == nil {
						ctxT = x.X.Type()
					}
				}
			}
		}
		if !pooled {
			c.Check(rule, name+".NewContext|fresh", true, fn.Pos(), "constructed for every reader")
			continue
		}
		// pooled: find what is put into the pool (the New function's concrete result) and its Reset
		ok2, why := pooledContextClears(c, fn, named)
		c.Check(rule, name+".NewContext|pooled-and-cleared", ok2, fn.Pos(), why)
	}
	c.Floor(rule, 2)
}

// pooledContextClears: the concrete context types stored in the driver's pool have no reference-typed field that their
// Reset leaves untouched.
func pooledContextClears(c *Ctx, fn *ssa.Function, driver *types.Named) (bool, string) {
	ctxI, _ := c.Named("db", "Context").Underlying().(*types.Interface)
	var bad []string
	seen := 0
	for _, pk := range c.Prog.All {
		if pk.Types == nil || !c.isOurs(pk.Types) {
			continue
		}
		sc := pk.Types.Scope()
		for _, nm := range sc.Names() {
			tn, ok := sc.Lookup(nm).(*types.TypeName)
			if !ok {
				continue
			}
			nt, ok := tn.Type().(*types.Named)
			if !ok {
				continue
			}
			st, ok := nt.Underlying().(*types.Struct)
			if !ok || ctxI == nil || !types.Implements(types.NewPointer(nt), ctxI) || c.isMockFile(tn.Pos()) {
				continue
			}
			seen++
			sel := c.Prog.SSA.MethodSets.MethodSet(types.NewPointer(nt)).Lookup(tn.Pkg(), "Reset")
			var reset *ssa.Function
			if sel != nil {
				reset = c.Prog.SSA.MethodValue(sel)
			}
			for i := 0; i < st.NumFields(); i++ {
				f := st.Field(i)
				switch f.Type().Underlying().(type) {
				case *types.Map, *types.Slice, *types.Pointer, *types.Interface, *types.Chan:
				default:
					continue
				}
				cleared := false
				if reset != nil {
					for _, s := range storesToField(reset, f) {
						_ = s
						cleared = true
					}
					for _, ci := range callInstrs(reset) {
						if bi, ok := ci.Common().Value.(*ssa.Builtin); ok && bi.Name() == "clear" && len(ci.Common().Args) > 0 && isFieldLoad(ci.Common().Args[0], f) {
							cleared = true
						}
					}
				}
				if !cleared {
					bad = append(bad, nt.Obj().Pkg().Name()+"."+nt.Obj().Name()+"."+f.Name())
				}
			}
		}
	}
	// only contexts the driver can actually pool matter: restrict to types whose package the driver's file imports is too fine; report all
	if fnUsesCdbOnly(fn) {
		var keep []string
		for _, b := range bad {
			if strings.HasPrefix(b, "cdb.") {
				keep = append(keep, b)
			}
		}
		bad = keep
	}
	return len(bad) == 0, fmt.Sprintf("pooled contexts: %d context types examined; reference-typed fields that Reset leaves untouched: %v", seen, bad)
}

// fnUsesCdbOnly: the pool this NewContext draws from is created from the cdb package's constructor only.
func fnUsesCdbOnly(fn *ssa.Function) bool {
	recv := fn.Signature.Recv()
	return recv != nil && strings.Contains(recv.Type().String(), "cdbdriver")
}

// c06SharedHandle implements C06.shared-handle: two driver values must never own one storage handle. (*db.DB).Reload
// tells "same backend" from "new backend" by driver identity and destroys the old generation when they differ, so a
// new driver wrapping the receiver's handle gets that handle closed under it, and closed again later.
func c06SharedHandle(c *Ctx) {
	rule := "C06.shared-handle"
	c.Rule(rule, "per db.DBI implementation: a driver struct allocated in Reload (or in a constructor it calls) never stores, into a field of pointer/interface type, a value loaded from the same field of the receiver")
	iface := dbiIface(c)
	scope := c.Pkg("db").Types.Scope()
	n := 0
	for _, name := range scope.Names() {
		tn, ok := scope.Lookup(name).(*types.TypeName)
		if !ok || c.isMockFile(tn.Pos()) {
			continue
		}
		named, ok := tn.Type().(*types.Named)
		if !ok {
			continue
		}
		if _, isI := named.Underlying().(*types.Interface); isI {
			continue
		}
		pt := types.NewPointer(named)
		if !types.Implements(pt, iface) {
			continue
		}
		sel := c.Prog.SSA.MethodSets.MethodSet(pt).Lookup(tn.Pkg(), "Reload")
		if sel == nil {
			continue
		}
		fn := c.Prog.SSA.MethodValue(sel)
		if fn == nil || len(fn.Blocks) == 0 {
			continue
		}
		c.Examined(fn)
		n++
		recv := ssa.Value(fn.Params[0])
		var bad []string
		for _, b := range fn.Blocks {
			for _, in := range b.Instrs {
				st, ok := in.(*ssa.Store)
				if !ok {
					continue
				}
				// whole-struct copy of the receiver into a fresh driver
				if al, isAl := st.Addr.(*ssa.Alloc); isAl && types.Identical(al.Type().(*types.Pointer).Elem(), named) {
					if ld, isLd := st.Val.(*ssa.UnOp); isLd && ld.X == recv {
						// handle fields must be overwritten afterwards
						stt := structOf(named)
						for i := 0; i < stt.NumFields(); i++ {
							switch stt.Field(i).Type().Underlying().(type) {
							case *types.Pointer, *types.Interface:
								over := false
								for _, r := range *al.Referrers() {
									if fa, isFA := r.(*ssa.FieldAddr); isFA && fa.Field == i {
										for _, rr := range *fa.Referrers() {
											if s2, isS := rr.(*ssa.Store); isS && s2.Addr == fa && instrReaches(st, s2) {
												over = true
											}
										}
									}
								}
								if !over {
									bad = append(bad, "copy of *receiver keeps ."+stt.Field(i).Name())
								}
							}
						}
					}
					continue
				}
				fa, ok := st.Addr.(*ssa.FieldAddr)
				if !ok || fa.X == recv {
					continue
				}
				if _, isAl := fa.X.(*ssa.Alloc); !isAl {
					continue
				}
				switch fieldVar(fa.X.Type(), fa.Field).Type().Underlying().(type) {
				case *types.Pointer, *types.Interface:
				default:
					continue
				}
				if ld, isLd := st.Val.(*ssa.UnOp); isLd {
					if rfa, isR := ld.X.(*ssa.FieldAddr); isR && rfa.X == recv && rfa.Field == fa.Field {
						bad = append(bad, "."+fieldName(fa.X.Type(), fa.Field)+" shared with the receiver")
					}
				}
			}
		}
		c.Check(rule, name+".Reload|new-driver-owns-its-handle", len(bad) == 0, fn.Pos(), fmt.Sprintf("handle fields a new driver shares with the receiver: %v", bad))
	}
	c.Floor(rule, 2)
}
