package main

import (
	"fmt"
	"go/token"
	"go/types"

	"golang.org/x/tools/go/ssa"
)

// c05DriverPath implements C05.driver-path.
//
// A backend driver decides "same database => catch up the handle I have" versus "other database => open it" by
// comparing the requested path with the path it remembers. If a driver handed out by Reload(path) does not
// remember exactly `path`, a later reload takes the wrong branch (switching back to an earlier directory becomes a
// silent catch-up of the wrong handle). The rule is decided per concrete db.DBI implementation (mocks excluded):
//
//	(self)  Reload returns its own receiver only where `path == recv.<pathField>` is known to hold;
//	        a driver with no path field never returns its receiver.
//	(fresh) every other non-nil result is built from `path`: it is the result of a module constructor that
//	        receives the parameter and (recursively) satisfies (fresh) for that parameter, or a struct allocated
//	        here whose path field is stored from the parameter after any whole-struct copy.
func c05DriverPath(c *Ctx) {
	rule := "C05.driver-path"
	c.Rule(rule, "per db.DBI implementation, SSA origin analysis of Reload(path) results: the receiver is returned only under `path == recv.path`; any other returned driver is constructed from the path parameter (constructor receiving it, or struct whose path field is stored from it after any whole-struct copy)")
	iface := dbiIface(c)
	n := 0
	for _, pkg := range []string{"db"} {
		scope := c.Pkg(pkg).Types.Scope()
		for _, name := range scope.Names() {
			tn, ok := scope.Lookup(name).(*types.TypeName)
			if !ok || c.isMockFile(tn.Pos()) {
				continue
			}
			named, ok := tn.Type().(*types.Named)
			if !ok {
				continue
			}
			if _, isI := named.Underlying().(*types.Interface); isI {
				continue
			}
			pt := types.NewPointer(named)
			if !types.Implements(pt, iface) && !types.Implements(named, iface) {
				continue
			}
			sel := c.Prog.SSA.MethodSets.MethodSet(pt).Lookup(tn.Pkg(), "Reload")
			if sel == nil {
				continue
			}
			fn := c.Prog.SSA.MethodValue(sel)
			if fn == nil || len(fn.Blocks) == 0 || len(fn.Params) < 2 {
				c.Undecided(rule, name+".Reload", tn.Pos(), "Reload method has no body or no path parameter")
				continue
			}
			c.Examined(fn)
			n++
			c05DriverReload(c, rule, name, named, fn)
		}
	}
	c.Floor(rule, 3)
	c.Note("%s: %d driver Reload methods analysed", rule, n)
}

// pathFieldOf finds the field of the receiver that fn compares with its path parameter.
func pathFieldOf(fn *ssa.Function, recv, path ssa.Value) *types.Var {
	var out *types.Var
	for _, b := range fn.Blocks {
		for _, in := range b.Instrs {
			bo, ok := in.(*ssa.BinOp)
			if !ok || (bo.Op != token.EQL && bo.Op != token.NEQ) {
				continue
			}
			for _, pr := range [][2]ssa.Value{{bo.X, bo.Y}, {bo.Y, bo.X}} {
				if pr[0] != path {
					continue
				}
				if fa := fieldAddrOfLoad(pr[1]); fa != nil && fa.X == recv {
					out = fieldOf(fa)
				}
			}
		}
	}
	return out
}

func fieldAddrOfLoad(v ssa.Value) *ssa.FieldAddr {
	if u, ok := v.(*ssa.UnOp); ok && u.Op == token.MUL {
		if fa, ok := u.X.(*ssa.FieldAddr); ok {
			return fa
		}
	}
	return nil
}

func c05DriverReload(c *Ctx, rule, name string, named *types.Named, fn *ssa.Function) {
	recv, path := ssa.Value(fn.Params[0]), ssa.Value(fn.Params[1])
	pf := pathFieldOf(fn, recv, path)
	// the path field of the type, if Reload does not compare: any string field stored from a constructor's path param is found on demand
	for _, ret := range returnsOf(fn) {
		if len(ret.Results) == 0 {
			continue
		}
		for src := range sourcesOf(ret.Results[0]) {
			v := unwrap(src)
			if isNilConst(v) {
				continue
			}
			if cst, ok := v.(*ssa.Const); ok && cst.IsNil() {
				continue
			}
			if v == recv {
				ok := false
				if pf != nil {
					ok = hasFact(ret.Block(), func(x ssa.Value, truth bool) bool {
						bo, isB := x.(*ssa.BinOp)
						if !isB {
							return false
						}
						cmp := (bo.X == path && isFieldLoadOn(bo.Y, recv, pf)) || (bo.Y == path && isFieldLoadOn(bo.X, recv, pf))
						return cmp && ((bo.Op == token.EQL && truth) || (bo.Op == token.NEQ && !truth))
					})
				}
				c.Check(rule, name+".Reload|returns-self", ok, ret.Pos(), fmt.Sprintf("receiver returned; known `path == recv.path` at the return: %v (path field: %s)", ok, varName(pf)))
				continue
			}
			ok, why := builtFromPath(c, v, path, pf, named, 0)
			c.Check(rule, name+".Reload|returns-new", ok, ret.Pos(), why)
		}
	}
}

func varName(v *types.Var) string {
	if v == nil {
		return "<none>"
	}
	return v.Name()
}

func isFieldLoadOn(v, recv ssa.Value, f *types.Var) bool {
	fa := fieldAddrOfLoad(v)
	return fa != nil && fa.X == recv && fieldOf(fa) == f
}

// builtFromPath decides whether v (a driver value) is constructed from the path value `path`.
func builtFromPath(c *Ctx, v, path ssa.Value, pf *types.Var, named *types.Named, depth int) (bool, string) {
	if depth > 3 {
		return false, "constructor chain deeper than 3"
	}
	v = unwrap(v)
	if call, _ := callOfValue(v); call != nil {
		callee := call.Common().StaticCallee()
		if callee == nil || !c.isOurs(callee.Pkg.Pkg) || len(callee.Blocks) == 0 {
			return false, "driver obtained from a call that cannot be resolved to a module function"
		}
		idx := -1
		for i, a := range call.Common().Args {
			if a == path {
				idx = i
			}
		}
		if idx < 0 {
			return false, fmt.Sprintf("driver obtained from %s, which does not receive the requested path", fnName(callee))
		}
		c.Examined(callee)
		p := ssa.Value(callee.Params[idx])
		for _, ret := range returnsOf(callee) {
			if len(ret.Results) == 0 {
				continue
			}
			for src := range sourcesOf(ret.Results[0]) {
				s := unwrap(src)
				if cst, ok := s.(*ssa.Const); ok && cst.IsNil() {
					continue
				}
				if ok, why := builtFromPath(c, s, p, pf, named, depth+1); !ok {
					return false, fnName(callee) + ": " + why
				}
			}
		}
		return true, fmt.Sprintf("constructed by %s(path)", fnName(callee))
	}
	if al, ok := v.(*ssa.Alloc); ok {
		st := structOf(al.Type())
		if st == nil {
			return false, "driver value is not a struct allocation"
		}
		// the path field: the one Reload compares, else any field stored from path
		var pathStore *ssa.Store
		var copies []*ssa.Store
		for _, r := range *al.Referrers() {
			switch x := r.(type) {
			case *ssa.FieldAddr:
				for _, rr := range *x.Referrers() {
					if s, ok := rr.(*ssa.Store); ok && s.Addr == x && s.Val == path {
						if pf == nil || fieldVar(al.Type(), x.Field) == pf {
							pathStore = s
						}
					}
				}
			case *ssa.Store:
				if x.Addr == al {
					copies = append(copies, x)
				}
			}
		}
		if pf == nil {
			// the driver type does not remember a path: being opened from it is all that is required
			usesPath := false
			for _, r := range *al.Referrers() {
				if fa, ok := r.(*ssa.FieldAddr); ok {
					for _, rr := range *fa.Referrers() {
						if s, ok := rr.(*ssa.Store); ok && s.Addr == fa {
							if bs := backSlice(s.Val, nil); bs[path] {
								usesPath = true
							}
						}
					}
				}
			}
			return usesPath, fmt.Sprintf("struct allocated here; some field derives from the path: %v", usesPath)
		}
		if pathStore == nil {
			return false, fmt.Sprintf("struct allocated here but its %s field is never stored from the requested path", pf.Name())
		}
		for _, cp := range copies {
			if instrReaches(pathStore, cp) {
				return false, fmt.Sprintf("whole-struct copy may overwrite the %s field after it was set", pf.Name())
			}
		}
		return true, fmt.Sprintf("struct allocated here, %s field stored from the requested path", pf.Name())
	}
	return false, fmt.Sprintf("driver value of unrecognised origin (%T)", v)
}
