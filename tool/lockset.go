package main

// lockset.go — A1: flow-sensitive must-lockset per function, guarded-access
// discovery, and caller-intersection across the call graph.

import (
	"fmt"
	"go/token"
	"go/types"
	"sort"
	"strings"

	"golang.org/x/tools/go/callgraph"
	"golang.org/x/tools/go/ssa"
)

type lockMode int

const (
	modeNone lockMode = 0
	modeR    lockMode = 1
	modeW    lockMode = 2
)

type lockState map[string]lockMode

func (s lockState) clone() lockState {
	n := lockState{}
	for k, v := range s {
		n[k] = v
	}
	return n
}

func (s lockState) String() string {
	var ks []string
	for k, v := range s {
		m := "R"
		if v == modeW {
			m = "W"
		}
		ks = append(ks, k+":"+m)
	}
	sort.Strings(ks)
	return "{" + strings.Join(ks, ",") + "}"
}

func meet(a, b lockState) lockState {
	n := lockState{}
	for k, v := range a {
		if w, ok := b[k]; ok {
			if w < v {
				v = w
			}
			n[k] = v
		}
	}
	return n
}

func equalState(a, b lockState) bool {
	if len(a) != len(b) {
		return false
	}
	for k, v := range a {
		if b[k] != v {
			return false
		}
	}
	return true
}

// lockOp classifies a call as a mutex operation. kind: "lock","rlock","unlock","runlock".
func lockOp(c *ssa.CallCommon) (kind string, recv ssa.Value) {
	f := calleeOf(c)
	if f == nil || f.Pkg() == nil || f.Pkg().Path() != "sync" {
		return "", nil
	}
	short := funcShort(f)
	var k string
	switch short {
	case "Mutex.Lock", "RWMutex.Lock":
		k = "lock"
	case "Mutex.Unlock", "RWMutex.Unlock":
		k = "unlock"
	case "RWMutex.RLock":
		k = "rlock"
	case "RWMutex.RUnlock":
		k = "runlock"
	default:
		return "", nil
	}
	if c.IsInvoke() || len(c.Args) == 0 {
		return "", nil
	}
	return k, c.Args[0]
}

// Lockset is the result of the intraprocedural analysis of one function.
type Lockset struct {
	fn    *ssa.Function
	entry map[*ssa.BasicBlock]lockState
	// unknown is set when a lock operation on an unnameable mutex was seen
	unknown []ssa.Instruction
}

func transfer(st lockState, in ssa.Instruction, ls *Lockset) {
	call, ok := in.(*ssa.Call)
	if !ok {
		return // Defer of an unlock keeps the lock to every exit; Go does not affect us
	}
	k, recv := lockOp(call.Common())
	if k == "" {
		return
	}
	p := pathOf(recv)
	if p == "" {
		if ls != nil {
			ls.unknown = append(ls.unknown, in)
		}
		return
	}
	switch k {
	case "lock":
		st[p] = modeW
	case "rlock":
		if st[p] < modeR {
			st[p] = modeR
		}
	case "unlock", "runlock":
		delete(st, p)
	}
}

var locksetCache = map[*ssa.Function]*Lockset{}

func computeLockset(fn *ssa.Function) *Lockset {
	if ls, ok := locksetCache[fn]; ok {
		return ls
	}
	ls := &Lockset{fn: fn, entry: map[*ssa.BasicBlock]lockState{}}
	locksetCache[fn] = ls
	if len(fn.Blocks) == 0 {
		return ls
	}
	ls.entry[fn.Blocks[0]] = lockState{}
	out := map[*ssa.BasicBlock]lockState{}
	changed := true
	for iter := 0; changed && iter < 100; iter++ {
		changed = false
		for _, b := range fn.Blocks {
			var in lockState
			if b == fn.Blocks[0] {
				in = lockState{}
			} else {
				first := true
				for _, p := range b.Preds {
					o, ok := out[p]
					if !ok {
						continue // not yet visited: TOP
					}
					if first {
						in = o.clone()
						first = false
					} else {
						in = meet(in, o)
					}
				}
				if first {
					continue // unreachable so far
				}
			}
			if old, ok := ls.entry[b]; !ok || !equalState(old, in) {
				ls.entry[b] = in
				changed = true
			}
			st := in.clone()
			for _, instr := range b.Instrs {
				transfer(st, instr, nil)
			}
			if old, ok := out[b]; !ok || !equalState(old, st) {
				out[b] = st
				changed = true
			}
		}
	}
	// record unknown lock ops once
	for _, b := range fn.Blocks {
		st := lockState{}
		for _, instr := range b.Instrs {
			transfer(st, instr, ls)
		}
	}
	return ls
}

// At returns the locks definitely held just before the instruction.
func (ls *Lockset) At(in ssa.Instruction) lockState {
	b := in.Block()
	e, ok := ls.entry[b]
	if !ok {
		return lockState{} // unreachable block
	}
	st := e.clone()
	for _, x := range b.Instrs {
		if x == in {
			break
		}
		transfer(st, x, nil)
	}
	return st
}

// ---------------------------------------------------------------------------
// Guarded accesses

// GuardSpec is one row of the lock table.
type GuardSpec struct {
	Name   string     // printable: "FBDNSDB.dnsdb"
	Field  *types.Var // the guarded field (nil when Local != "")
	Outer  *types.Var // when the guarded field lives in a struct-typed field of the lock's owner (dbConfig.Path): that outer field
	Mutex  string     // name of the mutex field in the owner struct, or of the local mutex variable
	Local  string     // for captured locals: the variable's name
	InFunc *ssa.Function
}

type Access struct {
	Spec   *GuardSpec
	Fn     *ssa.Function
	Instr  ssa.Instruction
	Write  bool
	Base   ssa.Value // owner object
	Atomic bool
	How    string
}

func isAtomicCallee(f *types.Func) bool {
	return f != nil && f.Pkg() != nil && f.Pkg().Path() == "sync/atomic"
}

// classifyAddrUses appends accesses made through address `addr` of the guarded location.
func classifyAddrUses(spec *GuardSpec, fn *ssa.Function, addr ssa.Value, base ssa.Value, out *[]Access) {
	refs := addr.Referrers()
	if refs == nil {
		return
	}
	for _, r := range *refs {
		switch x := r.(type) {
		case *ssa.DebugRef:
		case *ssa.Store:
			if x.Addr == addr {
				*out = append(*out, Access{Spec: spec, Fn: fn, Instr: x, Write: true, Base: base, How: "store"})
			} else {
				*out = append(*out, Access{Spec: spec, Fn: fn, Instr: x, Write: true, Base: base, How: "address stored (escapes)"})
			}
		case *ssa.UnOp:
			if x.Op != token.MUL {
				continue
			}
			*out = append(*out, Access{Spec: spec, Fn: fn, Instr: x, Write: false, Base: base, How: "load"})
			// map/slice contents reached through the loaded header
			switch x.Type().Underlying().(type) {
			case *types.Map, *types.Slice:
				if lr := x.Referrers(); lr != nil {
					for _, u := range *lr {
						switch y := u.(type) {
						case *ssa.MapUpdate:
							if y.Map == x {
								*out = append(*out, Access{Spec: spec, Fn: fn, Instr: y, Write: true, Base: base, How: "map update"})
							}
						case *ssa.Lookup, *ssa.Range:
							*out = append(*out, Access{Spec: spec, Fn: fn, Instr: y.(ssa.Instruction), Write: false, Base: base, How: "map/slice read"})
						case *ssa.IndexAddr:
							w := false
							if rr := y.Referrers(); rr != nil {
								for _, z := range *rr {
									if st, ok := z.(*ssa.Store); ok && st.Addr == y {
										w = true
									}
								}
							}
							*out = append(*out, Access{Spec: spec, Fn: fn, Instr: y, Write: w, Base: base, How: "element access"})
						case *ssa.Call:
							if b, ok := y.Call.Value.(*ssa.Builtin); ok && b.Name() == "delete" {
								*out = append(*out, Access{Spec: spec, Fn: fn, Instr: y, Write: true, Base: base, How: "map delete"})
							}
						}
					}
				}
			}
		case *ssa.FieldAddr:
			// a sub-field of a guarded struct-typed location
			classifyAddrUses(spec, fn, x, base, out)
		case *ssa.IndexAddr:
			classifyAddrUses(spec, fn, x, base, out)
		case ssa.CallInstruction:
			f := calleeOf(x.Common())
			if isAtomicCallee(f) {
				*out = append(*out, Access{Spec: spec, Fn: fn, Instr: x, Write: true, Base: base, Atomic: true, How: "atomic"})
			} else {
				name := "?"
				if f != nil {
					name = f.Name()
				}
				*out = append(*out, Access{Spec: spec, Fn: fn, Instr: x, Write: true, Base: base, How: "address passed to " + name})
			}
		case *ssa.MakeClosure:
			// captured: the closure's own accesses are found in the closure
		default:
			if in, ok := r.(ssa.Instruction); ok {
				*out = append(*out, Access{Spec: spec, Fn: fn, Instr: in, Write: true, Base: base, How: fmt.Sprintf("address used by %T", r)})
			}
		}
	}
}

// findAccesses lists the accesses to the guarded location in fn (not in nested closures).
func findAccesses(spec *GuardSpec, fn *ssa.Function) []Access {
	var out []Access
	if spec.Local != "" {
		// captured local variable: Alloc (in the declaring function) or FreeVar (in closures)
		for _, fv := range fn.FreeVars {
			if fv.Name() == spec.Local {
				classifyAddrUses(spec, fn, fv, nil, &out)
			}
		}
		for _, b := range fn.Blocks {
			for _, in := range b.Instrs {
				if a, ok := in.(*ssa.Alloc); ok && a.Comment == spec.Local {
					classifyAddrUses(spec, fn, a, nil, &out)
				}
			}
		}
		return out
	}
	for _, b := range fn.Blocks {
		for _, in := range b.Instrs {
			fa, ok := in.(*ssa.FieldAddr)
			if !ok {
				continue
			}
			fv := fieldOf(fa)
			if spec.Outer == nil {
				if fv == spec.Field {
					classifyAddrUses(spec, fn, fa, fa.X, &out)
				}
				continue
			}
			if fv == spec.Outer {
				// whole-struct loads/stores and selections of the inner field
				refs := fa.Referrers()
				if refs == nil {
					continue
				}
				for _, r := range *refs {
					switch x := r.(type) {
					case *ssa.FieldAddr:
						if fieldOf(x) == spec.Field {
							classifyAddrUses(spec, fn, x, fa.X, &out)
						}
					case *ssa.UnOp:
						if x.Op == token.MUL {
							// whole struct copied: reads the inner field too, unless only other fields are then selected
							usesInner := false
							if lr := x.Referrers(); lr != nil {
								for _, u := range *lr {
									if f, ok := u.(*ssa.Field); ok {
										if fieldOf(f) == spec.Field {
											usesInner = true
										}
									} else if _, ok := u.(*ssa.DebugRef); !ok {
										usesInner = true
									}
								}
							}
							if usesInner {
								out = append(out, Access{Spec: spec, Fn: fn, Instr: x, Write: false, Base: fa.X, How: "whole-struct load"})
							}
						}
					case *ssa.Store:
						if x.Addr == fa {
							out = append(out, Access{Spec: spec, Fn: fn, Instr: x, Write: true, Base: fa.X, How: "whole-struct store"})
						}
					}
				}
			}
		}
	}
	return out
}

// ---------------------------------------------------------------------------
// Interprocedural check

type lockChecker struct {
	p        *Prog
	maxDepth int
}

func paramIndex(fn *ssa.Function, name string) int {
	for i, p := range fn.Params {
		if p.Name() == name {
			return i
		}
	}
	return -1
}

func splitRoot(path string) (root, rest string) {
	if i := strings.Index(path, "."); i >= 0 {
		return path[:i], path[i:]
	}
	return path, ""
}

func actuals(site ssa.CallInstruction) []ssa.Value {
	c := site.Common()
	if c.IsInvoke() {
		return append([]ssa.Value{c.Value}, c.Args...)
	}
	return c.Args
}

// heldAt decides whether lock `path` is held in mode >= need just before
// instruction `in` of fn, looking at callers when the function itself does not
// hold it. Returns ok and, when not ok, a description of an offending chain.
func (lc *lockChecker) heldAt(fn *ssa.Function, in ssa.Instruction, path string, need lockMode, depth int, seen map[string]bool) (bool, string) {
	ls := computeLockset(fn)
	st := ls.At(in)
	if st[path] >= need {
		return true, ""
	}
	if st[path] == modeR && need == modeW {
		return false, fmt.Sprintf("%s holds %s only for reading at %s", fnName(fn), path, lc.p.relPos(in.Pos()))
	}
	return lc.heldOnEntry(fn, path, need, depth, seen)
}

// heldOnEntry: every way into fn holds `path`.
func (lc *lockChecker) heldOnEntry(fn *ssa.Function, path string, need lockMode, depth int, seen map[string]bool) (bool, string) {
	if depth <= 0 {
		return false, fmt.Sprintf("%s does not hold %s (caller depth bound reached)", fnName(fn), path)
	}
	key := fnName(fn) + "|" + path
	if seen[key] {
		return true, "" // recursion: optimistic on the cycle, decided by the other entries
	}
	seen[key] = true
	defer delete(seen, key)
	root, rest := splitRoot(path)

	// closures: locks are inherited from the place the closure is created and run
	if fn.Parent() != nil {
		parent := fn.Parent()
		var mcs []*ssa.MakeClosure
		for _, b := range parent.Blocks {
			for _, x := range b.Instrs {
				if mc, ok := x.(*ssa.MakeClosure); ok && mc.Fn == fn {
					mcs = append(mcs, mc)
				}
			}
		}
		if len(mcs) == 0 {
			return false, fmt.Sprintf("closure %s: creation site not found", fnName(fn))
		}
		for _, mc := range mcs {
			// how is it used?
			if refs := mc.Referrers(); refs != nil {
				for _, r := range *refs {
					if g, ok := r.(*ssa.Go); ok && g.Call.Value == mc {
						return false, fmt.Sprintf("%s runs as a goroutine started at %s and does not take %s itself", fnName(fn), lc.p.relPos(g.Pos()), path)
					}
				}
			}
			ok, why := lc.heldAt(parent, mc, path, need, depth-1, seen)
			if !ok {
				return false, why
			}
		}
		return true, ""
	}

	node := lc.p.CallGraph().Nodes[fn]
	var edges []*callgraph.Edge
	if node != nil {
		for _, e := range node.In {
			if e.Caller.Func != nil && lc.p.isMockFile(e.Caller.Func.Pos()) {
				continue
			}
			edges = append(edges, e)
		}
	}
	if len(edges) == 0 {
		return false, fmt.Sprintf("%s does not hold %s and is an entry point (no caller in the module holds it for it)", fnName(fn), path)
	}
	pi := paramIndex(fn, root)
	sort.Slice(edges, func(i, j int) bool { return edges[i].Site.Pos() < edges[j].Site.Pos() })
	for _, e := range edges {
		caller := e.Caller.Func
		if _, isGo := e.Site.(*ssa.Go); isGo {
			return false, fmt.Sprintf("%s is started as a goroutine at %s without %s", fnName(fn), lc.p.relPos(e.Site.Pos()), path)
		}
		cpath := path
		if pi >= 0 {
			as := actuals(e.Site)
			if caller.Synthetic != "" && caller.Parent() == nil {
				// wrapper / thunk: look through to its callers with the same formal
				ok, why := lc.heldOnEntry(caller, path, need, depth, seen)
				if !ok {
					return false, why
				}
				continue
			}
			if pi >= len(as) {
				return false, fmt.Sprintf("call at %s: cannot map formal %s", lc.p.relPos(e.Site.Pos()), root)
			}
			ap := pathOf(as[pi])
			if ap == "" {
				return false, fmt.Sprintf("call at %s: actual for %s has no access path", lc.p.relPos(e.Site.Pos()), root)
			}
			cpath = ap + rest
		}
		ok, why := lc.heldAt(caller, e.Site, cpath, need, depth-1, seen)
		if !ok {
			if why == "" {
				why = fmt.Sprintf("caller %s at %s does not hold %s", fnName(caller), lc.p.relPos(e.Site.Pos()), cpath)
			}
			return false, fmt.Sprintf("%s ← %s", fnName(fn), why)
		}
	}
	return true, ""
}

// checkGuard runs the lockset rule for one table row over the given functions
// and records one obligation per (function, access kind).
func (c *Ctx) checkGuard(rule string, spec *GuardSpec, fns []*ssa.Function, exempt map[string]string) int {
	depth := 3
	if c.Tier == "thorough" {
		depth = 6
	}
	lc := &lockChecker{p: c.Prog, maxDepth: depth}
	n := 0
	for _, fn := range fns {
		accs := findAccesses(spec, fn)
		if len(accs) == 0 {
			continue
		}
		c.Examined(fn)
		// group per function: reads / writes
		type agg struct {
			ok     bool
			pos    token.Pos
			detail []string
			n      int
		}
		groups := map[string]*agg{}
		for _, a := range accs {
			kind := "read"
			need := modeR
			if a.Write {
				kind = "write"
				need = modeW
			}
			construct := fmt.Sprintf("%s|%s|%s", spec.Name, fnName(fn), kind)
			g := groups[construct]
			if g == nil {
				g = &agg{ok: true, pos: a.Instr.Pos()}
				groups[construct] = g
			}
			g.n++
			if a.Atomic {
				continue
			}
			if a.Base != nil && rootIsFresh(a.Base) {
				continue // object under construction, not yet published
			}
			var lockPath string
			if spec.Local != "" {
				lockPath = spec.Mutex
			} else {
				bp := pathOf(a.Base)
				if bp == "" || strings.HasPrefix(bp, "fresh:") {
					g.ok = false
					g.detail = append(g.detail, fmt.Sprintf("%s: owner of %s has no access path (%s)", c.relPos(a.Instr.Pos()), spec.Name, a.How))
					continue
				}
				lockPath = bp + "." + spec.Mutex
			}
			ok, why := lc.heldAt(fn, a.Instr, lockPath, need, depth, map[string]bool{})
			if !ok {
				g.ok = false
				if g.pos == token.NoPos || len(g.detail) == 0 {
					g.pos = a.Instr.Pos()
				}
				g.detail = append(g.detail, fmt.Sprintf("%s: %s of %s without %s: %s", c.relPos(a.Instr.Pos()), a.How, spec.Name, lockPath, why))
			}
		}
		var keys []string
		for k := range groups {
			keys = append(keys, k)
		}
		sort.Strings(keys)
		for _, k := range keys {
			g := groups[k]
			if reason, ok := exempt[fnName(fn)]; ok {
				c.add(rule, k, Discharged, g.pos, false, "exempt: "+reason)
				n++
				continue
			}
			detail := fmt.Sprintf("%d access(es), all with %s held", g.n, spec.Mutex)
			if !g.ok {
				detail = strings.Join(g.detail, "; ")
			}
			c.Check(rule, k, g.ok, g.pos, detail)
			n++
		}
	}
	return n
}
