package main

import (
	"sort"
	"strconv"
)

func sortPkgStrings(s []string) { sort.Strings(s) }

func strconvUnquote(s string) (string, error) { return strconv.Unquote(s) }

func sortStrings(s []string) { sortPkgStrings(s) }
