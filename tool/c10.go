package main

import (
	"fmt"
	"go/token"
	"go/types"
	"strings"

	"golang.org/x/tools/go/ssa"
)

func init() {
	register(&propDef{
		ID:          "C10",
		Title:       "ECS is echoed faithfully with a truthful scope",
		Run:         runC10,
		Explanation: "Structural necessary conditions, decided on SSA: (readonly) the only field of a client-subnet option that is ever written, outside freshly built options, is SourceScope, and the option attached to the reply is the one found in the request; (scope-guard) every subtraction of the IPv4-in-IPv6 family offset from an unsigned prefix length is dominated by a >= offset test (uint8 wrap gives scopes above 32); (defaults) constant scopes are 0, 24 (IPv4) and 48 (IPv6) only; (opt) both OPT re-attachment blocks (cache hit, computed answer) are guarded by the request carrying EDNS0, append the option under ecs != nil and prepend the OPT to the message that is written; (fallback) the resolver lookup is taken iff the ECS lookup produced no location; (scope-family) the family test that governs the scope conversion reads the echoed option's own Family field; (cache-isolation, cache-before-opt) the response cache stores a copy taken before the OPT/ECS decoration and hands out only copies, so one client's option never appears in another's reply. The scope value for all subnet configurations is not decided.",
	})
}

func runC10(c *Ctx) {
	c10ReadOnly(c)
	c10ScopeGuard(c)
	c10Defaults(c)
	c10Opt(c)
	c10Fallback(c)
	c10ScopeFamily(c)
	// the cached message must not alias the message that is decorated with OPT/ECS for one particular client, and it is
	// stored before the decoration: otherwise one client's OPT/client-subnet option leaks into another client's reply
	c.importRules(runC12, "C12", map[string]string{"copy": "cache-isolation", "before-opt": "cache-before-opt"})
	// the scope is the prefix length of the matched range point OF THIS MAP: the range-point key layout (marker, map id,
	// address, length) must be what the driver compares and slices (seed c10g)
	c.importRules(runC03, "C03", map[string]string{"layout": "rangepoint-layout", "map-walk": "map-walk"})
}

func ecsType(c *Ctx) types.Type { return namedType(c, dnsPkg, "EDNS0_SUBNET") }

func isEcsPtr(c *Ctx, t types.Type) bool {
	p, ok := t.Underlying().(*types.Pointer)
	return ok && types.Identical(p.Elem(), ecsType(c))
}

func c10ReadOnly(c *Ctx) {
	rule := "C10.readonly"
	c.Rule(rule, "A8 on SSA: for every *dns.EDNS0_SUBNET that is not allocated in the storing function, the only field ever stored to (packages db, dnsserver, fbserver, whoami, logger) is SourceScope; the option appended to the reply OPT is the value FindLocation returned, which is the request's own option")
	n := 0
	for _, fn := range c.OurFuncs("db", "dnsserver", "fbserver", "whoami", "logger") {
		for _, b := range fn.Blocks {
			for _, in := range b.Instrs {
				st, ok := in.(*ssa.Store)
				if !ok {
					continue
				}
				fa, ok := st.Addr.(*ssa.FieldAddr)
				if !ok || !isEcsPtr(c, fa.X.Type()) {
					continue
				}
				if rootIsFresh(fa.X) {
					continue // an option built from scratch (outgoing query options)
				}
				fresh := true
				for s := range sourcesOf(fa.X) {
					if a, isA := s.(*ssa.Alloc); !isA || !(a.Comment == "new" || a.Comment == "complit") {
						fresh = false
					}
				}
				if fresh {
					continue
				}
				n++
				c.Examined(fn)
				name := fieldName(fa.X.Type(), fa.Field)
				c.Check(rule, fmt.Sprintf("%s|store:%s", fnName(fn), name), name == "SourceScope", st.Pos(), "family, address and source prefix length of the client's option must be echoed untouched (RFC 7871 §7.2.1); only the scope may be set")
			}
		}
	}
	if n == 0 {
		c.Undecided(rule, "stores", token.NoPos, "no store to a request ECS option found: the scope is never set")
	}
	// the option attached is the one FindLocation returned
	serve := c.Func("dnsserver", "(*FBDNSDB).ServeDNSWithRCODE")
	c.Examined(serve)
	fOpt := fieldByName(c, dnsPkg, "OPT", "Option")
	k := 0
	for _, st := range storesToField(serve, fOpt) {
		k++
		ok := false
		for v := range backSlice(st.Val, func(v ssa.Value) bool { _, isCall := v.(*ssa.Call); return isCall && isBuiltinCall(v, "append") == nil }) {
			if mi, isMI := v.(*ssa.MakeInterface); isMI && isEcsPtr(c, mi.X.Type()) {
				ok = true
				for s := range sourcesOf(mi.X) {
					ex, isEx := s.(*ssa.Extract)
					if !isEx {
						ok = false
						continue
					}
					call, isCall := ex.Tuple.(*ssa.Call)
					if !isCall || !call.Common().IsInvoke() || call.Common().Method.Name() != "FindLocation" || ex.Index != 0 {
						ok = false
					}
				}
			}
		}
		c.Check(rule, fmt.Sprintf("%s|opt-option#%d|is-request-ecs", fnName(serve), k), ok, st.Pos(), "the client-subnet option echoed is the one found in the request (with its scope set), not a rebuilt one")
	}
	// FindLocation returns what FindECS found
	fl := c.Func("db", "(*DataReader).FindLocation")
	c.Examined(fl)
	findECS := c.TypesFunc("db", "FindECS")
	okr := true
	nr := 0
	for _, ret := range returnsOf(fl) {
		for s := range sourcesOf(ret.Results[0]) {
			nr++
			if s == nil || isNilConst(s) {
				continue
			}
			if call, _ := callOfValue(s); call != nil && calleeOf(call.Common()) == findECS {
				continue
			}
			okr = false
		}
	}
	c.Check(rule, fnName(fl)+"|returns-request-option", okr && nr > 0, fl.Pos(), "the option handed back to the handler is FindECS(request) or nil")
	c.Floor(rule, 4)
}

// ge96Established: on every path into block b, X >= k is known (by a dominating fact, an edge fact, or a constant store >= k).
func c10ScopeGuard(c *Ctx) {
	rule := "C10.scope-guard"
	c.Rule(rule, "A2: every subtraction of the family offset 96 from a uint8 value (a prefix length) is dominated by a test that the value is >= 96 (or is the modular pair used for the text form of range points, where the addition of 96 dominates)")
	n := 0
	for _, fn := range c.OurFuncs("db", "dnsserver") { // dnsdata's text form of range points uses the -96/+96 pair modulo 256 on purpose (C09.rangepoint)
		for _, b := range fn.Blocks {
			for _, in := range b.Instrs {
				bo, ok := in.(*ssa.BinOp)
				if !ok || bo.Op != token.SUB {
					continue
				}
				k, isC := constInt(bo.Y)
				if !isC || k != 96 {
					continue
				}
				bt, isB := bo.X.Type().Underlying().(*types.Basic)
				if !isB || bt.Kind() != types.Uint8 {
					continue
				}
				n++
				c.Examined(fn)
				x := bo.X
				guarded := hasFact(b, func(v ssa.Value, truth bool) bool {
					cmp, ok := v.(*ssa.BinOp)
					if !ok || !sameValue(cmp.X, x) {
						return false
					}
					kk, isK := constInt(cmp.Y)
					if !isK {
						return false
					}
					switch cmp.Op {
					case token.GEQ:
						return truth && kk >= 96
					case token.GTR:
						return truth && kk >= 95
					case token.LSS:
						return !truth && kk >= 96
					case token.LEQ:
						return !truth && kk >= 95
					}
					return false
				})
				c.Check(rule, fmt.Sprintf("%s|sub96#%s", fnName(fn), describeValue(unwrap(x))), guarded, bo.Pos(), "uint8 wrap-around turns a short IPv6 match into a scope above 32 for an IPv4 client")
			}
		}
	}
	c.Floor(rule, 1)
}

func c10Defaults(c *Ctx) {
	rule := "C10.defaults"
	c.Rule(rule, "constant values stored into SourceScope are 0 (no usable match), 24 (IPv4 default) or 48 (IPv6 default, under a Family == 2 test); a non-constant value stored is the matched prefix length (Location.Mask), possibly minus the family offset")
	fn := c.Func("db", "(*DataReader).EcsLocation")
	c.Examined(fn)
	fMask := c.Field("db", "Location", "Mask")
	n := 0
	for _, b := range fn.Blocks {
		for _, in := range b.Instrs {
			st, ok := in.(*ssa.Store)
			if !ok {
				continue
			}
			fa, ok := st.Addr.(*ssa.FieldAddr)
			if !ok || !isEcsPtr(c, fa.X.Type()) || fieldName(fa.X.Type(), fa.Field) != "SourceScope" {
				continue
			}
			n++
			if k, isC := constInt(st.Val); isC {
				ok := k == 0 || k == 24 || k == 48
				if k == 48 {
					ok = hasFact(b, func(v ssa.Value, truth bool) bool {
						cmp, isB := v.(*ssa.BinOp)
						if !isB {
							return false
						}
						fam, isF := unwrap(cmp.X).(*ssa.UnOp)
						if !isF {
							return false
						}
						ffa, isFA := fam.X.(*ssa.FieldAddr)
						if !isFA || fieldName(ffa.X.Type(), ffa.Field) != "Family" {
							return false
						}
						kk, _ := constInt(cmp.Y)
						return (cmp.Op == token.EQL && truth && kk == 2) || (cmp.Op == token.NEQ && !truth && kk == 2) || (cmp.Op == token.EQL && !truth && kk == 1)
					})
				}
				c.Check(rule, fmt.Sprintf("%s|const-scope:%d", fnName(fn), k), ok, st.Pos(), "default scopes are /24 for IPv4 and /48 for IPv6 (under the family test)")
				continue
			}
			// non-constant: Mask or Mask-96 (through the field itself)
			okv := false
			for v := range backSlice(st.Val, nil) {
				if isFieldLoad(v, fMask) {
					okv = true
				}
				if u, isU := v.(*ssa.UnOp); isU && u.Op == token.MUL {
					if f2, isFA := u.X.(*ssa.FieldAddr); isFA && isEcsPtr(c, f2.X.Type()) && fieldName(f2.X.Type(), f2.Field) == "SourceScope" {
						okv = true // read-modify-write of the scope itself (offset removal)
					}
				}
			}
			c.Check(rule, fmt.Sprintf("%s|computed-scope#%d", fnName(fn), n), okv, st.Pos(), "a computed scope derives from the matched prefix length")
		}
	}
	c.Floor(rule, 3)
}

// c10ScopeFamily implements C10.scope-family: the scope is expressed in the family of the option that is echoed.
// EcsLocation may look the subnet up in another form (an IPv4-mapped IPv6 subnet is looked up as IPv4), so the
// family that governs the conversion of the matched prefix length must be read from the option itself.
func c10ScopeFamily(c *Ctx) {
	rule := "C10.scope-family"
	c.Rule(rule, "A2 in EcsLocation: every family test that a store to SourceScope is control dependent on compares a direct load of the echoed option's Family field (not a local that may have been rewritten for the lookup); the removal of the 96-bit offset happens under such a test for family 1")
	fn := c.Func("db", "(*DataReader).EcsLocation")
	c.Examined(fn)
	isFamilyLoad := func(v ssa.Value) bool {
		u, ok := unwrap(v).(*ssa.UnOp)
		if !ok || u.Op != token.MUL {
			return false
		}
		fa, ok := u.X.(*ssa.FieldAddr)
		if !ok || !isEcsPtr(c, fa.X.Type()) || fieldName(fa.X.Type(), fa.Field) != "Family" {
			return false
		}
		_, isParam := fa.X.(*ssa.Parameter)
		return isParam
	}
	derivesFromFamily := func(v ssa.Value) bool {
		for x := range backSlice(v, nil) {
			if isFamilyLoad(x) {
				return true
			}
		}
		return isFamilyLoad(v)
	}
	n := 0
	for _, b := range fn.Blocks {
		for _, in := range b.Instrs {
			st, ok := in.(*ssa.Store)
			if !ok {
				continue
			}
			fa, ok := st.Addr.(*ssa.FieldAddr)
			if !ok || !isEcsPtr(c, fa.X.Type()) || fieldName(fa.X.Type(), fa.Field) != "SourceScope" {
				continue
			}
			n++
			direct := true
			fam1 := false
			var bad string
			for _, f := range factsAt(b) {
				cmp, isB := f.V.(*ssa.BinOp)
				if !isB {
					continue
				}
				for _, pr := range [][2]ssa.Value{{cmp.X, cmp.Y}, {cmp.Y, cmp.X}} {
					k, isK := constInt(pr[1])
					if !isK || !derivesFromFamily(pr[0]) {
						continue
					}
					allDirect := true
					for src := range sourcesOf(pr[0]) {
						if src == nil || !isFamilyLoad(src) {
							allDirect = false
						}
					}
					if !allDirect {
						direct = false
						bad = describeValue(unwrap(pr[0]))
						continue
					}
					if (cmp.Op == token.EQL && f.Truth && k == 1) || (cmp.Op == token.NEQ && !f.Truth && k == 1) {
						fam1 = true
					}
				}
			}
			key := fmt.Sprintf("%s|scope-store#%d", fnName(fn), n)
			c.Check(rule, key+"|family-of-echoed-option", direct, st.Pos(), "a family test governing the scope reads ecs.Family itself; offending operand: "+bad)
			sub96 := false
			for v := range backSlice(st.Val, func(v ssa.Value) bool { _, isCall := v.(*ssa.Call); return isCall }) {
				if bo, isBo := v.(*ssa.BinOp); isBo && bo.Op == token.SUB {
					if k, isK := constInt(bo.Y); isK && k == 96 {
						sub96 = true
					}
				}
			}
			if sub96 && !fam1 {
				// the scope may be computed into a local on several ways and stored once: per way into the store, the
				// value that carries the subtraction needs the family-1 outcome on that way
				fam1 = true
				seenSub := false
				for _, p := range nearPaths(st, 64) {
					v := p.value(st.Val)
					has := false
					for x := range backSlice(v, func(v ssa.Value) bool { _, isCall := v.(*ssa.Call); return isCall }) {
						if bo, isBo := x.(*ssa.BinOp); isBo && bo.Op == token.SUB {
							if k, isK := constInt(bo.Y); isK && k == 96 {
								has = true
							}
						}
					}
					if _, stillPhi := unwrap(v).(*ssa.Phi); stillPhi && has {
						fam1 = false // not resolved on this way
					}
					if !has {
						continue
					}
					seenSub = true
					ok1 := false
					for _, f := range p.facts {
						cmp, isB := f.V.(*ssa.BinOp)
						if !isB {
							continue
						}
						for _, pr := range [][2]ssa.Value{{cmp.X, cmp.Y}, {cmp.Y, cmp.X}} {
							k, isK := constInt(pr[1])
							if isK && k == 1 && isFamilyLoad(unwrap(pr[0])) && ((cmp.Op == token.EQL && f.Truth) || (cmp.Op == token.NEQ && !f.Truth)) {
								ok1 = true
							}
						}
					}
					if !ok1 {
						fam1 = false
					}
				}
				if !seenSub {
					fam1 = false
				}
			}
			if sub96 {
				c.Check(rule, key+"|offset-removed-for-family-1-only", fam1, st.Pos(), "the 96-bit offset is removed only when the echoed option is IPv4")
			}
		}
	}
	c.Floor(rule, 4)
}

func c10Opt(c *Ctx) {
	rule := "C10.opt"
	c.Rule(rule, "A9: every place the query entry point creates a dns.OPT is control dependent on request.IsEdns0() != nil, appends the option under ecs != nil, and prepends the OPT to the Extra section of the message that is then handed to the writer; every response write of the entry point except the ready-made BADVERS reply is covered by exactly one such place, and no other OPT is created in the module's serving packages")
	serve := c.Func("dnsserver", "(*FBDNSDB).ServeDNSWithRCODE")
	c.Examined(serve)
	optT := namedType(c, dnsPkg, "OPT")
	fExtra := fieldByName(c, dnsPkg, "Msg", "Extra")
	fOption := fieldByName(c, dnsPkg, "OPT", "Option")
	write := c.TypesFunc("dnsserver", "(*FBDNSDB).writeAndLog")
	var opts []*ssa.Alloc
	for _, b := range serve.Blocks {
		for _, in := range b.Instrs {
			if a, ok := in.(*ssa.Alloc); ok && types.Identical(a.Type().(*types.Pointer).Elem(), optT) {
				opts = append(opts, a)
			}
		}
	}
	// every response written by the entry point carries an OPT built here (with the echoed option), except the BADVERS
	// reply, whose message comes ready-made from edns.Version: the request's EDNS version is unknown, so its options
	// are not interpreted (RFC 6891 §6.1.3)
	covered := map[ssa.CallInstruction]bool{}
	prepends := map[ssa.CallInstruction]map[*ssa.Store]bool{} // per write: the stores that put an OPT built here in front of its message
	for _, o := range opts {
		for _, st := range storesToField(serve, fExtra) {
			if !backSlice(st.Val, nil)[o] {
				continue
			}
			msg := st.Addr.(*ssa.FieldAddr).X
			for _, w := range callsTo(serve, func(f *types.Func) bool { return f == write }) {
				if sameSources(w.Common().Args[2], msg) && (instrDominates(st, w) || reachable(st.Block(), nil)[w.Block()]) {
					covered[w] = true
					if prepends[w] == nil {
						prepends[w] = map[*ssa.Store]bool{}
					}
					prepends[w][st] = true
				}
			}
		}
	}
	onePrepend := true
	for _, sts := range prepends {
		if len(sts) != 1 {
			onePrepend = false // two OPT records in one reply
		}
	}
	nw := 0
	for _, w := range callsTo(serve, func(f *types.Func) bool { return f == write }) {
		nw++
		fromVersion := false
		for s := range sourcesOf(w.Common().Args[2]) {
			if call, _ := callOfValue(s); call != nil {
				if f := calleeOf(call.Common()); f != nil && f.Pkg() != nil && strings.HasSuffix(f.Pkg().Path(), "plugin/pkg/edns") && f.Name() == "Version" {
					fromVersion = true
				}
			}
		}
		k := fmt.Sprintf("%s|write#%d", fnName(serve), nw)
		if fromVersion {
			c.add(rule, k+"|badvers-reply-from-edns.Version", Discharged, w.Pos(), false, "unsupported EDNS version: the reply is the one edns.Version built; options of an unknown version are not interpreted")
			continue
		}
		c.Check(rule, k+"|carries-echoed-OPT", covered[w], w.Pos(), "a response written for a request with EDNS0 / a client subnet gets an OPT built here with the option echoed (left to SizeAndDo, the request's OPT is reused with the client subnet option filtered out)")
	}
	// the OPT may be built once and prepended at each write, or built at each write: what matters is one prepend per reply
	c.Check(rule, fnName(serve)+"|one-reattachment-site-per-answer-write", len(opts) >= 1 && len(covered) >= 2 && onePrepend, serve.Pos(), fmt.Sprintf("%d OPT constructions for %d covered response writes (of %d writes)", len(opts), len(covered), nw))
	// writes of the entry point that follow an answer: those whose message is not a fresh REFUSED/BADVERS one are covered by one OPT site each
	for i, o := range opts {
		k := fmt.Sprintf("%s|opt#%d", fnName(serve), i)
		// guarded by IsEdns0() != nil
		g := hasFact(o.Block(), func(v ssa.Value, truth bool) bool {
			x, trueNil, ok := nilTest(v)
			if !ok {
				return false
			}
			call, isCall := x.(*ssa.Call)
			if !isCall {
				return false
			}
			f := calleeOf(call.Common())
			if f == nil || f.Pkg() == nil || f.Pkg().Path() != dnsPkg || funcShort(f) != "Msg.IsEdns0" {
				return false
			}
			if p, isP := call.Call.Args[0].(*ssa.Parameter); !isP || p.Type().String() != "*"+dnsPkg+".Msg" {
				return false
			}
			return trueNil != truth
		})
		c.Check(rule, k+"|only-for-edns0-requests", g, o.Pos(), "an OPT record is returned iff the request had one (RFC 6891 §7)")
		// option appended under ecs != nil
		app := false
		for _, st := range storesToField(serve, fOption) {
			if st.Addr.(*ssa.FieldAddr).X != ssa.Value(o) {
				continue
			}
			if hasFact(st.Block(), func(v ssa.Value, truth bool) bool {
				x, trueNil, ok := nilTest(v)
				return ok && isEcsPtr(c, x.Type()) && trueNil != truth
			}) {
				app = true
			}
		}
		c.Check(rule, k+"|ecs-appended-when-present", app, o.Pos(), "the client-subnet option is echoed whenever the request carried one")
		// prepended to Extra of the message that is written
		pre := false
		for _, st := range storesToField(serve, fExtra) {
			if !backSlice(st.Val, nil)[o] {
				continue
			}
			msg := st.Addr.(*ssa.FieldAddr).X
			for _, w := range callsTo(serve, func(f *types.Func) bool { return f == write }) {
				if sameSources(w.Common().Args[2], msg) && (instrDominates(st, w) || reachable(st.Block(), nil)[w.Block()]) {
					pre = true
				}
			}
		}
		c.Check(rule, k+"|attached-to-written-message", pre, o.Pos(), "the OPT is put into the message that is then written")
	}
	// no other OPT is built in the serving packages
	var others []string
	for _, fn := range c.OurFuncs("db", "dnsserver", "fbserver", "whoami") {
		if fn == serve {
			continue
		}
		for _, b := range fn.Blocks {
			for _, in := range b.Instrs {
				if a, ok := in.(*ssa.Alloc); ok && types.Identical(a.Type().(*types.Pointer).Elem(), optT) {
					// query-building helpers are fine if nothing on the query path reaches them
					others = append(others, fnName(fn))
				}
			}
		}
	}
	reach := reachableFrom(c, serve)
	var onPath []string
	for _, o := range others {
		for fn := range reach {
			if fnName(fn) == o {
				onPath = append(onPath, o)
			}
		}
	}
	c.Check(rule, "serving-packages|no-other-OPT-on-query-path", len(onPath) == 0, token.NoPos, fmt.Sprintf("OPT built elsewhere (not reachable from the query entry point): %v; reachable: %v", others, onPath))
}

func reachableFrom(c *Ctx, root *ssa.Function) map[*ssa.Function]bool {
	cg := c.CallGraph()
	seen := map[*ssa.Function]bool{}
	var walk func(fn *ssa.Function)
	walk = func(fn *ssa.Function) {
		if fn == nil || seen[fn] {
			return
		}
		seen[fn] = true
		if n := cg.Nodes[fn]; n != nil {
			for _, e := range n.Out {
				if e.Callee.Func != nil && e.Callee.Func.Pkg != nil && c.isOurs(e.Callee.Func.Pkg.Pkg) {
					walk(e.Callee.Func)
				}
			}
		}
		for _, a := range fn.AnonFuncs {
			walk(a)
		}
	}
	walk(root)
	return seen
}

func c10Fallback(c *Ctx) {
	rule := "C10.fallback"
	c.Rule(rule, "in FindLocation the resolver lookup is control dependent on (loc == nil || loc.LocID == {0,0}) of the ECS lookup's result, and an ECS lookup error returns before it")
	fn := c.Func("db", "(*DataReader).FindLocation")
	c.Examined(fn)
	var res, ecsCall ssa.CallInstruction
	// the two lookups are in FindLocation itself or in a function literal of it (the work handed to a panic guard)
	outer := fn
	var cands []*ssa.Function
	var collect func(f *ssa.Function)
	collect = func(f *ssa.Function) {
		cands = append(cands, f)
		for _, a := range f.AnonFuncs {
			collect(a)
		}
	}
	collect(outer)
	for _, cand := range cands {
		var r, e ssa.CallInstruction
		for _, ci := range callInstrs(cand) {
			cc := ci.Common()
			if cc.IsInvoke() || cc.StaticCallee() != nil {
				name := ""
				if cc.IsInvoke() {
					name = cc.Method.Name()
				} else {
					name = cc.StaticCallee().Name()
				}
				switch name {
				case "ResolverLocation":
					r = ci
				case "EcsLocation":
					e = ci
				}
			}
		}
		if r != nil && e != nil {
			res, ecsCall, fn = r, e, cand
			break
		}
	}
	if res == nil || ecsCall == nil {
		c.Undecided(rule, fnName(fn)+"|calls", fn.Pos(), "ResolverLocation / EcsLocation calls not found")
		return
	}
	fLocID := c.Field("db", "Location", "LocID")
	// The resolver call's block is entered from: loc == nil (true edge) or LocID == zero (true edge). Accept: every
	// predecessor edge into the block carries one of these facts.
	b := res.Block()
	ok := len(b.Preds) > 0
	for _, p := range b.Preds {
		iff, isIf := p.Instrs[len(p.Instrs)-1].(*ssa.If)
		if !isIf {
			ok = false
			continue
		}
		succ := 0
		if p.Succs[1] == b {
			succ = 1
		}
		var fs []fact
		condImplies(iff.Cond, succ == 0, 0, &fs)
		good := false
		for _, f := range fs {
			if x, trueNil, isNil := nilTest(f.V); isNil && trueNil == f.Truth {
				if _, isPtr := x.Type().Underlying().(*types.Pointer); isPtr {
					good = true
				}
			}
			if cmp, isB := f.V.(*ssa.BinOp); isB && (cmp.Op == token.EQL) == f.Truth && (cmp.Op == token.EQL || cmp.Op == token.NEQ) {
				if isFieldLoad(cmp.X, fLocID) || isFieldLoad(cmp.Y, fLocID) {
					good = true
				}
			}
		}
		if !good {
			ok = false
		}
	}
	c.Check(rule, fnName(fn)+"|resolver-iff-no-ecs-location", ok, res.Pos(), "resolver-based location only when the client subnet gave none; a client-subnet match is never overridden")
	ecall := ecsCall.(*ssa.Call)
	isEcsErr := func(v ssa.Value) bool { cl, idx := callOfValue(v); return cl == ecall && idx == 1 }
	// no path from the error edge of the ECS lookup reaches the resolver lookup
	edges := nilEdgesOf(fn, isEcsErr)
	okErr := len(edges) > 0
	for _, e := range edges {
		errSucc := e.If.Block().Succs[1-e.Succ]
		if reachable(errSucc, nil)[res.Block()] {
			okErr = false
		}
	}
	c.Check(rule, fnName(fn)+"|ecs-error-returns-first", okErr, res.Pos(), fmt.Sprintf("a failed ECS lookup is reported, not papered over by the resolver lookup (%d error tests of the ECS lookup; the resolver lookup must be unreachable from their error edge)", len(edges)))
}
