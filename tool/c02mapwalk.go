package main

import (
	"fmt"
	"go/token"
	"go/types"
	"strings"

	"golang.org/x/tools/go/ssa"
)

// c02MapWalk implements <prop>.map-walk: every backend resolves the map of a name by trying the name itself and then
// each of its ancestors up to the root. The label-popping loops of the FindMap implementations may therefore leave
// the loop only because a lookup answered (found / error) or because the root was reached; any other way out (an
// iteration cap, a fixed-size candidate array) makes one backend stop short of a wildcard map that the others find.
func c02MapWalk(c *Ctx, prop string) {
	rule := prop + ".map-walk"
	c.Rule(rule, "sibling agreement of the FindMap implementations (db.DBI): in the loop that pops one label per iteration, every exit edge is governed by a root test (first length byte of the remaining name == 0) or by a condition computed from a lookup call's result; no other stop condition exists")
	iface := dbiIface(c)
	scope := c.Pkg("db").Types.Scope()
	n := 0
	for _, name := range scope.Names() {
		tn, ok := scope.Lookup(name).(*types.TypeName)
		if !ok || c.isMockFile(tn.Pos()) {
			continue
		}
		named, ok := tn.Type().(*types.Named)
		if !ok {
			continue
		}
		if _, isI := named.Underlying().(*types.Interface); isI {
			continue
		}
		pt := types.NewPointer(named)
		if !types.Implements(pt, iface) {
			continue
		}
		sel := c.Prog.SSA.MethodSets.MethodSet(pt).Lookup(tn.Pkg(), "FindMap")
		if sel == nil {
			continue
		}
		fn := c.Prog.SSA.MethodValue(sel)
		if fn == nil || len(fn.Blocks) == 0 {
			continue
		}
		c.Examined(fn)
		// the label pop: a Slice of the domain parameter's current value with a low bound 1+x[0]
		loops := naturalLoops(fn)
		found := false
		for h, body := range loops {
			hasPop := false
			for b := range body {
				for _, in := range b.Instrs {
					if sl, ok := in.(*ssa.Slice); ok && sl.Low != nil && sl.High == nil {
						if bo, ok := sl.Low.(*ssa.BinOp); ok && bo.Op == token.ADD {
							if strings.Contains(sl.X.Type().String(), "[]byte") {
								hasPop = true
							}
						}
					}
				}
			}
			if !hasPop {
				continue
			}
			found = true
			k := 0
			for _, b := range fn.Blocks {
				if !body[b] {
					continue
				}
				iff, ok := b.Instrs[len(b.Instrs)-1].(*ssa.If)
				if !ok {
					continue
				}
				exits := false
				for _, s := range b.Succs {
					if !body[s] {
						exits = true
					}
				}
				if !exits {
					continue
				}
				k++
				n++
				// the condition is classified by what it DIRECTLY tests: the first length byte of the remaining name
				// against zero (root test), or a value handed back by a lookup call (its error, its data, the length of
				// its data). A test of anything else — a counter, the number of keys collected so far (seeds c02d,
				// c03r4i) — is a private stop condition even if its operands were computed from the name.
				kind := ""
				var direct func(v ssa.Value, depth int) string
				direct = func(v ssa.Value, depth int) string {
					if depth > 6 {
						return ""
					}
					switch x := unwrap(v).(type) {
					case *ssa.UnOp:
						if x.Op == token.NOT {
							return direct(x.X, depth+1)
						}
						if x.Op == token.MUL {
							if ia, ok := x.X.(*ssa.IndexAddr); ok {
								if kk, isK := constInt(ia.Index); isK && kk == 0 && strings.Contains(ia.X.Type().String(), "[]byte") {
									return "root-test"
								}
							}
						}
					case *ssa.BinOp:
						_, xc := x.X.(*ssa.Const)
						_, yc := x.Y.(*ssa.Const)
						switch {
						case yc:
							return direct(x.X, depth+1)
						case xc:
							return direct(x.Y, depth+1)
						}
					case *ssa.Extract:
						return direct(x.Tuple, depth+1)
					case *ssa.Call:
						if bi, isB := x.Call.Value.(*ssa.Builtin); isB {
							if bi.Name() == "len" && len(x.Call.Args) == 1 {
								if r := direct(x.Call.Args[0], depth+1); r == "lookup-result" {
									return r
								}
							}
							return ""
						}
						return "lookup-result"
					case *ssa.Phi:
						r := ""
						for _, e := range x.Edges {
							if k, isK := e.(*ssa.Const); isK && (k.Value == nil || k.Type().String() == "bool") {
								continue
							}
							d := direct(e, depth+1)
							if d == "" {
								return ""
							}
							r = d
						}
						return r
					}
					return ""
				}
				kind = direct(iff.Cond, 0)
				c.Check(rule, fmt.Sprintf("%s.FindMap|exit#%d@%s", name, k, describeCond(iff.Cond)), kind != "", iff.Cond.Pos(), "way out of the label walk: "+kind+" (allowed: root test, lookup result)")
			}
			_ = h
		}
		if !found {
			// a backend without a label loop (closest-key search) is covered by C02.cursor / exact-first
			c.add(rule, name+".FindMap|no-label-loop", Discharged, fn.Pos(), false, "no label-popping loop in this implementation")
		}
	}
	c.Floor(rule, 3)
}

func describeCond(v ssa.Value) string {
	if bo, ok := v.(*ssa.BinOp); ok {
		return describeValue(unwrap(bo.X)) + bo.Op.String() + describeValue(unwrap(bo.Y))
	}
	return describeValue(unwrap(v))
}

// resultLeaves enumerates the non-phi values that can reach result #idx of fn, each with the block whose facts hold
// when that value is chosen (the predecessor the phi edge comes from, or the return's own block).
type resultLeaf struct {
	V  ssa.Value
	At *ssa.BasicBlock
}

// phiLeaves enumerates the non-phi values a value can take, each with the block whose facts hold when it is chosen.
func phiLeaves(v ssa.Value) []resultLeaf {
	var out []resultLeaf
	seen := map[ssa.Value]bool{}
	var walk func(v ssa.Value, at *ssa.BasicBlock)
	walk = func(v ssa.Value, at *ssa.BasicBlock) {
		if phi, ok := v.(*ssa.Phi); ok {
			if seen[phi] {
				return
			}
			seen[phi] = true
			for i, e := range phi.Edges {
				walk(e, phi.Block().Preds[i])
			}
			return
		}
		out = append(out, resultLeaf{v, at})
	}
	var at *ssa.BasicBlock
	if in, ok := v.(ssa.Instruction); ok {
		at = in.Block()
	}
	walk(v, at)
	return out
}

func resultLeaves(fn *ssa.Function, idx int) []resultLeaf {
	var out []resultLeaf
	seen := map[ssa.Value]bool{}
	var walk func(v ssa.Value, at *ssa.BasicBlock)
	walk = func(v ssa.Value, at *ssa.BasicBlock) {
		if phi, ok := v.(*ssa.Phi); ok {
			if seen[phi] {
				return
			}
			seen[phi] = true
			for i, e := range phi.Edges {
				walk(e, phi.Block().Preds[i])
			}
			return
		}
		out = append(out, resultLeaf{v, at})
	}
	for _, ret := range returnsOf(fn) {
		if idx < len(ret.Results) {
			walk(ret.Results[idx], ret.Block())
		}
	}
	return out
}

// c02ClosestExact implements C02/C03.closest-exact: a closest-key search returns the key at or BEFORE the one asked
// for. Its value may become the function's answer only where the found key was compared equal to the search key.
// Using the value of whatever key happens to be closest (seed c03g: "the closest key is the map of an enclosing name,
// so it is the nearest enclosing map") hands an exact-name map to names below it, or another name's data to this one.
func c02ClosestExact(c *Ctx, rule string) {
	c.Rule(rule, "A2 must-facts in (*rdbdriver).findMapInSortedData: every value that reaches the map-ID result and derives from the VALUE returned by the closest-key search is chosen on an edge dominated by the true outcome of bytes.Equal(found key, search key)")
	fn := c.Func("db", "(*rdbdriver).findMapInSortedData")
	c.Examined(fn)
	var closest []*ssa.Call
	for _, ci := range callInstrs(fn) {
		call, ok := ci.(*ssa.Call)
		if !ok {
			continue
		}
		if sf := call.Common().StaticCallee(); sf != nil && (sf.Name() == "findClosest" || sf.Name() == "FindClosest") {
			closest = append(closest, call)
		}
	}
	if len(closest) == 0 {
		c.Undecided(rule, fnName(fn)+"|closest-call", fn.Pos(), "no closest-key search found")
		return
	}
	n := 0
	for _, leaf := range resultLeaves(fn, 0) {
		if isNilConst(leaf.V) {
			continue
		}
		var from *ssa.Call
		for v := range backSlice(leaf.V, nil) {
			if call, idx := callOfValue(v); call != nil && idx == 1 {
				for _, cl := range closest {
					if cl == call {
						from = cl
					}
				}
			}
		}
		if from == nil {
			continue
		}
		n++
		exact := false
		for _, f := range factsAt(leaf.At) {
			eq := isCallToFunc(f.V, "bytes", "Equal")
			if eq == nil || !f.Truth {
				continue
			}
			hasFound, hasKey := false, false
			for _, a := range eq.Call.Args {
				for v := range backSlice(a, nil) {
					if call, idx := callOfValue(v); call == from && idx == 0 {
						hasFound = true
					}
				}
				for s := range sourcesOf(a) {
					for ks := range sourcesOf(from.Call.Args[len(from.Call.Args)-2]) {
						if s == ks {
							hasKey = true
						}
					}
				}
			}
			if hasFound && hasKey {
				exact = true
			}
		}
		c.Check(rule, fmt.Sprintf("%s|value-as-answer#%d|under-exact-key-match", fnName(fn), n), exact, leaf.V.Pos(), "the closest key's value is the answer only when the closest key IS the key searched for")
	}
	c.Floor(rule, 1)
}

// c02DriverFeature implements C02.driver-feature: which reader a RocksDB driver uses (label by label or closest key) is
// decided by the key layout OF THE DATABASE IT HOLDS. Every rdbdriver value gets its layout flag from
// IsV2KeySyntaxUsed() asked of the very handle stored in its db field; a flag carried over from another driver (seed
// c02r4i: a full reload keeping the running driver's flag) reads a v1 database with the v2 reader or vice versa, and
// every query is REFUSED.
func c02DriverFeature(c *Ctx) {
	rule := "C02.driver-feature"
	c.Rule(rule, "A8: every store to rdbdriver's key-layout flag (the bool field that selects the reader) is the result of (*rdb.RDB).IsV2KeySyntaxUsed called on the value stored into the db field of the same driver value")
	named := c.Named("db", "rdbdriver")
	st := structOf(named)
	var fFlag, fDB *types.Var
	for i := 0; st != nil && i < st.NumFields(); i++ {
		f := st.Field(i)
		if bt, ok := f.Type().Underlying().(*types.Basic); ok && bt.Kind() == types.Bool {
			fFlag = f
		}
		if strings.HasSuffix(f.Type().String(), "rdb.RDB") {
			fDB = f
		}
	}
	if fFlag == nil || fDB == nil {
		c.Undecided(rule, "rdbdriver|fields", token.NoPos, "layout flag / database handle fields not found")
		return
	}
	n := 0
	for _, fn := range c.OurFuncs("db") {
		for _, stf := range storesToField(fn, fFlag) {
			n++
			c.Examined(fn)
			fa := stf.Addr.(*ssa.FieldAddr)
			// the handle stored into the same driver value
			var handles []ssa.Value
			for _, st2 := range storesToField(fn, fDB) {
				if st2.Addr.(*ssa.FieldAddr).X == fa.X {
					handles = append(handles, st2.Val)
				}
			}
			ok := false
			for s := range sourcesOf(stf.Val) {
				call, _ := callOfValue(s)
				if call == nil {
					ok = false
					break
				}
				f := calleeOf(call.Common())
				if f == nil || f.Name() != "IsV2KeySyntaxUsed" || len(call.Call.Args) == 0 {
					ok = false
					break
				}
				same := false
				for _, h := range handles {
					if sameSources(h, call.Call.Args[0]) {
						same = true
					}
				}
				ok = same
				if !ok {
					break
				}
			}
			c.Check(rule, fmt.Sprintf("%s|flag-store#%d|asked-of-its-own-database", fnName(fn), n), ok, stf.Pos(), "the driver's key-layout flag comes from the features key of the database the driver holds")
		}
	}
	c.Floor(rule, 1)
}
