package main

import (
	"fmt"
	"go/token"
	"go/types"
	"strings"

	"golang.org/x/tools/go/ssa"
)

// c02MapWalk implements <prop>.map-walk: every backend resolves the map of a name by trying the name itself and then
// each of its ancestors up to the root. The label-popping loops of the FindMap implementations may therefore leave
// the loop only because a lookup answered (found / error) or because the root was reached; any other way out (an
// iteration cap, a fixed-size candidate array) makes one backend stop short of a wildcard map that the others find.
func c02MapWalk(c *Ctx, prop string) {
	rule := prop + ".map-walk"
	c.Rule(rule, "sibling agreement of the FindMap implementations (db.DBI): in the loop that pops one label per iteration, every exit edge is governed by a root test (first length byte of the remaining name == 0) or by a condition computed from a lookup call's result; no other stop condition exists")
	iface := dbiIface(c)
	scope := c.Pkg("db").Types.Scope()
	n := 0
	for _, name := range scope.Names() {
		tn, ok := scope.Lookup(name).(*types.TypeName)
		if !ok || c.isMockFile(tn.Pos()) {
			continue
		}
		named, ok := tn.Type().(*types.Named)
		if !ok {
			continue
		}
		if _, isI := named.Underlying().(*types.Interface); isI {
			continue
		}
		pt := types.NewPointer(named)
		if !types.Implements(pt, iface) {
			continue
		}
		sel := c.Prog.SSA.MethodSets.MethodSet(pt).Lookup(tn.Pkg(), "FindMap")
		if sel == nil {
			continue
		}
		fn := c.Prog.SSA.MethodValue(sel)
		if fn == nil || len(fn.Blocks) == 0 {
			continue
		}
		c.Examined(fn)
		// the label pop: a Slice of the domain parameter's current value with a low bound 1+x[0]
		loops := naturalLoops(fn)
		found := false
		for h, body := range loops {
			hasPop := false
			for b := range body {
				for _, in := range b.Instrs {
					if sl, ok := in.(*ssa.Slice); ok && sl.Low != nil && sl.High == nil {
						if bo, ok := sl.Low.(*ssa.BinOp); ok && bo.Op == token.ADD {
							if strings.Contains(sl.X.Type().String(), "[]byte") {
								hasPop = true
							}
						}
					}
				}
			}
			if !hasPop {
				continue
			}
			found = true
			k := 0
			for b := range body {
				iff, ok := b.Instrs[len(b.Instrs)-1].(*ssa.If)
				if !ok {
					continue
				}
				exits := false
				for _, s := range b.Succs {
					if !body[s] {
						exits = true
					}
				}
				if !exits {
					continue
				}
				k++
				n++
				kind := ""
				for v := range backSlice(iff.Cond, nil) {
					switch x := v.(type) {
					case *ssa.Call:
						if _, isB := x.Call.Value.(*ssa.Builtin); !isB {
							kind = "lookup-result"
						}
					case *ssa.IndexAddr:
						if kk, isK := constInt(x.Index); isK && kk == 0 && strings.Contains(x.X.Type().String(), "[]byte") && kind == "" {
							kind = "root-test"
						}
					}
				}
				c.Check(rule, fmt.Sprintf("%s.FindMap|exit@%s", name, describeCond(iff.Cond)), kind != "", iff.Cond.Pos(), "way out of the label walk: "+kind+" (allowed: root test, lookup result)")
			}
			_ = h
		}
		if !found {
			// a backend without a label loop (closest-key search) is covered by C02.cursor / exact-first
			c.add(rule, name+".FindMap|no-label-loop", Discharged, fn.Pos(), false, "no label-popping loop in this implementation")
		}
	}
	c.Floor(rule, 3)
}

func describeCond(v ssa.Value) string {
	if bo, ok := v.(*ssa.BinOp); ok {
		return describeValue(unwrap(bo.X)) + bo.Op.String() + describeValue(unwrap(bo.Y))
	}
	return describeValue(unwrap(v))
}

// resultLeaves enumerates the non-phi values that can reach result #idx of fn, each with the block whose facts hold
// when that value is chosen (the predecessor the phi edge comes from, or the return's own block).
type resultLeaf struct {
	V  ssa.Value
	At *ssa.BasicBlock
}

// phiLeaves enumerates the non-phi values a value can take, each with the block whose facts hold when it is chosen.
func phiLeaves(v ssa.Value) []resultLeaf {
	var out []resultLeaf
	seen := map[ssa.Value]bool{}
	var walk func(v ssa.Value, at *ssa.BasicBlock)
	walk = func(v ssa.Value, at *ssa.BasicBlock) {
		if phi, ok := v.(*ssa.Phi); ok {
			if seen[phi] {
				return
			}
			seen[phi] = true
			for i, e := range phi.Edges {
				walk(e, phi.Block().Preds[i])
			}
			return
		}
		out = append(out, resultLeaf{v, at})
	}
	var at *ssa.BasicBlock
	if in, ok := v.(ssa.Instruction); ok {
		at = in.Block()
	}
	walk(v, at)
	return out
}

func resultLeaves(fn *ssa.Function, idx int) []resultLeaf {
	var out []resultLeaf
	seen := map[ssa.Value]bool{}
	var walk func(v ssa.Value, at *ssa.BasicBlock)
	walk = func(v ssa.Value, at *ssa.BasicBlock) {
		if phi, ok := v.(*ssa.Phi); ok {
			if seen[phi] {
				return
			}
			seen[phi] = true
			for i, e := range phi.Edges {
				walk(e, phi.Block().Preds[i])
			}
			return
		}
		out = append(out, resultLeaf{v, at})
	}
	for _, ret := range returnsOf(fn) {
		if idx < len(ret.Results) {
			walk(ret.Results[idx], ret.Block())
		}
	}
	return out
}

// c02ClosestExact implements C02/C03.closest-exact: a closest-key search returns the key at or BEFORE the one asked
// for. Its value may become the function's answer only where the found key was compared equal to the search key.
// Using the value of whatever key happens to be closest (seed c03g: "the closest key is the map of an enclosing name,
// so it is the nearest enclosing map") hands an exact-name map to names below it, or another name's data to this one.
func c02ClosestExact(c *Ctx, rule string) {
	c.Rule(rule, "A2 must-facts in (*rdbdriver).findMapInSortedData: every value that reaches the map-ID result and derives from the VALUE returned by the closest-key search is chosen on an edge dominated by the true outcome of bytes.Equal(found key, search key)")
	fn := c.Func("db", "(*rdbdriver).findMapInSortedData")
	c.Examined(fn)
	var closest []*ssa.Call
	for _, ci := range callInstrs(fn) {
		call, ok := ci.(*ssa.Call)
		if !ok {
			continue
		}
		if sf := call.Common().StaticCallee(); sf != nil && (sf.Name() == "findClosest" || sf.Name() == "FindClosest") {
			closest = append(closest, call)
		}
	}
	if len(closest) == 0 {
		c.Undecided(rule, fnName(fn)+"|closest-call", fn.Pos(), "no closest-key search found")
		return
	}
	n := 0
	for _, leaf := range resultLeaves(fn, 0) {
		if isNilConst(leaf.V) {
			continue
		}
		var from *ssa.Call
		for v := range backSlice(leaf.V, nil) {
			if call, idx := callOfValue(v); call != nil && idx == 1 {
				for _, cl := range closest {
					if cl == call {
						from = cl
					}
				}
			}
		}
		if from == nil {
			continue
		}
		n++
		exact := false
		for _, f := range factsAt(leaf.At) {
			eq := isCallToFunc(f.V, "bytes", "Equal")
			if eq == nil || !f.Truth {
				continue
			}
			hasFound, hasKey := false, false
			for _, a := range eq.Call.Args {
				for v := range backSlice(a, nil) {
					if call, idx := callOfValue(v); call == from && idx == 0 {
						hasFound = true
					}
				}
				for s := range sourcesOf(a) {
					for ks := range sourcesOf(from.Call.Args[len(from.Call.Args)-2]) {
						if s == ks {
							hasKey = true
						}
					}
				}
			}
			if hasFound && hasKey {
				exact = true
			}
		}
		c.Check(rule, fmt.Sprintf("%s|value-as-answer#%d|under-exact-key-match", fnName(fn), n), exact, leaf.V.Pos(), "the closest key's value is the answer only when the closest key IS the key searched for")
	}
	c.Floor(rule, 1)
}
