package main

// c01table.go — C01.decision-table: finite-domain abstract interpretation of
// the branch structure of the query entry point over the atoms
// {ns, auth0, auth1, isDS, atRoot, empty, recordFound, hasNS}.

import (
	"fmt"
	"go/token"
	"go/types"
	"sort"
	"strings"

	"golang.org/x/tools/go/ssa"
)

type dtAtoms struct {
	ns, auth0, auth1, isDS, notRoot, empty, found, hasNS func(v ssa.Value) bool
}

func c01DecisionTable(c *Ctx, rule string) {
	c.Rule(rule, "A2 control dependence by finite-domain abstract interpretation of ServeDNSWithRCODE's CFG: for each of the 256 assignments to the atoms ns, auth (first evaluation), auth (DS re-evaluation), type is DS, name is not the root, answer section empty, record found, NS already present — taking the edge an atom dictates, the no-error edge of every error test and both edges of any other condition — the set of constructs that can be reached equals the oracle from the property statement: REFUSED ⇔ ¬ns∧¬auth; otherwise AA cleared ⇔ ¬auth; FindAnswer ⇔ auth; NXDOMAIN ⇔ auth∧empty∧¬found; FindSOA ⇔ auth∧empty; GetNs ⇔ ¬auth∧¬hasNS; additional-section processing of answer and authority on every path to the final write")
	fn := c.Func("dnsserver", "(*FBDNSDB).ServeDNSWithRCODE")
	c.Examined(fn)
	// locate anchors
	var isAuthCalls []*ssa.Call
	var findAnswer, hasRecord, findSOA, getNs *ssa.Call
	var addl []*ssa.Call
	var finalWrite, refusedWrite ssa.CallInstruction
	write := c.TypesFunc("dnsserver", "(*FBDNSDB).writeAndLog")
	for _, ci := range callInstrs(fn) {
		call, ok := ci.(*ssa.Call)
		if !ok {
			continue
		}
		cc := call.Common()
		switch {
		case cc.IsInvoke() && cc.Method.Name() == "IsAuthoritative":
			isAuthCalls = append(isAuthCalls, call)
		case cc.IsInvoke() && cc.Method.Name() == "FindAnswer":
			findAnswer = call
		case cc.StaticCallee() != nil && cc.StaticCallee().Name() == "HasRecord":
			hasRecord = call
		case cc.StaticCallee() != nil && cc.StaticCallee().Name() == "FindSOA":
			findSOA = call
		case cc.StaticCallee() != nil && cc.StaticCallee().Name() == "GetNs":
			getNs = call
		case cc.StaticCallee() != nil && cc.StaticCallee().Name() == "AdditionalSectionForRecords":
			addl = append(addl, call)
		}
	}
	sort.Slice(isAuthCalls, func(i, j int) bool { return isAuthCalls[i].Pos() < isAuthCalls[j].Pos() })
	if len(isAuthCalls) != 2 || findAnswer == nil || hasRecord == nil || findSOA == nil || getNs == nil || len(addl) != 2 {
		c.Undecided(rule, fnName(fn)+"|anchors", fn.Pos(), fmt.Sprintf("anchors not found (IsAuthoritative calls: %d, FindAnswer: %v, HasRecord: %v, FindSOA: %v, GetNs: %v, AdditionalSectionForRecords: %d)", len(isAuthCalls), findAnswer != nil, hasRecord != nil, findSOA != nil, getNs != nil, len(addl)))
		return
	}
	// the final write: the writeAndLog call dominated by both additional-section calls; the refused write: the one whose message gets SetRcode(..., 5)
	for _, w := range callsTo(fn, func(f *types.Func) bool { return f == write }) {
		if sameSources(w.Common().Args[2], findAnswer.Call.Args[5]) {
			finalWrite = w // the write of the message the answer was built in
		}
		for s := range sourcesOf(w.Common().Args[2]) {
			if a, ok := s.(*ssa.Alloc); ok {
				for _, r := range *a.Referrers() {
					if call, ok := r.(*ssa.Call); ok {
						if f := calleeOf(call.Common()); f != nil && f.Name() == "SetRcode" {
							if k, isK := constInt(call.Call.Args[2]); isK && k == 5 {
								refusedWrite = w
							}
						}
					}
				}
			}
		}
	}
	if finalWrite == nil || refusedWrite == nil {
		c.Undecided(rule, fnName(fn)+"|writes", fn.Pos(), "final write / REFUSED write not identified")
		return
	}
	fAnswer := fieldByName(c, dnsPkg, "Msg", "Answer")
	fAA := fieldByName(c, dnsPkg, "MsgHdr", "Authoritative")
	fRcode := fieldByName(c, dnsPkg, "MsgHdr", "Rcode")
	// an atom matcher reports (matched, negated): `x != 43` is the atom isDS negated
	extractOf := func(call *ssa.Call, idx int) func(ssa.Value) (bool, bool) {
		return func(v ssa.Value) (bool, bool) {
			ex, ok := v.(*ssa.Extract)
			return ok && ex.Tuple == ssa.Value(call) && ex.Index == idx, false
		}
	}
	atoms := []struct {
		name  string
		match func(v ssa.Value) (bool, bool)
	}{
		{"ns", extractOf(isAuthCalls[0], 0)},
		{"auth0", extractOf(isAuthCalls[0], 1)},
		{"auth1", extractOf(isAuthCalls[1], 1)},
		{"isDS", func(v ssa.Value) (bool, bool) {
			b, ok := v.(*ssa.BinOp)
			if !ok || (b.Op != token.EQL && b.Op != token.NEQ) {
				return false, false
			}
			x, y := b.X, b.Y
			if _, isK := constInt(x); isK {
				x, y = y, x
			}
			k, isK := constInt(y)
			if !isK || k != 43 {
				return false, false
			}
			call, isCall := x.(*ssa.Call)
			return isCall && calleeOf(call.Common()) != nil && calleeOf(call.Common()).Name() == "QType", b.Op == token.NEQ
		}},
		{"notRoot", func(v ssa.Value) (bool, bool) {
			x, op, ok := cmpZero(v)
			if !ok || firstByteOf(x) == nil {
				return false, false
			}
			switch op {
			case token.NEQ, token.GTR:
				return true, false
			case token.EQL:
				return true, true
			}
			return false, false
		}},
		{"empty", func(v ssa.Value) (bool, bool) {
			b, ok := v.(*ssa.BinOp)
			if !ok {
				return false, false
			}
			k, isK := constInt(b.Y)
			ln := isBuiltinCall(b.X, "len")
			if !(isK && k == 0 && ln != nil && isFieldLoad(ln.Call.Args[0], fAnswer)) {
				return false, false
			}
			switch b.Op {
			case token.EQL:
				return true, false
			case token.NEQ, token.GTR:
				return true, true
			}
			return false, false
		}},
		{"found", extractOf(findAnswer, 1)},
		{"hasNS", func(v ssa.Value) (bool, bool) { return v == ssa.Value(hasRecord), false }},
	}
	// constructs
	type construct struct {
		name   string
		at     func(in ssa.Instruction) bool
		oracle func(a map[string]bool) bool
	}
	eff := func(a map[string]bool) bool {
		if !a["auth0"] && a["isDS"] && a["notRoot"] {
			return a["auth1"]
		}
		return a["auth0"]
	}
	refused := func(a map[string]bool) bool { return !a["ns"] && !a["auth0"] }
	constructs := []construct{
		{"REFUSED-reply", func(in ssa.Instruction) bool { return in == refusedWrite.(ssa.Instruction) }, func(a map[string]bool) bool { return refused(a) }},
		{"AA-cleared", func(in ssa.Instruction) bool {
			st, ok := in.(*ssa.Store)
			if !ok {
				return false
			}
			fa, ok := st.Addr.(*ssa.FieldAddr)
			if !ok || fieldOf(fa) != fAA {
				return false
			}
			k, isK := st.Val.(*ssa.Const)
			return isK && k.Value != nil && k.Value.String() == "false"
		}, func(a map[string]bool) bool { return !refused(a) && !eff(a) }},
		{"FindAnswer", func(in ssa.Instruction) bool { return in == ssa.Instruction(findAnswer) }, func(a map[string]bool) bool { return !refused(a) && eff(a) }},
		{"NXDOMAIN", func(in ssa.Instruction) bool {
			st, ok := in.(*ssa.Store)
			if !ok {
				return false
			}
			fa, ok := st.Addr.(*ssa.FieldAddr)
			if !ok || fieldOf(fa) != fRcode {
				return false
			}
			k, isK := constInt(st.Val)
			return isK && k == 3
		}, func(a map[string]bool) bool { return !refused(a) && eff(a) && a["empty"] && !a["found"] }},
		{"FindSOA", func(in ssa.Instruction) bool { return in == ssa.Instruction(findSOA) }, func(a map[string]bool) bool { return !refused(a) && eff(a) && a["empty"] }},
		{"GetNs", func(in ssa.Instruction) bool { return in == ssa.Instruction(getNs) }, func(a map[string]bool) bool { return !refused(a) && !eff(a) && !a["hasNS"] }},
		{"final-write", func(in ssa.Instruction) bool { return in == finalWrite.(ssa.Instruction) }, func(a map[string]bool) bool { return !refused(a) }},
	}
	// interpreter
	atomOf := func(v ssa.Value) (int, bool) {
		for i, a := range atoms {
			if m, neg := a.match(v); m {
				return i, neg
			}
		}
		return -1, false
	}
	type tri int // 0 unknown, 1 true, 2 false
	var eval func(v ssa.Value, asg []bool, env map[*ssa.Phi]tri) tri
	eval = func(v ssa.Value, asg []bool, env map[*ssa.Phi]tri) tri {
		if k, ok := v.(*ssa.Const); ok && k.Value != nil {
			switch k.Value.String() {
			case "true":
				return 1
			case "false":
				return 2
			}
		}
		if i, neg := atomOf(v); i >= 0 {
			if asg[i] != neg {
				return 1
			}
			return 2
		}
		switch x := v.(type) {
		case *ssa.UnOp:
			if x.Op == token.NOT {
				switch eval(x.X, asg, env) {
				case 1:
					return 2
				case 2:
					return 1
				}
				return 0
			}
		case *ssa.Phi:
			return env[x]
		case *ssa.BinOp:
			if y, trueNil, ok := nilTest(x); ok && y.Type().String() == "error" {
				// errors are nil in this abstraction
				if trueNil {
					return 1
				}
				return 2
			}
		}
		return 0
	}
	reachedBy := map[string]map[string]bool{} // construct -> assignment string -> reached
	for _, k := range constructs {
		reachedBy[k.name] = map[string]bool{}
	}
	mustAddl := true
	nAsg := 1 << len(atoms)
	for m := 0; m < nAsg; m++ {
		asg := make([]bool, len(atoms))
		am := map[string]bool{}
		for i := range atoms {
			asg[i] = m&(1<<i) != 0
			am[atoms[i].name] = asg[i]
		}
		key := fmt.Sprint(m)
		type st struct {
			b   *ssa.BasicBlock
			env string
		}
		seen := map[st]bool{}
		var walk func(b *ssa.BasicBlock, from *ssa.BasicBlock, env map[*ssa.Phi]tri, skip map[*ssa.BasicBlock]bool) bool
		walk = func(b *ssa.BasicBlock, from *ssa.BasicBlock, env map[*ssa.Phi]tri, skip map[*ssa.BasicBlock]bool) bool {
			// bind boolean phis of b
			nenv := env
			for _, in := range b.Instrs {
				phi, ok := in.(*ssa.Phi)
				if !ok {
					break
				}
				if bt, isB := phi.Type().Underlying().(*types.Basic); !isB || bt.Kind() != types.Bool {
					continue
				}
				for i, p := range b.Preds {
					if p == from {
						if nenv2 := (map[*ssa.Phi]tri{}); true {
							for k, v := range nenv {
								nenv2[k] = v
							}
							nenv2[phi] = eval(phi.Edges[i], asg, nenv)
							nenv = nenv2
						}
					}
				}
			}
			var es []string
			for k, v := range nenv {
				es = append(es, fmt.Sprintf("%s=%d", k.Name(), v))
			}
			sort.Strings(es)
			s := st{b, strings.Join(es, ",")}
			if seen[s] {
				return false
			}
			seen[s] = true
			if skip[b] {
				return false
			}
			hitFinal := false
			for _, in := range b.Instrs {
				if skip == nil {
					for _, k := range constructs {
						if k.at(in) {
							reachedBy[k.name][key] = true
						}
					}
				}
				if in == finalWrite.(ssa.Instruction) {
					hitFinal = true
				}
			}
			if iff, ok := b.Instrs[len(b.Instrs)-1].(*ssa.If); ok {
				switch eval(iff.Cond, asg, nenv) {
				case 1:
					return walk(b.Succs[0], b, nenv, skip) || hitFinal
				case 2:
					return walk(b.Succs[1], b, nenv, skip) || hitFinal
				}
			}
			r := hitFinal
			for _, sb := range b.Succs {
				if walk(sb, b, nenv, skip) {
					r = true
				}
			}
			return r
		}
		walk(fn.Blocks[0], nil, map[*ssa.Phi]tri{}, nil)
		// must-pass: with an additional-section call removed, the final write is unreachable
		if !refused(am) {
			for _, a := range addl {
				seen = map[st]bool{}
				if walk(fn.Blocks[0], nil, map[*ssa.Phi]tri{}, map[*ssa.BasicBlock]bool{a.Block(): true}) {
					mustAddl = false
				}
			}
		}
	}
	for _, k := range constructs {
		var wrongReach, wrongMiss []string
		for m := 0; m < nAsg; m++ {
			am := map[string]bool{}
			var desc []string
			for i := range atoms {
				am[atoms[i].name] = m&(1<<i) != 0
				if am[atoms[i].name] {
					desc = append(desc, atoms[i].name)
				} else {
					desc = append(desc, "¬"+atoms[i].name)
				}
			}
			got := reachedBy[k.name][fmt.Sprint(m)]
			want := k.oracle(am)
			if got && !want && len(wrongReach) < 2 {
				wrongReach = append(wrongReach, strings.Join(desc, "∧"))
			}
			if !got && want && len(wrongMiss) < 2 {
				wrongMiss = append(wrongMiss, strings.Join(desc, "∧"))
			}
		}
		detail := "reachable exactly under the oracle's condition (256 assignments)"
		if len(wrongReach)+len(wrongMiss) > 0 {
			detail = fmt.Sprintf("reachable although the property forbids it under e.g. %v; not reachable although required under e.g. %v", wrongReach, wrongMiss)
		}
		c.Check(rule, fnName(fn)+"|"+k.name, len(wrongReach)+len(wrongMiss) == 0, fn.Pos(), detail)
	}
	c.Check(rule, fnName(fn)+"|additional-section-on-every-path-to-final-write", mustAddl, addl[0].Pos(), "glue / additional addresses are computed for the answer and for the authority section before any non-REFUSED response is written")
}

// c01WalkName — C01.walk-name: every zone-cut search (Reader.IsAuthoritative) and the answer search (FindAnswer) made
// by the query entry point start from the packed QUERY name, possibly with leading labels removed; never from the
// zone cut an earlier search returned. nc: "a referral at or below a delegation" — the closest enclosing zone cut of
// the query name (or of its parent for DS) is only found by walking up from the query name itself; starting above the
// cut found first (seed c01g: the DS re-evaluation popped a label off the cut) skips the delegation and answers
// authoritatively from the parent zone.
func c01WalkName(c *Ctx, rule string) {
	c.Rule(rule, "A8 value provenance in ServeDNSWithRCODE: the name argument of every Reader.IsAuthoritative call and of FindAnswer is the buffer the question name was packed into (dns.PackDomainName) or a re-slice of it; no value returned by an IsAuthoritative call flows into the name argument of another zone search")
	fn := c.Func("dnsserver", "(*FBDNSDB).ServeDNSWithRCODE")
	c.Examined(fn)
	// the packed-name buffer: first argument slice of dns.PackDomainName's destination
	var packed ssa.Value
	for _, ci := range callInstrs(fn) {
		if f := calleeOf(ci.Common()); f != nil && f.Name() == "PackDomainName" && len(ci.Common().Args) >= 2 {
			packed = ci.Common().Args[1]
		}
	}
	if packed == nil {
		c.Undecided(rule, fnName(fn)+"|packed-name", fn.Pos(), "dns.PackDomainName call not found")
		return
	}
	packedSrc := sourcesOf(packed)
	n := 0
	for _, ci := range callInstrs(fn) {
		cc := ci.Common()
		if !cc.IsInvoke() || (cc.Method.Name() != "IsAuthoritative" && cc.Method.Name() != "FindAnswer") || len(cc.Args) == 0 {
			continue
		}
		n++
		fromPacked, fromSearch := false, ""
		for v := range backSlice(cc.Args[0], func(v ssa.Value) bool {
			// do not look through calls other than re-slicing
			_, isCall := v.(*ssa.Call)
			return isCall
		}) {
			for s := range sourcesOf(v) {
				if packedSrc[s] {
					fromPacked = true
				}
			}
			if ex, ok := v.(*ssa.Extract); ok {
				if call, ok := ex.Tuple.(*ssa.Call); ok && call.Common().IsInvoke() && call.Common().Method.Name() == "IsAuthoritative" {
					fromSearch = "result #" + fmt.Sprint(ex.Index) + " of an earlier IsAuthoritative"
				}
			}
		}
		c.Check(rule, fmt.Sprintf("%s|%s#%d|name-is-the-query-name", fnName(fn), cc.Method.Name(), n), fromPacked && fromSearch == "", ci.Pos(),
			fmt.Sprintf("derives from the packed query name: %v; derives from %s", fromPacked, map[bool]string{true: "nothing else", false: fromSearch}[fromSearch == ""]))
	}
	c.Floor(rule, 3)
}
