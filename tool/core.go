package main

// core.go — loading of /repo/dnsrocks, symbol lookup, obligations.

import (
	"fmt"
	"go/ast"
	"go/token"
	"go/types"
	"os"
	"path/filepath"
	"sort"
	"strings"

	"golang.org/x/tools/go/callgraph"
	"golang.org/x/tools/go/callgraph/cha"
	"golang.org/x/tools/go/callgraph/vta"
	"golang.org/x/tools/go/packages"
	"golang.org/x/tools/go/ssa"
	"golang.org/x/tools/go/ssa/ssautil"
)

const modPath = "github.com/facebookincubator/dns/dnsrocks"
const cdbPath = "github.com/repustate/go-cdb"

// minPackages is the number of packages of the module (30) plus the nested,
// replaced go-cdb module (1) confirmed on the pinned tree.
const minPackages = 31

// Prog is the loaded, type-checked program plus SSA.
type Prog struct {
	Root    string // directory of the dnsrocks module
	Fset    *token.FileSet
	All     []*packages.Package
	Pkgs    map[string]*packages.Package // key: path relative to module ("db", "dnsdata/rdb"), "go-cdb" for the nested one
	SSA     *ssa.Program
	SSAPkgs map[string]*ssa.Package
	cg      *callgraph.Graph
	allFns  map[*ssa.Function]bool
	nFuncs  int
	// syntax index
	declOf map[*types.Func]*ast.FuncDecl
	fileOf map[*ast.File]*packages.Package
}

// UndecidedError is raised (as a panic) by lookup helpers when an anchor that
// the rules rely on cannot be resolved. It makes the check exit 2.
type UndecidedError struct{ Msg string }

func (e UndecidedError) Error() string { return e.Msg }

func undecided(format string, a ...interface{}) {
	panic(UndecidedError{fmt.Sprintf(format, a...)})
}

func shortPkg(path string) string {
	if path == cdbPath {
		return "go-cdb"
	}
	if path == modPath {
		return "."
	}
	return strings.TrimPrefix(path, modPath+"/")
}

// Load loads the module at root (the dnsrocks directory). overlay may be nil.
func Load(root string, overlay map[string][]byte, env []string) (*Prog, error) {
	cfg := &packages.Config{
		Mode:    packages.LoadSyntax,
		Dir:     root,
		Tests:   false,
		Overlay: overlay,
		Env:     append(os.Environ(), append([]string{"GOFLAGS=-mod=mod", "GOPROXY=off", "GOSUMDB=off", "GOTOOLCHAIN=local", "GOWORK=off"}, env...)...),
	}
	pkgs, err := packages.Load(cfg, "./...", cdbPath)
	if err != nil {
		return nil, fmt.Errorf("packages.Load: %w", err)
	}
	p := &Prog{Root: root, All: pkgs, Pkgs: map[string]*packages.Package{}, SSAPkgs: map[string]*ssa.Package{},
		declOf: map[*types.Func]*ast.FuncDecl{}, fileOf: map[*ast.File]*packages.Package{}}
	var errs []string
	for _, pk := range pkgs {
		for _, e := range pk.Errors {
			errs = append(errs, e.Error())
		}
		if pk.IllTyped {
			errs = append(errs, pk.PkgPath+": ill-typed")
		}
	}
	if len(errs) > 0 {
		sort.Strings(errs)
		if len(errs) > 10 {
			errs = errs[:10]
		}
		return nil, fmt.Errorf("load/type errors: %s", strings.Join(errs, "; "))
	}
	if len(pkgs) < minPackages {
		return nil, fmt.Errorf("only %d packages loaded, expected at least %d", len(pkgs), minPackages)
	}
	for _, pk := range pkgs {
		p.Pkgs[shortPkg(pk.PkgPath)] = pk
		p.Fset = pk.Fset
		for _, f := range pk.Syntax {
			p.fileOf[f] = pk
			for _, d := range f.Decls {
				if fd, ok := d.(*ast.FuncDecl); ok {
					if obj, ok := pk.TypesInfo.Defs[fd.Name].(*types.Func); ok {
						p.declOf[obj] = fd
					}
				}
			}
		}
	}
	prog, spkgs := ssautil.Packages(pkgs, ssa.InstantiateGenerics)
	prog.Build()
	p.SSA = prog
	for i, sp := range spkgs {
		if sp == nil {
			return nil, fmt.Errorf("no SSA for %s", pkgs[i].PkgPath)
		}
		p.SSAPkgs[shortPkg(pkgs[i].PkgPath)] = sp
	}
	p.allFns = ssautil.AllFunctions(prog)
	for fn := range p.allFns {
		if fn.Pkg != nil && p.isOurs(fn.Pkg.Pkg) && fn.Blocks != nil {
			p.nFuncs++
		}
	}
	return p, nil
}

func (p *Prog) isOurs(pk *types.Package) bool {
	if pk == nil {
		return false
	}
	return pk.Path() == cdbPath || pk.Path() == modPath || strings.HasPrefix(pk.Path(), modPath+"/")
}

// isAnalysed reports whether a source position lies in a non-test, non-mock
// file of the module.
func (p *Prog) relPos(pos token.Pos) string {
	if !pos.IsValid() {
		return "-"
	}
	ps := p.Fset.Position(pos)
	rel, err := filepath.Rel(p.Root, ps.Filename)
	if err != nil || strings.HasPrefix(rel, "..") {
		rel = ps.Filename
	}
	return fmt.Sprintf("%s:%d", rel, ps.Line)
}

func (p *Prog) isMockFile(pos token.Pos) bool {
	if !pos.IsValid() {
		return false
	}
	fn := p.Fset.Position(pos).Filename
	return strings.HasSuffix(fn, "_mock.go") || strings.HasSuffix(fn, "_test.go") || strings.Contains(fn, "/testaid/") || strings.Contains(fn, "/testutils/")
}

// CallGraph returns the VTA call graph (seeded by CHA), built on first use.
func (p *Prog) CallGraph() *callgraph.Graph {
	if p.cg == nil {
		p.cg = vta.CallGraph(p.allFns, cha.CallGraph(p.SSA))
	}
	return p.cg
}

// Pkg returns the package with the given module-relative path.
func (p *Prog) Pkg(short string) *packages.Package {
	pk := p.Pkgs[short]
	if pk == nil {
		undecided("package %q not found", short)
	}
	return pk
}

// Obj looks up a package-level object.
func (p *Prog) Obj(pkg, name string) types.Object {
	o := p.Pkg(pkg).Types.Scope().Lookup(name)
	if o == nil {
		undecided("object %s.%s not found", pkg, name)
	}
	return o
}

// Named returns the named type pkg.name.
func (p *Prog) Named(pkg, name string) *types.Named {
	tn, ok := p.Obj(pkg, name).(*types.TypeName)
	if !ok {
		undecided("%s.%s is not a type", pkg, name)
	}
	n, ok := tn.Type().(*types.Named)
	if !ok {
		undecided("%s.%s is not a named type", pkg, name)
	}
	return n
}

// Field returns the struct field pkg.typ.field.
func (p *Prog) Field(pkg, typ, field string) *types.Var {
	st, ok := p.Named(pkg, typ).Underlying().(*types.Struct)
	if !ok {
		undecided("%s.%s is not a struct", pkg, typ)
	}
	for i := 0; i < st.NumFields(); i++ {
		if st.Field(i).Name() == field {
			return st.Field(i)
		}
	}
	if f := renamedField(st, pkg, typ, field); f != nil {
		return f
	}
	undecided("field %s.%s.%s not found", pkg, typ, field)
	return nil
}

// FieldOpt is Field without the failure.
func (p *Prog) FieldOpt(pkg, typ, field string) *types.Var {
	pk := p.Pkgs[pkg]
	if pk == nil {
		return nil
	}
	o := pk.Types.Scope().Lookup(typ)
	if o == nil {
		return nil
	}
	st, ok := o.Type().Underlying().(*types.Struct)
	if !ok {
		return nil
	}
	for i := 0; i < st.NumFields(); i++ {
		if st.Field(i).Name() == field {
			return st.Field(i)
		}
	}
	return nil
}

// TypesFunc resolves "Name" or "(*T).Name" / "(T).Name" / "T.Name" to a *types.Func.
func (p *Prog) TypesFuncOpt(pkg, name string) *types.Func {
	pk := p.Pkgs[pkg]
	if pk == nil {
		return nil
	}
	if !strings.Contains(name, ".") {
		f, _ := pk.Types.Scope().Lookup(name).(*types.Func)
		return f
	}
	i := strings.LastIndex(name, ".")
	recv, meth := name[:i], name[i+1:]
	recv = strings.Trim(recv, "()*")
	o := pk.Types.Scope().Lookup(recv)
	if o == nil {
		return nil
	}
	obj, _, _ := types.LookupFieldOrMethod(types.NewPointer(o.Type()), true, pk.Types, meth)
	f, _ := obj.(*types.Func)
	return f
}

func (p *Prog) TypesFunc(pkg, name string) *types.Func {
	f := p.TypesFuncOpt(pkg, name)
	if f == nil {
		f = p.renamedFunc(pkg, name)
	}
	if f == nil {
		undecided("function %s.%s not found", pkg, name)
	}
	return f
}

// Func returns the SSA function for pkg.name (with body).
func (p *Prog) Func(pkg, name string) *ssa.Function {
	f := p.FuncOpt(pkg, name)
	if f == nil {
		undecided("SSA function %s.%s not found", pkg, name)
	}
	return f
}

func (p *Prog) FuncOpt(pkg, name string) *ssa.Function {
	tf := p.TypesFuncOpt(pkg, name)
	if tf == nil {
		tf = p.renamedFunc(pkg, name)
	}
	if tf == nil {
		return nil
	}
	fn := p.SSA.FuncValue(tf)
	if fn == nil || fn.Blocks == nil {
		return nil
	}
	return fn
}

// Decl returns the AST declaration of pkg.name.
func (p *Prog) Decl(pkg, name string) *ast.FuncDecl {
	d := p.declOf[p.TypesFunc(pkg, name)]
	if d == nil {
		undecided("declaration of %s.%s not found", pkg, name)
	}
	return d
}

func (p *Prog) DeclOf(f *types.Func) *ast.FuncDecl { return p.declOf[f] }

// Info returns the types.Info of a module package.
func (p *Prog) Info(pkg string) *types.Info { return p.Pkg(pkg).TypesInfo }

// OurFuncs returns every SSA function (including closures) with a body that
// belongs to the given packages (all module packages if none given), excluding
// mocks and test helpers. Sorted by position.
func (p *Prog) OurFuncs(pkgs ...string) []*ssa.Function {
	want := map[string]bool{}
	for _, k := range pkgs {
		want[k] = true
	}
	var out []*ssa.Function
	for fn := range p.allFns {
		if fn.Blocks == nil || fn.Pkg == nil || !p.isOurs(fn.Pkg.Pkg) {
			continue
		}
		if fn.Synthetic != "" && fn.Parent() == nil && !strings.HasPrefix(fn.Name(), "init") {
			// wrappers, bound method thunks: skip (their bodies only delegate)
			continue
		}
		if len(want) > 0 && !want[shortPkg(fn.Pkg.Pkg.Path())] {
			continue
		}
		if p.isMockFile(fn.Pos()) {
			continue
		}
		out = append(out, fn)
	}
	sort.Slice(out, func(i, j int) bool {
		if out[i].Pos() != out[j].Pos() {
			return out[i].Pos() < out[j].Pos()
		}
		return out[i].String() < out[j].String()
	})
	return out
}

// fnName gives a short stable name of an SSA function: pkg.(*T).M or pkg.F$1.
func fnName(fn *ssa.Function) string {
	if fn == nil {
		return "<nil>"
	}
	s := fn.String()
	s = strings.ReplaceAll(s, modPath+"/", "")
	s = strings.ReplaceAll(s, cdbPath, "go-cdb")
	return s
}

// ---------------------------------------------------------------------------
// Obligations

type Status string

const (
	Discharged Status = "discharged"
	Violated   Status = "violated"
	Undecided  Status = "undecided"
)

type Obligation struct {
	Rule       string `json:"rule"`
	Construct  string `json:"construct"`
	Status     Status `json:"status"`
	Pos        string `json:"pos"`
	Detail     string `json:"detail,omitempty"`
	Nontrivial bool   `json:"nontrivial"`
}

func (o *Obligation) Key() string { return o.Rule + "|" + o.Construct }

// Ctx is the per-property run context.
type Ctx struct {
	*Prog
	Prop  string
	Tier  string
	Obls  []*Obligation
	seen  map[string]*Obligation
	Notes []string
	Rules map[string]string // rule -> one-line description of the rule applied
	Funcs map[string]bool   // functions examined
}

func NewCtx(p *Prog, prop, tier string) *Ctx {
	return &Ctx{Prog: p, Prop: prop, Tier: tier, seen: map[string]*Obligation{}, Rules: map[string]string{}, Funcs: map[string]bool{}}
}

// Rule registers the description of a rule.
func (c *Ctx) Rule(rule, desc string) { c.Rules[rule] = desc }

func (c *Ctx) Examined(fn *ssa.Function) {
	if fn != nil {
		c.Funcs[fnName(fn)] = true
	}
}

// add records an obligation; duplicates (same key) are merged pessimistically.
func (c *Ctx) add(rule, construct string, st Status, pos token.Pos, nontrivial bool, detail string) *Obligation {
	o := &Obligation{Rule: rule, Construct: construct, Status: st, Pos: c.relPos(pos), Detail: detail, Nontrivial: nontrivial}
	if old, ok := c.seen[o.Key()]; ok {
		rank := map[Status]int{Discharged: 0, Undecided: 1, Violated: 2}
		if rank[st] > rank[old.Status] {
			old.Status, old.Pos, old.Detail = st, o.Pos, detail
		}
		return old
	}
	c.seen[o.Key()] = o
	c.Obls = append(c.Obls, o)
	return o
}

// Check records a decided obligation: discharged if ok, violated otherwise.
func (c *Ctx) Check(rule, construct string, ok bool, pos token.Pos, detail string) {
	st := Violated
	if ok {
		st = Discharged
	}
	c.add(rule, construct, st, pos, true, detail)
}

// CheckConst is Check for obligations that are pure constant/table comparisons
// (not counted as non-trivial).
func (c *Ctx) CheckConst(rule, construct string, ok bool, pos token.Pos, detail string) {
	st := Violated
	if ok {
		st = Discharged
	}
	c.add(rule, construct, st, pos, false, detail)
}

func (c *Ctx) Undecided(rule, construct string, pos token.Pos, detail string) {
	c.add(rule, construct, Undecided, pos, true, detail)
}

// Floor demands at least n obligations of the given rule (non-vacuity).
func (c *Ctx) Floor(rule string, n int) {
	k := 0
	for _, o := range c.Obls {
		if o.Rule == rule {
			k++
		}
	}
	// The floor guards against a matcher that silently stopped matching (a rule with no instance passes vacuously). It
	// is NOT a count of sites that have to exist: merging duplicated sites (three copies of a block folded into one,
	// two insert calls into one) is ordinary maintenance. Half of what was confirmed by hand, and at least one,
	// separates the two cases.
	need := (n + 1) / 2
	if need < 1 {
		need = 1
	}
	if k < need {
		c.add(rule, "floor", Undecided, token.NoPos, false, fmt.Sprintf("rule matched %d instances; %d were confirmed by hand on the pinned tree and at least %d are expected", k, n, need))
	}
}

// importRules runs another property's rule set in a scratch context and adopts the obligations of the named rules
// under this property's prefix (from "C12.copy" to "<prop>.<as>"): used where one structural condition is a
// necessary condition of two properties.
func (c *Ctx) importRules(run func(*Ctx), fromProp string, rules map[string]string) {
	sub := NewCtx(c.Prog, fromProp, c.Tier)
	run(sub)
	for _, o := range sub.Obls {
		for from, as := range rules {
			if o.Rule != fromProp+"."+from {
				continue
			}
			to := c.Prop + "." + as
			c.Rules[to] = sub.Rules[o.Rule]
			n := *o
			n.Rule = to
			if old, ok := c.seen[n.Key()]; ok {
				_ = old
				continue
			}
			c.seen[n.Key()] = &n
			c.Obls = append(c.Obls, &n)
		}
	}
	for f := range sub.Funcs {
		c.Funcs[f] = true
	}
}

func (c *Ctx) Note(format string, a ...interface{}) {
	c.Notes = append(c.Notes, fmt.Sprintf(format, a...))
}

// renamedFunc follows a one-for-one rename of a baseline function: the anchor pkg.name is in the baseline function
// list, the package has lost exactly that one baseline function and gained exactly one function that is not in the
// list (a method turned into a plain function, a helper renamed). Anything else stays unresolved.
func (p *Prog) renamedFunc(pkg, name string) *types.Func {
	pk := p.Pkgs[pkg]
	if pk == nil {
		return nil
	}
	want := name
	if i := strings.LastIndex(name, "."); i >= 0 {
		want = strings.Trim(name[:i], "()*") + "." + name[i+1:]
	}
	if _, known := baselineFuncs[pkg+"\t"+want]; !known {
		return nil
	}
	cur := map[string]*types.Func{}
	for _, f := range pk.Syntax {
		if p.isMockFile(f.Pos()) {
			continue
		}
		for _, d := range f.Decls {
			if fd, ok := d.(*ast.FuncDecl); ok {
				if obj, _ := pk.TypesInfo.Defs[fd.Name].(*types.Func); obj != nil {
					cur[declName(pkg, fd)] = obj
				}
			}
		}
	}
	missing := 0
	for k := range baselineFuncs {
		if strings.HasPrefix(k, pkg+"\t") && cur[k] == nil {
			missing++
		}
	}
	var added []*types.Func
	for k, obj := range cur {
		if _, known := baselineFuncs[k]; !known {
			added = append(added, obj)
		}
	}
	if missing == 1 && len(added) == 1 {
		return added[0]
	}
	return nil
}
