package main

import (
	"fmt"
	"go/token"
	"go/types"
	"strings"

	"golang.org/x/tools/go/ssa"
)

func init() {
	register(&propDef{
		ID:          "C02",
		Title:       "Storage backend and key layout never change an answer",
		Run:         runC02,
		Explanation: "Structural necessary conditions of backend independence, decided on SSA: (siblings) the two Reader implementations have the same loop-variant walk guards and row filters; (cache-exact) the per-request cache of the RocksDB reader never turns 'closest key' into 'exact key': data of a cached entry is only served as an exact get under bytes.Equal(entry.key, key); (cursor) the common-prefix jump of the closest-key walks is only taken when the closest key is a different name (same name with another suffix/location strips exactly one label); (found-prefix) a closest key is only interpreted after its prefix was compared with the search key; (feature) the key-layout flag is written and read through one codec, one bit and one predicate. Observational equality of responses is not decided.",
	})
}

func runC02(c *Ctx) {
	c01Guards(c, "C02.siblings")
	c01TypeFilter2(c, "C02.siblings-filter")
	c02CacheExact(c, "C02.cache-exact")
	c02Cursor(c)
	c03ExactFirst(c, "C02.exact-first")
	c02FoundPrefix(c, "C02.found-prefix")
	c02Feature(c)
	// the bulk loader is one of the storage configurations: a key split over two SST files loses values at ingestion
	c.importRules(runC07, "C07", map[string]string{"buckets": "buckets"})
	c02MapWalk(c, "C02")
	c02ClosestExact(c, "C02.closest-exact")
	c02DriverFeature(c)
	// "identical for clients with a location": both readers must consult the location-neutral rows the same way
	// (seeds c02e, c02g), and the per-request RocksDB context must not survive the request (seed c02f)
	c.importRules(runC04, "C04", map[string]string{"untagged": "untagged", "keyloc": "keyloc"})
	c.importRules(runC05, "C05", map[string]string{"fresh-context": "fresh-context"})
	// the v2 walker cuts several labels in one step: its wild-safe test has to cover all of them, or a name with an
	// unsafe label in the middle is answered from a wildcard by the v2 server only (round-5 seed c02j)
	c.importRules(runC01, "C01", map[string]string{"wildsafe-span": "wildsafe-span"})
}

func c01TypeFilter2(c *Ctx, rule string) {
	// the type filter rule under another name (sibling agreement is what C02 states)
	sub := NewCtx(c.Prog, c.Prop, c.Tier)
	c01TypeFilter(sub)
	c.Rule(rule, sub.Rules["C01.typefilter"])
	for _, o := range sub.Obls {
		c.add(rule, o.Construct, o.Status, token.NoPos, o.Nontrivial, o.Detail).Pos = o.Pos
	}
	for f := range sub.Funcs {
		c.Funcs[f] = true
	}
}

// c02CacheExact: exact-get semantics of the per-request cache.
func c02CacheExact(c *Ctx, rule string) {
	c.Rule(rule, "SSA: Context.cache maps a search key to (found key, data). In every function of dnsdata/rdb that looks an entry up and lets entry.data reach its result without also returning entry.key, the read of entry.data is dominated by the true edge of bytes.Equal(entry.key, <the key parameter>); entries are stored with their own copy of the key")
	fCache := c.Field("dnsdata/rdb", "Context", "cache")
	fData := c.Field("dnsdata/rdb", "contextCacheEntry", "data")
	fKey := c.Field("dnsdata/rdb", "contextCacheEntry", "key")
	n := 0
	for _, fn := range c.OurFuncs("dnsdata/rdb") {
		var lookups []*ssa.Lookup
		for _, b := range fn.Blocks {
			for _, in := range b.Instrs {
				if lk, ok := in.(*ssa.Lookup); ok && isFieldLoad(lk.X, fCache) {
					lookups = append(lookups, lk)
				}
			}
		}
		for _, lk := range lookups {
			// entry value(s): the struct itself, or a local it is spilled into
			var dataReads, keyReads []ssa.Instruction
			flagReads := map[ssa.Value]*types.Var{}
			var walk func(v ssa.Value)
			seen := map[ssa.Value]bool{}
			walk = func(v ssa.Value) {
				if seen[v] || v.Referrers() == nil {
					return
				}
				seen[v] = true
				for _, r := range *v.Referrers() {
					switch x := r.(type) {
					case *ssa.Extract:
						if x.Index == 0 {
							walk(x)
						}
					case *ssa.Field:
						switch fieldOf(x) {
						case fData:
							dataReads = append(dataReads, x)
						case fKey:
							keyReads = append(keyReads, x)
						default:
							if bt, ok := x.Type().Underlying().(*types.Basic); ok && bt.Kind() == types.Bool {
								flagReads[x] = fieldOf(x)
							}
						}
					case *ssa.Store:
						if a, ok := x.Addr.(*ssa.Alloc); ok && x.Val == v {
							for _, rr := range *a.Referrers() {
								fa, ok := rr.(*ssa.FieldAddr)
								if !ok {
									continue
								}
								for _, r3 := range *fa.Referrers() {
									if u, ok := r3.(*ssa.UnOp); ok && u.Op == token.MUL {
										switch fieldOf(fa) {
										case fData:
											dataReads = append(dataReads, u)
										case fKey:
											keyReads = append(keyReads, u)
										default:
											if bt, ok := u.Type().Underlying().(*types.Basic); ok && bt.Kind() == types.Bool {
												flagReads[u] = fieldOf(fa)
											}
										}
									}
								}
							}
						}
					}
				}
			}
			walk(lk)
			if len(dataReads) == 0 {
				continue
			}
			n++
			c.Examined(fn)
			// does the key reach a result?
			keyReturned := false
			for _, ret := range returnsOf(fn) {
				for _, rv := range ret.Results {
					for v := range backSlice(rv, nil) {
						for _, kr := range keyReads {
							if v == kr.(ssa.Value) {
								keyReturned = true
							}
						}
					}
				}
			}
			if keyReturned {
				c.add(rule, fnName(fn)+"|closest-semantics", Discharged, lk.Pos(), true, "returns the found key together with the data: closest-key semantics, the caller compares")
				continue
			}
			keyParam := ""
			for _, p := range fn.Params {
				if isByteSlice(p.Type()) {
					keyParam = p.Name()
					break
				}
			}
			ok := true
			for _, dr := range dataReads {
				g := hasFact(dr.Block(), func(v ssa.Value, truth bool) bool {
					call := isCallToFunc(v, "bytes", "Equal")
					if call == nil || !truth {
						return false
					}
					hasEntryKey, hasParam := false, false
					for _, a := range call.Call.Args {
						for x := range backSlice(a, nil) {
							for _, kr := range keyReads {
								if x == kr.(ssa.Value) {
									hasEntryKey = true
								}
							}
							if p, isP := x.(*ssa.Parameter); isP && p.Name() == keyParam {
								hasParam = true
							}
						}
					}
					return hasEntryKey && hasParam
				})
				if !g {
					// the comparison made once, when the entry was stored: a boolean field of the entry that every
					// writer of entries sets to bytes.Equal(search key, found key) — or to true in the entry filed
					// under the found key itself
					g = hasFact(dr.Block(), func(v ssa.Value, truth bool) bool {
						f := flagReads[unwrap(v)]
						return f != nil && truth && c02ExactFlagSound(c, f, fKey)
					})
				}
				if !g {
					ok = false
				}
			}
			c.Check(rule, fnName(fn)+"|exact-get-compares-found-key", ok, lk.Pos(), "an absent key must not be served with the rows of its predecessor (the untagged rows in front of a located client's key, or a lower-numbered location's rows)")
		}
	}
	// entries keep their own copy of the key when the caller's buffer is the key
	get := c.Func("dnsdata/rdb", "(*RDB).get")
	upd := c.TypesFunc("dnsdata/rdb", "(*Context).update")
	okCopy := true
	nu := 0
	for _, ci := range callsTo(get, func(f *types.Func) bool { return f == upd }) {
		nu++
		found := ci.Common().Args[2]
		for s := range sourcesOf(found) {
			if _, isParam := s.(*ssa.Parameter); isParam {
				okCopy = false // stores the caller's slice
			}
		}
	}
	c.Check(rule, fnName(get)+"|entry-owns-its-key", okCopy && nu > 0, get.Pos(), "callers reuse their key buffers between lookups; an entry that aliases the buffer would later compare against another key")
	if n < 2 {
		c.Undecided(rule, "floor", token.NoPos, fmt.Sprintf("only %d cache lookups found", n))
	}
}

// c02ExactFlagSound: every store to the boolean field `flag` of a cache entry (in package rdb) records exactly "the
// found key is the key this entry is filed under": its value is bytes.Equal(x, y) with one operand the value stored
// into the entry's key field and the other the value the map index is made from; or the constant true in an entry
// whose key field and map index are the same value.
func c02ExactFlagSound(c *Ctx, flag, fKey *types.Var) bool {
	n := 0
	for _, fn := range c.OurFuncs("dnsdata/rdb") {
		for _, st := range storesToField(fn, flag) {
			n++
			base := st.Addr.(*ssa.FieldAddr).X
			// the key stored into the same entry value
			var keyVal ssa.Value
			for _, ks := range storesToField(fn, fKey) {
				if ks.Addr.(*ssa.FieldAddr).X == base {
					keyVal = ks.Val
				}
			}
			if keyVal == nil {
				return false
			}
			// the map indices this entry is stored under: every MapUpdate whose value is a load of base
			var updates []*ssa.MapUpdate
			for _, b := range fn.Blocks {
				for _, in := range b.Instrs {
					if mu, ok := in.(*ssa.MapUpdate); ok {
						if u, ok := mu.Value.(*ssa.UnOp); ok && u.X == base {
							updates = append(updates, mu)
						}
					}
				}
			}
			if len(updates) == 0 {
				return false
			}
			derivesFrom := func(idx ssa.Value, v ssa.Value) bool {
				src := sourcesOf(v)
				for x := range backSlice(idx, nil) {
					if src[x] {
						return true
					}
				}
				return false
			}
			okStore := true
			for _, mu := range updates {
				for s := range sourcesOf(st.Val) {
					if k, isK := s.(*ssa.Const); isK && k.Value != nil && k.Value.String() == "true" {
						// filed under the found key itself, or under a key known equal to it at that point
						if derivesFrom(mu.Key, keyVal) {
							continue
						}
						eqKnown := hasFact(mu.Block(), func(v ssa.Value, truth bool) bool {
							eq := isCallToFunc(v, "bytes", "Equal")
							if eq == nil || !truth {
								return false
							}
							a, b := eq.Call.Args[0], eq.Call.Args[1]
							return (sameSources(a, keyVal) && derivesFrom(mu.Key, b)) || (sameSources(b, keyVal) && derivesFrom(mu.Key, a))
						})
						if !eqKnown {
							okStore = false
						}
						continue
					}
					eq := isCallToFunc(s, "bytes", "Equal")
					if eq == nil {
						return false
					}
					a, b := eq.Call.Args[0], eq.Call.Args[1]
					if !((sameSources(a, keyVal) && derivesFrom(mu.Key, b)) || (sameSources(b, keyVal) && derivesFrom(mu.Key, a))) {
						okStore = false
					}
				}
			}
			if !okStore {
				return false
			}
		}
	}
	return n > 0
}

// c02Cursor: findCommonLongestPrefix only in the different-name arm.
func c02Cursor(c *Ctx) {
	rule := "C02.cursor"
	c.Rule(rule, "A9: every call of findCommonLongestPrefix (the jump to the deepest common ancestor) in the closest-key walks is made only when the closest key is NOT the current name — it sits on the false edge of a bytes.Equal between the current name and the found key's name; the same-name case strips exactly one label (getLengthWithoutLastLabel)")
	fcp := c.TypesFunc("db", "findCommonLongestPrefix")
	strip := c.TypesFunc("db", "getLengthWithoutLastLabel")
	n := 0
	for _, fn := range c.OurFuncs("db") {
		for _, ci := range callsTo(fn, func(f *types.Func) bool { return f == fcp }) {
			n++
			c.Examined(fn)
			guarded := hasFact(ci.Block(), func(v ssa.Value, truth bool) bool {
				return !truth && isCallToFunc(v, "bytes", "Equal") != nil
			})
			hasStrip := len(callsTo(fn, func(f *types.Func) bool { return f == strip })) > 0
			c.Check(rule, fnName(fn)+"|common-prefix-only-for-a-different-name", guarded && hasStrip, ci.Pos(), "when the closest key is the same name with another suffix or location, the common prefix is the whole name: the walk would not advance (or would re-slice the key past its end)")
		}
	}
	if n < 2 {
		c.Undecided(rule, "floor", token.NoPos, fmt.Sprintf("only %d uses of findCommonLongestPrefix found", n))
	}
}

// c02FoundPrefix: a closest key's value is interpreted only after the key's prefix was checked.
func c02FoundPrefix(c *Ctx, rule string) {
	c.Rule(rule, "A9 (contradiction rule over the three users of the closest-key search): the value / name part of a key returned by FindClosest/findClosest/TryForEach is only used after the found key was compared (bytes.Equal) with the search key or its prefix — a predecessor search can land on a key of another kind")
	n := 0
	for _, fn := range c.OurFuncs("db") {
		for _, ci := range callInstrs(fn) {
			f := calleeOf(ci.Common())
			if f == nil || !(f.Name() == "FindClosest" || f.Name() == "findClosest") || fn.Name() == "findClosest" || fn.Name() == "FindClosestKey" {
				continue
			}
			call, ok := ci.(*ssa.Call)
			if !ok {
				continue
			}
			var keyV, valV ssa.Value
			for _, r := range *call.Referrers() {
				if ex, ok := r.(*ssa.Extract); ok {
					switch ex.Index {
					case 0:
						keyV = ex
					case 1:
						valV = ex
					}
				}
			}
			if valV == nil {
				continue
			}
			n++
			c.Examined(fn)
			// every slicing of the value (interpretation beyond length tests) must see a key comparison
			ok = true
			uses := 0
			for _, b := range fn.Blocks {
				for _, in := range b.Instrs {
					sl, isSl := in.(*ssa.Slice)
					if !isSl {
						continue
					}
					fromVal := false
					for s := range sourcesOf(sl.X) {
						if s == valV {
							fromVal = true
						}
					}
					if !fromVal {
						continue
					}
					uses++
					g := hasFact(b, func(v ssa.Value, truth bool) bool {
						cmp := isCallToFunc(v, "bytes", "Equal")
						if cmp == nil {
							return false
						}
						for _, a := range cmp.Call.Args {
							for x := range backSlice(a, nil) {
								if x == keyV {
									return true
								}
							}
						}
						return false
					})
					if !g {
						ok = false
					}
				}
			}
			c.Check(rule, fnName(fn)+"|value-used-after-key-comparison", ok && uses > 0 && keyV != nil, call.Pos(), fmt.Sprintf("%d interpretations of the closest key's value", uses))
		}
	}
	if n < 2 {
		c.Undecided(rule, "floor", token.NoPos, fmt.Sprintf("only %d closest-key value users found", n))
	}
}

func c02Feature(c *Ctx) {
	rule := "C02.feature"
	c.Rule(rule, "A8: Rfeatures.MarshalMap derives the feature word only from UseV2Keys and sets the V2 bit under it; encodeFeatures/DecodeFeatures use the same byte order and width; IsV2KeySyntaxUsed tests that same bit; openRDB records it, ClosestKeyFinder() is non-nil exactly under it, and NewReader builds the closest-key reader exactly when a finder exists")
	mm := c.Func("dnsdata", "(*Rfeatures).MarshalMap")
	c.Examined(mm)
	fV2 := c.Field("dnsdata", "Rfeatures", "UseV2Keys")
	onlyV2 := true
	uses := false
	for _, b := range mm.Blocks {
		for _, in := range b.Instrs {
			if fa, ok := in.(*ssa.FieldAddr); ok {
				if n, isN := deref(fa.X.Type()).(*types.Named); isN && n.Obj().Name() == "Rfeatures" {
					if fieldOf(fa) == fV2 {
						uses = true
					} else {
						onlyV2 = false
					}
				}
			}
		}
	}
	c.Check(rule, fnName(mm)+"|only-input-is-UseV2Keys", onlyV2 && uses, mm.Pos(), "the stored feature word depends on the compiler's key-layout flag only")
	// bit constants
	v2bit := int64(-1)
	if k, ok := c.Obj("dnsdata", "V2KeysFeature").(*types.Const); ok {
		if v, exact := constantInt(k); exact {
			v2bit = v
		}
	}
	setUnder := false
	for _, b := range mm.Blocks {
		for _, in := range b.Instrs {
			if bo, ok := in.(*ssa.BinOp); ok && bo.Op == token.OR {
				if k, isK := constInt(bo.Y); isK && k == v2bit && hasFact(b, func(v ssa.Value, truth bool) bool { return truth && isFieldLoad(v, fV2) }) {
					setUnder = true
				}
			}
		}
	}
	// alternative form: features = V2KeysFeature assigned under the flag
	if !setUnder {
		for _, b := range mm.Blocks {
			for _, in := range b.Instrs {
				if phi, ok := in.(*ssa.Phi); ok {
					for i, e := range phi.Edges {
						if k, isK := constInt(e); isK && k == v2bit && hasFact(b.Preds[i], func(v ssa.Value, truth bool) bool { return truth && isFieldLoad(v, fV2) }) {
							setUnder = true
						}
					}
				}
			}
		}
	}
	c.Check(rule, fnName(mm)+"|V2-bit-set-under-flag", setUnder, mm.Pos(), fmt.Sprintf("V2KeysFeature (%d) is set exactly when UseV2Keys is", v2bit))
	isV2 := c.Func("dnsdata/rdb", "(*RDB).IsV2KeySyntaxUsed")
	c.Examined(isV2)
	tests := false
	for _, b := range isV2.Blocks {
		for _, in := range b.Instrs {
			if bo, ok := in.(*ssa.BinOp); ok && bo.Op == token.AND {
				if k, isK := constInt(bo.Y); isK && k == v2bit {
					tests = true
				}
			}
		}
	}
	usesKey := false
	if fk, ok := c.Obj("dnsdata", "FeaturesKey").(*types.Const); ok {
		want := strings.Trim(fk.Val().ExactString(), "\"")
		_ = want
		for s := range byteLiteralsOf(isV2) {
			if strings.HasSuffix(s, "o_features") {
				usesKey = true
			}
		}
	}
	c.Check(rule, fnName(isV2)+"|tests-the-same-bit-of-the-feature-record", tests && usesKey, isV2.Pos(), "the server reads the layout from the feature record's V2 bit")
	// codec
	enc, dec := c.Func("dnsdata", "encodeFeatures"), c.Func("dnsdata", "DecodeFeatures")
	sig := func(fn *ssa.Function) string {
		for _, ci := range callInstrs(fn) {
			if f := calleeOf(ci.Common()); f != nil && f.Pkg() != nil && f.Pkg().Path() == "encoding/binary" {
				order := "?"
				for _, a := range ci.Common().Args {
					if strings.Contains(a.Type().String(), "littleEndian") {
						order = "little"
					}
					if strings.Contains(a.Type().String(), "bigEndian") {
						order = "big"
					}
				}
				return order + ":" + strings.TrimPrefix(f.Name(), "Put")
			}
		}
		return ""
	}
	c.Check(rule, "feature-codec|same-order-and-width", sig(enc) != "" && sig(enc) == sig(dec), enc.Pos(), fmt.Sprintf("encode: %s, decode: %s", sig(enc), sig(dec)))
	// reader choice
	open := c.Func("db", "openRDB")
	fSorted := c.Field("db", "rdbdriver", "isDataSorted")
	okOpen := false
	for _, st := range storesToField(open, fSorted) {
		for s := range sourcesOf(st.Val) {
			if cl, _ := callOfValue(s); cl != nil && calleeOf(cl.Common()) != nil && calleeOf(cl.Common()).Name() == "IsV2KeySyntaxUsed" {
				okOpen = true
			}
		}
	}
	c.Check(rule, fnName(open)+"|layout-flag-from-database", okOpen, open.Pos(), "the driver's key-layout flag is what the database's feature record says")
	ckf := c.Func("db", "(*rdbdriver).ClosestKeyFinder")
	okCkf := true
	nret := 0
	for _, ret := range returnsOf(ckf) {
		nret++
		isNil := true
		for s := range sourcesOf(ret.Results[0]) {
			if s != nil && !isNilConst(s) {
				isNil = false
			}
		}
		under := hasFact(ret.Block(), func(v ssa.Value, truth bool) bool { return truth && isFieldLoad(v, fSorted) })
		if isNil == under {
			okCkf = false
		}
	}
	c.Check(rule, fnName(ckf)+"|finder-iff-sorted", okCkf && nret == 2, ckf.Pos(), "a closest-key finder is offered exactly for v2 (sorted) keys")
	nr := c.Func("db", "NewReader")
	okNr := false
	for _, b := range nr.Blocks {
		for _, in := range b.Instrs {
			if a, ok := in.(*ssa.Alloc); ok {
				if n, isN := a.Type().(*types.Pointer).Elem().(*types.Named); isN && n.Obj().Name() == "sortedDataReader" {
					okNr = hasFact(b, func(v ssa.Value, truth bool) bool {
						x, trueNil, isNil := nilTest(v)
						if !isNil || trueNil == truth {
							return false
						}
						cl, _ := callOfValue(x)
						return cl != nil && cl.Common().IsInvoke() && cl.Common().Method.Name() == "ClosestKeyFinder"
					})
				}
			}
		}
	}
	c.Check(rule, fnName(nr)+"|sorted-reader-iff-finder", okNr, nr.Pos(), "the closest-key reader is used exactly when the backend offers a finder")
}

func deref(t types.Type) types.Type {
	if p, ok := t.Underlying().(*types.Pointer); ok {
		return p.Elem()
	}
	return t
}

func constantInt(k *types.Const) (int64, bool) {
	s := k.Val().ExactString()
	var v int64
	if _, err := fmt.Sscanf(s, "%d", &v); err == nil {
		return v, true
	}
	return 0, false
}
