package main

import (
	"fmt"
	"go/token"
	"go/types"

	"golang.org/x/tools/go/ssa"
)

// c01TxtChunks implements C01.txt-chunks: a TXT text is stored as a sequence of <character-string>s, each a length
// byte followed by that many bytes. Every string emitted must be backed by remaining text: a chunk written without
// a "bytes remain" test appends an empty character-string when the text length is a multiple of the chunk size, and
// the served rdata is no longer what the data file declares.
func c01TxtChunks(c *Ctx, rule string) {
	c.Rule(rule, "A2 must-facts in (*Rtxt).MarshalMap: every write to the value buffer after the row head (length byte or chunk bytes) is control dependent on a test proving that text remains (index < len(txt), len(rest) > 0, len(rest) >= k with k > 0, or an equivalent polarity)")
	fn := c.Func("dnsdata", "(*Rtxt).MarshalMap")
	c.Examined(fn)
	fTxt := c.Field("dnsdata", "Rtxt", "txt")
	fromTxt := func(v ssa.Value) bool {
		for x := range backSlice(v, nil) {
			if isFieldLoad(x, fTxt) {
				return true
			}
		}
		return isFieldLoad(v, fTxt)
	}
	lenOfTxt := func(v ssa.Value) bool {
		call := isBuiltinCall(unwrap(v), "len")
		return call != nil && fromTxt(call.Call.Args[0])
	}
	remains := func(b *ssa.BasicBlock) bool {
		return hasFact(b, func(v ssa.Value, truth bool) bool {
			bo, ok := v.(*ssa.BinOp)
			if !ok {
				return false
			}
			kx, xk := constInt(bo.X)
			ky, yk := constInt(bo.Y)
			switch {
			case lenOfTxt(bo.Y) && !xk: // idx OP len(txt)
				return (bo.Op == token.LSS && truth) || (bo.Op == token.GEQ && !truth)
			case lenOfTxt(bo.X) && !yk: // len(txt) OP idx
				return (bo.Op == token.GTR && truth) || (bo.Op == token.LEQ && !truth)
			case lenOfTxt(bo.X) && yk: // len(rest) OP k
				switch bo.Op {
				case token.GTR:
					return truth && ky >= 0
				case token.GEQ:
					return truth && ky >= 1
				case token.NEQ:
					return truth && ky == 0
				case token.EQL:
					return !truth && ky == 0
				case token.LEQ:
					return !truth && ky >= 0
				case token.LSS:
					return !truth && ky >= 1
				}
			case lenOfTxt(bo.Y) && xk: // k OP len(rest)
				switch bo.Op {
				case token.LSS:
					return truth && kx >= 0
				case token.LEQ:
					return truth && kx >= 1
				}
			}
			return false
		})
	}
	n := 0
	for _, ci := range callInstrs(fn) {
		f := calleeOf(ci.Common())
		if f == nil || f.Pkg() == nil || f.Pkg().Path() != "bytes" {
			continue
		}
		switch funcShort(f) {
		case "Buffer.Write", "Buffer.WriteByte", "Buffer.WriteString":
		default:
			continue
		}
		if _, isPtr := ci.Common().Args[0].Type().(*types.Pointer); !isPtr {
			continue
		}
		n++
		c.Check(rule, fmt.Sprintf("%s|buffer-write#%d|text-remains", fnName(fn), n), remains(ci.Block()), ci.Pos(), "a character-string is emitted only while text remains (no empty trailing string for lengths that are a multiple of the chunk size)")
	}
	c.Floor(rule, 2)
}
