package main

// ssahelp.go — small SSA utilities shared by the rules: access paths,
// dominance / edge dominance, post-dominance, callee resolution.

import (
	"fmt"
	"go/token"
	"go/types"
	"sort"
	"strings"

	"golang.org/x/tools/go/ssa"
)

// ---------------------------------------------------------------------------
// Access paths

// pathOf gives the access path of a value or address: root(.field)*, where the
// root is the *name* of a parameter, captured variable, local or global. A
// load (UnOp *) of an address has the same path as the address, so `r.db.l`
// names both the field address and what it holds. Returns "" when the value
// has no stable path (call results, phis, arithmetic, ...).
func pathOf(v ssa.Value) string {
	switch v := v.(type) {
	case *ssa.Parameter:
		return v.Name()
	case *ssa.FreeVar:
		return v.Name()
	case *ssa.Global:
		return "global:" + v.Pkg.Pkg.Name() + "." + v.Name()
	case *ssa.Alloc:
		if v.Comment == "complit" || v.Comment == "new" || v.Comment == "" || v.Comment == "varargs" {
			return "fresh:" + v.Comment
		}
		return v.Comment
	case *ssa.FieldAddr:
		b := pathOf(v.X)
		if b == "" {
			return ""
		}
		return b + "." + fieldName(v.X.Type(), v.Field)
	case *ssa.Field:
		b := pathOf(v.X)
		if b == "" {
			return ""
		}
		return b + "." + fieldName(v.X.Type(), v.Field)
	case *ssa.UnOp:
		if v.Op == token.MUL {
			return pathOf(v.X)
		}
	case *ssa.IndexAddr:
		if b := pathOf(v.X); b != "" {
			return b + "[]"
		}
	case *ssa.ChangeType:
		return pathOf(v.X)
	case *ssa.MakeInterface:
		return pathOf(v.X)
	}
	return ""
}

// rootIsFresh reports whether the access path is rooted in an allocation made
// by the same function (constructor pattern: the object is not published yet).
func rootIsFresh(v ssa.Value) bool {
	for {
		switch x := v.(type) {
		case *ssa.FieldAddr:
			v = x.X
		case *ssa.Field:
			v = x.X
		case *ssa.UnOp:
			if x.Op != token.MUL {
				return false
			}
			// a load from a local that was assigned a fresh allocation
			if a, ok := x.X.(*ssa.Alloc); ok {
				return allocHoldsFresh(a)
			}
			v = x.X
		case *ssa.Alloc:
			return x.Comment == "complit" || x.Comment == "new"
		default:
			return false
		}
	}
}

// allocHoldsFresh: every store into local a stores a fresh allocation.
func allocHoldsFresh(a *ssa.Alloc) bool {
	n := 0
	for _, r := range *a.Referrers() {
		if st, ok := r.(*ssa.Store); ok && st.Addr == a {
			n++
			al, ok := st.Val.(*ssa.Alloc)
			if !ok || !(al.Comment == "complit" || al.Comment == "new") {
				return false
			}
		}
	}
	return n > 0
}

func structOf(t types.Type) *types.Struct {
	if p, ok := t.Underlying().(*types.Pointer); ok {
		t = p.Elem()
	}
	st, _ := t.Underlying().(*types.Struct)
	return st
}

func fieldName(t types.Type, i int) string {
	st := structOf(t)
	if st == nil || i >= st.NumFields() {
		return "?"
	}
	return st.Field(i).Name()
}

func fieldVar(t types.Type, i int) *types.Var {
	st := structOf(t)
	if st == nil || i >= st.NumFields() {
		return nil
	}
	return st.Field(i)
}

// fieldOfAddr returns the struct field a FieldAddr/Field selects.
func fieldOf(v ssa.Value) *types.Var {
	switch v := v.(type) {
	case *ssa.FieldAddr:
		return fieldVar(v.X.Type(), v.Field)
	case *ssa.Field:
		return fieldVar(v.X.Type(), v.Field)
	}
	return nil
}

// ---------------------------------------------------------------------------
// Calls

// calleeOf returns the statically known callee object of a call: a
// *types.Func for static calls and for interface method invocations (the
// interface's method), nil for dynamic calls through function values.
func calleeOf(c *ssa.CallCommon) *types.Func {
	if c.IsInvoke() {
		return c.Method
	}
	if f := c.StaticCallee(); f != nil {
		if o, ok := f.Object().(*types.Func); ok {
			return o
		}
		// instantiated generic or wrapper
		if f.Origin() != nil {
			if o, ok := f.Origin().Object().(*types.Func); ok {
				return o
			}
		}
	}
	return nil
}

// isCallTo reports whether the call is to pkgPath.name, where name is "F" or
// "T.M" (receiver type name without pointer/package).
func isCallTo(c *ssa.CallCommon, pkgPath, name string) bool {
	return funcIs(calleeOf(c), pkgPath, name)
}

func funcIs(f *types.Func, pkgPath, name string) bool {
	if f == nil || f.Pkg() == nil || f.Pkg().Path() != pkgPath {
		return false
	}
	return funcShort(f) == name
}

// funcShort gives "F" or "T.M".
func funcShort(f *types.Func) string {
	sig := f.Type().(*types.Signature)
	if r := sig.Recv(); r != nil {
		t := r.Type()
		if p, ok := t.(*types.Pointer); ok {
			t = p.Elem()
		}
		if n, ok := t.(*types.Named); ok {
			return n.Obj().Name() + "." + f.Name()
		}
		if _, ok := t.Underlying().(*types.Interface); ok {
			return "?." + f.Name()
		}
	}
	return f.Name()
}

// callInstrs returns every call-like instruction (Call, Defer, Go) of fn.
func callInstrs(fn *ssa.Function) []ssa.CallInstruction {
	var out []ssa.CallInstruction
	for _, b := range fn.Blocks {
		for _, in := range b.Instrs {
			if ci, ok := in.(ssa.CallInstruction); ok {
				out = append(out, ci)
			}
		}
	}
	return out
}

// callsTo returns the calls in fn (not descending into closures) whose callee
// satisfies pred.
func callsTo(fn *ssa.Function, pred func(*types.Func) bool) []ssa.CallInstruction {
	var out []ssa.CallInstruction
	for _, ci := range callInstrs(fn) {
		if f := calleeOf(ci.Common()); f != nil && pred(f) {
			out = append(out, ci)
		}
	}
	return out
}

// withClosures returns fn and all functions nested in it.
func withClosures(fn *ssa.Function) []*ssa.Function {
	out := []*ssa.Function{fn}
	for _, a := range fn.AnonFuncs {
		out = append(out, withClosures(a)...)
	}
	return out
}

// ---------------------------------------------------------------------------
// Dominance

func instrIndex(in ssa.Instruction) int {
	for i, x := range in.Block().Instrs {
		if x == in {
			return i
		}
	}
	return -1
}

// instrDominates: a is executed before b on every path reaching b.
func instrDominates(a, b ssa.Instruction) bool {
	if a.Block() == b.Block() {
		return instrIndex(a) < instrIndex(b)
	}
	return a.Block().Dominates(b.Block())
}

// edgeDominates reports whether every path to block t goes through the edge
// from -> from.Succs[k].
func edgeDominates(from *ssa.BasicBlock, k int, t *ssa.BasicBlock) bool {
	s := from.Succs[k]
	if len(from.Succs) == 2 && from.Succs[0] == from.Succs[1] {
		return false
	}
	if !s.Dominates(t) {
		return false
	}
	for _, p := range s.Preds {
		if p == from {
			continue
		}
		if !s.Dominates(p) { // another way into s that is not a back edge
			return false
		}
	}
	return true
}

// condEdge describes "the branch of `iff` taken when its condition is `val`".
type condEdge struct {
	If   *ssa.If
	Succ int // 0 = true branch, 1 = false branch
}

// guardingEdges returns all (If, branch) pairs whose edge dominates block t.
func guardingEdges(t *ssa.BasicBlock) []condEdge {
	var out []condEdge
	fn := t.Parent()
	for _, b := range fn.Blocks {
		if len(b.Instrs) == 0 {
			continue
		}
		iff, ok := b.Instrs[len(b.Instrs)-1].(*ssa.If)
		if !ok {
			continue
		}
		for k := 0; k < 2; k++ {
			if edgeDominates(b, k, t) {
				out = append(out, condEdge{iff, k})
			}
		}
	}
	return out
}

// postDominators computes, for every block, the set of blocks that
// post-dominate it (every path from the block to a function exit passes them).
// Blocks ending in Return or Panic are exits.
func postDominators(fn *ssa.Function) map[*ssa.BasicBlock]map[*ssa.BasicBlock]bool {
	all := map[*ssa.BasicBlock]bool{}
	for _, b := range fn.Blocks {
		all[b] = true
	}
	pd := map[*ssa.BasicBlock]map[*ssa.BasicBlock]bool{}
	isExit := func(b *ssa.BasicBlock) bool { return len(b.Succs) == 0 }
	for _, b := range fn.Blocks {
		if isExit(b) {
			pd[b] = map[*ssa.BasicBlock]bool{b: true}
		} else {
			m := map[*ssa.BasicBlock]bool{}
			for k := range all {
				m[k] = true
			}
			pd[b] = m
		}
	}
	changed := true
	for changed {
		changed = false
		for i := len(fn.Blocks) - 1; i >= 0; i-- {
			b := fn.Blocks[i]
			if isExit(b) {
				continue
			}
			var inter map[*ssa.BasicBlock]bool
			for _, s := range b.Succs {
				if inter == nil {
					inter = map[*ssa.BasicBlock]bool{}
					for k := range pd[s] {
						inter[k] = true
					}
				} else {
					for k := range inter {
						if !pd[s][k] {
							delete(inter, k)
						}
					}
				}
			}
			if inter == nil {
				inter = map[*ssa.BasicBlock]bool{}
			}
			inter[b] = true
			if len(inter) != len(pd[b]) {
				pd[b] = inter
				changed = true
			}
		}
	}
	return pd
}

// reachable returns the blocks reachable from `from` (inclusive), optionally
// refusing to pass through blocks in `stop`.
func reachable(from *ssa.BasicBlock, stop map[*ssa.BasicBlock]bool) map[*ssa.BasicBlock]bool {
	seen := map[*ssa.BasicBlock]bool{}
	var walk func(b *ssa.BasicBlock)
	walk = func(b *ssa.BasicBlock) {
		if seen[b] || stop[b] {
			return
		}
		seen[b] = true
		for _, s := range b.Succs {
			walk(s)
		}
	}
	walk(from)
	return seen
}

// ---------------------------------------------------------------------------
// Conditions

// stripNot peels `!x` and returns x with the parity of negations.
func stripNot(v ssa.Value) (ssa.Value, bool) {
	neg := false
	for {
		u, ok := v.(*ssa.UnOp)
		if !ok || u.Op != token.NOT {
			return v, neg
		}
		v = u.X
		neg = !neg
	}
}

func isNilConst(v ssa.Value) bool {
	c, ok := v.(*ssa.Const)
	return ok && c.Value == nil
}

// nilTest recognises `x == nil` / `x != nil` (after ! stripping) and returns
// x and whether the condition being TRUE means x is nil.
func nilTest(cond ssa.Value) (x ssa.Value, trueMeansNil bool, ok bool) {
	v, neg := stripNot(cond)
	b, isb := v.(*ssa.BinOp)
	if !isb || (b.Op != token.EQL && b.Op != token.NEQ) {
		return nil, false, false
	}
	var other ssa.Value
	switch {
	case isNilConst(b.Y):
		other = b.X
	case isNilConst(b.X):
		other = b.Y
	default:
		return nil, false, false
	}
	t := b.Op == token.EQL
	if neg {
		t = !t
	}
	return other, t, true
}

// errNilEdgeDominates: block t is only reachable when the error value `err`
// (an SSA value, or any value derived from the same call by tuple extraction)
// was tested and found nil.
func nilEdgeDominates(err ssa.Value, t *ssa.BasicBlock) bool {
	for _, e := range guardingEdges(t) {
		x, trueNil, ok := nilTest(e.If.Cond)
		if !ok {
			continue
		}
		if sameValue(x, err) {
			// taking branch Succ: cond is true iff Succ==0
			condTrue := e.Succ == 0
			if condTrue == trueNil {
				return true
			}
		}
	}
	return false
}

// sameValue: identical SSA value, or both are loads of the same local/field
// path with no intervening information (go/ssa performs no CSE, so `err` kept
// in an Alloc is re-loaded at each use).
func sameValue(a, b ssa.Value) bool {
	if a == b {
		return true
	}
	pa, pb := pathOf(a), pathOf(b)
	if pa != "" && pa == pb && !strings.HasPrefix(pa, "fresh:") {
		return true
	}
	// two reads of the same field through the very same pointer value (a call result held in a register has no path)
	switch x := a.(type) {
	case *ssa.UnOp:
		y, ok := b.(*ssa.UnOp)
		return ok && x.Op == token.MUL && y.Op == token.MUL && sameValue(x.X, y.X)
	case *ssa.FieldAddr:
		y, ok := b.(*ssa.FieldAddr)
		return ok && x.Field == y.Field && types.Identical(x.X.Type(), y.X.Type()) && sameValue(x.X, y.X)
	case *ssa.Field:
		y, ok := b.(*ssa.Field)
		return ok && x.Field == y.Field && types.Identical(x.X.Type(), y.X.Type()) && sameValue(x.X, y.X)
	}
	return false
}

// derefAll strips ChangeType/MakeInterface/Convert wrappers.
func unwrap(v ssa.Value) ssa.Value {
	for {
		switch x := v.(type) {
		case *ssa.ChangeType:
			v = x.X
		case *ssa.MakeInterface:
			v = x.X
		case *ssa.ChangeInterface:
			v = x.X
		case *ssa.Convert:
			v = x.X
		default:
			return v
		}
	}
}

// constInt returns the integer value of a constant SSA value.
func constInt(v ssa.Value) (int64, bool) {
	c, ok := unwrap(v).(*ssa.Const)
	if !ok || c.Value == nil {
		return 0, false
	}
	if !c.IsNil() {
		if i, exact := constantInt64(c); exact {
			return i, true
		}
	}
	return 0, false
}

func constantInt64(c *ssa.Const) (int64, bool) {
	defer func() { recover() }()
	if c.Value == nil {
		return 0, false
	}
	switch c.Value.Kind().String() {
	case "Int":
		return c.Int64(), true
	}
	return 0, false
}

// ---------------------------------------------------------------------------
// Reaching stores for local variables kept in Allocs, and value sources

type storeSet map[*ssa.Store]bool

var reachCache = map[ssa.Value]map[*ssa.BasicBlock]storeSet{}

// reachingIn computes, per block, the set of stores to local `a` (made in a's
// own function) that may reach the block entry. A nil key marks "no store yet"
// (the zero value).
func reachingIn(a ssa.Value) map[*ssa.BasicBlock]storeSet {
	if r, ok := reachCache[a]; ok {
		return r
	}
	fn := a.Parent()
	in := map[*ssa.BasicBlock]storeSet{}
	out := map[*ssa.BasicBlock]storeSet{}
	lastStore := func(b *ssa.BasicBlock) *ssa.Store {
		var last *ssa.Store
		for _, x := range b.Instrs {
			if st, ok := x.(*ssa.Store); ok && st.Addr == a {
				last = st
			}
		}
		return last
	}
	for _, b := range fn.Blocks {
		in[b] = storeSet{}
		out[b] = storeSet{}
	}
	in[fn.Blocks[0]][nil] = true
	changed := true
	for changed {
		changed = false
		for _, b := range fn.Blocks {
			for _, p := range b.Preds {
				for s := range out[p] {
					if !in[b][s] {
						in[b][s] = true
						changed = true
					}
				}
			}
			var o storeSet
			if ls := lastStore(b); ls != nil {
				o = storeSet{ls: true}
			} else {
				o = in[b]
			}
			for s := range o {
				if !out[b][s] {
					out[b][s] = true
					changed = true
				}
			}
			if ls := lastStore(b); ls != nil && len(out[b]) != 1 {
				out[b] = storeSet{ls: true}
			}
		}
	}
	reachCache[a] = in
	return in
}

// storesReaching returns the stores to `a` that may reach instruction `at`.
func storesReaching(a ssa.Value, at ssa.Instruction) storeSet {
	b := at.Block()
	var last *ssa.Store
	for _, x := range b.Instrs {
		if x == at {
			break
		}
		if st, ok := x.(*ssa.Store); ok && st.Addr == a {
			last = st
		}
	}
	if last != nil {
		return storeSet{last: true}
	}
	return reachingIn(a)[b]
}

// sourcesOf resolves a value through phis, conversions and loads of local
// variables (by reaching stores) to the set of values it may come from.
// zero is reported (as a nil entry) when an uninitialised local may be read.
func sourcesOf(v ssa.Value) map[ssa.Value]bool {
	out := map[ssa.Value]bool{}
	seen := map[ssa.Value]bool{}
	var walk func(v ssa.Value)
	walk = func(v ssa.Value) {
		if v == nil || seen[v] {
			return
		}
		seen[v] = true
		switch x := v.(type) {
		case *ssa.Phi:
			for _, e := range x.Edges {
				walk(e)
			}
			return
		case *ssa.ChangeType:
			walk(x.X)
			return
		case *ssa.MakeInterface:
			walk(x.X)
			return
		case *ssa.ChangeInterface:
			walk(x.X)
			return
		case *ssa.UnOp:
			if x.Op == token.MUL {
				if a, ok := x.X.(*ssa.Alloc); ok && a.Parent() == x.Parent() {
					for st := range storesReaching(a, x) {
						if st == nil {
							out[nil] = true
						} else {
							walk(st.Val)
						}
					}
					return
				}
				if fv, ok := x.X.(*ssa.FreeVar); ok {
					// a captured variable: stores made by this function that reach the load; what the
					// creator or other closures stored before is unknown (the load itself stands for it)
					for st := range storesReaching(fv, x) {
						if st == nil {
							out[x] = true
						} else {
							walk(st.Val)
						}
					}
					return
				}
			}
		}
		out[v] = true
	}
	walk(v)
	return out
}

// callOfExtract returns the call an Extract (or a direct single-result call value) comes from.
func callOfValue(v ssa.Value) (*ssa.Call, int) {
	switch x := v.(type) {
	case *ssa.Extract:
		if c, ok := x.Tuple.(*ssa.Call); ok {
			return c, x.Index
		}
	case *ssa.Call:
		return x, 0
	}
	return nil, -1
}

// errTestEdges: for every If in fn whose condition is a nil test of a value
// all of whose sources satisfy pred, returns the edge taken when the value is nil.
type nilEdge struct {
	If   *ssa.If
	Succ int // successor index taken when the tested value IS nil
}

func nilEdgesOf(fn *ssa.Function, pred func(src ssa.Value) bool) []nilEdge {
	var out []nilEdge
	for _, b := range fn.Blocks {
		if len(b.Instrs) == 0 {
			continue
		}
		iff, ok := b.Instrs[len(b.Instrs)-1].(*ssa.If)
		if !ok {
			continue
		}
		x, trueNil, ok := nilTest(iff.Cond)
		if !ok {
			continue
		}
		srcs := sourcesOf(x)
		if len(srcs) == 0 {
			continue
		}
		all := true
		for s := range srcs {
			if s == nil || !pred(s) {
				all = false
				break
			}
		}
		if !all {
			continue
		}
		succ := 1
		if trueNil {
			succ = 0
		}
		out = append(out, nilEdge{iff, succ})
	}
	return out
}

// dominatedByNilEdge: instruction `in` is only reachable through the "is nil"
// edge of a test of a value whose sources all satisfy pred.
func dominatedByNilEdge(in ssa.Instruction, pred func(src ssa.Value) bool) bool {
	for _, e := range nilEdgesOf(in.Parent(), pred) {
		if edgeDominates(e.If.Block(), e.Succ, in.Block()) {
			return true
		}
	}
	return false
}

// inCycle reports whether block b can reach itself.
func inCycle(b *ssa.BasicBlock) bool {
	seen := map[*ssa.BasicBlock]bool{}
	var walk func(x *ssa.BasicBlock) bool
	walk = func(x *ssa.BasicBlock) bool {
		for _, s := range x.Succs {
			if s == b {
				return true
			}
			if !seen[s] {
				seen[s] = true
				if walk(s) {
					return true
				}
			}
		}
		return false
	}
	return walk(b)
}

// reachAvoiding: blocks reachable from `from` without entering blocked blocks
// and without taking blocked edges (block, successor index).
func reachAvoiding(from *ssa.BasicBlock, blocked map[*ssa.BasicBlock]bool, blockedEdges map[[2]int]bool) map[*ssa.BasicBlock]bool {
	seen := map[*ssa.BasicBlock]bool{}
	var walk func(b *ssa.BasicBlock)
	walk = func(b *ssa.BasicBlock) {
		if seen[b] || blocked[b] {
			return
		}
		seen[b] = true
		for i, s := range b.Succs {
			if blockedEdges[[2]int{b.Index, i}] {
				continue
			}
			walk(s)
		}
	}
	walk(from)
	return seen
}

// storesToField lists Store instructions in fn whose address is a FieldAddr of field f.
func storesToField(fn *ssa.Function, f *types.Var) []*ssa.Store {
	var out []*ssa.Store
	for _, b := range fn.Blocks {
		for _, in := range b.Instrs {
			if st, ok := in.(*ssa.Store); ok {
				if fa, ok := st.Addr.(*ssa.FieldAddr); ok && fieldOf(fa) == f {
					out = append(out, st)
				}
			}
		}
	}
	return out
}

// loadsOfField lists loads (UnOp *) of FieldAddr of field f in fn.
func loadsOfField(fn *ssa.Function, f *types.Var) []*ssa.UnOp {
	var out []*ssa.UnOp
	for _, b := range fn.Blocks {
		for _, in := range b.Instrs {
			if u, ok := in.(*ssa.UnOp); ok && u.Op == token.MUL {
				if fa, ok := u.X.(*ssa.FieldAddr); ok && fieldOf(fa) == f {
					out = append(out, u)
				}
			}
		}
	}
	return out
}

// isFieldLoad: v is a load of field f (possibly through conversions).
func isFieldLoad(v ssa.Value, f *types.Var) bool {
	u, ok := unwrap(v).(*ssa.UnOp)
	if !ok || u.Op != token.MUL {
		return false
	}
	fa, ok := u.X.(*ssa.FieldAddr)
	return ok && fieldOf(fa) == f
}

// returnsOf lists the Return instructions of fn, skipping the synthetic
// recover block go/ssa adds to functions with defer.
func returnsOf(fn *ssa.Function) []*ssa.Return {
	var out []*ssa.Return
	for _, b := range fn.Blocks {
		if b == fn.Recover || len(b.Instrs) == 0 {
			continue
		}
		if r, ok := b.Instrs[len(b.Instrs)-1].(*ssa.Return); ok {
			out = append(out, r)
		}
	}
	return out
}

// ---------------------------------------------------------------------------
// Facts: atomic branch conditions known to hold when a block is reached.

type fact struct {
	V     ssa.Value // atomic condition (not a NOT, not a boolean phi)
	Truth bool
	X     ssa.Value // nearPathFacts only: V is a comparison whose left operand, a phi, is this value on the path
}

// condImplies decomposes "cond evaluates to val" into atomic facts. Boolean
// phis produced by && / || are followed when exactly one incoming edge can
// produce that value; the facts guarding that edge's block are added too.
func condImplies(cond ssa.Value, val bool, depth int, out *[]fact) {
	if depth > 6 {
		return
	}
	switch x := cond.(type) {
	case *ssa.UnOp:
		if x.Op == token.NOT {
			condImplies(x.X, !val, depth+1, out)
			return
		}
	case *ssa.Phi:
		cand := -1
		n := 0
		for i, e := range x.Edges {
			if k, ok := e.(*ssa.Const); ok && k.Value != nil {
				if (k.Value.String() == "true") == val {
					n += 2 // a constant edge can produce the value: nothing more is known
				}
				continue
			}
			cand = i
			n++
		}
		if n == 1 && cand >= 0 {
			condImplies(x.Edges[cand], val, depth+1, out)
			pred := x.Block().Preds[cand]
			*out = append(*out, factsAtDepth(pred, depth+1)...)
			return
		}
		// not decomposable: the phi itself is the atom
	}
	*out = append(*out, fact{V: cond, Truth: val})
}

func factsAt(b *ssa.BasicBlock) []fact { return factsAtDepth(b, 0) }

func factsAtDepth(b *ssa.BasicBlock, depth int) []fact {
	var out []fact
	if depth > 6 {
		return out
	}
	for _, e := range guardingEdges(b) {
		condImplies(e.If.Cond, e.Succ == 0, depth+1, &out)
	}
	return out
}

// hasFact: some fact at b satisfies pred(v) with the wanted truth.
func hasFact(b *ssa.BasicBlock, pred func(v ssa.Value, truth bool) bool) bool {
	for _, f := range factsAt(b) {
		if pred(f.V, f.Truth) {
			return true
		}
	}
	return false
}

// sameSources: the two values resolve to the same non-empty set of sources.
func sameSources(a, b ssa.Value) bool {
	sa, sb := sourcesOf(a), sourcesOf(b)
	if len(sa) == 0 || len(sa) != len(sb) {
		return false
	}
	for v := range sa {
		if !sb[v] {
			return false
		}
	}
	return true
}

// ---------------------------------------------------------------------------
// Backward slice (data dependences inside one function, flow-insensitive for
// memory: a load of a local depends on every store to it; an array/struct
// literal depends on every store into it).

func backSlice(v ssa.Value, stop func(ssa.Value) bool) map[ssa.Value]bool {
	seen := map[ssa.Value]bool{}
	var walk func(v ssa.Value)
	walk = func(v ssa.Value) {
		if v == nil || seen[v] {
			return
		}
		seen[v] = true
		if stop != nil && stop(v) {
			return
		}
		switch x := v.(type) {
		case *ssa.Alloc:
			// everything stored into it (directly or into an element/field of it)
			var addrs []ssa.Value
			addrs = append(addrs, x)
			for i := 0; i < len(addrs); i++ {
				refs := addrs[i].Referrers()
				if refs == nil {
					continue
				}
				for _, r := range *refs {
					switch y := r.(type) {
					case *ssa.Store:
						if y.Addr == addrs[i] {
							walk(y.Val)
						}
					case *ssa.IndexAddr:
						addrs = append(addrs, y)
					case *ssa.FieldAddr:
						addrs = append(addrs, y)
					case *ssa.Slice:
						// a slice of the variable aliases it: what is copied into the slice is stored into the variable
						if y.X == addrs[i] {
							addrs = append(addrs, y)
						}
					case *ssa.Call:
						if bi, ok := y.Call.Value.(*ssa.Builtin); ok && bi.Name() == "copy" && len(y.Call.Args) == 2 && y.Call.Args[0] == addrs[i] {
							walk(y.Call.Args[1])
						}
					}
				}
			}
			return
		}
		if in, ok := v.(ssa.Instruction); ok {
			for _, op := range in.Operands(nil) {
				if op != nil && *op != nil {
					walk(*op)
				}
			}
		}
	}
	walk(v)
	return seen
}

// stringConst returns the value of a constant string SSA value.
func stringConst(v ssa.Value) (string, bool) {
	c, ok := unwrap(v).(*ssa.Const)
	if !ok || c.Value == nil || c.Value.Kind().String() != "String" {
		return "", false
	}
	s := c.Value.ExactString()
	if len(s) >= 2 && s[0] == '"' {
		if u, err := strconvUnquote(s); err == nil {
			return u, true
		}
	}
	return s, true
}

// instrReaches: some execution can run a and later b.
func instrReaches(a, b ssa.Instruction) bool {
	if a.Block() == b.Block() {
		if instrIndex(a) < instrIndex(b) {
			return true
		}
		return inCycle(a.Block())
	}
	return reachable(a.Block(), nil)[b.Block()]
}

// controlConds returns the branch conditions block b is (transitively) control dependent on: the If conditions of
// every block A with a successor that b post-dominates (or is) while b does not strictly post-dominate A.
func controlConds(b *ssa.BasicBlock) []ssa.Value {
	fn := b.Parent()
	pd := postDominators(fn)
	seen := map[*ssa.BasicBlock]bool{}
	var out []ssa.Value
	var walk func(t *ssa.BasicBlock)
	walk = func(t *ssa.BasicBlock) {
		for _, a := range fn.Blocks {
			if len(a.Succs) != 2 || seen[a] {
				continue
			}
			iff, ok := a.Instrs[len(a.Instrs)-1].(*ssa.If)
			if !ok {
				continue
			}
			dep := false
			for _, s := range a.Succs {
				if (s == t || pd[s][t]) && !(a != t && pd[a][t]) {
					dep = true
				}
			}
			if dep {
				seen[a] = true
				out = append(out, iff.Cond)
				walk(a)
			}
		}
	}
	walk(b)
	return out
}

// ---------------------------------------------------------------------------
// Path conditions: the branch outcomes along every acyclic CFG path from the entry of fn to an instruction.

// pathsTo enumerates the acyclic paths from the entry block to the block of target; each path is the list of
// (If condition, outcome) pairs taken, decomposed into atomic facts. ok=false if more than max paths exist.
func pathsTo(fn *ssa.Function, target ssa.Instruction, max int) (paths [][]fact, ok bool) {
	tb := target.Block()
	onPath := map[*ssa.BasicBlock]bool{}
	// blocks from which tb is reachable (prune)
	reach := map[*ssa.BasicBlock]bool{tb: true}
	for changed := true; changed; {
		changed = false
		for _, b := range fn.Blocks {
			if reach[b] {
				continue
			}
			for _, s := range b.Succs {
				if reach[s] {
					reach[b] = true
					changed = true
					break
				}
			}
		}
	}
	ok = true
	var cur []fact
	var walk func(b *ssa.BasicBlock)
	walk = func(b *ssa.BasicBlock) {
		if !ok || !reach[b] || onPath[b] {
			return
		}
		if b == tb {
			if len(paths) >= max {
				ok = false
				return
			}
			paths = append(paths, append([]fact{}, cur...))
			return
		}
		onPath[b] = true
		defer func() { onPath[b] = false }()
		if iff, isIf := b.Instrs[len(b.Instrs)-1].(*ssa.If); isIf && len(b.Succs) == 2 {
			for i, s := range b.Succs {
				n := len(cur)
				condImplies(iff.Cond, i == 0, 0, &cur)
				walk(s)
				cur = cur[:n]
			}
			return
		}
		for _, s := range b.Succs {
			walk(s)
		}
	}
	if len(fn.Blocks) > 0 {
		walk(fn.Blocks[0])
	}
	return paths, ok
}

// ---------------------------------------------------------------------------
// Feasible reachability: CFG reachability that follows what is known about nil-ness and boolean constants through
// phi nodes, so that "the error branch" of a value that is merged and tested again (x, err := f(); if err != nil …
// after f was inlined, or a result assigned on several paths and tested once) is not confused with the success branch.

type vfact struct {
	nilness int // 0 unknown, 1 nil, 2 non-nil
	boolean int // 0 unknown, 1 false, 2 true
}

// feasiblyReaches reports whether target can be reached from block `from` (entered with the given facts) along a path
// on which no branch contradicts the facts accumulated so far.
func feasiblyReaches(from *ssa.BasicBlock, init map[ssa.Value]vfact, target *ssa.BasicBlock) bool {
	type key struct {
		b   *ssa.BasicBlock
		sig string
	}
	seen := map[key]bool{}
	sigOf := func(f map[ssa.Value]vfact) string {
		var ks []string
		for v, x := range f {
			ks = append(ks, fmt.Sprintf("%p:%d%d", v, x.nilness, x.boolean))
		}
		sort.Strings(ks)
		return strings.Join(ks, ",")
	}
	known := func(f map[ssa.Value]vfact, v ssa.Value) vfact {
		if k, ok := v.(*ssa.Const); ok {
			if k.Value == nil {
				if isNilConst(v) {
					return vfact{nilness: 1}
				}
				return vfact{}
			}
			switch k.Value.String() {
			case "true":
				return vfact{boolean: 2}
			case "false":
				return vfact{boolean: 1}
			}
			return vfact{}
		}
		switch x := v.(type) {
		case *ssa.MakeInterface, *ssa.Alloc, *ssa.MakeClosure, *ssa.MakeSlice, *ssa.MakeMap, *ssa.MakeChan:
			return vfact{nilness: 2}
		case *ssa.ChangeInterface:
			return f[x.X]
		case *ssa.UnOp:
			if x.Op == token.NOT {
				in := f[x.X]
				if in.boolean == 0 {
					return f[v]
				}
				return vfact{boolean: 3 - in.boolean}
			}
		}
		return f[v]
	}
	found := false
	var walk func(b *ssa.BasicBlock, f map[ssa.Value]vfact, depth int)
	walk = func(b *ssa.BasicBlock, f map[ssa.Value]vfact, depth int) {
		if found || depth > 400 {
			return
		}
		if b == target {
			found = true
			return
		}
		k := key{b, sigOf(f)}
		if seen[k] {
			return
		}
		seen[k] = true
		next := func(s *ssa.BasicBlock, extra map[ssa.Value]vfact) {
			nf := map[ssa.Value]vfact{}
			for v, x := range f {
				nf[v] = x
			}
			for v, x := range extra {
				nf[v] = x
			}
			// phis of s take the value of the edge b→s
			idx := -1
			for i, p := range s.Preds {
				if p == b {
					idx = i
				}
			}
			if idx >= 0 {
				upd := map[ssa.Value]vfact{}
				for _, in := range s.Instrs {
					phi, ok := in.(*ssa.Phi)
					if !ok {
						break
					}
					upd[phi] = known(nf, phi.Edges[idx])
				}
				for v, x := range upd {
					if x == (vfact{}) {
						delete(nf, v)
					} else {
						nf[v] = x
					}
				}
			}
			walk(s, nf, depth+1)
		}
		last := b.Instrs[len(b.Instrs)-1]
		iff, isIf := last.(*ssa.If)
		if !isIf || len(b.Succs) != 2 {
			for _, s := range b.Succs {
				next(s, nil)
			}
			return
		}
		// outcome known?
		cond := iff.Cond
		kc := known(f, cond)
		var tExtra, fExtra map[ssa.Value]vfact
		if bo, ok := cond.(*ssa.BinOp); ok && (bo.Op == token.EQL || bo.Op == token.NEQ) {
			x, y := bo.X, bo.Y
			if isNilConst(x) {
				x, y = y, x
			}
			if isNilConst(y) {
				kx := known(f, x)
				if kx.nilness != 0 {
					isNil := kx.nilness == 1
					if (bo.Op == token.EQL) == isNil {
						kc = vfact{boolean: 2}
					} else {
						kc = vfact{boolean: 1}
					}
				} else {
					nilF, nonNilF := map[ssa.Value]vfact{x: {nilness: 1}}, map[ssa.Value]vfact{x: {nilness: 2}}
					if bo.Op == token.EQL {
						tExtra, fExtra = nilF, nonNilF
					} else {
						tExtra, fExtra = nonNilF, nilF
					}
				}
			}
		}
		if kc.boolean == 0 {
			if tExtra == nil {
				tExtra, fExtra = map[ssa.Value]vfact{}, map[ssa.Value]vfact{}
			}
			c0, neg := stripNot(cond)
			tv, fv := vfact{boolean: 2}, vfact{boolean: 1}
			if neg {
				tv, fv = fv, tv
			}
			tExtra[c0], fExtra[c0] = tv, fv
		}
		if kc.boolean != 1 {
			next(b.Succs[0], tExtra)
		}
		if kc.boolean != 2 {
			next(b.Succs[1], fExtra)
		}
	}
	f0 := map[ssa.Value]vfact{}
	for v, x := range init {
		f0[v] = x
	}
	walk(from, f0, 0)
	return found
}

// ---------------------------------------------------------------------------
// Near path facts: what is known at an instruction on each way into it, value correlations included.
//
// factsAt knows only the branch outcomes that dominate a block. A guard written at the value level
//
//	ttl := 0; switch { case !weighted: ttl = 1000; case timeout > 0: ttl = timeout }; if ttl > 0 { insert }
//
// or as a disjunction (`if !weighted || lifetime > 0`) dominates nothing useful. nearPathFacts enumerates the acyclic
// paths from a dominator H of the instruction's block to that block (H is pushed up the dominator tree as long as the
// region stays acyclic and the number of paths stays below max), resolves every phi of the region to the operand
// selected by the path, evaluates conditions that became constant (pruning the infeasible paths) and returns, per
// feasible path, the facts that dominate H plus the outcomes taken on the path. A fact whose left operand was a phi
// resolved on the path carries the resolved operand in X.
func nearPathFacts(site ssa.Instruction, max int) [][]fact {
	var out [][]fact
	for _, p := range nearPaths(site, max) {
		out = append(out, p.facts)
	}
	return out
}

// nearPath is one way into an instruction: the facts known on it and the operand every phi of the region stands for.
type nearPath struct {
	facts []fact
	res   map[*ssa.Phi]ssa.Value
}

// value resolves v (through conversions) to what it stands for on the path.
func (p nearPath) value(v ssa.Value) ssa.Value {
	for i := 0; i < 8; i++ {
		if phi, isPhi := unwrap(v).(*ssa.Phi); isPhi {
			if r, known := p.res[phi]; known {
				v = r
				continue
			}
		}
		break
	}
	return v
}

func nearPaths(site ssa.Instruction, max int) []nearPath {
	tb := site.Block()
	region := func(h *ssa.BasicBlock) (map[*ssa.BasicBlock]bool, bool) {
		// blocks on some path h -> tb; acyclic?
		fromH := reachable(h, nil)
		in := map[*ssa.BasicBlock]bool{}
		for b := range fromH {
			if b == tb || reachable(b, nil)[tb] {
				if h.Dominates(b) {
					in[b] = true
				}
			}
		}
		in[h] = true
		// a cycle inside the region?
		for b := range in {
			if b == tb {
				continue
			}
			for _, s := range b.Succs {
				if in[s] && (s == b || s.Dominates(b)) {
					return in, false
				}
			}
		}
		return in, true
	}
	enumerate := func(h *ssa.BasicBlock, in map[*ssa.BasicBlock]bool) ([]nearPath, bool) {
		var out []nearPath
		ok := true
		res := map[*ssa.Phi]ssa.Value{}
		resolve := func(v ssa.Value) ssa.Value {
			for i := 0; i < 8; i++ {
				u := unwrap(v)
				if phi, isPhi := u.(*ssa.Phi); isPhi {
					if r, known := res[phi]; known {
						v = r
						continue
					}
				}
				return v
			}
			return v
		}
		var evalCond func(cond ssa.Value, val bool, cur *[]fact) bool // false: infeasible
		evalCond = func(cond ssa.Value, val bool, cur *[]fact) bool {
			switch x := cond.(type) {
			case *ssa.UnOp:
				if x.Op == token.NOT {
					return evalCond(x.X, !val, cur)
				}
			case *ssa.Phi:
				if r, known := res[x]; known {
					if k, isK := r.(*ssa.Const); isK && k.Value != nil {
						return (k.Value.String() == "true") == val
					}
					return evalCond(r, val, cur)
				}
			case *ssa.BinOp:
				rx, ry := resolve(x.X), resolve(x.Y)
				kx, okx := constInt(rx)
				ky, oky := constInt(ry)
				if okx && oky {
					var t bool
					switch x.Op {
					case token.GTR:
						t = kx > ky
					case token.GEQ:
						t = kx >= ky
					case token.LSS:
						t = kx < ky
					case token.LEQ:
						t = kx <= ky
					case token.EQL:
						t = kx == ky
					case token.NEQ:
						t = kx != ky
					default:
						*cur = append(*cur, fact{V: cond, Truth: val})
						return true
					}
					return t == val
				}
				if rx != x.X {
					*cur = append(*cur, fact{V: cond, Truth: val, X: rx})
					return true
				}
			}
			condImplies(cond, val, 0, cur)
			return true
		}
		base := factsAt(h)
		var walk func(b, prev *ssa.BasicBlock, cur []fact)
		walk = func(b, prev *ssa.BasicBlock, cur []fact) {
			if !ok {
				return
			}
			var set []*ssa.Phi
			if prev != nil {
				idx := -1
				for i, p := range b.Preds {
					if p == prev {
						idx = i
					}
				}
				// parallel assignment: resolve every operand before binding
				var vals []ssa.Value
				for _, in := range b.Instrs {
					phi, isPhi := in.(*ssa.Phi)
					if !isPhi {
						break
					}
					set = append(set, phi)
					vals = append(vals, resolve(phi.Edges[idx]))
				}
				for i, phi := range set {
					res[phi] = vals[i]
				}
			}
			defer func() {
				for _, phi := range set {
					delete(res, phi)
				}
			}()
			if b == tb {
				if len(out) >= max {
					ok = false
					return
				}
				snap := map[*ssa.Phi]ssa.Value{}
				for k, v := range res {
					snap[k] = v
				}
				out = append(out, nearPath{append(append([]fact{}, base...), cur...), snap})
				return
			}
			iff, isIf := b.Instrs[len(b.Instrs)-1].(*ssa.If)
			for i, s := range b.Succs {
				if !in[s] {
					continue
				}
				n := len(cur)
				feasible := true
				if isIf && len(b.Succs) == 2 && b.Succs[0] != b.Succs[1] {
					feasible = evalCond(iff.Cond, i == 0, &cur)
				}
				if feasible {
					walk(s, b, cur)
				}
				cur = cur[:n]
			}
		}
		if h == tb {
			return []nearPath{{facts: base}}, true
		}
		walk(h, nil, nil)
		return out, ok
	}
	best := []nearPath{{facts: factsAt(tb)}}
	h := tb
	for steps := 0; steps < 12; steps++ {
		cand := h.Idom()
		if cand == nil {
			break
		}
		in, acyclic := region(cand)
		if !acyclic {
			break
		}
		paths, ok := enumerate(cand, in)
		if !ok {
			break
		}
		h = cand
		best = paths
	}
	return best
}

// factOperands returns the comparison a fact is about, with the left operand as resolved on the path (see nearPathFacts).
func factOperands(f fact) (op token.Token, x, y ssa.Value, ok bool) {
	b, isBin := f.V.(*ssa.BinOp)
	if !isBin {
		return 0, nil, nil, false
	}
	x = b.X
	if f.X != nil {
		x = f.X
	}
	return b.Op, x, b.Y, true
}

// arrayConst evaluates an array value built from constants: the zero value, or a composite literal all of whose
// elements are stored as constants.
func arrayConst(v ssa.Value) ([]int64, bool) {
	v = unwrap(v)
	at, ok := v.Type().Underlying().(*types.Array)
	if !ok || at.Len() > 64 {
		return nil, false
	}
	out := make([]int64, at.Len())
	switch x := v.(type) {
	case *ssa.Const:
		return out, x.Value == nil
	case *ssa.UnOp:
		al, isAl := x.X.(*ssa.Alloc)
		if x.Op != token.MUL || !isAl || al.Referrers() == nil {
			return nil, false
		}
		for _, r := range *al.Referrers() {
			switch y := r.(type) {
			case *ssa.IndexAddr:
				i, isC := constInt(y.Index)
				if !isC || i < 0 || i >= at.Len() || y.Referrers() == nil {
					return nil, false
				}
				for _, rr := range *y.Referrers() {
					st, isSt := rr.(*ssa.Store)
					if !isSt || st.Addr != y {
						return nil, false
					}
					k, isK := constInt(st.Val)
					if !isK {
						return nil, false
					}
					out[i] = k
				}
			case *ssa.UnOp, *ssa.DebugRef:
			default:
				return nil, false
			}
		}
		return out, true
	}
	return nil, false
}

// ---------------------------------------------------------------------------
// pathEnv: the evaluator behind nearPaths, usable by other path enumerations: phis bound to the operand of the edge
// the path came in by, conditions that became constant decided.

type pathEnv struct {
	res map[*ssa.Phi]ssa.Value
}

func newPathEnv() *pathEnv { return &pathEnv{res: map[*ssa.Phi]ssa.Value{}} }

func (e *pathEnv) resolve(v ssa.Value) ssa.Value {
	for i := 0; i < 8; i++ {
		if phi, isPhi := unwrap(v).(*ssa.Phi); isPhi {
			if r, known := e.res[phi]; known {
				v = r
				continue
			}
		}
		return v
	}
	return v
}

// enter binds the phis of b for a path arriving from prev; the returned function undoes the binding.
func (e *pathEnv) enter(b, prev *ssa.BasicBlock) func() {
	var set []*ssa.Phi
	old := map[*ssa.Phi]ssa.Value{}
	if prev != nil {
		idx := -1
		for i, p := range b.Preds {
			if p == prev {
				idx = i
			}
		}
		if idx >= 0 {
			var vals []ssa.Value
			for _, in := range b.Instrs {
				phi, isPhi := in.(*ssa.Phi)
				if !isPhi {
					break
				}
				set = append(set, phi)
				vals = append(vals, e.resolve(phi.Edges[idx]))
			}
			for i, phi := range set {
				if o, had := e.res[phi]; had {
					old[phi] = o
				}
				e.res[phi] = vals[i]
			}
		}
	}
	return func() {
		for _, phi := range set {
			if o, had := old[phi]; had {
				e.res[phi] = o
			} else {
				delete(e.res, phi)
			}
		}
	}
}

// take evaluates "cond is val" on the path: false if that is impossible; otherwise the facts it adds are appended.
func (e *pathEnv) take(cond ssa.Value, val bool, cur *[]fact) bool {
	switch x := cond.(type) {
	case *ssa.UnOp:
		if x.Op == token.NOT {
			return e.take(x.X, !val, cur)
		}
	case *ssa.Phi:
		if r, known := e.res[x]; known {
			if k, isK := r.(*ssa.Const); isK && k.Value != nil {
				return (k.Value.String() == "true") == val
			}
			return e.take(r, val, cur)
		}
	case *ssa.BinOp:
		rx, ry := e.resolve(x.X), e.resolve(x.Y)
		kx, okx := constInt(rx)
		ky, oky := constInt(ry)
		if okx && oky {
			var t bool
			switch x.Op {
			case token.GTR:
				t = kx > ky
			case token.GEQ:
				t = kx >= ky
			case token.LSS:
				t = kx < ky
			case token.LEQ:
				t = kx <= ky
			case token.EQL:
				t = kx == ky
			case token.NEQ:
				t = kx != ky
			default:
				*cur = append(*cur, fact{V: cond, Truth: val})
				return true
			}
			return t == val
		}
		if rx != x.X {
			*cur = append(*cur, fact{V: cond, Truth: val, X: rx})
			return true
		}
	}
	condImplies(cond, val, 0, cur)
	return true
}

// loopIterationPaths enumerates the ways through one iteration of a natural loop whose body has no inner cycle: from
// the body entry back to the header, not entering a block of stop. Each path is the list of facts of the branch
// outcomes taken (phis resolved along the path, impossible outcomes pruned). ok=false if the body has an inner cycle
// or more than max paths.
func loopIterationPaths(header, entry *ssa.BasicBlock, body, stop map[*ssa.BasicBlock]bool, max int) (paths [][]fact, ok bool) {
	ok = true
	env := newPathEnv()
	onPath := map[*ssa.BasicBlock]bool{}
	var walk func(b, prev *ssa.BasicBlock, cur []fact)
	walk = func(b, prev *ssa.BasicBlock, cur []fact) {
		if !ok {
			return
		}
		if b == header {
			if len(paths) >= max {
				ok = false
				return
			}
			paths = append(paths, append([]fact{}, cur...))
			return
		}
		if !body[b] || stop[b] {
			return // leaves the loop, or reaches the sink
		}
		if onPath[b] {
			ok = false // an inner cycle
			return
		}
		onPath[b] = true
		undo := env.enter(b, prev)
		defer func() { undo(); onPath[b] = false }()
		iff, isIf := b.Instrs[len(b.Instrs)-1].(*ssa.If)
		for i, s := range b.Succs {
			n := len(cur)
			feasible := true
			if isIf && len(b.Succs) == 2 && b.Succs[0] != b.Succs[1] {
				feasible = env.take(iff.Cond, i == 0, &cur)
			}
			if feasible {
				walk(s, b, cur)
			}
			cur = cur[:n]
		}
	}
	walk(entry, header, nil)
	return paths, ok
}

// funcPath is one acyclic way through a function, from the entry to a block that ends it.
type funcPath struct {
	blocks []*ssa.BasicBlock
	facts  []fact
	env    map[*ssa.Phi]ssa.Value
}

func (p funcPath) value(v ssa.Value) ssa.Value { return nearPath{res: p.env}.value(v) }

// funcPaths enumerates the feasible acyclic paths from the entry of fn to its returning blocks (phis resolved,
// constant conditions decided). ok=false if fn has a cycle on the way or more than max paths.
func funcPaths(fn *ssa.Function, max int) (paths []funcPath, ok bool) {
	ok = true
	if len(fn.Blocks) == 0 {
		return nil, false
	}
	env := newPathEnv()
	onPath := map[*ssa.BasicBlock]bool{}
	var blocks []*ssa.BasicBlock
	var walk func(b, prev *ssa.BasicBlock, cur []fact)
	walk = func(b, prev *ssa.BasicBlock, cur []fact) {
		if !ok {
			return
		}
		if onPath[b] {
			ok = false
			return
		}
		onPath[b] = true
		blocks = append(blocks, b)
		undo := env.enter(b, prev)
		defer func() { undo(); onPath[b] = false; blocks = blocks[:len(blocks)-1] }()
		if len(b.Succs) == 0 {
			if len(paths) >= max {
				ok = false
				return
			}
			snap := map[*ssa.Phi]ssa.Value{}
			for k, v := range env.res {
				snap[k] = v
			}
			paths = append(paths, funcPath{append([]*ssa.BasicBlock{}, blocks...), append([]fact{}, cur...), snap})
			return
		}
		iff, isIf := b.Instrs[len(b.Instrs)-1].(*ssa.If)
		for i, s := range b.Succs {
			n := len(cur)
			feasible := true
			if isIf && len(b.Succs) == 2 && b.Succs[0] != b.Succs[1] {
				feasible = env.take(iff.Cond, i == 0, &cur)
			}
			if feasible {
				walk(s, b, cur)
			}
			cur = cur[:n]
		}
	}
	walk(fn.Blocks[0], nil, nil)
	return paths, ok
}
