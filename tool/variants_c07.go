package main

func init() {
	const rdbgo = "dnsdata/rdb/rdb.go"
	const comp = "dnsdata/rdb/rdb_compiler.go"
	const parser = "dnsdata/parser.go"
	addVariants(
		variant{Name: "c15-batch-entries-coalesced(seed c15a)", Props: []string{"C15", "C08"}, Expect: []string{"C15.single-value|(*dnsdata/rdb.kvList).push|values-store#1|one-element", "C08.single-value|(*dnsdata/rdb.kvList).push|values-store#1|one-element"},
			Edits: []edit{{"dnsdata/rdb/rdb.go", "\tbatch.addedPairs = append(\n\t\tbatch.addedPairs,\n\t\tkeyValues{\n\t\t\tkey:    copyBytes(key),\n\t\t\tvalues: [][]byte{copyBytes(value)},\n\t\t},\n\t)\n", "\tbatch.addedPairs.push(key, value)\n"}, {"dnsdata/rdb/rdb.go", "\tbatch.deletedPairs = append(\n\t\tbatch.deletedPairs,\n\t\tkeyValues{\n\t\t\tkey:    copyBytes(key),\n\t\t\tvalues: [][]byte{copyBytes(value)},\n\t\t},\n\t)\n", "\tbatch.deletedPairs.push(key, value)\n"}, {"dnsdata/rdb/rdb_util.go", "\nfunc copyBytes(b []byte) []byte {", "\nfunc (kv *kvList) push(key, value []byte) {\n\tif n := len(*kv); n > 0 && bytes.Equal((*kv)[n-1].key, key) {\n\t\t(*kv)[n-1].values = append((*kv)[n-1].values, copyBytes(value))\n\t\treturn\n\t}\n\t*kv = append(*kv, keyValues{\n\t\tkey:    copyBytes(key),\n\t\tvalues: [][]byte{copyBytes(value)},\n\t})\n}\n\nfunc copyBytes(b []byte) []byte {"}}},
		variant{Name: "c15-batch-push-helper(benign)", Benign: true, Props: []string{"C15", "C08"},
			Edits: []edit{{"dnsdata/rdb/rdb.go", "\tbatch.addedPairs = append(\n\t\tbatch.addedPairs,\n\t\tkeyValues{\n\t\t\tkey:    copyBytes(key),\n\t\t\tvalues: [][]byte{copyBytes(value)},\n\t\t},\n\t)\n", "\tbatch.addedPairs.push(key, value)\n"}, {"dnsdata/rdb/rdb.go", "\tbatch.deletedPairs = append(\n\t\tbatch.deletedPairs,\n\t\tkeyValues{\n\t\t\tkey:    copyBytes(key),\n\t\t\tvalues: [][]byte{copyBytes(value)},\n\t\t},\n\t)\n", "\tbatch.deletedPairs.push(key, value)\n"}, {"dnsdata/rdb/rdb_util.go", "\nfunc copyBytes(b []byte) []byte {", "\nfunc (kv *kvList) push(key, value []byte) {\n\t*kv = append(*kv, keyValues{\n\t\tkey:    copyBytes(key),\n\t\tvalues: [][]byte{copyBytes(value)},\n\t})\n}\n\nfunc copyBytes(b []byte) []byte {"}}},
		variant{Name: "c08-integrate-dedups-additions(seed c08b)", Props: []string{"C08", "C15"}, Expect: []string{"C08.apply-unconditional|(*dnsdata/rdb.Batch).integrate|appendValues#1", "C15.apply-unconditional|(*dnsdata/rdb.Batch).integrate|appendValues#1"},
			Edits: []edit{{"dnsdata/rdb/rdb.go", "\t\t\t(*dbValues)[i] = appendValues((*dbValues)[i], batch.addedPairs[aOffset].values)\n", "\t\t\tfor _, v := range batch.addedPairs[aOffset].values {\n\t\t\t\tif bytes.Contains((*dbValues)[i], v) {\n\t\t\t\t\tcontinue\n\t\t\t\t}\n\t\t\t\t(*dbValues)[i] = appendValues((*dbValues)[i], [][]byte{v})\n\t\t\t}\n"}}},
		variant{Name: "c08-integrate-per-value-append(benign)", Benign: true, Props: []string{"C08", "C15"},
			Edits: []edit{{"dnsdata/rdb/rdb.go", "\t\t\t(*dbValues)[i] = appendValues((*dbValues)[i], batch.addedPairs[aOffset].values)\n", "\t\t\tfor _, v := range batch.addedPairs[aOffset].values {\n\t\t\t\t(*dbValues)[i] = appendValues((*dbValues)[i], [][]byte{v})\n\t\t\t}\n"}}},
		variant{Name: "c07-executebatch-locks-after-read", Props: []string{"C07", "C08", "C15"}, Expect: []string{"C07.rmw|(*dnsdata/rdb.RDB).ExecuteBatch", "C15.rmw|(*dnsdata/rdb.RDB).ExecuteBatch"},
			Edits: []edit{{rdbgo, "\trdb.writeMutex.Lock()\n\tdefer rdb.writeMutex.Unlock()\n\tdbValues, errors := rdb.db.GetMulti(rdb.readOptions, uniqueKeys)\n", "\tdbValues, errors := rdb.db.GetMulti(rdb.readOptions, uniqueKeys)\n\trdb.writeMutex.Lock()\n\tdefer rdb.writeMutex.Unlock()\n"}}},
		variant{Name: "c07-add-unlocks-between-read-and-write", Props: []string{"C07", "C15"}, Expect: []string{"C07.rmw|(*dnsdata/rdb.RDB).Add"},
			Edits: []edit{{rdbgo, "\trdb.writeMutex.Lock()\n\tdefer rdb.writeMutex.Unlock()\n\n\toldData, err := rdb.db.Get(rdb.readOptions, key)\n\tif err != nil {\n\t\treturn err\n\t}\n\n\treturn rdb.db.Put(", "\trdb.writeMutex.Lock()\n\toldData, err := rdb.db.Get(rdb.readOptions, key)\n\trdb.writeMutex.Unlock()\n\tif err != nil {\n\t\treturn err\n\t}\n\trdb.writeMutex.Lock()\n\tdefer rdb.writeMutex.Unlock()\n\n\treturn rdb.db.Put("}}},
		variant{Name: "c07-batch-error-ignored", Props: []string{"C07"}, Expect: []string{"C07.errors|dnsdata/rdb.compileBatches"},
			Edits: []edit{{comp, "\t\tif err := db.ExecuteBatch(rdbBatch); err != nil {\n\t\t\treturn nw, fmt.Errorf(\"error executing batch: %w\", err)\n\t\t}\n", "\t\t_ = db.ExecuteBatch(rdbBatch)\n"}}},
		variant{Name: "c07-batch-goroutine-error-logged-only", Props: []string{"C07"}, Expect: []string{"C07.errors|dnsdata/rdb.compileBatches$func:$func:"},
			Edits: []edit{{comp, "\t\t\t\t\tif err := db.ExecuteBatch(b); err != nil {\n\t\t\t\t\t\treturn fmt.Errorf(\"error executing batch: %w\", err)\n\t\t\t\t\t}", "\t\t\t\t\tif err := db.ExecuteBatch(b); err != nil {\n\t\t\t\t\t\tlog.Printf(\"error executing batch: %v\", err)\n\t\t\t\t\t}"}}},
		variant{Name: "c07-store-skips-empty-values", Props: []string{"C07"}, Expect: []string{"C07.nodrop|dnsdata/rdb.compileBatches$func:|record-loop"},
			Edits: []edit{{comp, "\t\tfor _, m := range data {\n\t\t\trdbBatch.Add(m.Key, m.Value)\n", "\t\tfor _, m := range data {\n\t\t\tif len(m.Value) == 0 {\n\t\t\t\tcontinue\n\t\t\t}\n\t\t\trdbBatch.Add(m.Key, m.Value)\n"}}},
		variant{Name: "c07-cdb-stops-at-first-duplicate", Props: []string{"C07"}, Expect: []string{"C07.nodrop|dnsdata/cdb.CreateCDBFromReader|record-loop"},
			Edits: []edit{{"dnsdata/cdb/cdb.go", "\t\tfor _, m := range v {\n\t\t\terr := db.Put(m.Key, m.Value)", "\t\tfor i, m := range v {\n\t\t\tif i > 0 && bytes.Equal(m.Key, v[i-1].Key) && bytes.Equal(m.Value, v[i-1].Value) {\n\t\t\t\tcontinue\n\t\t\t}\n\t\t\terr := db.Put(m.Key, m.Value)"},
				{"dnsdata/cdb/cdb.go", "import (\n", "import (\n\t\"bytes\"\n"}}},
		variant{Name: "c07-batch-not-replaced-after-handoff", Props: []string{"C07"}, Expect: []string{"C07.batch-rebind|dnsdata/rdb.compileBatches$func:"},
			Edits: []edit{{comp, "\t\t\t\trdbBatch = db.CreateBatch()\n\t\t\t}\n\t\t}\n\t}", "\t\t\t}\n\t\t}\n\t}"}}},
		variant{Name: "c07-features-before-parse", Props: []string{"C07"}, Expect: []string{"C07.tail|dnsdata.ParseStream|Rfeatures.MarshalMap-sent-once-after-parse"},
			Edits: []edit{{parser, "\tdefer close(results)\n\n\terr := parse(\n\t\tr,\n\t\tfunc(line []byte) error {\n\t\t\tv, err := codec.ConvertLn(line)", "\tdefer close(results)\n\n\tif fv, ferr := codec.Features.MarshalMap(); ferr == nil {\n\t\tresults <- fv\n\t}\n\terr := parse(\n\t\tr,\n\t\tfunc(line []byte) error {\n\t\t\tv, err := codec.ConvertLn(line)"},
				{parser, "\t// Pack the supported features\n\tv, err = codec.Features.MarshalMap()\n\tif err != nil {\n\t\treturn fmt.Errorf(\"features marshalling failed: %w\", err)\n\t}\n\tresults <- v\n", ""}}},
		variant{Name: "c07-worker-error-swallowed", Props: []string{"C07"}, Expect: []string{"C07.errors|dnsdata.parse$func:"},
			Edits: []edit{{parser, "\t\t\t\tif err := process(line); err != nil {\n\t\t\t\t\treturn err\n\t\t\t\t}", "\t\t\t\tif err := process(line); err != nil {\n\t\t\t\t\tcontinue\n\t\t\t\t}"}}},
		variant{Name: "c07-scanner-skips-long-lines", Props: []string{"C07"}, Expect: []string{"C07.nodrop|dnsdata.parse|scan-loop"},
			Edits: []edit{{parser, "\t\t\tif len(line) < 2 || bytes.HasPrefix(line, []byte(\"#\")) {\n\t\t\t\tcontinue\n\t\t\t}", "\t\t\tif len(line) < 2 || bytes.HasPrefix(line, []byte(\"#\")) || len(line) > 4096 {\n\t\t\t\tcontinue\n\t\t\t}"}}},
		variant{Name: "c07-buckets-compare-with-bucket-start", Props: []string{"C07"}, Expect: []string{"C07.buckets|"},
			Edits: []edit{{"dnsdata/rdb/rdb_builder.go", "if !bytes.Equal(b.values[bucketEnd].key, b.values[bucketEnd-1].key) {", "if !bytes.Equal(b.values[bucketEnd].key, b.values[bucketStart].key) {"}}},
		variant{Name: "c08-applydiff-executes-per-line", Props: []string{"C08"}, Expect: []string{"C08.atomic|(*dnsdata/rdb.RDB).ApplyDiff|no-mutation-inside-the-scan-loop"},
			Edits: []edit{{"dnsdata/rdb/applydiff.go", "\t\tbatch.ApplyDiff(e)\n\t}", "\t\tbatch.ApplyDiff(e)\n\t\tif err := rdb.ExecuteBatch(batch); err != nil {\n\t\t\treturn err\n\t\t}\n\t\tbatch = rdb.CreateBatch()\n\t}"}}},
		variant{Name: "c08-integrate-error-ignored", Props: []string{"C08", "C15"}, Expect: []string{"C08.atomic|(*dnsdata/rdb.RDB).ExecuteBatch|single-write-after-integrate"},
			Edits: []edit{{rdbgo, "\tif err := batch.integrate(uniqueKeys, &dbValues); err != nil {\n\t\treturn err\n\t}\n", "\tif err := batch.integrate(uniqueKeys, &dbValues); err != nil {\n\t\tlog.Printf(\"integrate: %v\", err)\n\t}\n"}}},
		variant{Name: "c08-ops-swapped", Props: []string{"C08"}, Expect: []string{"C08.codec|(*dnsdata/rdb.Batch).ApplyDiff|"},
			Edits: []edit{{"dnsdata/rdb/applydiff.go", "\t\tcase dbdiff.AddOp:\n\t\t\tbatch.Add(r.Key, r.Value)\n\t\tcase dbdiff.DelOp:\n\t\t\tbatch.Del(r.Key, r.Value)", "\t\tcase dbdiff.DelOp:\n\t\t\tbatch.Add(r.Key, r.Value)\n\t\tcase dbdiff.AddOp:\n\t\t\tbatch.Del(r.Key, r.Value)"}}},
		variant{Name: "c08-v2keys-not-taken-from-db", Props: []string{"C08"}, Expect: []string{"C08.codec|(*dnsdata/rdb.RDB).ApplyDiff|key-layout-from-database"},
			Edits: []edit{{"dnsdata/rdb/applydiff.go", "\tcodec.Features.UseV2Keys = rdb.IsV2KeySyntaxUsed()\n", ""}}},
		variant{Name: "c15-del-writes-before-delvalue-check", Props: []string{"C15"}, Expect: []string{"C15.failfirst|(*dnsdata/rdb.RDB).Del|"},
			Edits: []edit{{rdbgo, "\tnewData, err := delValue(data, value)\n\tif err != nil {\n\t\treturn err\n\t}\n\n\tif len(newData) == 0 {", "\tnewData, err := delValue(data, value)\n\n\tif len(newData) == 0 {"}}},
		variant{Name: "c15-del-missing-key-not-an-error", Props: []string{"C15"}, Expect: []string{"C15.failfirst|(*dnsdata/rdb.RDB).Del|"},
			Edits: []edit{{rdbgo, "\tif data == nil {\n\t\t// key not found\n\t\treturn ErrNXKey\n\t}\n", ""}}},
		variant{Name: "c15-appendvalues-big-endian", Props: []string{"C15"}, Expect: []string{"C15.codec|value-list|little-endian-uint32-everywhere"},
			Edits: []edit{{"dnsdata/rdb/rdb_util.go", "\t\tbinary.LittleEndian.PutUint32(b[:], uint32(vlen))", "\t\tbinary.BigEndian.PutUint32(b[:], uint32(vlen))"}}},
		variant{Name: "c15-driver-skips-two-bytes", Props: []string{"C15"}, Expect: []string{"C15.codec|(*db.rdbdriver).GetLocationByMap|value-header-skip-4"},
			Edits: []edit{{"db/rdbdriver.go", "\tfoundVal = foundVal[4:] // skip over the multi-value header", "\tfoundVal = foundVal[2:] // skip over the multi-value header"}}},
		variant{Name: "c15-sort-removed", Props: []string{"C15"}, Expect: []string{"C15.sorted|(*dnsdata/rdb.Batch).getAffectedKeys|sort-before-merge"},
			Edits: []edit{{rdbgo, "func (batch *Batch) getAffectedKeys() [][]byte {\n\tbatch.sort()\n", "func (batch *Batch) getAffectedKeys() [][]byte {\n"}}},
		variant{Name: "benign-add-explicit-unlock-after-put", Props: []string{"C07", "C15"}, Benign: true,
			Edits: []edit{{rdbgo, "\trdb.writeMutex.Lock()\n\tdefer rdb.writeMutex.Unlock()\n\n\toldData, err := rdb.db.Get(rdb.readOptions, key)\n\tif err != nil {\n\t\treturn err\n\t}\n\n\treturn rdb.db.Put(rdb.writeOptions, key, appendValues(oldData, [][]byte{value}))", "\trdb.writeMutex.Lock()\n\n\toldData, err := rdb.db.Get(rdb.readOptions, key)\n\tif err != nil {\n\t\trdb.writeMutex.Unlock()\n\t\treturn err\n\t}\n\n\terr = rdb.db.Put(rdb.writeOptions, key, appendValues(oldData, [][]byte{value}))\n\trdb.writeMutex.Unlock()\n\treturn err"}}},
	)
}

func init() {
	addVariants(
		variant{Name: "c07-limiter-capacity-unchecked(F16)", Props: []string{"C07"}, Expect: []string{"C07.semaphore|dnsdata/rdb.compileBatches|semaphore-capacity-positive"},
			Edits: []edit{{"dnsdata/rdb/rdb_compiler.go", "\tacquire, release := func() {}, func() {}\n\tif opts.BatchNumParallel > 0 {\n\t\tlimiter := make(chan struct{}, opts.BatchNumParallel)\n\t\tacquire = func() { limiter <- struct{}{} }\n\t\trelease = func() { <-limiter }\n\t}\n", "\tlimiter := make(chan struct{}, opts.BatchNumParallel)\n\tacquire := func() { limiter <- struct{}{} }\n\trelease := func() { <-limiter }\n"}}},
	)
}
