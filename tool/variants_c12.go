package main

func init() {
	const hgo = "dnsserver/handler.go"
	const dbgo = "dnsserver/db.go"
	addVariants(
		variant{Name: "c12-key-without-qclass", Props: []string{"C12"}, Expect: []string{"C12.key|(*dnsserver.FBDNSDB).ServeDNSWithRCODE|key-depends-on|qclass"},
			Edits: []edit{{hgo, "fmt.Sprintf(\"%.3d%.5d%.5d%s\", loc.LocID, state.QType(), state.QClass(), state.Name())", "fmt.Sprintf(\"%.3d%.5d%s\", loc.LocID, state.QType(), state.Name())"}}},
		variant{Name: "c12-key-original-case", Props: []string{"C12"}, Expect: []string{"C12.key|(*dnsserver.FBDNSDB).ServeDNSWithRCODE|key-depends-on|lowercased-name", "C12.key|(*dnsserver.FBDNSDB).ServeDNSWithRCODE|key-case-insensitive"},
			Edits: []edit{{hgo, "state.QType(), state.QClass(), state.Name())", "state.QType(), state.QClass(), state.QName())"}}},
		variant{Name: "c12-key-without-location", Props: []string{"C12"}, Expect: []string{"C12.key|(*dnsserver.FBDNSDB).ServeDNSWithRCODE|key-depends-on|location-id"},
			Edits: []edit{{hgo, "fmt.Sprintf(\"%.3d%.5d%.5d%s\", loc.LocID, state.QType()", "fmt.Sprintf(\"%.3d%.5d%.5d%s\", loc.MapID, state.QType()"}}},
		variant{Name: "c12-store-live-message", Props: []string{"C12"}, Expect: []string{"C12.copy|(*dnsserver.FBDNSDB).ServeDNSWithRCODE|add#0|stores-a-copy"},
			Edits: []edit{{hgo, "\t\t\ttimeout = time.Now().Unix() + 1000\n\t\t\th.cacheAdd(generation, cacheKey, cacheEntry{expiration: timeout, response: a.Copy()})", "\t\t\ttimeout = time.Now().Unix() + 1000\n\t\t\th.cacheAdd(generation, cacheKey, cacheEntry{expiration: timeout, response: a})"}}},
		variant{Name: "c12-hit-serves-shared-message", Props: []string{"C12"}, Expect: []string{"C12.copy|(*dnsserver.FBDNSDB).ServeDNSWithRCODE|hit#"},
			Edits: []edit{{hgo, "resp := v.(cacheEntry).response.Copy()", "resp := v.(cacheEntry).response"}}},
		variant{Name: "c12-insert-after-opt", Props: []string{"C12"}, Expect: []string{"C12.before-opt|(*dnsserver.FBDNSDB).ServeDNSWithRCODE|add#"},
			Edits: []edit{{hgo, "\tif h.cacheConfig.Enabled {\n\t\t// Cache answer before we add ECS/options\n", "\tif r.IsEdns0() != nil {\n\t\to = new(dns.OPT)\n\t\to.Hdr.Name = \".\"\n\t\to.Hdr.Rrtype = dns.TypeOPT\n\t\tif ecs != nil {\n\t\t\to.Option = append(o.Option, ecs)\n\t\t}\n\t\ta.Extra = append([]dns.RR{o}, a.Extra...)\n\t}\n\tif h.cacheConfig.Enabled {\n\t\t// Cache answer before we add ECS/options\n"},
				{hgo, "\t\t}\n\t}\n\n\tif r.IsEdns0() != nil {\n\t\to = new(dns.OPT)\n\t\to.Hdr.Name = \".\"\n\t\to.Hdr.Rrtype = dns.TypeOPT\n\n\t\tif ecs != nil {\n\t\t\to.Option = append(o.Option, ecs)\n\t\t}\n\n\t\ta.Extra = append([]dns.RR{o}, a.Extra...)\n\t}\n\n\treturn h.writeAndLog(state, a, ecs)\n}", "\t\t}\n\t}\n\n\treturn h.writeAndLog(state, a, ecs)\n}"}}},
		variant{Name: "c12-weighted-cached-without-timeout", Props: []string{"C12"}, Expect: []string{"C12.weighted|(*dnsserver.FBDNSDB).ServeDNSWithRCODE|add#1"},
			Edits: []edit{{hgo, "\t\t} else if h.cacheConfig.WRSTimeout > 0 {", "\t\t} else {"}}},
		variant{Name: "c12-weighted-flag-forgets-answer-sampler", Props: []string{"C12"}, Expect: []string{"C12.weighted|(*dnsserver.FBDNSDB).ServeDNSWithRCODE|add#0"},
			Edits: []edit{{hgo, "\tweighted = db.AdditionalSectionForRecords(reader, a, loc, state.QClass(), a.Answer) || weighted\n", "\tweighted = db.AdditionalSectionForRecords(reader, a, loc, state.QClass(), a.Answer)\n"}}},
		variant{Name: "c12-insert-without-generation-check(F8)", Props: []string{"C12"}, Expect: []string{"C12.generation|(*dnsserver.FBDNSDB).ServeDNSWithRCODE|add#0"},
			Edits: []edit{{dbgo, "\tif h.generation == generation {\n\t\th.lru.Add(key, entry)\n\t}", "\th.lru.Add(key, entry)"}}},
		variant{Name: "c12-direct-unlocked-insert(F8)", Props: []string{"C12"}, Expect: []string{"C12.generation|(*dnsserver.FBDNSDB).ServeDNSWithRCODE|add#0"},
			Edits: []edit{{hgo, "\t\t\ttimeout = time.Now().Unix() + 1000\n\t\t\th.cacheAdd(generation, cacheKey, cacheEntry{expiration: timeout, response: a.Copy()})", "\t\t\ttimeout = time.Now().Unix() + 1000\n\t\t\th.lru.Add(cacheKey, cacheEntry{expiration: timeout, response: a.Copy()})"}}},
		variant{Name: "c12-generation-not-bumped", Props: []string{"C12"}, Expect: []string{"C12.generation|(*dnsserver.FBDNSDB).Reload|bumps-generation-with-swap"},
			Edits: []edit{{dbgo, "\th.dnsdb = newDB\n\th.generation++\n", "\th.dnsdb = newDB\n"}}},
		variant{Name: "c12-generation-read-after-unlock", Props: []string{"C12"}, Expect: []string{"C12.generation|"},
			Edits: []edit{{dbgo, "func (h *FBDNSDB) acquireReader() (db.Reader, uint64, error) {\n\th.reloadMu.RLock()\n\tdefer h.reloadMu.RUnlock()\n\treader, err := db.NewReader(h.dnsdb)\n\treturn reader, h.generation, err\n}", "func (h *FBDNSDB) acquireReader() (db.Reader, uint64, error) {\n\th.reloadMu.RLock()\n\treader, err := db.NewReader(h.dnsdb)\n\th.reloadMu.RUnlock()\n\treturn reader, h.generation, err\n}"}}},
		variant{Name: "c12-no-purge", Props: []string{"C12"}, Expect: []string{"C12.order|(*dnsserver.FBDNSDB).Reload|purge"},
			Edits: []edit{{dbgo, "\tif h.cacheConfig.Enabled && h.lru != nil {\n\t\th.lru.Purge()\n\t}\n", ""}}},
		variant{Name: "benign-cachekey-via-local(B8)", Props: []string{"C12"}, Benign: true,
			Edits: []edit{{hgo, "\t\tcacheKey = fmt.Sprintf(\"%.3d%.5d%.5d%s\", loc.LocID, state.QType(), state.QClass(), state.Name())\n", "\t\tqn := state.Name()\n\t\tkey := fmt.Sprintf(\"%.3d%.5d%.5d\", loc.LocID, state.QType(), state.QClass())\n\t\tcacheKey = key + qn\n"}}},
	)
}
