package main

// locktable.go — the frozen table "shared field → mutex that guards it".
// Built by reading the code (access statistics were only used to find
// candidates). One row per field, one reason per exemption.

import (
	"go/types"
	"strings"

	"golang.org/x/tools/go/ssa"
)

type lockRow struct {
	Pkg, Type, Field string
	OuterField       string // set for dbConfig.Path: the guarded field is Type.OuterField.(Field of InnerType)
	InnerType        string
	Mutex            string
	Reason           string
	// TypeHint resolves the field when its tabled name is gone (a rename): the single field of the struct whose type
	// string contains the hint; "flag" stands for a boolean / 32-bit integer / atomic.Bool|Int32|Uint32 field.
	TypeHint string
}

var lockTable = []lockRow{
	{Pkg: "dnsserver", Type: "FBDNSDB", Field: "dnsdb", Mutex: "reloadMu", TypeHint: "/db.DB", Reason: "served generation: written by Reload, read by every query"},
	{Pkg: "dnsserver", Type: "FBDNSDB", OuterField: "dbConfig", InnerType: "DBConfig", Field: "Path", Mutex: "reloadMu", Reason: "path partial reloads act on: written by a successful full reload"},
	{Pkg: "db", Type: "DB", Field: "refCount", Mutex: "l", Reason: "live readers of one generation"},
	{Pkg: "db", Type: "DB", Field: "destroyable", Mutex: "l", Reason: "pending-close flag of one generation"},
	{Pkg: "dnsdata/rdb", Type: "IteratorPool", Field: "enabled", Mutex: "l", TypeHint: "flag", Reason: "toggled by reload (disable/enable) while queries call get"},
	{Pkg: "metrics", Type: "slidingWindow", Field: "samples", Mutex: "mutex", TypeHint: "[]", Reason: "appended by queries, compacted by the cleaner goroutine, read by the exporter"},
	{Pkg: "metrics", Type: "Stats", Field: "values", Mutex: "vlock", Reason: "counter map shared by all query goroutines"},
	{Pkg: "metrics", Type: "Stats", Field: "windows", Mutex: "wlock", Reason: "window map shared by all query goroutines"},
	{Pkg: "dnsdata", Type: "Accum", Field: "prefixset", Mutex: "mux", Reason: "updated by parallel parser workers"},
	{Pkg: "dnsdata", Type: "Accum", Field: "v4prefixset", Mutex: "mux", Reason: "updated by parallel parser workers"},
	{Pkg: "dnsdata", Type: "Accum", Field: "v6prefixset", Mutex: "mux", Reason: "updated by parallel parser workers"},
	{Pkg: "dnsdata", Type: "Accum", Field: "Ranger", Mutex: "mux", Reason: "subnet rearrangers updated by parallel parser workers"},
	{Pkg: "dnsdata", Type: "SubnetRangerScanner", Field: "err", Mutex: "RWMutex", Reason: "set by the producer goroutine, read by the consumer"},
	{Pkg: "db", Type: "lockedSource", Field: "src", Mutex: "lk", TypeHint: "math/rand.Source", Reason: "PRNG state shared by all query goroutines"},
}

// lockExempt: function → reason. Exemptions are per named symbol.
var lockExempt = map[string]string{}

// mutexName resolves the name of the mutex field of a struct: the tabled name if the field exists, otherwise the
// single field of a sync mutex type (so that renaming an unexported mutex does not unhook the rules).
func (c *Ctx) mutexName(pkg, typ, tabled string) string {
	if c.FieldOpt(pkg, typ, tabled) != nil {
		return tabled
	}
	st := structOf(c.Named(pkg, typ))
	var found []string
	for i := 0; st != nil && i < st.NumFields(); i++ {
		switch st.Field(i).Type().String() {
		case "sync.Mutex", "sync.RWMutex", "*sync.Mutex", "*sync.RWMutex":
			found = append(found, st.Field(i).Name())
		}
	}
	if len(found) == 1 {
		return found[0]
	}
	return tabled
}

// reloadMu is the path suffix of the reload lock of the database handler.
func (c *Ctx) reloadMu() string { return "." + c.mutexName("dnsserver", "FBDNSDB", "reloadMu") }

func (c *Ctx) guardSpec(r lockRow) *GuardSpec {
	r.Mutex = c.mutexName(r.Pkg, r.Type, r.Mutex)
	if r.OuterField != "" {
		return &GuardSpec{Name: r.Type + "." + r.OuterField + "." + r.Field, Field: c.Field(r.Pkg, r.InnerType, r.Field), Outer: c.Field(r.Pkg, r.Type, r.OuterField), Mutex: r.Mutex}
	}
	// make sure the mutex field exists
	c.Field(r.Pkg, r.Type, r.Mutex)
	return &GuardSpec{Name: r.Type + "." + r.Field, Field: c.tabledField(r), Mutex: r.Mutex}
}

// tabledField resolves the guarded field of a row: by name, or — when the name is gone — by the row's type hint if
// exactly one field of the struct matches it.
func (c *Ctx) tabledField(r lockRow) *types.Var {
	if f := c.FieldOpt(r.Pkg, r.Type, r.Field); f != nil {
		return f
	}
	if r.TypeHint != "" {
		st := structOf(c.Named(r.Pkg, r.Type))
		var found []*types.Var
		for i := 0; st != nil && i < st.NumFields(); i++ {
			ts := st.Field(i).Type().String()
			match := false
			if r.TypeHint == "flag" {
				switch ts {
				case "bool", "int32", "uint32", "sync/atomic.Bool", "sync/atomic.Int32", "sync/atomic.Uint32":
					match = true
				}
			} else {
				match = strings.Contains(ts, r.TypeHint)
			}
			if match {
				found = append(found, st.Field(i))
			}
		}
		if len(found) == 1 {
			return found[0]
		}
	}
	return c.Field(r.Pkg, r.Type, r.Field) // fails with "unresolved anchor"
}

// tabledFieldByName looks the row up by its tabled names.
func (c *Ctx) tabledFieldByName(pkg, typ, field string) *types.Var {
	for _, r := range lockTable {
		if r.Pkg == pkg && r.Type == typ && r.Field == field && r.OuterField == "" {
			return c.tabledField(r)
		}
	}
	return c.Field(pkg, typ, field)
}

// locksetRows runs the lockset rule for the selected rows; returns the number of obligations.
func (c *Ctx) locksetRows(rule string, sel func(lockRow) bool) int {
	c.Rule(rule, "A1 lockset: every access to a tabled shared field happens with the tabled mutex definitely held (write lock for writes) in the accessing function, or at every static call site of it (VTA call graph, goroutine starts carry no locks), except in objects still under construction in the same function")
	var fns []*ssa.Function
	fns = c.OurFuncs()
	n := 0
	for _, r := range lockTable {
		if !sel(r) {
			continue
		}
		spec := c.guardSpec(r)
		k := c.checkGuard(rule, spec, fns, lockExempt)
		if k == 0 {
			c.Undecided(rule, spec.Name+"|no-access-found", 0, "tabled field is never accessed: table is stale")
		}
		n += k
	}
	return n
}
