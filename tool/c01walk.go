package main

// c01walk.go — analysis of the zone walk in the two Reader implementations
// (label-by-label DataReader, closest-key sortedDataReader): exit guards with
// kind, polarity and loop variance (A6 + A9), wildcard flag, record-type
// filter, untagged-location lookup.

import (
	"fmt"
	"go/token"
	"go/types"
	"sort"
	"strings"

	"golang.org/x/tools/go/ssa"
)

// exitPath is one way the walk stops: the atomic facts known on that way.
type exitPath struct {
	Facts []fact
	Pos   token.Pos
	Where string
}

// walkInfo describes one walk loop and everything needed to judge variance.
type walkInfo struct {
	Fn      *ssa.Function // function containing the loop
	Header  *ssa.BasicBlock
	Body    map[*ssa.BasicBlock]bool
	Exits   []exitPath
	variant func(v ssa.Value) bool // value changes between iterations
}

// loopExitsOf: exit edges of the loop as fact lists (conditions that hold when leaving).
func loopExitsOf(fn *ssa.Function, header *ssa.BasicBlock, body map[*ssa.BasicBlock]bool, c *Ctx) []exitPath {
	var out []exitPath
	for b := range body {
		iff, ok := b.Instrs[len(b.Instrs)-1].(*ssa.If)
		if !ok {
			continue
		}
		for k, s := range b.Succs {
			if body[s] {
				continue
			}
			var fs []fact
			condImplies(iff.Cond, k == 0, 0, &fs)
			out = append(out, exitPath{Facts: fs, Pos: iff.Pos(), Where: fnName(fn)})
		}
	}
	sort.Slice(out, func(i, j int) bool { return out[i].Pos < out[j].Pos })
	return out
}

// falseReturnsOf: the ways a bool-returning function literal returns false.
func falseReturnsOf(cl *ssa.Function) []exitPath {
	var out []exitPath
	for _, ret := range returnsOf(cl) {
		if len(ret.Results) != 1 {
			continue
		}
		for src := range sourcesOf(ret.Results[0]) {
			if src == nil {
				continue
			}
			if k, ok := src.(*ssa.Const); ok && k.Value != nil {
				if k.Value.String() == "true" {
					continue
				}
				out = append(out, exitPath{Facts: factsAt(ret.Block()), Pos: ret.Pos(), Where: fnName(cl)})
				continue
			}
			fs := factsAt(ret.Block())
			condImplies(src, false, 0, &fs)
			out = append(out, exitPath{Facts: fs, Pos: ret.Pos(), Where: fnName(cl)})
		}
	}
	return out
}

// cellsStoredIn: names of captured variables stored to inside the given functions.
func cellsStoredIn(fns []*ssa.Function) map[string]bool {
	out := map[string]bool{}
	for _, fn := range fns {
		for _, b := range fn.Blocks {
			for _, in := range b.Instrs {
				if st, ok := in.(*ssa.Store); ok {
					if fv, ok := st.Addr.(*ssa.FreeVar); ok {
						out[fv.Name()] = true
					}
				}
			}
		}
	}
	return out
}

func loopContaining(fn *ssa.Function, pred func(in ssa.Instruction) bool) (*ssa.BasicBlock, map[*ssa.BasicBlock]bool) {
	var bestH *ssa.BasicBlock
	var best map[*ssa.BasicBlock]bool
	for h, body := range naturalLoops(fn) {
		found := false
		for b := range body {
			for _, in := range b.Instrs {
				if pred(in) {
					found = true
				}
			}
		}
		if found && (best == nil || len(body) < len(best)) {
			bestH, best = h, body
		}
	}
	return bestH, best
}

func headerPhis(h *ssa.BasicBlock) map[ssa.Value]bool {
	out := map[ssa.Value]bool{}
	for _, in := range h.Instrs {
		if p, ok := in.(*ssa.Phi); ok {
			out[p] = true
		}
	}
	return out
}

func sliceHasAny(v ssa.Value, set map[ssa.Value]bool) bool {
	for x := range backSlice(v, nil) {
		if set[x] {
			return true
		}
	}
	return false
}

// mentionsVar: the value's backward slice contains a parameter, free variable or load of a local named `name`.
func mentionsVar(v ssa.Value, name string) bool {
	for x := range backSlice(v, nil) {
		switch y := x.(type) {
		case *ssa.Parameter:
			if y.Name() == name {
				return true
			}
		case *ssa.FreeVar:
			if y.Name() == name {
				return true
			}
		case *ssa.Alloc:
			if y.Comment == name {
				return true
			}
		}
	}
	return false
}

func isCallToFunc(v ssa.Value, pkgSuffix, name string) *ssa.Call {
	call, ok := v.(*ssa.Call)
	if !ok {
		return nil
	}
	f := calleeOf(call.Common())
	if f == nil || f.Pkg() == nil || !strings.HasSuffix(f.Pkg().Path(), pkgSuffix) || f.Name() != name {
		return nil
	}
	return call
}

// guardKind is a required exit guard.
type guardKind struct {
	Name string
	Why  string
	// match: the fact (with its truth when leaving) is a guard of this kind
	Match func(f fact) bool
}

// checkGuards records one obligation per required kind: present with the right polarity AND loop variant.
func checkGuards(c *Ctx, rule, construct string, pos token.Pos, exits []exitPath, kinds []guardKind, variant func(ssa.Value) bool, extra ...guardKind) {
	// every way out of the walk must be one of the kinds the sibling implementation has too (A9):
	// an exit that matches no known kind is a stop condition only this reader has
	var unknown []string
	for _, e := range exits {
		known := false
		for _, f := range e.Facts {
			for _, k := range append(append([]guardKind{}, kinds...), extra...) {
				if k.Match(f) {
					known = true
				}
			}
			// error exits are common to all readers
			if x, trueNil, ok := nilTest(f.V); ok && x.Type().String() == "error" && trueNil != f.Truth {
				known = true
			}
		}
		if !known {
			unknown = append(unknown, c.relPos(e.Pos))
		}
	}
	c.Check(rule, construct+"|no-private-stop-condition", len(unknown) == 0, pos, fmt.Sprintf("exits of the walk that match none of the shared guard kinds %v: %v", kindNames(kinds, extra), unknown))
	for _, k := range kinds {
		present, varies := false, false
		for _, e := range exits {
			for _, f := range e.Facts {
				if k.Match(f) {
					present = true
					if variant(f.V) {
						varies = true
					}
				}
			}
		}
		detail := k.Why
		switch {
		case !present:
			detail = "no exit of the walk has this guard (or its polarity is flipped): " + k.Why
		case !varies:
			detail = "the guard exists but tests only values that never change during the walk, so it can never stop it: " + k.Why
		}
		c.Check(rule, construct+"|guard:"+k.Name, present && varies, pos, detail)
	}
}

func kindNames(a, b []guardKind) []string {
	var out []string
	for _, k := range append(append([]guardKind{}, a...), b...) {
		out = append(out, k.Name)
	}
	return out
}

func cmpZero(v ssa.Value) (x ssa.Value, op token.Token, ok bool) {
	b, isB := v.(*ssa.BinOp)
	if !isB {
		return nil, 0, false
	}
	if k, isK := constInt(b.Y); isK && k == 0 {
		return b.X, b.Op, true
	}
	return nil, 0, false
}

// rootFact: "x[0] == 0" holds (x any packed name).
func isRootFact(f fact) bool {
	x, op, ok := cmpZero(f.V)
	if !ok || firstByteOf(x) == nil {
		return false
	}
	switch op {
	case token.EQL, token.LEQ:
		return f.Truth
	case token.NEQ, token.GTR:
		return !f.Truth
	}
	return false
}

// c01Guards implements C01.guards (also reported as C02.siblings).
func c01Guards(c *Ctx, rule string) {
	c.Rule(rule, "A6+A9 zone-walk discipline: for each implementation of Reader.FindAnswer / Reader.IsAuthoritative the walk loop (in the method, or in sortedDataReader.find with the method's callbacks bound at the call site) has, for every required guard kind {found, zone border, root, wild-safe label | NS found, root}, an exit whose condition has the right polarity and depends on a value that changes between iterations (a loop-header phi, a callback parameter bound to one, or a captured variable stored by a function the loop runs)")
	// ---- label-by-label reader
	fa := c.Func("db", "(*DataReader).FindAnswer")
	c.Examined(fa)
	zoneParam := fa.Params[2].Name() // packedControlName
	h, body := loopContaining(fa, func(in ssa.Instruction) bool {
		call, ok := in.(*ssa.Call)
		return ok && call.Common().StaticCallee() != nil && call.Common().StaticCallee().Name() == "ForEach"
	})
	if h == nil {
		c.Undecided(rule, fnName(fa)+"|walk-loop", fa.Pos(), "walk loop not found")
	} else {
		phis := headerPhis(h)
		stored := cellsStoredIn(withClosures(fa)[1:])
		variant := func(v ssa.Value) bool {
			if sliceHasAny(v, phis) {
				return true
			}
			for x := range backSlice(v, nil) {
				if a, ok := x.(*ssa.Alloc); ok && stored[a.Comment] {
					return true
				}
			}
			return false
		}
		foundCell := foundFlagCell(fa)
		kinds := []guardKind{
			{"found", "the walk stops at the first name that has records (exact rows first, wildcard rows only at parents)", func(f fact) bool { return f.Truth && foundCell != "" && varNameOfLoad(f.V) == foundCell }},
			{"zone-border", "a wildcard answers only inside the same zone: the walk stops at the zone cut", func(f fact) bool {
				if call := isCallToFunc(f.V, "bytes", "Equal"); call != nil && f.Truth {
					return mentionsVar(call, zoneParam)
				}
				return false
			}},
			{"root", "the walk stops at the root", isRootFact},
			{"wild-safe", "a wildcard only spans letter/digit/hyphen/underscore labels", func(f fact) bool { return !f.Truth && isCallToFunc(f.V, "/db", "dnsLabelWildsafe") != nil }},
		}
		checkGuards(c, rule, fnName(fa), fa.Pos(), loopExitsOf(fa, h, body, c), kinds, variant)
	}
	ia := c.Func("db", "(*DataReader).IsAuthoritative")
	c.Examined(ia)
	h, body = loopContaining(ia, func(in ssa.Instruction) bool {
		call, ok := in.(*ssa.Call)
		return ok && call.Common().StaticCallee() != nil && call.Common().StaticCallee().Name() == "ForEach"
	})
	if h == nil {
		c.Undecided(rule, fnName(ia)+"|walk-loop", ia.Pos(), "walk loop not found")
	} else {
		phis := headerPhis(h)
		stored := cellsStoredIn(withClosures(ia)[1:])
		variant := func(v ssa.Value) bool {
			if sliceHasAny(v, phis) {
				return true
			}
			for x := range backSlice(v, nil) {
				if a, ok := x.(*ssa.Alloc); ok && stored[a.Comment] {
					return true
				}
			}
			return false
		}
		nsCell := typeFlagCell(c, ia, 2) // the flag set on TypeNS rows
		kinds := []guardKind{
			{"ns-found", "the zone cut is the closest name with NS records", func(f fact) bool { return f.Truth && nsCell != "" && varNameOfLoad(f.V) == nsCell }},
			{"root", "the walk stops at the root", isRootFact},
		}
		checkGuards(c, rule, fnName(ia), ia.Pos(), loopExitsOf(ia, h, body, c), kinds, variant)
	}

	// ---- closest-key reader: the loop lives in find, the guards in the callbacks
	find := c.Func("db", "(*sortedDataReader).find")
	c.Examined(find)
	fh, fbody := loopContaining(find, func(in ssa.Instruction) bool {
		call, ok := in.(*ssa.Call)
		return ok && call.Common().StaticCallee() != nil && call.Common().StaticCallee().Name() == "TryForEach"
	})
	if fh == nil {
		c.Undecided(rule, fnName(find)+"|walk-loop", find.Pos(), "walk loop not found")
		return
	}
	fphis := headerPhis(fh)
	findExits := loopExitsOf(find, fh, fbody, c)
	// exits of find itself
	findVariant := func(v ssa.Value) bool { return sliceHasAny(v, fphis) }
	checkGuards(c, rule, fnName(find), find.Pos(), findExits, []guardKind{
		{"root", "the walk stops when only the root label is left", func(f fact) bool {
			b, ok := f.V.(*ssa.BinOp)
			if !ok {
				return false
			}
			k, isK := constInt(b.Y)
			if !isK || k != 1 {
				return false
			}
			return (b.Op == token.EQL && f.Truth) || (b.Op == token.LEQ && f.Truth) || (b.Op == token.GTR && !f.Truth) || (b.Op == token.NEQ && !f.Truth)
		}},
		{"data-border", "the walk stops when the closest key is no longer a resource-record key", func(f fact) bool {
			if b, ok := f.V.(*ssa.BinOp); ok && b.Op == token.LSS && f.Truth && isBuiltinCall(b.X, "len") != nil {
				return true // found key shorter than the marker
			}
			for _, fnm := range []string{"Equal", "HasPrefix"} {
				if call := isCallToFunc(f.V, "bytes", fnm); call != nil && !f.Truth {
					for x := range backSlice(call, nil) {
						if s, ok := stringConst(x); ok && strings.HasPrefix(s, "\x00") {
							return true
						}
					}
				}
			}
			return false
		}},
	}, findVariant, guardKind{"callback", "stop requested by the method's callback", func(f fact) bool {
		call, ok := f.V.(*ssa.Call)
		if !ok {
			return false
		}
		_, isParam := call.Call.Value.(*ssa.Parameter)
		return isParam && !f.Truth
	}})
	// callbacks consulted as exit tests, with which polarity, and with which arguments
	type cbUse struct {
		param    *ssa.Parameter
		call     *ssa.Call
		exitWhen bool // the loop exits when the callback returns this
		isExit   bool
	}
	uses := map[string]*cbUse{}
	for b := range fbody {
		for _, in := range b.Instrs {
			call, ok := in.(*ssa.Call)
			if !ok {
				continue
			}
			p, ok := call.Call.Value.(*ssa.Parameter)
			if !ok {
				continue
			}
			u := &cbUse{param: p, call: call}
			for _, e := range findExits {
				for _, f := range e.Facts {
					if f.V == ssa.Value(call) {
						u.isExit = true
						u.exitWhen = f.Truth
					}
				}
			}
			uses[p.Name()] = u
		}
	}
	for _, m := range []struct {
		method string
		kinds  func(cl map[string]*ssa.Function, parent *ssa.Function) map[string][]guardKind
	}{
		{"(*sortedDataReader).FindAnswer", func(cl map[string]*ssa.Function, parent *ssa.Function) map[string][]guardKind {
			zone := parent.Params[2].Name()
			found := foundFlagCell(parent)
			return map[string][]guardKind{
				"pre": {
					{"zone-border", "a wildcard answers only inside the same zone: the walk stops once less of the name is left than the zone cut is long", func(f fact) bool {
						b, ok := f.V.(*ssa.BinOp)
						if !ok || !mentionsVar(b, zone) {
							return false
						}
						return (b.Op == token.LSS && f.Truth) || (b.Op == token.GEQ && !f.Truth) || (b.Op == token.LEQ && f.Truth) || (b.Op == token.GTR && !f.Truth) || (isCallToFunc(f.V, "bytes", "Equal") != nil)
					}},
					{"wild-safe", "a wildcard only spans letter/digit/hyphen/underscore labels", func(f fact) bool { return !f.Truth && isCallToFunc(f.V, "/db", "dnsLabelWildsafe") != nil }},
				},
				"post": {
					{"found", "the walk stops at the first name that has records", func(f fact) bool { return f.Truth && found != "" && varNameOfLoad(f.V) == found }},
				},
			}
		}},
		{"(*sortedDataReader).IsAuthoritative", func(cl map[string]*ssa.Function, parent *ssa.Function) map[string][]guardKind {
			nsCell := typeFlagCell(c, parent, 2)
			return map[string][]guardKind{
				"post": {
					{"ns-found", "the zone cut is the closest name with NS records", func(f fact) bool { return f.Truth && nsCell != "" && varNameOfLoad(f.V) == nsCell }},
				},
			}
		}},
	} {
		fn := c.Func("db", m.method)
		c.Examined(fn)
		var fcall *ssa.Call
		for _, ci := range callInstrs(fn) {
			if ci.Common().StaticCallee() == find {
				fcall, _ = ci.(*ssa.Call)
			}
		}
		if fcall == nil {
			c.Undecided(rule, fnName(fn)+"|find-call", fn.Pos(), "the method does not walk through sortedDataReader.find")
			continue
		}
		// bind callbacks: find's parameters by position
		closures := map[string]*ssa.Function{}
		for i, p := range find.Params {
			if i >= len(fcall.Call.Args) {
				continue
			}
			for s := range sourcesOf(fcall.Call.Args[i]) {
				if mc, ok := s.(*ssa.MakeClosure); ok {
					closures[p.Name()] = mc.Fn.(*ssa.Function)
				}
			}
		}
		stored := cellsStoredIn(withClosures(fn)[1:])
		want := m.kinds(closures, fn)
		// map role -> parameter name of find by how find uses it: pre = called with arguments, exit when false, before the lookup; post = no arguments
		roles := map[string]string{}
		for name, u := range uses {
			if !u.isExit || u.exitWhen {
				continue
			}
			if len(u.call.Call.Args) > 0 {
				roles["pre"] = name
			} else {
				roles["post"] = name
			}
		}
		for role, kinds := range want {
			pname := roles[role]
			cl := closures[pname]
			if cl == nil {
				c.Check(rule, fnName(fn)+"|callback:"+role, false, fn.Pos(), "sortedDataReader.find does not consult a "+role+"-iteration callback as an exit test (exit when it returns false)")
				continue
			}
			c.Examined(cl)
			u := uses[pname]
			variant := func(v ssa.Value) bool {
				for x := range backSlice(v, nil) {
					switch y := x.(type) {
					case *ssa.Parameter:
						// bound to the actual argument in find
						for i, p := range cl.Params {
							if p == y && i < len(u.call.Call.Args) && sliceHasAny(u.call.Call.Args[i], fphis) {
								return true
							}
						}
					case *ssa.FreeVar:
						if stored[y.Name()] {
							return true
						}
					}
				}
				return false
			}
			checkGuards(c, rule, fnName(fn)+"|"+role, cl.Pos(), falseReturnsOf(cl), kinds, variant)
		}
	}
	c.Floor(rule, 12)
}

// foundFlagCell: the captured bool that the row callback sets to true right after ExtractRRFromRow succeeded.
func foundFlagCell(parent *ssa.Function) string {
	for _, cl := range parent.AnonFuncs {
		var ext *ssa.Call
		for _, ci := range callInstrs(cl) {
			if sf := ci.Common().StaticCallee(); sf != nil && sf.Name() == "ExtractRRFromRow" {
				ext, _ = ci.(*ssa.Call)
			}
		}
		if ext == nil {
			continue
		}
		for _, b := range cl.Blocks {
			for _, in := range b.Instrs {
				st, ok := in.(*ssa.Store)
				if !ok {
					continue
				}
				fv, ok := st.Addr.(*ssa.FreeVar)
				if !ok {
					continue
				}
				if k, ok := st.Val.(*ssa.Const); ok && k.Value != nil && k.Value.String() == "true" {
					if bt, ok := fv.Type().(*types.Pointer).Elem().Underlying().(*types.Basic); ok && bt.Kind() == types.Bool {
						// must be on the success path of the extraction
						if dominatedByNilEdge(st, func(v ssa.Value) bool { cl2, _ := callOfValue(v); return cl2 == ext }) {
							return fv.Name()
						}
					}
				}
			}
		}
	}
	return ""
}

// typeFlagCell: the captured bool the row callback sets to true when the row's type equals qtype (2 = NS, 6 = SOA).
func typeFlagCell(c *Ctx, parent *ssa.Function, qtype int64) string {
	for _, cl := range parent.AnonFuncs {
		for _, b := range cl.Blocks {
			for _, in := range b.Instrs {
				st, ok := in.(*ssa.Store)
				if !ok {
					continue
				}
				fv, ok := st.Addr.(*ssa.FreeVar)
				if !ok {
					continue
				}
				if k, ok := st.Val.(*ssa.Const); !ok || k.Value == nil || k.Value.String() != "true" {
					continue
				}
				if hasFact(b, func(v ssa.Value, truth bool) bool {
					bo, ok := v.(*ssa.BinOp)
					if !ok || bo.Op != token.EQL || !truth {
						return false
					}
					k, isK := constInt(bo.Y)
					return isK && k == qtype
				}) {
					return fv.Name()
				}
			}
		}
	}
	return ""
}

// ---------------------------------------------------------------------------

// c01WildFlag: exact rows first, wildcard rows only at parents.
func c01WildFlag(c *Ctx) {
	rule := "C01.wildflag"
	c.Rule(rule, "A2: in both FindAnswer implementations the wildcard argument of ExtractRRFromRow is a load of one captured flag; the flag is false before the first lookup and is set to true on every way the walk continues to a parent (in the loop after the label pop; in the post-iteration callback before every `return true`)")
	for _, name := range []string{"(*DataReader).FindAnswer", "(*sortedDataReader).FindAnswer"} {
		fn := c.Func("db", name)
		c.Examined(fn)
		// the flag
		flag := ""
		for _, cl := range fn.AnonFuncs {
			for _, ci := range callInstrs(cl) {
				if sf := ci.Common().StaticCallee(); sf != nil && sf.Name() == "ExtractRRFromRow" {
					flag = varNameOfLoad(ci.Common().Args[1])
				}
			}
		}
		c.Check(rule, fnName(fn)+"|extract-uses-flag", flag != "", fn.Pos(), "rows are filtered by the wildcard flag of the walk (not by a constant)")
		if flag == "" {
			continue
		}
		// initial value false: the only store in the parent before any lookup is `false` or none (zero value)
		initFalse := true
		storesTrue := func(f *ssa.Function) []*ssa.Store {
			var out []*ssa.Store
			for _, b := range f.Blocks {
				for _, in := range b.Instrs {
					if st, ok := in.(*ssa.Store); ok && varNameOfAddr(st.Addr) == flag {
						if k, ok := st.Val.(*ssa.Const); ok && k.Value != nil && k.Value.String() == "true" {
							out = append(out, st)
						} else if k, ok := st.Val.(*ssa.Const); !ok || k.Value == nil || k.Value.String() != "false" {
							out = append(out, nil)
						}
					}
				}
			}
			return out
		}
		if name == "(*DataReader).FindAnswer" {
			h, body := loopContaining(fn, func(in ssa.Instruction) bool {
				call, ok := in.(*ssa.Call)
				return ok && call.Common().StaticCallee() != nil && call.Common().StaticCallee().Name() == "ForEach"
			})
			sts := storesTrue(fn)
			okSet := false
			for _, st := range sts {
				if st == nil {
					initFalse = false
					continue
				}
				if !body[st.Block()] {
					initFalse = false // set before the first lookup
					continue
				}
				// on every back edge: the store's block dominates every predecessor of the header inside the loop
				all := true
				for _, p := range h.Preds {
					if body[p] && !(st.Block() == p || st.Block().Dominates(p)) {
						all = false
					}
				}
				if all {
					okSet = true
				}
			}
			c.Check(rule, fnName(fn)+"|flag-false-on-first-lookup", initFalse, fn.Pos(), "the queried name itself is matched against exact rows only")
			c.Check(rule, fnName(fn)+"|flag-set-when-walking-up", okSet, fn.Pos(), "every parent is matched against wildcard rows only")
			continue
		}
		// closest-key reader: the post callback
		var post *ssa.Function
		for _, cl := range fn.AnonFuncs {
			if len(cl.Params) == 0 && cl.Signature.Results().Len() == 1 {
				post = cl
			}
		}
		if post == nil {
			c.Undecided(rule, fnName(fn)+"|post-callback", fn.Pos(), "post-iteration callback not found")
			continue
		}
		for _, st := range storesTrue(fn) {
			_ = st
			initFalse = false
		}
		okSet := true
		nTrue := 0
		for _, ret := range returnsOf(post) {
			for src := range sourcesOf(ret.Results[0]) {
				if k, ok := src.(*ssa.Const); ok && k.Value != nil && k.Value.String() == "true" {
					nTrue++
					d := false
					for _, st := range storesTrue(post) {
						if st != nil && instrDominates(st, ret) {
							d = true
						}
					}
					if !d {
						okSet = false
					}
				}
			}
		}
		c.Check(rule, fnName(fn)+"|flag-false-on-first-lookup", initFalse, fn.Pos(), "the queried name itself is matched against exact rows only")
		c.Check(rule, fnName(fn)+"|flag-set-when-walking-up", okSet && nTrue > 0, post.Pos(), "every parent is matched against wildcard rows only")
	}
}

// c01TypeFilter: the two row callbacks select the same rows, and the rows the property prescribes.
//
// The row type and the query type are touched by the callbacks only through equality comparisons, so the selection
// is a function of a finite abstraction: row type ∈ {A, AAAA, CNAME, two other types}, query type ∈ the same ∪ {ANY}.
// For every pair the rule computes, from the path conditions of the callback's CFG, whether the weighted sampler
// (Wrs.Add) and whether the direct append to the answer section can be reached, and compares with the statement:
// a row is selected iff it is a CNAME, or of the queried type, or the query is ANY; selected A/AAAA rows go to the
// sampler, every other selected row is appended. Conditions on anything else (errors, wildcard mismatch) are taken
// as satisfiable. This is robust against the spelling of the filter (if-chain, guard clause, switch) and it is
// polarity-aware (a flipped or dropped comparison changes the table).
func c01TypeFilter(c *Ctx) {
	rule := "C01.typefilter"
	c.Rule(rule, "A9 + finite abstraction: in the row callbacks of both FindAnswer implementations, over row type × query type abstracted to the values the code compares with, the weighted sampler is reachable exactly for selected A/AAAA rows and the direct append exactly for selected rows of any other type, where selected = (row type is CNAME) ∨ (row type = query type) ∨ (query type is ANY); both implementations yield the same table")
	type table struct {
		sampler, appendRR map[[2]int64]bool
		cl                *ssa.Function
		unknownAtoms      int
	}
	rows := []int64{1, 28, 5, 16, 2}
	qts := []int64{1, 28, 5, 16, 2, 255}
	build := func(fn *ssa.Function) *table {
		for _, cl := range fn.AnonFuncs {
			has := false
			for _, ci := range callInstrs(cl) {
				if sf := ci.Common().StaticCallee(); sf != nil && sf.Name() == "ExtractRRFromRow" {
					has = true
				}
			}
			if !has {
				continue
			}
			describe := func(v ssa.Value) string {
				if k, ok := constInt(v); ok {
					return fmt.Sprintf("%d", k)
				}
				for x := range backSlice(v, func(v ssa.Value) bool { _, isCall := v.(*ssa.Call); return isCall }) {
					switch y := x.(type) {
					case *ssa.FieldAddr:
						return "row." + fieldName(y.X.Type(), y.Field)
					case *ssa.Field:
						return "row." + fieldName(y.X.Type(), y.Field)
					case *ssa.FreeVar:
						if bt, ok := y.Type().(*types.Pointer); ok {
							if b, ok := bt.Elem().Underlying().(*types.Basic); ok && b.Kind() == types.Uint16 {
								return "query." + y.Name()
							}
						}
					case *ssa.Parameter:
						return "param." + y.Name()
					}
				}
				return "?"
			}
			t := &table{sampler: map[[2]int64]bool{}, appendRR: map[[2]int64]bool{}, cl: cl}
			val := func(d string, row, qt int64) (int64, bool) {
				switch {
				case d == "row.Qtype":
					return row, true
				case strings.HasPrefix(d, "query."):
					return qt, true
				}
				var k int64
				if _, err := fmt.Sscanf(d, "%d", &k); err == nil {
					return k, true
				}
				return 0, false
			}
			feasible := func(path []fact, row, qt int64) bool {
				for _, f := range path {
					bo, ok := f.V.(*ssa.BinOp)
					if !ok || (bo.Op != token.EQL && bo.Op != token.NEQ) {
						continue
					}
					a, okA := val(describe(bo.X), row, qt)
					b, okB := val(describe(bo.Y), row, qt)
					if !okA || !okB {
						t.unknownAtoms++
						continue
					}
					holds := (a == b) == (bo.Op == token.EQL)
					if holds != f.Truth {
						return false
					}
				}
				return true
			}
			fill := func(site ssa.Instruction, into map[[2]int64]bool) bool {
				paths, ok := pathsTo(cl, site, 4096)
				if !ok {
					return false
				}
				for _, r := range rows {
					for _, q := range qts {
						for _, p := range paths {
							if feasible(p, r, q) {
								into[[2]int64{r, q}] = true
								break
							}
						}
					}
				}
				return true
			}
			nS, nA := 0, 0
			for _, ci := range callInstrs(cl) {
				if sf := ci.Common().StaticCallee(); sf != nil && sf.Name() == "Add" && sf.Signature.Recv() != nil && strings.HasSuffix(sf.Signature.Recv().Type().String(), "db.Wrs") {
					nS++
					if !fill(ci, t.sampler) {
						return nil
					}
				}
			}
			for _, b := range cl.Blocks {
				for _, in := range b.Instrs {
					st, ok := in.(*ssa.Store)
					if !ok {
						continue
					}
					if fa, ok := st.Addr.(*ssa.FieldAddr); ok && fieldName(fa.X.Type(), fa.Field) == "Answer" {
						nA++
						if !fill(st, t.appendRR) {
							return nil
						}
					}
				}
			}
			if nS == 0 || nA == 0 {
				return nil
			}
			return t
		}
		return nil
	}
	render := func(m map[[2]int64]bool) string {
		var out []string
		for _, r := range rows {
			s := fmt.Sprintf("row %d:", r)
			for _, q := range qts {
				if m[[2]int64{r, q}] {
					s += fmt.Sprintf(" q%d", q)
				}
			}
			out = append(out, s)
		}
		return strings.Join(out, "; ")
	}
	var tabs []*table
	for _, name := range []string{"(*DataReader).FindAnswer", "(*sortedDataReader).FindAnswer"} {
		fn := c.Func("db", name)
		t := build(fn)
		if t == nil {
			c.Undecided(rule, fnName(fn)+"|row-callback", fn.Pos(), "row callback (ExtractRRFromRow + sampler + append to the answer) not found or too many paths")
			continue
		}
		c.Examined(t.cl)
		tabs = append(tabs, t)
		okS, okA := true, true
		for _, r := range rows {
			for _, q := range qts {
				sel := r == 5 || r == q || q == 255
				addr := r == 1 || r == 28
				if t.sampler[[2]int64{r, q}] != (sel && addr) {
					okS = false
				}
				if t.appendRR[[2]int64{r, q}] != (sel && !addr) {
					okA = false
				}
			}
		}
		c.Check(rule, fnName(fn)+"|sampler-for-selected-address-rows", okS, t.cl.Pos(), "Wrs.Add reachable for (row type, query type): "+render(t.sampler)+" — expected exactly A/AAAA rows that are of the queried type or queried with ANY")
		c.Check(rule, fnName(fn)+"|append-for-other-selected-rows", okA, t.cl.Pos(), "append to the answer reachable for: "+render(t.appendRR)+" — expected exactly non-address rows that are CNAME, of the queried type, or queried with ANY")
	}
	if len(tabs) == 2 {
		same := render(tabs[0].sampler) == render(tabs[1].sampler) && render(tabs[0].appendRR) == render(tabs[1].appendRR)
		c.Check(rule, "FindAnswer|siblings-select-the-same-rows", same, tabs[0].cl.Pos(), "the label-by-label and the closest-key reader select the same rows for every (row type, query type)")
	}
}
