package main

import (
	"fmt"
	"go/token"
	"go/types"
	"strings"

	"golang.org/x/tools/go/ssa"
)

func init() {
	register(&propDef{
		ID:          "C12",
		Title:       "The response cache is invisible",
		Run:         runC12,
		Explanation: "Structural necessary conditions of cache transparency in the query entry point, decided on SSA: (key) the cache key depends on location id, query type, query class and the lower-cased name, and the same key is used for Get/Add/Remove; (copy) what is stored is a Copy() and what is taken out is only ever used through Copy(); (before-opt) no OPT record can be attached to the message before it is copied into the cache; (weighted) an insert happens only when the weighted flag (which depends on all three sampler reports) is false or WRSTimeout > 0; (purge/order) reload purges after the swap under the write lock; (generation) every insertion is tied to the pinned generation. Equality of cached and uncached responses over histories is not decided.",
	})
}

const lruPkg = "github.com/hashicorp/golang-lru"
const dnsPkg = "github.com/miekg/dns"
const requestPkg = "github.com/coredns/coredns/request"

func isLruMethod(f *types.Func, name string) bool {
	return f != nil && f.Pkg() != nil && f.Pkg().Path() == lruPkg && funcShort(f) == "Cache."+name
}

func runC12(c *Ctx) {
	serve := c.Func("dnsserver", "(*FBDNSDB).ServeDNSWithRCODE")
	c.Examined(serve)
	name := fnName(serve)

	var gets, removes []*ssa.Call
	var adds []*cacheInsert
	for _, ci := range callInstrs(serve) {
		call, ok := ci.(*ssa.Call)
		if !ok {
			continue
		}
		f := calleeOf(call.Common())
		switch {
		case isLruMethod(f, "Get"):
			gets = append(gets, call)
		case isLruMethod(f, "Add"):
			adds = append(adds, &cacheInsert{Site: call, Add: call, Key: call.Call.Args[1], Val: call.Call.Args[2]})
		case isLruMethod(f, "Remove"):
			removes = append(removes, call)
		case f != nil && f.Pkg() != nil && f.Pkg().Path() == lruPkg:
			c.Check("C12.key", name+"|other-lru-call:"+f.Name(), false, call.Pos(), "unexpected cache operation in the query path (only Get/Add/Remove are understood)")
		default:
			// a module function that wraps lru.Add, key and value being its parameters
			if w := call.Common().StaticCallee(); w != nil && w.Blocks != nil && w.Pkg != nil && c.isOurs(w.Pkg.Pkg) {
				for _, wi := range callInstrs(w) {
					wc, ok := wi.(*ssa.Call)
					if !ok || !isLruMethod(calleeOf(wc.Common()), "Add") {
						continue
					}
					ki, vi := paramIndexOfValue(w, wc.Call.Args[1]), paramIndexOfValue(w, wc.Call.Args[2])
					if ki < 0 || vi < 0 {
						c.Undecided("C12.key", name+"|insert-wrapper:"+fnName(w), wc.Pos(), "lru.Add in a wrapper whose key/value are not its parameters")
						continue
					}
					c.Examined(w)
					adds = append(adds, &cacheInsert{Site: call, Add: wc, Wrapper: w, Key: call.Call.Args[ki], Val: call.Call.Args[vi]})
				}
			}
		}
	}

	// ---- C12.key
	rule := "C12.key"
	c.Rule(rule, "SSA backward slice: the key given to lru.Get depends on the location id of the client's location, on request.QType(), request.QClass() and request.Name() (lower-cased); Add and Remove use a key that comes from the same computation")
	if len(gets) != 1 {
		c.Undecided(rule, name+"|get", serve.Pos(), fmt.Sprintf("expected one lru.Get, found %d", len(gets)))
	} else {
		keyv := gets[0].Call.Args[1]
		// direct ingredients only: calls are not looked through, except fmt/strings/strconv and (one level
		// deep) module helpers whose parameters are then followed at the call site
		fLoc := c.Field("db", "Location", "LocID")
		has := map[string]bool{}
		keyIngredients(c, keyv, fLoc, nil, 2, has)
		for _, comp := range []string{"location-id", "qtype", "qclass", "lowercased-name"} {
			c.Check(rule, name+"|key-depends-on|"+comp, has[comp], gets[0].Pos(), "cache key component "+comp+" (two queries differing in it must not share an entry)")
		}
		c.Check(rule, name+"|key-case-insensitive", !has["original-case-name"], gets[0].Pos(), "the key must not depend on the original-case name (0x20 randomisation would defeat the cache, and mixed-case names would be cached with foreign owner names)")
		// same key everywhere
		keySrc := sourcesOf(keyv)
		type keyUse struct {
			call *ssa.Call
			key  ssa.Value
		}
		var uses []keyUse
		for _, a := range adds {
			uses = append(uses, keyUse{a.Site, a.Key})
		}
		for _, r := range removes {
			uses = append(uses, keyUse{r, r.Call.Args[1]})
		}
		for i, u := range uses {
			a := u.call
			ks := sourcesOf(u.key)
			ok := true
			for v := range ks {
				if v == nil {
					continue
				}
				if k, isC := unwrap(v).(*ssa.Const); isC && k.Value != nil {
					continue // the "" initial value on paths where the cache is disabled
				}
				if !keySrc[v] {
					ok = false
				}
			}
			kind := "Add"
			if i >= len(adds) {
				kind = "Remove"
			}
			c.Check(rule, fmt.Sprintf("%s|same-key#%d|%s", name, i, kind), ok && len(ks) > 0, a.Pos(), "the key used to insert/evict is the key that was looked up")
		}
	}
	c.Floor(rule, 6)

	// ---- C12.copy
	rule = "C12.copy"
	c.Rule(rule, "the message stored by lru.Add is the result of (*dns.Msg).Copy; the response field of an entry taken from the cache is only ever used as the receiver of Copy()")
	fResp := c.Field("dnsserver", "cacheEntry", "response")
	copyF := func(f *types.Func) bool {
		return f != nil && f.Pkg() != nil && f.Pkg().Path() == dnsPkg && funcShort(f) == "Msg.Copy"
	}
	var addCopies []*ssa.Call // the Copy() calls feeding the Adds
	for i, a := range adds {
		ok := false
		var cp *ssa.Call
		// value: MakeInterface(load of complit) or MakeInterface(struct value)
		for v := range backSlice(a.Val, func(v ssa.Value) bool { _, isCall := v.(*ssa.Call); return isCall }) {
			if st, isAlloc := v.(*ssa.Alloc); isAlloc {
				for _, r := range *st.Referrers() {
					if fa, isFA := r.(*ssa.FieldAddr); isFA && fieldOf(fa) == fResp {
						for _, rr := range *fa.Referrers() {
							if s, isS := rr.(*ssa.Store); isS && s.Addr == fa {
								if call, isC := s.Val.(*ssa.Call); isC && copyF(calleeOf(call.Common())) {
									ok = true
									cp = call
								} else {
									ok = false
								}
							}
						}
					}
				}
			}
		}
		if cp != nil {
			addCopies = append(addCopies, cp)
		}
		c.Check(rule, fmt.Sprintf("%s|add#%d|stores-a-copy", name, i), ok, a.Site.Pos(), "the cached message must not alias the message that is then decorated with OPT/ECS and written")
	}
	// entries taken out
	nout := 0
	for _, b := range serve.Blocks {
		for _, in := range b.Instrs {
			var v ssa.Value
			switch x := in.(type) {
			case *ssa.Field:
				if fieldOf(x) == fResp {
					v = x
				}
			case *ssa.FieldAddr:
				if fieldOf(x) == fResp {
					if al, ok := x.X.(*ssa.Alloc); ok && al.Comment == "complit" {
						continue // construction of a new entry
					}
					onlyWritten := x.Referrers() != nil && len(*x.Referrers()) > 0
					for _, r := range *x.Referrers() {
						if st, isSt := r.(*ssa.Store); !isSt || st.Addr != x {
							if _, dbg := r.(*ssa.DebugRef); !dbg {
								onlyWritten = false
							}
						}
					}
					if _, local := x.X.(*ssa.Alloc); local && onlyWritten {
						continue // construction of a new entry in a named local
					}
					v = x
				}
			}
			if v == nil {
				continue
			}
			nout++
			ok := true
			var chk func(v ssa.Value, isAddr bool)
			chk = func(v ssa.Value, isAddr bool) {
				for _, r := range *v.Referrers() {
					switch y := r.(type) {
					case *ssa.DebugRef:
					case *ssa.UnOp:
						// the address of the field of a local copy of the entry: follow the loaded pointer
						if isAddr && y.Op == token.MUL && y.X == v {
							chk(y, false)
						} else {
							ok = false
						}
					case *ssa.Call:
						if isAddr || !(copyF(calleeOf(y.Common())) && len(y.Call.Args) > 0 && y.Call.Args[0] == v) {
							ok = false
						}
					default:
						ok = false
					}
				}
			}
			_, isAddr := v.(*ssa.FieldAddr)
			chk(v, isAddr)
			c.Check(rule, fmt.Sprintf("%s|hit#%d|used-only-through-Copy", name, nout), ok, in.Pos(), "a cached message is shared by concurrent queries: it may only be copied")
		}
	}
	c.Floor(rule, 3)

	// ---- C12.hit-reply
	rule = "C12.hit-reply"
	c.Rule(rule, "every message obtained by Copy() from a cache entry is passed to (*dns.Msg).SetReply with the current request before it is written: id, opcode and the question section (original case) must come from the query being answered, not from the query that populated the entry")
	nhit := 0
	for _, ci := range callInstrs(serve) {
		call, ok := ci.(*ssa.Call)
		if !ok || !copyF(calleeOf(call.Common())) {
			continue
		}
		// is the receiver a cache entry's response?
		fromEntry := false
		switch x := call.Call.Args[0].(type) {
		case *ssa.Field:
			fromEntry = fieldOf(x) == fResp
		case *ssa.UnOp:
			if fa, isFA := x.X.(*ssa.FieldAddr); isFA {
				fromEntry = fieldOf(fa) == fResp
			}
		}
		if !fromEntry {
			continue
		}
		nhit++
		okr := false
		for _, x := range callInstrs(serve) {
			f := calleeOf(x.Common())
			if f != nil && f.Pkg() != nil && f.Pkg().Path() == dnsPkg && funcShort(f) == "Msg.SetReply" && len(x.Common().Args) == 2 &&
				x.Common().Args[0] == ssa.Value(call) && instrDominates(call, x) {
				if p, isP := x.Common().Args[1].(*ssa.Parameter); isP && p.Type().String() == "*"+dnsPkg+".Msg" {
					// and it precedes the write of that message
					for _, w := range callInstrs(serve) {
						if sf := w.Common().StaticCallee(); sf != nil && sf.Name() == "writeAndLog" && len(w.Common().Args) >= 3 && sameSources(w.Common().Args[2], call) && instrDominates(x, w) {
							okr = true
						}
					}
				}
			}
		}
		c.Check(rule, fmt.Sprintf("%s|hit-copy#%d|SetReply-with-request", name, nhit), okr, call.Pos(), "a cache hit must answer THIS query: SetReply(r) on the copy, before it is written")
	}
	if nhit == 0 {
		c.Undecided(rule, name+"|hit", serve.Pos(), "no cache-hit copy found")
	}

	// ---- C12.before-opt
	rule = "C12.before-opt"
	c.Rule(rule, "SSA taint: no store of an OPT-carrying slice into the Extra section of the message can reach the Copy() that feeds lru.Add (the insert precedes the OPT/ECS re-attachment on every path)")
	fExtra := fieldByName(c, dnsPkg, "Msg", "Extra")
	optT := namedType(c, dnsPkg, "OPT")
	isOPTAlloc := func(v ssa.Value) bool {
		a, ok := v.(*ssa.Alloc)
		if !ok {
			return false
		}
		return types.Identical(a.Type().(*types.Pointer).Elem(), optT)
	}
	var optStores []*ssa.Store
	for _, b := range serve.Blocks {
		for _, in := range b.Instrs {
			st, ok := in.(*ssa.Store)
			if !ok {
				continue
			}
			fa, ok := st.Addr.(*ssa.FieldAddr)
			if !ok || fieldOf(fa) != fExtra {
				continue
			}
			for v := range backSlice(st.Val, nil) {
				if isOPTAlloc(v) {
					optStores = append(optStores, st)
					break
				}
			}
		}
	}
	for i, cp := range addCopies {
		ok := true
		why := ""
		for _, st := range optStores {
			if !sameSources(st.Addr.(*ssa.FieldAddr).X, cp.Call.Args[0]) {
				continue
			}
			before := (st.Block() == cp.Block() && instrIndex(st) < instrIndex(cp)) || (st.Block() != cp.Block() && reachable(st.Block(), nil)[cp.Block()])
			if before {
				ok = false
				why = "OPT attached at " + c.relPos(st.Pos()) + " can precede the insert"
			}
		}
		c.Check(rule, fmt.Sprintf("%s|add#%d|before-opt", name, i), ok, cp.Pos(), "a cached response must not carry another client's OPT/ECS option. "+why)
	}
	if len(optStores) == 0 {
		c.Undecided(rule, name+"|opt-attach", serve.Pos(), "no OPT re-attachment found in the query entry point")
	}
	c.Floor(rule, 2)

	// ---- C12.weighted
	rule = "C12.weighted"
	c.Rule(rule, "facts at each lru.Add: the weighted flag is false, or cacheConfig.WRSTimeout > 0; the flag tested depends (data) on the weighted report of FindAnswer and of both AdditionalSectionForRecords calls")
	fWRS := c.Field("dnsserver", "CacheConfig", "WRSTimeout")
	addl := c.TypesFunc("db", "AdditionalSectionForRecords")
	isSamplerReport := func(v ssa.Value) string {
		switch x := v.(type) {
		case *ssa.Extract:
			if call, ok := x.Tuple.(*ssa.Call); ok && x.Index == 0 && call.Common().IsInvoke() && call.Common().Method.Name() == "FindAnswer" {
				return "FindAnswer"
			}
		case *ssa.Call:
			if calleeOf(x.Common()) == addl {
				return fmt.Sprintf("AdditionalSectionForRecords@%s", c.relPos(x.Pos()))
			}
		}
		return ""
	}
	naddl := len(callsTo(serve, func(f *types.Func) bool { return f == addl }))
	for i, a := range adds {
		okGuard := true
		detail := ""
		// every way into the insert (value-level guards such as `ttl > 0` with ttl chosen per case are followed per path)
		alts := nearPathFacts(a.Site, 32)
		for _, facts := range alts {
			okPath := false
			reports := map[string]bool{}
			for _, f := range facts {
				// WRSTimeout > 0
				if op, x, y, isCmp := factOperands(f); isCmp && isFieldLoad(x, fWRS) {
					if k, isC := constInt(y); isC && k == 0 && ((op == token.GTR && f.Truth) || (op == token.LEQ && !f.Truth)) {
						okPath = true
						detail = "WRSTimeout > 0"
					}
					continue
				}
				if f.Truth {
					continue
				}
				// booleans known to be false here: which sampler reports do they carry?
				for v := range backSlice(f.V, func(v ssa.Value) bool { return isSamplerReport(v) != "" }) {
					if r := isSamplerReport(v); r != "" {
						reports[r] = true
					}
				}
			}
			if !okPath {
				if reports["FindAnswer"] && len(reports) == 1+naddl && naddl >= 2 {
					okPath = true
					detail = "the weighted reports of FindAnswer and of both additional-section samplers are all false"
				} else {
					detail = fmt.Sprintf("known false at the insert on some path: %v (need FindAnswer and %d AdditionalSectionForRecords reports)", keysOf(reports), naddl)
					okGuard = false
					break
				}
			}
		}
		if len(alts) == 0 {
			detail = "the insert is not reachable" // dead code caches nothing
		}
		c.Check(rule, fmt.Sprintf("%s|add#%d|unweighted-or-wrs-timeout", name, i), okGuard, a.Site.Pos(), "a randomly sampled answer is cached only with an explicit WRS timeout. "+detail)
	}
	c.Floor(rule, 2)

	// ---- C12.purge (= C05.order)
	c05Order(c, "C12")

	// ---- C12.generation
	rule = "C12.generation"
	c.Rule(rule, "every lru.Add is tied to the pinned generation: (a/b) reloadMu is held at the insertion (continuously since the reader was acquired, or around a generation check), or (c) the cache inserted into was obtained together with the reader and a reload installs a fresh cache")
	c12Generation(c, rule, serve, adds)
	c.Floor(rule, 2)
	cacheKeyInjective(c, "C12.key-injective")
}

func keysOf(m map[string]bool) []string {
	var out []string
	for k := range m {
		out = append(out, k)
	}
	sortStrings(out)
	return out
}

// fieldByName finds a field of a named struct type in a dependency package (looked up through the imports of our packages).
func fieldByName(c *Ctx, pkgPath, typ, field string) *types.Var {
	t := namedType(c, pkgPath, typ)
	st, ok := t.Underlying().(*types.Struct)
	if !ok {
		undecided("%s.%s is not a struct", pkgPath, typ)
	}
	for i := 0; i < st.NumFields(); i++ {
		if st.Field(i).Name() == field {
			return st.Field(i)
		}
	}
	undecided("field %s.%s.%s not found", pkgPath, typ, field)
	return nil
}

func namedType(c *Ctx, pkgPath, typ string) types.Type {
	for _, pk := range c.All {
		for _, imp := range pk.Types.Imports() {
			if imp.Path() == pkgPath {
				if o := imp.Scope().Lookup(typ); o != nil {
					return o.Type()
				}
			}
		}
	}
	undecided("type %s.%s not found among the imports", pkgPath, typ)
	return nil
}

// cacheInsert is one place where the query path inserts into the cache: a
// direct lru.Add, or a call of a module function wrapping it.
type cacheInsert struct {
	Site    *ssa.Call     // call in the query entry point
	Add     *ssa.Call     // the lru.Add itself
	Wrapper *ssa.Function // nil for a direct call
	Key     ssa.Value     // key as seen in the query entry point
	Val     ssa.Value
}

func paramIndexOfValue(fn *ssa.Function, v ssa.Value) int {
	v = unwrap(v)
	for i, p := range fn.Params {
		if ssa.Value(p) == v {
			return i
		}
	}
	return -1
}

// backSliceCtl is backSlice extended with the branch conditions that select
// the incoming edge of every phi (so `a || b` depends on a as well as on b).
func backSliceCtl(v ssa.Value) map[ssa.Value]bool { return backSliceCtlIf(v, nil) }

// backSliceCtlBool expands boolean phis only: the lowering of && / || and a flag variable set on some paths are
// decisions; a loop counter that is a phi is not.
func backSliceCtlBool(v ssa.Value) map[ssa.Value]bool {
	return backSliceCtlIf(v, func(phi *ssa.Phi) bool {
		b, ok := phi.Type().Underlying().(*types.Basic)
		return ok && b.Info()&types.IsBoolean != 0
	})
}

func backSliceCtlIf(v ssa.Value, expand func(*ssa.Phi) bool) map[ssa.Value]bool {
	out := map[ssa.Value]bool{}
	work := []ssa.Value{v}
	for len(work) > 0 {
		x := work[len(work)-1]
		work = work[:len(work)-1]
		for y := range backSlice(x, nil) {
			if out[y] {
				continue
			}
			out[y] = true
			if phi, ok := y.(*ssa.Phi); ok && (expand == nil || expand(phi)) {
				b := phi.Block()
				idom := b.Idom()
				if idom == nil {
					continue
				}
				for _, blk := range b.Parent().Blocks {
					if !(blk == idom || idom.Dominates(blk)) || blk == b {
						continue
					}
					if !reachable(blk, nil)[b] {
						continue
					}
					if iff, ok := blk.Instrs[len(blk.Instrs)-1].(*ssa.If); ok && !out[iff.Cond] {
						work = append(work, iff.Cond)
					}
				}
			}
		}
	}
	return out
}

func c12Generation(c *Ctx, rule string, serve *ssa.Function, adds []*cacheInsert) {
	name := fnName(serve)
	fLru := c.Field("dnsserver", "FBDNSDB", "lru")
	dbReload := c.TypesFunc("db", "(*DB).Reload")
	fbT := c.Named("dnsserver", "FBDNSDB")
	reloadFns := findCallersOf(c, "dnsserver", fbT, dbReload)
	newReader := c.TypesFunc("db", "NewReader")
	for i, a := range adds {
		construct := fmt.Sprintf("%s|add#%d", name, i)
		fn := a.Add.Parent()
		ls := computeLockset(fn)
		held := false
		for p := range ls.At(a.Add) {
			if strings.HasSuffix(p, c.reloadMu()) {
				held = true
			}
		}
		// form (c)
		reloadStoresLru := false
		for _, rf := range reloadFns {
			if len(storesToField(rf, fLru)) > 0 {
				reloadStoresLru = true
			}
		}
		if reloadStoresLru && !isFieldLoad(a.Add.Call.Args[0], fLru) {
			c.Check(rule, construct, true, a.Site.Pos(), "form (c): the cache object was obtained with the reader and reloads install a fresh cache")
			continue
		}
		if a.Wrapper == nil {
			// form (a): lock held continuously since the acquisition = held at the insertion in the entry point itself
			c.Check(rule, construct, held, a.Site.Pos(), "a query computed on generation N can insert its answer after a reload to N+1 has purged the cache; the stale answer is then served until it expires (1000 s)")
			continue
		}
		// form (b): generation check under the lock inside the wrapper
		var genField *types.Var
		genParam := -1
		for _, f := range factsAt(a.Add.Block()) {
			b, ok := f.V.(*ssa.BinOp)
			if !ok || !((b.Op == token.EQL && f.Truth) || (b.Op == token.NEQ && !f.Truth)) {
				continue
			}
			for _, pair := range [][2]ssa.Value{{b.X, b.Y}, {b.Y, b.X}} {
				u, ok := unwrap(pair[0]).(*ssa.UnOp)
				if !ok || u.Op != token.MUL {
					continue
				}
				fa, ok := u.X.(*ssa.FieldAddr)
				if !ok || pathOf(fa.X) != a.Wrapper.Params[0].Name() {
					continue
				}
				if pi := paramIndexOfValue(a.Wrapper, pair[1]); pi > 0 {
					// the load itself must be under the lock
					for p := range ls.At(u) {
						if strings.HasSuffix(p, c.reloadMu()) {
							genField, genParam = fieldOf(fa), pi
						}
					}
				}
			}
		}
		c.Check(rule, construct+"|checked-under-lock", held && genField != nil, a.Add.Pos(), "the insertion happens under reloadMu and only if the generation recorded with the reader is still the current one")
		if genField == nil {
			continue
		}
		// the generation argument comes from the call that acquired the reader
		var acqCall *ssa.Call
		for s := range sourcesOf(a.Site.Call.Args[genParam]) {
			if cl, _ := callOfValue(s); cl != nil {
				acqCall = cl
			}
		}
		fromAcquire := false
		var acqFn *ssa.Function
		if acqCall != nil {
			acqFn = acqCall.Common().StaticCallee()
			if acqFn != nil && len(callsTo(acqFn, func(f *types.Func) bool { return f == newReader })) > 0 {
				fromAcquire = len(sourcesOf(a.Site.Call.Args[genParam])) == 1
			}
		}
		c.Check(rule, construct+"|generation-from-acquisition", fromAcquire, a.Site.Pos(), "the generation compared is the one returned by the call that pinned the reader")
		if fromAcquire {
			als := computeLockset(acqFn)
			ok := false
			for _, ld := range loadsOfField(acqFn, genField) {
				for p := range als.At(ld) {
					if strings.HasSuffix(p, c.reloadMu()) {
						for _, nr := range callsTo(acqFn, func(f *types.Func) bool { return f == newReader }) {
							if als.At(nr)[p] != modeNone {
								ok = true
							}
						}
					}
				}
			}
			c.Check(rule, fnName(acqFn)+"|generation-read-with-reader", ok, acqFn.Pos(), "generation and reader are taken in one critical section")
		}
		// reload bumps the generation whenever it swaps
		for _, rf := range reloadFns {
			sts := storesToField(rf, genField)
			okb := len(sts) > 0
			fDnsdb := c.tabledFieldByName("dnsserver", "FBDNSDB", "dnsdb")
			for _, sw := range storesToField(rf, fDnsdb) {
				blocked := map[*ssa.BasicBlock]bool{}
				dominated := false
				for _, st := range sts {
					blocked[st.Block()] = true
					if instrDominates(st, sw) {
						dominated = true
					}
				}
				if dominated || blocked[sw.Block()] {
					continue
				}
				for b := range reachAvoiding(sw.Block(), blocked, nil) {
					if len(b.Succs) == 0 {
						okb = false
					}
				}
			}
			rls := computeLockset(rf)
			for _, st := range sts {
				w := false
				for p, m := range rls.At(st) {
					if strings.HasSuffix(p, c.reloadMu()) && m == modeW {
						w = true
					}
				}
				if !w {
					okb = false
				}
			}
			// ... and the new value is certain to differ from the old one: an increment of the field itself. (A
			// pointer to the served database does not qualify: a RocksDB catch-up keeps the same *DB while its
			// content advances.)
			inc := len(sts) > 0
			for _, st := range sts {
				bo, isB := st.Val.(*ssa.BinOp)
				if !isB || bo.Op != token.ADD {
					inc = false
					continue
				}
				k, isK := constInt(bo.Y)
				if !(isFieldLoad(bo.X, genField) && isK && k != 0) {
					k2, isK2 := constInt(bo.X)
					if !(isFieldLoad(bo.Y, genField) && isK2 && k2 != 0) {
						inc = false
					}
				}
			}
			c.Check(rule, fnName(rf)+"|generation-always-changes", inc, rf.Pos(), "the generation stored by a successful reload is the previous one plus a non-zero constant, so it differs even when the same *DB object keeps being served (RocksDB catch-up)")
			c.Check(rule, fnName(rf)+"|bumps-generation-with-swap", okb, rf.Pos(), "every successful reload changes the generation under the write lock, so stale inserts are refused after the purge")
		}
	}
}

// keyIngredients collects what a cache key is made of. frame maps the parameters of the helper being looked
// into to the actual arguments at its call site.
func keyIngredients(c *Ctx, v ssa.Value, fLoc *types.Var, frame map[*ssa.Parameter]ssa.Value, depth int, has map[string]bool) {
	expand := func(call *ssa.Call) bool { // calls whose arguments are ingredients themselves
		f := calleeOf(call.Common())
		if f == nil || f.Pkg() == nil {
			return false
		}
		switch f.Pkg().Path() {
		case "fmt", "strings", "strconv", "bytes":
			return true
		}
		return false
	}
	sl := backSlice(v, func(x ssa.Value) bool {
		call, ok := x.(*ssa.Call)
		if !ok {
			return false
		}
		if _, isB := call.Call.Value.(*ssa.Builtin); isB {
			return false
		}
		return !expand(call)
	})
	for x := range sl {
		switch y := x.(type) {
		case *ssa.FieldAddr:
			if fieldOf(y) == fLoc {
				has["location-id"] = true
			}
		case *ssa.Field:
			if fieldOf(y) == fLoc {
				has["location-id"] = true
			}
		case *ssa.Parameter:
			if frame != nil {
				if actual, ok := frame[y]; ok {
					keyIngredients(c, actual, fLoc, nil, depth, has)
				}
			}
		case *ssa.Call:
			f := calleeOf(y.Common())
			if f != nil && f.Pkg() != nil && f.Pkg().Path() == requestPkg {
				switch funcShort(f) {
				case "Request.QType":
					has["qtype"] = true
				case "Request.QClass":
					has["qclass"] = true
				case "Request.Name":
					has["lowercased-name"] = true
				case "Request.QName":
					has["original-case-name"] = true
				}
				continue
			}
			if sf := y.Common().StaticCallee(); sf != nil && sf.Blocks != nil && sf.Pkg != nil && c.isOurs(sf.Pkg.Pkg) && depth > 0 {
				fr := map[*ssa.Parameter]ssa.Value{}
				for i, p := range sf.Params {
					if i < len(y.Call.Args) {
						fr[p] = y.Call.Args[i]
					}
				}
				for _, ret := range returnsOf(sf) {
					for _, rv := range ret.Results {
						keyIngredients(c, rv, fLoc, fr, depth-1, has)
					}
				}
			}
		}
	}
}
