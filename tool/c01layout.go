package main

import (
	"fmt"
	"go/ast"
	"go/constant"
	"go/token"
	"go/types"
	"sort"
	"strings"

	"golang.org/x/tools/go/ssa"
)

// c01RowHead: the row header the compiler writes and the one the server parses agree.
func c01RowHead(c *Ctx, rule string) {
	c.Rule(rule, "A4 writer↔reader agreement for the value row header: putrrhead writes type:2 marker:1 [loc:2] ttl:4 ttd:8 (15 or 17 bytes), Raddr.MarshalMap adds weight:4; ExtractRRFromRow's rdata offsets are the same sets of constants; the markers written for wildcard rows equal the reader's wildcard set, the markers written with a location equal the reader's skip-2 set; both sides use big-endian")
	w := c.Func("dnsdata", "putrrhead")
	r := c.Func("db", "ExtractRRFromRow")
	c.Examined(w)
	c.Examined(r)
	// writer widths
	wp := w.Params[0]
	totals := writeTotals(c, w, func(v ssa.Value) bool { return v == ssa.Value(wp) }, 1)
	c.Check(rule, "putrrhead|header-width", len(totals) == 2 && totals[15] && totals[17], w.Pos(), fmt.Sprintf("total bytes written by putrrhead on its paths: %v (expected 15 without and 17 with a location)", intSetString(totals)))
	// reader offsets
	fOff := c.Field("db", "ResourceRecord", "Offset")
	var offs []map[int64]bool
	for _, st := range storesToField(r, fOff) {
		if s := evalIntSet(st.Val, 0); s != nil {
			offs = append(offs, s)
		} else if bo, ok := st.Val.(*ssa.BinOp); ok && bo.Op == token.ADD { // Offset += 4
			if k, isK := constInt(bo.Y); isK && isFieldLoad(bo.X, fOff) {
				offs = append(offs, map[int64]bool{-k: true})
			}
		}
	}
	okOff := len(offs) == 2 && len(offs[0]) == 2 && offs[0][15] && offs[0][17] && len(offs[1]) == 1 && offs[1][-4]
	var od []string
	for _, o := range offs {
		od = append(od, fmt.Sprint(int64SetString(o)))
	}
	c.Check(rule, "ExtractRRFromRow|rdata-offset", okOff, r.Pos(), fmt.Sprintf("offsets stored by the reader: %v (expected [15 17] then += 4 for address records)", od))
	// the += 4 is under Qtype A/AAAA
	okW := false
	for _, st := range storesToField(r, fOff) {
		if bo, ok := st.Val.(*ssa.BinOp); ok && bo.Op == token.ADD && isFieldLoad(bo.X, fOff) {
			ks := map[int64]bool{}
			for _, p := range st.Block().Preds {
				if iff, ok := p.Instrs[len(p.Instrs)-1].(*ssa.If); ok {
					if b, ok := iff.Cond.(*ssa.BinOp); ok && b.Op == token.EQL {
						if k, isK := constInt(b.Y); isK {
							ks[k] = true
						}
					}
				}
			}
			okW = len(ks) == 2 && ks[1] && ks[28]
		}
	}
	c.Check(rule, "ExtractRRFromRow|weight-only-for-A-AAAA", okW, r.Pos(), "the 4-byte weight is skipped exactly for A (1) and AAAA (28) rows")
	// writer: Raddr.MarshalMap writes a uint32 weight after the head, for both families
	ra := c.Func("dnsdata", "(*Raddr).MarshalMap")
	c.Examined(ra)
	nW := 0
	for _, ci := range callInstrs(ra) {
		f := calleeOf(ci.Common())
		if f != nil && f.Pkg() != nil && f.Pkg().Path() == "encoding/binary" && f.Name() == "Write" {
			if bt, ok := unwrap(ci.Common().Args[2]).Type().Underlying().(*types.Basic); ok && bt.Kind() == types.Uint32 {
				// preceded by a putrrhead on the same buffer in the same block
				for _, x := range callInstrs(ra) {
					if sf := x.Common().StaticCallee(); sf == w && x.Block() == ci.Block() && instrIndex(x) < instrIndex(ci) {
						nW++
					}
				}
			}
		}
	}
	c.Check(rule, "Raddr.MarshalMap|weight-follows-head", nW == 2, ra.Pos(), fmt.Sprintf("%d address branches write head then a 32-bit weight", nW))
	// markers: writer
	wild, located, all := map[int64]bool{}, map[int64]bool{}, map[int64]bool{}
	lenLocFact := func(b *ssa.BasicBlock) (isLocated, known bool) {
		for _, f := range factsAt(b) {
			cmp, ok := f.V.(*ssa.BinOp)
			if !ok {
				continue
			}
			if ln := isBuiltinCall(cmp.X, "len"); ln != nil {
				if k, isK := constInt(cmp.Y); isK && k == 2 {
					// len(loc) != 2 : true => not located
					if cmp.Op == token.NEQ {
						return !f.Truth, true
					}
					if cmp.Op == token.EQL {
						return f.Truth, true
					}
				}
			}
		}
		return false, false
	}
	wildParam := w.Params[len(w.Params)-1]
	// marker events: a single constant byte put into the head — Write([]byte{c}) / Write([]byte("c")), WriteByte(c),
	// or append(head, c) — possibly chosen on several branches (a phi of constants): one event per constant, with the
	// facts of the edge that chooses it
	type markerEvent struct {
		m  int64
		at *ssa.BasicBlock
	}
	var events []markerEvent
	addByteValue := func(v ssa.Value, at *ssa.BasicBlock) {
		for _, leaf := range phiLeaves(v) {
			if k, ok := constInt(leaf.V); ok {
				blk := leaf.At
				if blk == nil {
					blk = at
				}
				events = append(events, markerEvent{k, blk})
			}
		}
	}
	for _, ci := range callInstrs(w) {
		cc := ci.Common()
		switch {
		case cc.IsInvoke() && cc.Method.Name() == "Write":
			if s, ok := evalBytes(cc.Args[0]); ok && len(s) == 1 {
				events = append(events, markerEvent{int64(s[0]), ci.Block()})
			}
		case cc.IsInvoke() && cc.Method.Name() == "WriteByte":
			addByteValue(cc.Args[0], ci.Block())
		default:
			if ap := isBuiltinCall(valueOfCall(ci), "append"); ap != nil && isByteSlice(ap.Type()) && len(ap.Call.Args) == 2 {
				// append(x, c): the variadic part is a one-element array
				if sl, ok := ap.Call.Args[1].(*ssa.Slice); ok {
					if al, ok := sl.X.(*ssa.Alloc); ok {
						if at, ok := al.Type().(*types.Pointer).Elem().Underlying().(*types.Array); ok && at.Len() == 1 {
							for _, r := range *al.Referrers() {
								if ia, ok := r.(*ssa.IndexAddr); ok {
									for _, rr := range *ia.Referrers() {
										if st, ok := rr.(*ssa.Store); ok && st.Addr == ssa.Value(ia) {
											addByteValue(st.Val, ci.Block())
										}
									}
								}
							}
						}
					}
				}
			}
		}
	}
	for _, ev := range events {
		m := ev.m
		all[m] = true
		isWild := hasFact(ev.at, func(v ssa.Value, truth bool) bool { return v == ssa.Value(wildParam) && truth })
		if isWild {
			wild[m] = true
		}
		// located: it is in the arm where len(loc) == 2 is known and loc non-zero
		if loc, known := lenLocFact(ev.at); known && loc {
			located[m] = true
		}
	}
	// markers: reader
	markerLoad := func(v ssa.Value) bool {
		u, ok := unwrap(v).(*ssa.UnOp)
		if !ok || u.Op != token.MUL {
			return false
		}
		ia, ok := u.X.(*ssa.IndexAddr)
		if !ok || ia.X != ssa.Value(r.Params[0]) {
			return false
		}
		s := evalIntSet(ia.Index, 0)
		return len(s) == 1 && s[2]
	}
	constsIn := func(v ssa.Value) map[int64]bool {
		out := map[int64]bool{}
		for x := range backSliceCtl(v) {
			if b, ok := x.(*ssa.BinOp); ok && b.Op == token.EQL && markerLoad(b.X) {
				if k, isK := constInt(b.Y); isK {
					out[k] = true
				}
			}
		}
		return out
	}
	var rWild, rSkip map[int64]bool
	// wildcard set: the condition deciding the ErrWildcardMismatch return
	for _, ret := range returnsOf(r) {
		for s := range sourcesOf(ret.Results[1]) {
			if u, ok := s.(*ssa.UnOp); ok {
				if g, ok := u.X.(*ssa.Global); ok && g.Name() == "ErrWildcardMismatch" {
					for _, e := range guardingEdges(ret.Block()) {
						rWild = constsIn(e.If.Cond)
					}
				}
			}
		}
	}
	// skip set: what decides the dpos phi that feeds the TTL slice
	for _, b := range r.Blocks {
		for _, in := range b.Instrs {
			if phi, ok := in.(*ssa.Phi); ok && phi.Comment == "dpos" {
				rSkip = constsIn(phi)
			}
		}
	}
	same := func(a, b map[int64]bool) bool {
		if len(a) != len(b) || len(a) == 0 {
			return false
		}
		for k := range a {
			if !b[k] {
				return false
			}
		}
		return true
	}
	c.Check(rule, "markers|four-distinct", len(all) == 4, w.Pos(), fmt.Sprintf("markers written: %v", chars(all)))
	c.Check(rule, "markers|wildcard-set", same(wild, rWild), r.Pos(), fmt.Sprintf("written for wildcard rows: %v; treated as wildcard by the reader: %v", chars(wild), chars(rWild)))
	c.Check(rule, "markers|located-set", same(located, rSkip), r.Pos(), fmt.Sprintf("written with a 2-byte location: %v; reader skips 2 bytes for: %v", chars(located), chars(rSkip)))
	// byte order
	order := func(fn *ssa.Function) (n int, bad []string) {
		for _, ci := range callInstrs(fn) {
			f := calleeOf(ci.Common())
			if f == nil || f.Pkg() == nil || f.Pkg().Path() != "encoding/binary" {
				continue
			}
			n++
			s := ""
			for _, a := range ci.Common().Args {
				s += a.Type().String() + " "
				if u, ok := a.(*ssa.UnOp); ok {
					s += u.X.String() + " "
				}
				if mi, ok := a.(*ssa.MakeInterface); ok {
					s += mi.X.Type().String() + " "
				}
			}
			if !strings.Contains(s, "bigEndian") && !strings.Contains(s, "BigEndian") {
				bad = append(bad, c.relPos(ci.Pos()))
			}
		}
		return
	}
	nw, bw := order(w)
	nr, br := order(r)
	c.Check(rule, "byte-order|big-endian-both-sides", nw >= 2 && nr >= 3 && len(bw) == 0 && len(br) == 0, w.Pos(), fmt.Sprintf("writer: %d uses (%v not big-endian); reader: %d uses (%v not big-endian)", nw, bw, nr, br))
}

func chars(m map[int64]bool) []string {
	var out []string
	for k := range m {
		out = append(out, fmt.Sprintf("%q", rune(k)))
	}
	sort.Strings(out)
	return out
}

// c01KeyLayout: owner-name key layout agreement.
func c01KeyLayout(c *Ctx, rule string) {
	c.Rule(rule, "A4: makedomainkey writes v1 = location ‖ name and v2 = marker ‖ reversed name ‖ location (call order on the key buffer); the label-by-label readers build keys as append(location, name...); the closest-key readers place the marker at 0, the reversed name after it and the location after the name; both sides reference the constant dnsdata.ResourceRecordsKeyMarker")
	mk := c.Func("dnsdata", "makedomainkey")
	c.Examined(mk)
	markerVal := ""
	if k, ok := c.Obj("dnsdata", "ResourceRecordsKeyMarker").(*types.Const); ok {
		markerVal = constant.StringVal(k.Val())
	}
	// components put into the key, whatever the spelling: the marker constant (WriteString/Write of its value), the
	// owner name through putdom / putreverseddom, the location through putloc or a Write of bytes derived from the
	// location parameter. They are classified by the key-layout flag known at their block and ordered by dominance.
	fV2 := c.Field("dnsdata", "Rfeatures", "UseV2Keys")
	type comp struct {
		kind string
		in   ssa.Instruction
	}
	var comps []comp
	wm := false
	loParam := ssa.Value(nil)
	for _, p := range mk.Params {
		if p.Type().String() == modPath+"/dnsdata.Loc" {
			loParam = p
		}
	}
	for _, ci := range callInstrs(mk) {
		cc := ci.Common()
		name := ""
		var args []ssa.Value
		if cc.IsInvoke() {
			name, args = cc.Method.Name(), cc.Args
		} else if sf := calleeOf(cc); sf != nil {
			name, args = sf.Name(), cc.Args
			if sf.Type().(*types.Signature).Recv() != nil && len(args) > 0 {
				args = args[1:]
			}
		}
		switch name {
		case "putloc":
			comps = append(comps, comp{"loc", ci})
		case "putdom":
			comps = append(comps, comp{"name", ci})
		case "putreverseddom":
			comps = append(comps, comp{"reversed-name", ci})
		case "WriteString", "Write":
			if len(args) != 1 {
				continue
			}
			if sv, ok := stringConst(args[0]); ok && sv == markerVal {
				comps = append(comps, comp{"marker", ci})
				wm = true
				continue
			}
			if sv, ok := evalBytes(args[0]); ok && sv == markerVal {
				comps = append(comps, comp{"marker", ci})
				wm = true
				continue
			}
			if loParam != nil {
				for v := range backSlice(args[0], nil) {
					if v == loParam {
						comps = append(comps, comp{"loc", ci})
						break
					}
				}
			}
		}
	}
	c.Check(rule, "makedomainkey|v2-starts-with-marker-value", wm, mk.Pos(), "v2 keys start with the resource-record marker")
	order := func(want bool) []string {
		var sel []comp
		for _, k := range comps {
			is := hasFact(k.in.Block(), func(v ssa.Value, truth bool) bool { return truth == want && isFieldLoad(v, fV2) })
			isNot := hasFact(k.in.Block(), func(v ssa.Value, truth bool) bool { return truth != want && isFieldLoad(v, fV2) })
			if is && !isNot { // a block that knows the flag both ways (the flag tested again inside a branch on it) is unreachable
				sel = append(sel, k)
			}
		}
		// components of one layout lie on one feasible path (they share the flag's outcome): order them by reachability
		before := func(a, b ssa.Instruction) bool { return instrReaches(a, b) && !instrReaches(b, a) }
		sort.SliceStable(sel, func(i, j int) bool { return before(sel[i].in, sel[j].in) })
		var out []string
		for i, k := range sel {
			if i > 0 && !before(sel[i-1].in, k.in) {
				return []string{"unordered"}
			}
			out = append(out, k.kind)
		}
		return out
	}
	v1, v2 := order(false), order(true)
	c.Check(rule, "makedomainkey|v1-order", strings.Join(v1, ",") == "loc,name", mk.Pos(), fmt.Sprintf("v1 key components in order: %v", v1))
	c.Check(rule, "makedomainkey|v2-order", strings.Join(v2, ",") == "marker,reversed-name,loc", mk.Pos(), fmt.Sprintf("v2 key components in order: %v", v2))
	// label-by-label readers: append(X derived from a LocID, name...)
	fLocID := c.Field("db", "Location", "LocID")
	for _, name := range []string{"(*DataReader).FindAnswer", "(*DataReader).IsAuthoritative", "(*DataReader).ForEachResourceRecord"} {
		fn := c.Func("db", name)
		c.Examined(fn)
		n, ok := 0, true
		fromLoc := func(v ssa.Value) bool {
			for x := range backSlice(v, nil) {
				if fa, isFA := x.(*ssa.FieldAddr); isFA && fieldOf(fa) == fLocID {
					return true
				}
			}
			return false
		}
		// byte-slice concatenations: append chains flattened into their pieces (append(append(make(…,0,n), a...), b...)
		// and append(a, b...) are the same key)
		var pieces func(v ssa.Value, depth int) []ssa.Value
		pieces = func(v ssa.Value, depth int) []ssa.Value {
			if depth > 6 {
				return []ssa.Value{v}
			}
			if ap := isBuiltinCall(v, "append"); ap != nil && len(ap.Call.Args) == 2 {
				return append(pieces(ap.Call.Args[0], depth+1), ap.Call.Args[1])
			}
			if ms, isMS := v.(*ssa.MakeSlice); isMS {
				if k, isK := constInt(ms.Len); isK && k == 0 {
					return nil
				}
			}
			return []ssa.Value{v}
		}
		isBase := map[ssa.Value]bool{}
		for _, ci := range callInstrs(fn) {
			if ap := isBuiltinCall(valueOfCall(ci), "append"); ap != nil && len(ap.Call.Args) == 2 {
				isBase[ap.Call.Args[0]] = true
			}
		}
		for _, ci := range callInstrs(fn) {
			ap := isBuiltinCall(valueOfCall(ci), "append")
			if ap == nil || !isByteSlice(ap.Type()) || len(ap.Call.Args) != 2 || isBase[ap] {
				continue
			}
			ps := pieces(ap, 0)
			any := false
			for _, p := range ps {
				if fromLoc(p) {
					any = true
				}
			}
			if !any {
				continue
			}
			n++
			if len(ps) < 2 || !fromLoc(ps[0]) {
				ok = false
			}
			for _, p := range ps[1:] {
				if fromLoc(p) {
					ok = false
				}
			}
		}
		c.Check(rule, fnName(fn)+"|key=location‖name", ok && n >= 2, fn.Pos(), fmt.Sprintf("%d key constructions, each append(location, name...)", n))
	}
	// closest-key readers
	for _, name := range []string{"(*sortedDataReader).find", "(*sortedDataReader).ForEachResourceRecord"} {
		fn := c.Func("db", name)
		c.Examined(fn)
		var markerAt0, nameAfterMarker, locAfterName bool
		for _, ci := range callInstrs(fn) {
			cp := isBuiltinCall(valueOfCall(ci), "copy")
			var dst, src ssa.Value
			if cp != nil {
				dst, src = cp.Call.Args[0], cp.Call.Args[1]
			} else if sf := ci.Common().StaticCallee(); sf != nil && sf.Name() == "reverseZoneNameToBuffer" {
				dst, src = ci.Common().Args[1], ci.Common().Args[0]
			} else {
				continue
			}
			lowDepends := func(pred func(ssa.Value) bool) bool {
				sl, ok := dst.(*ssa.Slice)
				if !ok || sl.Low == nil {
					return false
				}
				for v := range backSlice(sl.Low, nil) {
					if pred(v) {
						return true
					}
				}
				return false
			}
			isMarkerLen := func(v ssa.Value) bool {
				if k, ok := constInt(v); ok && int(k) == len(markerVal) {
					return true
				}
				if ln := isBuiltinCall(v, "len"); ln != nil {
					if s, ok := stringConst(ln.Call.Args[0]); ok && s == markerVal {
						return true
					}
				}
				return false
			}
			srcIsMarker := false
			if s, ok := evalBytes(src); ok && s == markerVal {
				srcIsMarker = true
			}
			srcIsLoc := false
			for v := range backSlice(src, nil) {
				if fa, isFA := v.(*ssa.FieldAddr); isFA && fieldOf(fa) == fLocID {
					srcIsLoc = true
				}
				if g, isG := v.(*ssa.Global); isG && g.Name() == "EmptyLocation" {
					srcIsLoc = true
				}
			}
			sl, isSl := dst.(*ssa.Slice)
			switch {
			case srcIsMarker:
				markerAt0 = !isSl || sl.Low == nil
			case srcIsLoc:
				// low bound depends on the marker length AND on a name length
				if lowDepends(isMarkerLen) && lowDepends(func(v ssa.Value) bool {
					if ln := isBuiltinCall(v, "len"); ln != nil {
						_, isStr := stringConst(ln.Call.Args[0])
						return !isStr
					}
					_, isPhi := v.(*ssa.Phi)
					return isPhi
				}) {
					locAfterName = true
				}
			default:
				if lowDepends(isMarkerLen) {
					nameAfterMarker = true
				}
			}
		}
		c.Check(rule, fnName(fn)+"|key=marker‖reversed-name‖location", markerAt0 && nameAfterMarker && locAfterName, fn.Pos(), fmt.Sprintf("marker at offset 0: %v; name right after the marker: %v; location after marker+name: %v", markerAt0, nameAfterMarker, locAfterName))
	}
	c.CheckConst(rule, "marker-value|writer=readers", markerVal != "", token.NoPos, fmt.Sprintf("ResourceRecordsKeyMarker = %q is what the writer emits first and what the closest-key readers copy to offset 0 and compare the found key with", markerVal))
}

func declUsesObject(c *Ctx, pkg, fn string, obj types.Object) bool {
	d := c.Decl(pkg, fn)
	info := c.Info(pkg)
	found := false
	ast.Inspect(d, func(n ast.Node) bool {
		if id, ok := n.(*ast.Ident); ok && info.Uses[id] == obj {
			found = true
		}
		return true
	})
	return found
}

// c01TTL: default TTL table.
func c01TTL(c *Ctx, rule string) {
	c.Rule(rule, "A4, oracle = tinydns-data defaults (docs/data_format.md): ShortTTL = 2560 for SOA, LinkTTL = 259200 for NS ('.' and '&'), LongTTL = 86400 for every other record type with a default; each record type's loadDefaults assigns the constant of its class and every UnmarshalText that parses fields calls loadDefaults before the first field is read")
	want := map[string]int64{"ShortTTL": 2560, "LinkTTL": 259200, "LongTTL": 86400}
	for n, v := range want {
		k, ok := c.Obj("dnsdata", n).(*types.Const)
		got := int64(-1)
		if ok {
			got, _ = constant.Int64Val(k.Val())
		}
		c.CheckConst(rule, "const|"+n, got == v, token.NoPos, fmt.Sprintf("%s = %d (tinydns default %d)", n, got, v))
	}
	class := map[string]string{"Rsoa": "ShortTTL", "Rns1": "LinkTTL", "Raddr": "LongTTL", "Rpaddr": "LongTTL", "Rmx1": "LongTTL", "Rsrv1": "LongTTL", "Rcname": "LongTTL", "Rptr": "LongTTL", "Rtxt": "LongTTL", "Raux": "LongTTL"}
	fTTL := c.Field("dnsdata", "rshared", "ttl")
	var names []string
	for n := range class {
		names = append(names, n)
	}
	sort.Strings(names)
	for _, typ := range names {
		fn := c.FuncOpt("dnsdata", "(*"+typ+").loadDefaults")
		if fn == nil {
			c.Check(rule, typ+"|loadDefaults", false, token.NoPos, "no loadDefaults for this record type")
			continue
		}
		c.Examined(fn)
		got := int64(-1)
		for _, st := range storesToField(fn, fTTL) {
			if k, ok := constInt(st.Val); ok {
				got = k
			}
		}
		c.Check(rule, typ+"|default-ttl="+class[typ], got == want[class[typ]], fn.Pos(), fmt.Sprintf("loadDefaults sets ttl = %d", got))
	}
	// UnmarshalText reaches loadDefaults before reading fields
	n := 0
	for _, fn := range c.OurFuncs("dnsdata") {
		if fn.Name() != "UnmarshalText" || fn.Signature.Recv() == nil {
			continue
		}
		var ld ssa.CallInstruction
		for _, ci := range callInstrs(fn) {
			if sf := ci.Common().StaticCallee(); sf != nil && sf.Name() == "loadDefaults" {
				ld = ci
			}
		}
		if ld == nil {
			continue
		}
		n++
		// every store to the ttl field in this function comes after loadDefaults
		ok := true
		for _, b := range fn.Blocks {
			for _, in := range b.Instrs {
				if ci, isCall := in.(ssa.CallInstruction); isCall {
					if sf := ci.Common().StaticCallee(); sf != nil && strings.HasPrefix(sf.Name(), "getuint") && !instrDominates(ld, ci) {
						ok = false
					}
				}
			}
		}
		c.Check(rule, fnName(fn)+"|defaults-before-fields", ok, fn.Pos(), "defaults are loaded before explicit field values overwrite them")
	}
	if n < 8 {
		c.Undecided(rule, "UnmarshalText|floor", token.NoPos, fmt.Sprintf("only %d UnmarshalText methods call loadDefaults", n))
	}
}
