package main

// selftest.go — checker self-validation by in-memory overlays: seeded variants
// (one instance broken) must make the named rule fire, benign variants must
// leave every obligation discharged. Pure text → AST inputs for the analyser;
// nothing is executed and no copy of the repository is made.

import (
	"encoding/json"
	"fmt"
	"os"
	"os/exec"
	"path/filepath"
	"sort"
	"strings"
	"sync"
)

type edit struct {
	File string // relative to the dnsrocks module
	Old  string
	New  string
}

// editLineHint: optional 1-based line of an edit's Old text, used to choose among several occurrences (hunks of
// seeded patches carry one).
var editLineHint = map[string]int{}

type variant struct {
	Name   string
	Props  []string // properties to run
	Edits  []edit
	Expect []string // substrings of obligation keys (rule|construct) that must be violated; empty for benign
	Benign bool
	Note   string
}

var variants []variant

func addVariants(v ...variant) { variants = append(variants, v...) }

type variantResult struct {
	Name     string   `json:"name"`
	Status   string   `json:"status"` // fired, missed, silent, benign_fired, stale, error
	Violated []string `json:"violated,omitempty"`
	Detail   string   `json:"detail,omitempty"`
}

// buildOverlay applies the edits of a variant to the current files.
func buildOverlay(root string, v variant) (map[string][]byte, error) {
	ov := map[string][]byte{}
	for _, e := range v.Edits {
		p := filepath.Join(root, e.File)
		cur, ok := ov[p]
		if !ok {
			b, err := os.ReadFile(p)
			if err != nil {
				return nil, err
			}
			cur = b
		}
		s := string(cur)
		if n := strings.Count(s, e.Old); n != 1 {
			if hint := editLineHint[e.File+"\x00"+e.Old]; n > 1 && hint > 0 {
				// choose the occurrence that starts closest to the hinted line
				best, bestD := -1, 1<<30
				for off := 0; ; {
					i := strings.Index(s[off:], e.Old)
					if i < 0 {
						break
					}
					at := off + i
					ln := 1 + strings.Count(s[:at], "\n")
					d := ln - hint
					if d < 0 {
						d = -d
					}
					if d < bestD {
						best, bestD = at, d
					}
					off = at + 1
				}
				if best >= 0 && bestD <= 60 {
					ov[p] = []byte(s[:best] + e.New + s[best+len(e.Old):])
					continue
				}
			}
			return nil, fmt.Errorf("stale: %q occurs %d times in %s", firstLine(e.Old), n, e.File)
		}
		ov[p] = []byte(strings.Replace(s, e.Old, e.New, 1))
	}
	return ov, nil
}

func firstLine(s string) string {
	s = strings.TrimSpace(s)
	if i := strings.Index(s, "\n"); i >= 0 {
		s = s[:i]
	}
	if len(s) > 60 {
		s = s[:60]
	}
	return s
}

// runVariantChild is executed in a child process: loads with the overlay, runs the properties, prints JSON.
func runVariantChild(root string, name string, known []knownFinding) {
	var v *variant
	for i := range variants {
		if variants[i].Name == name {
			v = &variants[i]
		}
	}
	res := variantResult{Name: name}
	out := func() {
		b, _ := json.Marshal(res)
		fmt.Println("VARIANT-RESULT " + string(b))
	}
	if v == nil {
		res.Status, res.Detail = "error", "unknown variant"
		out()
		return
	}
	ov, err := buildOverlay(root, *v)
	if err != nil {
		res.Status, res.Detail = "stale", err.Error()
		out()
		return
	}
	p, err := Load(root, ov, nil)
	if err != nil {
		res.Status, res.Detail = "error", "variant does not load/type-check: "+err.Error()
		out()
		return
	}
	open := map[string]bool{}
	for _, k := range known {
		if k.Kind == "open" {
			open[k.Property+"|"+k.Key] = true
		}
	}
	for _, id := range v.Props {
		pd := props[id]
		if pd == nil {
			res.Status, res.Detail = "error", "unknown property "+id
			out()
			return
		}
		c := NewCtx(p, id, "quick")
		func() {
			defer func() {
				if r := recover(); r != nil {
					res.Violated = append(res.Violated, fmt.Sprintf("%s|UNDECIDED|%v", id, r))
				}
			}()
			pd.Run(c)
		}()
		for _, o := range c.Obls {
			if o.Status != Discharged && !open[id+"|"+o.Key()] {
				res.Violated = append(res.Violated, string(o.Status)+":"+o.Key())
			}
		}
	}
	sort.Strings(res.Violated)
	if v.Benign {
		if len(res.Violated) == 0 {
			res.Status = "silent"
		} else {
			res.Status = "benign_fired"
		}
	} else {
		missing := []string{}
		for _, e := range v.Expect {
			hit := false
			for _, k := range res.Violated {
				if strings.HasPrefix(k, "violated:") && strings.Contains(k, e) {
					hit = true
				}
			}
			if !hit {
				missing = append(missing, e)
			}
		}
		if len(missing) == 0 && len(v.Expect) > 0 {
			res.Status = "fired"
		} else {
			res.Status = "missed"
			res.Detail = "expected but not violated: " + strings.Join(missing, ", ")
		}
	}
	out()
}

// runVariants runs the given variants, each in a child process (one overlay load each), par at a time.
func runVariants(root, verif string, sel []variant, par int) []variantResult {
	results := make([]variantResult, len(sel))
	var wg sync.WaitGroup
	sem := make(chan struct{}, par)
	self, _ := os.Executable()
	for i, v := range sel {
		wg.Add(1)
		go func(i int, v variant) {
			defer wg.Done()
			sem <- struct{}{}
			defer func() { <-sem }()
			cmd := exec.Command(self, "-variant", v.Name, "-repo", root, "-verif", verif)
			outb, err := cmd.CombinedOutput()
			r := variantResult{Name: v.Name, Status: "error", Detail: fmt.Sprintf("%v: %s", err, lastLines(string(outb), 3))}
			for _, l := range strings.Split(string(outb), "\n") {
				if strings.HasPrefix(l, "VARIANT-RESULT ") {
					r = variantResult{}
					json.Unmarshal([]byte(strings.TrimPrefix(l, "VARIANT-RESULT ")), &r)
				}
			}
			results[i] = r
		}(i, v)
	}
	wg.Wait()
	return results
}

// selfValidation is the thorough tier's checker self-validation for one property: every seeded and benign overlay
// variant that involves the property is applied to the CURRENT source (in memory) and analysed. The tally goes into
// the evidence; it never changes the verdict about /repo.
func selfValidation(root, verif, prop string, par int) map[string]interface{} {
	var sel []variant
	for _, v := range variants {
		if contains(v.Props, prop) {
			sel = append(sel, v)
		}
	}
	results := runVariants(root, verif, sel, par)
	tally := map[string]int{}
	var brief []map[string]string
	for _, r := range results {
		tally[r.Status]++
		e := map[string]string{"variant": r.Name, "status": r.Status}
		if r.Status != "fired" && r.Status != "silent" {
			e["detail"] = r.Detail
			if len(r.Violated) > 0 {
				e["obligations"] = strings.Join(r.Violated, "; ")
			}
		}
		brief = append(brief, e)
	}
	return map[string]interface{}{
		"what":     "seeded variants (one rule instance broken in an in-memory overlay of the current source; the rule must fire and name it) and benign variants (behaviour-preserving rewrites; every rule must stay silent); 'stale' = the text the variant edits no longer exists on this tree",
		"variants": len(sel),
		"tally":    tally,
		"results":  brief,
	}
}

// runSelftest runs all (or the selected) variants in child processes, 4 at a time.
func runSelftest(root, verif string, filter string, par int) int {
	var sel []variant
	for _, v := range variants {
		if filter == "" || strings.Contains(v.Name, filter) || contains(v.Props, filter) {
			sel = append(sel, v)
		}
	}
	results := runVariants(root, verif, sel, par)
	tally := map[string]int{}
	bad := 0
	for i, r := range results {
		tally[r.Status]++
		ok := r.Status == "fired" || r.Status == "silent"
		if !ok {
			bad++
		}
		mark := "ok  "
		if !ok {
			mark = "FAIL"
		}
		fmt.Printf("%s %-12s %-50s %s\n", mark, r.Status, r.Name, r.Detail)
		if !ok && len(r.Violated) > 0 {
			for _, k := range r.Violated {
				fmt.Printf("       %s\n", k)
			}
		}
		_ = sel[i]
	}
	b, _ := json.MarshalIndent(map[string]interface{}{"tally": tally, "results": results}, "", " ")
	os.MkdirAll(filepath.Join(verif, "evidence"), 0o755)
	os.WriteFile(filepath.Join(verif, "evidence", "selftest.json"), b, 0o644)
	fmt.Printf("selftest: %d variants: %v\n", len(sel), tally)
	if bad > 0 {
		return 1
	}
	return 0
}

func contains(l []string, s string) bool {
	for _, x := range l {
		if x == s {
			return true
		}
	}
	return false
}

func lastLines(s string, n int) string {
	ls := strings.Split(strings.TrimSpace(s), "\n")
	if len(ls) > n {
		ls = ls[len(ls)-n:]
	}
	return strings.Join(ls, " | ")
}
