package main

import (
	"fmt"
	"go/token"
	"go/types"
	"sort"
	"strings"

	"golang.org/x/tools/go/ssa"
)

// c15SingleValue implements C15.single-value (also C08): agreement between the producers and the consumer of batch
// entries. (*Batch).integrate applies a deletion with `entry.values[0]` only. That is right exactly as long as every
// keyValues entry that can reach a batch carries one value; a producer that packs several values into one entry
// makes integrate silently drop all deletions but the first (and skip their "value not found" failure).
func c15SingleValue(c *Ctx, prop string) {
	rule := prop + ".single-value"
	c.Rule(rule, "contradiction rule between sibling sites in package rdb: if some consumer reads keyValues.values at the constant index 0 only, then every store to keyValues.values in the package stores a slice literal of exactly one element (no append to, and no multi-element literal for, an entry's values)")
	kv := c.Field("dnsdata/rdb", "keyValues", "values")
	var consumers []ssa.Instruction
	type prod struct {
		fn *ssa.Function
		st *ssa.Store
	}
	var producers []prod
	for _, fn := range c.OurFuncs("dnsdata/rdb") {
		for _, b := range fn.Blocks {
			for _, in := range b.Instrs {
				switch x := in.(type) {
				case *ssa.IndexAddr:
					// &(load of .values)[0]
					if k, ok := constInt(x.Index); ok && k == 0 {
						if u, ok := x.X.(*ssa.UnOp); ok && u.Op == token.MUL {
							if fa, ok := u.X.(*ssa.FieldAddr); ok && fieldOf(fa) == kv {
								consumers = append(consumers, in)
								c.Examined(fn)
							}
						}
					}
				case *ssa.Store:
					if fa, ok := x.Addr.(*ssa.FieldAddr); ok && fieldOf(fa) == kv {
						producers = append(producers, prod{fn, x})
						c.Examined(fn)
					}
				}
			}
		}
	}
	if len(consumers) == 0 {
		c.add(rule, "consumers|none-reads-only-first", Discharged, token.NoPos, false, "no consumer assumes one value per entry; producers are free to pack several")
		return
	}
	for i, in := range consumers {
		c.add(rule, fmt.Sprintf("%s|reads-values[0]#%d", fnName(in.Parent()), i), Discharged, in.Pos(), false, "consumer that applies only the first value of an entry")
	}
	cnt := map[string]int{}
	for _, p := range producers {
		one := false
		why := "not a slice literal"
		if sl, ok := p.st.Val.(*ssa.Slice); ok {
			if al, ok := sl.X.(*ssa.Alloc); ok {
				if at, ok := al.Type().(*types.Pointer).Elem().Underlying().(*types.Array); ok {
					one = at.Len() == 1 && sl.Low == nil && sl.High == nil
					why = fmt.Sprintf("slice literal of %d element(s)", at.Len())
				}
			}
		}
		cnt[fnName(p.fn)]++
		c.Check(rule, fmt.Sprintf("%s|values-store#%d|one-element", fnName(p.fn), cnt[fnName(p.fn)]), one, p.st.Pos(), "an entry's values must hold exactly one value because a consumer applies values[0] only: "+why)
	}
	c.Floor(rule, 3)
}

// c15Unconditional implements <prop>.apply-unconditional: in (*Batch).integrate every addition and every deletion of
// the batch is applied whatever the key currently holds. The multi-value store is a map of LISTS (duplicates are
// kept, a deletion removes one occurrence); an application step that is skipped depending on the present content
// turns it into a set and breaks "diff(A,B) applied to A equals compile(B)" whenever B holds a value twice.
func c15Unconditional(c *Ctx, prop string) {
	rule := prop + ".apply-unconditional"
	c.Rule(rule, "A2 control dependence in (*Batch).integrate: no call that applies a batch entry to the current value of a key (appendValues / delValue on an element of dbValues) is control dependent on a condition computed from the current values")
	fn := c.Func("dnsdata/rdb", "(*Batch).integrate")
	c.Examined(fn)
	var dbv *ssa.Parameter
	for _, p := range fn.Params {
		if p.Name() == "dbValues" {
			dbv = p
		}
	}
	if dbv == nil {
		// by type: the *[][]byte parameter
		for _, p := range fn.Params {
			if p.Type().String() == "*[][]byte" {
				dbv = p
			}
		}
	}
	if dbv == nil {
		c.Undecided(rule, fnName(fn)+"|current-values-param", fn.Pos(), "parameter holding the current values not found")
		return
	}
	n := map[string]int{}
	for _, ci := range callInstrs(fn) {
		callee := ci.Common().StaticCallee()
		if callee == nil || !c.isOurs(callee.Pkg.Pkg) || len(ci.Common().Args) == 0 {
			continue
		}
		if !backSlice(ci.Common().Args[0], nil)[dbv] {
			continue
		}
		n[callee.Name()]++
		bad := ""
		for _, f := range factsAt(ci.Block()) {
			// control-aware for boolean phis: `a && b` and a helper's boolean result seen inline depend on every
			// condition that selects the phi's edge
			if backSliceCtlBool(f.V)[dbv] {
				bad = describeValue(f.V)
			}
		}
		c.Check(rule, fmt.Sprintf("%s|%s#%d", fnName(fn), callee.Name(), n[callee.Name()]), bad == "", ci.Pos(),
			"applying a batch entry must not depend on what the key currently holds; governing condition: "+bad)
	}
	c.Floor(rule, 2)
}

// c15SortedFlag implements <prop>.sorted-flag: Batch.sorted promises that BOTH pair lists are sorted. Every function
// that appends to one of the lists must either clear the flag unconditionally, or keep it only under a condition
// computed from the very list it appends to. (A copy-and-paste that tests the other list leaves an unsorted list
// flagged as sorted: the merge in getAffectedKeys then emits a key twice and one of the two updates is lost.)
func c15SortedFlag(c *Ctx, prop string) {
	rule := prop + ".sorted-flag"
	c.Rule(rule, "A5 in package rdb: every function that stores an append result into Batch.addedPairs / Batch.deletedPairs also stores Batch.sorted; the stored value is the constant false, or a value whose data and control dependences include a load of the same list field and none of the other list field")
	fA := c.Field("dnsdata/rdb", "Batch", "addedPairs")
	fD := c.Field("dnsdata/rdb", "Batch", "deletedPairs")
	fS := c.Field("dnsdata/rdb", "Batch", "sorted")
	n := 0
	for _, fn := range c.OurFuncs("dnsdata/rdb") {
		for _, pair := range [][2]*types.Var{{fA, fD}, {fD, fA}} {
			own, other := pair[0], pair[1]
			appended := false
			for _, st := range storesToField(fn, own) {
				if isBuiltinCall(st.Val, "append") != nil {
					appended = true
				}
			}
			// appends through a pointer to the field (helper methods on *kvList) count too
			for _, ci := range callInstrs(fn) {
				for _, a := range ci.Common().Args {
					if fa, ok := a.(*ssa.FieldAddr); ok && fieldOf(fa) == own {
						if sf := ci.Common().StaticCallee(); sf != nil && sf.Name() != "Sort" && sf.Name() != "Len" {
							appended = true
						}
					}
				}
			}
			if !appended {
				continue
			}
			n++
			c.Examined(fn)
			stores := storesToField(fn, fS)
			ok := len(stores) > 0
			why := fmt.Sprintf("%d stores to sorted", len(stores))
			for _, st := range stores {
				deps := backSliceCtl(st.Val)
				if k, isK := st.Val.(*ssa.Const); isK && k.Value != nil && k.Value.String() == "false" {
					// "not sorted any more", stored unconditionally — or under a condition, which then decides whether
					// the mark is KEPT: it has to look at the list that is appended to, not at the other one
					conds := controlConds(st.Block())
					if len(conds) == 0 {
						continue
					}
					deps = map[ssa.Value]bool{}
					for _, cv := range conds {
						for v := range backSlice(cv, nil) {
							deps[v] = true
						}
					}
				}
				// through calls on the lists: receivers/arguments are part of the slice already
				usesOwn, usesOther := false, false
				for v := range deps {
					if isFieldLoad(v, own) {
						usesOwn = true
					}
					if isFieldLoad(v, other) {
						usesOther = true
					}
					if fa, isFA := v.(*ssa.FieldAddr); isFA {
						if fieldOf(fa) == own {
							usesOwn = true
						}
						if fieldOf(fa) == other {
							usesOther = true
						}
					}
				}
				if !usesOwn || usesOther {
					ok = false
					why = fmt.Sprintf("sorted is kept under a condition that reads the appended list: %v, the other list: %v", usesOwn, usesOther)
				}
			}
			c.Check(rule, fmt.Sprintf("%s|appends:%s", fnName(fn), own.Name()), ok, fn.Pos(), why)
		}
	}
	c.Floor(rule, 2)
}

// c15DelOne implements C15/C08.del-one on delValue ("Del removes exactly one equal value, or fails without effect"):
//
//	(aligned) a value is recognised only as a whole chunk: every success result (nil error) is chosen under the true
//	          outcome of bytes.Equal between the value to delete and a slice of the stored data whose bounds come from a
//	          decoded chunk header (binary.LittleEndian.Uint32 on the data, or ReadNextChunk). A raw byte search for the
//	          serialised chunk (seed c15e) also matches inside another value's bytes.
//	(one)     once a chunk has matched, no further chunk is examined: from the match branch the chunk decoder is not
//	          reached again (seed c08f drops every equal chunk).
func c15DelOne(c *Ctx, rule string) {
	c.Rule(rule, "A2 on delValue: (aligned) every nil-error result is chosen on an edge dominated by bytes.Equal(header-delimited chunk of data, value) == true; (one) the chunk-header decode is not reachable again from the true side of that comparison")
	fn := c.Func("dnsdata/rdb", "delValue")
	c.Examined(fn)
	if len(fn.Params) < 2 {
		c.Undecided(rule, "delValue|signature", fn.Pos(), "unexpected signature")
		return
	}
	data, value := fn.Params[0], fn.Params[1]
	isDecode := func(v ssa.Value) bool {
		call, _ := callOfValue(v)
		if call == nil {
			return false
		}
		f := calleeOf(call.Common())
		if f == nil {
			return false
		}
		return (f.Name() == "Uint32" && f.Pkg() != nil && f.Pkg().Path() == "encoding/binary") || f.Name() == "ReadNextChunk"
	}
	var decodes []ssa.Instruction
	for _, ci := range callInstrs(fn) {
		if v := valueOfCall(ci); v != nil && isDecode(v) {
			decodes = append(decodes, ci)
		}
	}
	if len(decodes) == 0 {
		c.Undecided(rule, "delValue|decoder", fn.Pos(), "no chunk-header decode found (binary.LittleEndian.Uint32 / ReadNextChunk)")
		return
	}
	isChunkMatch := func(v ssa.Value) *ssa.Call {
		eq := isCallToFunc(v, "bytes", "Equal")
		if eq == nil {
			return nil
		}
		var hasChunk, hasValue bool
		for _, a := range eq.Call.Args {
			fromData, fromHeader, fromValue := false, false, false
			for x := range backSlice(a, nil) {
				if x == ssa.Value(data) {
					fromData = true
				}
				if x == ssa.Value(value) {
					fromValue = true
				}
				if isDecode(x) {
					fromHeader = true
				}
			}
			if fromData && fromHeader {
				hasChunk = true
			} else if fromValue && !fromData {
				hasValue = true
			}
		}
		if hasChunk && hasValue {
			return eq
		}
		return nil
	}
	n := 0
	var matches []*ssa.Call
	for _, leaf := range resultLeaves(fn, 1) {
		if !isNilConst(leaf.V) {
			continue
		}
		n++
		var m *ssa.Call
		for _, f := range factsAt(leaf.At) {
			if f.Truth {
				if eq := isChunkMatch(f.V); eq != nil {
					m = eq
				}
			}
		}
		if m != nil {
			matches = append(matches, m)
		}
		c.Check(rule, fmt.Sprintf("delValue|success#%d|whole-chunk-equal", n), m != nil, leaf.V.Pos(), "a value is deleted only where a whole stored chunk compared equal to it")
	}
	if n == 0 {
		c.Undecided(rule, "delValue|success", fn.Pos(), "no nil-error result found")
	}
	for i, m := range matches {
		// the true successor of the branch on m
		again := false
		for _, r := range *m.Referrers() {
			iff, ok := r.(*ssa.If)
			if !ok {
				continue
			}
			for _, d := range decodes {
				if reachable(iff.Block().Succs[0], nil)[d.Block()] {
					again = true
				}
			}
		}
		c.Check(rule, fmt.Sprintf("delValue|match#%d|stops-the-walk", i+1), !again, m.Pos(), "after the first equal chunk no other chunk is examined (exactly one value goes)")
	}
}

// c15FailOnlyOnDel implements C15/C08.fail-only-on-del: "a batch is all its additions, then all its deletions". The only
// way integrate may fail is a deletion that does not find its value AFTER the additions of that key were applied —
// i.e. an error handed back by delValue. An error computed from the stored value before the additions (seed c15f: a
// pre-check of the deletions against the database value) rejects batches that add and delete the same pair.
func c15FailOnlyOnDel(c *Ctx, rule string) {
	c.Rule(rule, "A8 provenance in (*Batch).integrate: every non-nil error result derives from the error returned by a delValue call")
	fn := c.Func("dnsdata/rdb", "(*Batch).integrate")
	c.Examined(fn)
	n := 0
	for _, leaf := range resultLeaves(fn, 0) {
		if isNilConst(leaf.V) {
			continue
		}
		n++
		fromDel := false
		for v := range backSlice(leaf.V, nil) {
			if call, idx := callOfValue(v); call != nil && idx == 1 {
				if f := calleeOf(call.Common()); f != nil && f.Name() == "delValue" {
					fromDel = true
				}
			}
		}
		// only failures decided inside the per-key loop are about stored values; the consistency check of the two cursors
		// behind the loop is not
		inLoop := false
		for _, l := range rangeLoops(fn, func(v ssa.Value) bool { return v == ssa.Value(fn.Params[1]) }) {
			if l.Body[leaf.At] {
				inLoop = true
			}
			for _, p := range leaf.At.Preds {
				if l.Body[p] {
					inLoop = true
				}
			}
		}
		dependsOnStored := inLoop
		c.Check(rule, fmt.Sprintf("%s|error#%d|from-delValue", fnName(fn), n), fromDel || !dependsOnStored, leaf.V.Pos(), "integrate fails because of a stored value only where a deletion, applied after the additions, does not find its value")
	}
	c.Floor(rule, 1)
}

// c15RestoreLatest implements C15.restore-latest: "a restored backup holds the same map" — of the state that was backed
// up LAST. Restore goes through the engine's restore-from-latest entry point, or, if it restores by backup id, takes
// the id from the last slot of the backup list (an index derived from the count); a constant slot (seed c15g: slot 0,
// the OLDEST backup of the directory) restores a stale state as soon as the directory holds two backups.
func c15RestoreLatest(c *Ctx) {
	rule := "C15.restore-latest"
	c.Rule(rule, "A8 in rdb.Restore: the backup engine is asked for RestoreFromLastBackup, or every restore-by-id call takes an id whose provenance includes the backup count (GetCount) — never a constant slot")
	fn := c.Func("dnsdata/rdb", "Restore")
	c.Examined(fn)
	n, ok, why := 0, true, ""
	for _, ci := range callInstrs(fn) {
		f := calleeOf(ci.Common())
		if f == nil || f.Pkg() == nil || !strings.HasSuffix(f.Pkg().Path(), "cgo-rocksdb") || !strings.HasPrefix(f.Name(), "Restore") {
			continue
		}
		n++
		if f.Name() == "RestoreFromLastBackup" {
			continue
		}
		fromCount := false
		for _, a := range ci.Common().Args {
			for v := range backSlice(a, nil) {
				if call, _ := callOfValue(v); call != nil {
					if g := calleeOf(call.Common()); g != nil && g.Name() == "GetCount" {
						fromCount = true
					}
				}
			}
		}
		if !fromCount {
			ok, why = false, fmt.Sprintf("%s at %s restores a backup chosen without regard to the number of backups", f.Name(), c.relPos(ci.Pos()))
		}
	}
	c.Check(rule, fnName(fn)+"|latest-backup", ok && n > 0, fn.Pos(), fmt.Sprintf("%d restore calls; %s", n, why))
	// … and RestoreFromLastBackup leaves "latest" to RocksDB (backup ids are issued in order; timestamps have a
	// granularity of one second — round-5 seed c15k picked the newest timestamp and restored the older of two backups
	// taken in the same second)
	if lb := c.FuncOpt("cgo-rocksdb", "(*BackupEngine).RestoreFromLastBackup"); lb != nil {
		c.Examined(lb)
		var cnames []string
		seen := map[*ssa.Function]bool{}
		var walk func(f *ssa.Function, depth int)
		walk = func(f *ssa.Function, depth int) {
			if seen[f] || depth > 2 {
				return
			}
			seen[f] = true
			for _, ci := range callInstrs(f) {
				sf := ci.Common().StaticCallee()
				if sf == nil {
					continue
				}
				if strings.HasPrefix(sf.Name(), "_Cfunc_rocksdb_backup_engine_") {
					cnames = append(cnames, strings.TrimPrefix(sf.Name(), "_Cfunc_rocksdb_backup_engine_"))
				} else if sf.Pkg == f.Pkg && sf.Blocks != nil {
					walk(sf, depth+1)
				}
			}
		}
		walk(lb, 0)
		sort.Strings(cnames)
		latest, byID := false, false
		for _, n := range cnames {
			if n == "restore_db_from_latest_backup" {
				latest = true
			}
			if n == "restore_db_from_backup" {
				byID = true
			}
		}
		c.Check(rule, fnName(lb)+"|asks-rocksdb-for-the-latest", latest && !byID, lb.Pos(), fmt.Sprintf("backup-engine C entry points reached: %v", cnames))
	}
}
