package main

import (
	"fmt"
	"go/token"
	"go/types"

	"golang.org/x/tools/go/ssa"
)

// c15SingleValue implements C15.single-value (also C08): agreement between the producers and the consumer of batch
// entries. (*Batch).integrate applies a deletion with `entry.values[0]` only. That is right exactly as long as every
// keyValues entry that can reach a batch carries one value; a producer that packs several values into one entry
// makes integrate silently drop all deletions but the first (and skip their "value not found" failure).
func c15SingleValue(c *Ctx, prop string) {
	rule := prop + ".single-value"
	c.Rule(rule, "contradiction rule between sibling sites in package rdb: if some consumer reads keyValues.values at the constant index 0 only, then every store to keyValues.values in the package stores a slice literal of exactly one element (no append to, and no multi-element literal for, an entry's values)")
	kv := c.Field("dnsdata/rdb", "keyValues", "values")
	var consumers []ssa.Instruction
	type prod struct {
		fn *ssa.Function
		st *ssa.Store
	}
	var producers []prod
	for _, fn := range c.OurFuncs("dnsdata/rdb") {
		for _, b := range fn.Blocks {
			for _, in := range b.Instrs {
				switch x := in.(type) {
				case *ssa.IndexAddr:
					// &(load of .values)[0]
					if k, ok := constInt(x.Index); ok && k == 0 {
						if u, ok := x.X.(*ssa.UnOp); ok && u.Op == token.MUL {
							if fa, ok := u.X.(*ssa.FieldAddr); ok && fieldOf(fa) == kv {
								consumers = append(consumers, in)
								c.Examined(fn)
							}
						}
					}
				case *ssa.Store:
					if fa, ok := x.Addr.(*ssa.FieldAddr); ok && fieldOf(fa) == kv {
						producers = append(producers, prod{fn, x})
						c.Examined(fn)
					}
				}
			}
		}
	}
	if len(consumers) == 0 {
		c.add(rule, "consumers|none-reads-only-first", Discharged, token.NoPos, false, "no consumer assumes one value per entry; producers are free to pack several")
		return
	}
	for i, in := range consumers {
		c.add(rule, fmt.Sprintf("%s|reads-values[0]#%d", fnName(in.Parent()), i), Discharged, in.Pos(), false, "consumer that applies only the first value of an entry")
	}
	cnt := map[string]int{}
	for _, p := range producers {
		one := false
		why := "not a slice literal"
		if sl, ok := p.st.Val.(*ssa.Slice); ok {
			if al, ok := sl.X.(*ssa.Alloc); ok {
				if at, ok := al.Type().(*types.Pointer).Elem().Underlying().(*types.Array); ok {
					one = at.Len() == 1 && sl.Low == nil && sl.High == nil
					why = fmt.Sprintf("slice literal of %d element(s)", at.Len())
				}
			}
		}
		cnt[fnName(p.fn)]++
		c.Check(rule, fmt.Sprintf("%s|values-store#%d|one-element", fnName(p.fn), cnt[fnName(p.fn)]), one, p.st.Pos(), "an entry's values must hold exactly one value because a consumer applies values[0] only: "+why)
	}
	c.Floor(rule, 3)
}

// c15Unconditional implements <prop>.apply-unconditional: in (*Batch).integrate every addition and every deletion of
// the batch is applied whatever the key currently holds. The multi-value store is a map of LISTS (duplicates are
// kept, a deletion removes one occurrence); an application step that is skipped depending on the present content
// turns it into a set and breaks "diff(A,B) applied to A equals compile(B)" whenever B holds a value twice.
func c15Unconditional(c *Ctx, prop string) {
	rule := prop + ".apply-unconditional"
	c.Rule(rule, "A2 control dependence in (*Batch).integrate: no call that applies a batch entry to the current value of a key (appendValues / delValue on an element of dbValues) is control dependent on a condition computed from the current values")
	fn := c.Func("dnsdata/rdb", "(*Batch).integrate")
	c.Examined(fn)
	var dbv *ssa.Parameter
	for _, p := range fn.Params {
		if p.Name() == "dbValues" {
			dbv = p
		}
	}
	if dbv == nil {
		// by type: the *[][]byte parameter
		for _, p := range fn.Params {
			if p.Type().String() == "*[][]byte" {
				dbv = p
			}
		}
	}
	if dbv == nil {
		c.Undecided(rule, fnName(fn)+"|current-values-param", fn.Pos(), "parameter holding the current values not found")
		return
	}
	n := map[string]int{}
	for _, ci := range callInstrs(fn) {
		callee := ci.Common().StaticCallee()
		if callee == nil || !c.isOurs(callee.Pkg.Pkg) || len(ci.Common().Args) == 0 {
			continue
		}
		if !backSlice(ci.Common().Args[0], nil)[dbv] {
			continue
		}
		n[callee.Name()]++
		bad := ""
		for _, f := range factsAt(ci.Block()) {
			if backSlice(f.V, nil)[dbv] {
				bad = describeValue(f.V)
			}
		}
		c.Check(rule, fmt.Sprintf("%s|%s#%d", fnName(fn), callee.Name(), n[callee.Name()]), bad == "", ci.Pos(),
			"applying a batch entry must not depend on what the key currently holds; governing condition: "+bad)
	}
	c.Floor(rule, 2)
}

// c15SortedFlag implements <prop>.sorted-flag: Batch.sorted promises that BOTH pair lists are sorted. Every function
// that appends to one of the lists must either clear the flag unconditionally, or keep it only under a condition
// computed from the very list it appends to. (A copy-and-paste that tests the other list leaves an unsorted list
// flagged as sorted: the merge in getAffectedKeys then emits a key twice and one of the two updates is lost.)
func c15SortedFlag(c *Ctx, prop string) {
	rule := prop + ".sorted-flag"
	c.Rule(rule, "A5 in package rdb: every function that stores an append result into Batch.addedPairs / Batch.deletedPairs also stores Batch.sorted; the stored value is the constant false, or a value whose data and control dependences include a load of the same list field and none of the other list field")
	fA := c.Field("dnsdata/rdb", "Batch", "addedPairs")
	fD := c.Field("dnsdata/rdb", "Batch", "deletedPairs")
	fS := c.Field("dnsdata/rdb", "Batch", "sorted")
	n := 0
	for _, fn := range c.OurFuncs("dnsdata/rdb") {
		for _, pair := range [][2]*types.Var{{fA, fD}, {fD, fA}} {
			own, other := pair[0], pair[1]
			appended := false
			for _, st := range storesToField(fn, own) {
				if isBuiltinCall(st.Val, "append") != nil {
					appended = true
				}
			}
			// appends through a pointer to the field (helper methods on *kvList) count too
			for _, ci := range callInstrs(fn) {
				for _, a := range ci.Common().Args {
					if fa, ok := a.(*ssa.FieldAddr); ok && fieldOf(fa) == own {
						if sf := ci.Common().StaticCallee(); sf != nil && sf.Name() != "Sort" && sf.Name() != "Len" {
							appended = true
						}
					}
				}
			}
			if !appended {
				continue
			}
			n++
			c.Examined(fn)
			stores := storesToField(fn, fS)
			ok := len(stores) > 0
			why := fmt.Sprintf("%d stores to sorted", len(stores))
			for _, st := range stores {
				if k, isK := st.Val.(*ssa.Const); isK && k.Value != nil && k.Value.String() == "false" {
					continue
				}
				deps := backSliceCtl(st.Val)
				// through calls on the lists: receivers/arguments are part of the slice already
				usesOwn, usesOther := false, false
				for v := range deps {
					if isFieldLoad(v, own) {
						usesOwn = true
					}
					if isFieldLoad(v, other) {
						usesOther = true
					}
					if fa, isFA := v.(*ssa.FieldAddr); isFA {
						if fieldOf(fa) == own {
							usesOwn = true
						}
						if fieldOf(fa) == other {
							usesOther = true
						}
					}
				}
				if !usesOwn || usesOther {
					ok = false
					why = fmt.Sprintf("sorted is kept under a condition that reads the appended list: %v, the other list: %v", usesOwn, usesOther)
				}
			}
			c.Check(rule, fmt.Sprintf("%s|appends:%s", fnName(fn), own.Name()), ok, fn.Pos(), why)
		}
	}
	c.Floor(rule, 2)
}
