package main

import (
	"fmt"
	"go/token"
	"go/types"

	"golang.org/x/tools/go/ssa"
)

// c15SingleValue implements C15.single-value (also C08): agreement between the producers and the consumer of batch
// entries. (*Batch).integrate applies a deletion with `entry.values[0]` only. That is right exactly as long as every
// keyValues entry that can reach a batch carries one value; a producer that packs several values into one entry
// makes integrate silently drop all deletions but the first (and skip their "value not found" failure).
func c15SingleValue(c *Ctx, prop string) {
	rule := prop + ".single-value"
	c.Rule(rule, "contradiction rule between sibling sites in package rdb: if some consumer reads keyValues.values at the constant index 0 only, then every store to keyValues.values in the package stores a slice literal of exactly one element (no append to, and no multi-element literal for, an entry's values)")
	kv := c.Field("dnsdata/rdb", "keyValues", "values")
	var consumers []ssa.Instruction
	type prod struct {
		fn *ssa.Function
		st *ssa.Store
	}
	var producers []prod
	for _, fn := range c.OurFuncs("dnsdata/rdb") {
		for _, b := range fn.Blocks {
			for _, in := range b.Instrs {
				switch x := in.(type) {
				case *ssa.IndexAddr:
					// &(load of .values)[0]
					if k, ok := constInt(x.Index); ok && k == 0 {
						if u, ok := x.X.(*ssa.UnOp); ok && u.Op == token.MUL {
							if fa, ok := u.X.(*ssa.FieldAddr); ok && fieldOf(fa) == kv {
								consumers = append(consumers, in)
								c.Examined(fn)
							}
						}
					}
				case *ssa.Store:
					if fa, ok := x.Addr.(*ssa.FieldAddr); ok && fieldOf(fa) == kv {
						producers = append(producers, prod{fn, x})
						c.Examined(fn)
					}
				}
			}
		}
	}
	if len(consumers) == 0 {
		c.add(rule, "consumers|none-reads-only-first", Discharged, token.NoPos, false, "no consumer assumes one value per entry; producers are free to pack several")
		return
	}
	for i, in := range consumers {
		c.add(rule, fmt.Sprintf("%s|reads-values[0]#%d", fnName(in.Parent()), i), Discharged, in.Pos(), false, "consumer that applies only the first value of an entry")
	}
	cnt := map[string]int{}
	for _, p := range producers {
		one := false
		why := "not a slice literal"
		if sl, ok := p.st.Val.(*ssa.Slice); ok {
			if al, ok := sl.X.(*ssa.Alloc); ok {
				if at, ok := al.Type().(*types.Pointer).Elem().Underlying().(*types.Array); ok {
					one = at.Len() == 1 && sl.Low == nil && sl.High == nil
					why = fmt.Sprintf("slice literal of %d element(s)", at.Len())
				}
			}
		}
		cnt[fnName(p.fn)]++
		c.Check(rule, fmt.Sprintf("%s|values-store#%d|one-element", fnName(p.fn), cnt[fnName(p.fn)]), one, p.st.Pos(), "an entry's values must hold exactly one value because a consumer applies values[0] only: "+why)
	}
	c.Floor(rule, 3)
}

// c15Unconditional implements <prop>.apply-unconditional: in (*Batch).integrate every addition and every deletion of
// the batch is applied whatever the key currently holds. The multi-value store is a map of LISTS (duplicates are
// kept, a deletion removes one occurrence); an application step that is skipped depending on the present content
// turns it into a set and breaks "diff(A,B) applied to A equals compile(B)" whenever B holds a value twice.
func c15Unconditional(c *Ctx, prop string) {
	rule := prop + ".apply-unconditional"
	c.Rule(rule, "A2 control dependence in (*Batch).integrate: no call that applies a batch entry to the current value of a key (appendValues / delValue on an element of dbValues) is control dependent on a condition computed from the current values")
	fn := c.Func("dnsdata/rdb", "(*Batch).integrate")
	c.Examined(fn)
	var dbv *ssa.Parameter
	for _, p := range fn.Params {
		if p.Name() == "dbValues" {
			dbv = p
		}
	}
	if dbv == nil {
		// by type: the *[][]byte parameter
		for _, p := range fn.Params {
			if p.Type().String() == "*[][]byte" {
				dbv = p
			}
		}
	}
	if dbv == nil {
		c.Undecided(rule, fnName(fn)+"|current-values-param", fn.Pos(), "parameter holding the current values not found")
		return
	}
	n := map[string]int{}
	for _, ci := range callInstrs(fn) {
		callee := ci.Common().StaticCallee()
		if callee == nil || !c.isOurs(callee.Pkg.Pkg) || len(ci.Common().Args) == 0 {
			continue
		}
		if !backSlice(ci.Common().Args[0], nil)[dbv] {
			continue
		}
		n[callee.Name()]++
		bad := ""
		for _, f := range factsAt(ci.Block()) {
			if backSlice(f.V, nil)[dbv] {
				bad = describeValue(f.V)
			}
		}
		c.Check(rule, fmt.Sprintf("%s|%s#%d", fnName(fn), callee.Name(), n[callee.Name()]), bad == "", ci.Pos(),
			"applying a batch entry must not depend on what the key currently holds; governing condition: "+bad)
	}
	c.Floor(rule, 2)
}
