package main

import (
	"encoding/json"
	"fmt"
	"os"
	"path/filepath"
	"sort"
	"strings"
)

// Seeded changes written by independent sub-agents (see /verif/seeded/*/) double as overlay variants: every hunk of
// patch.diff becomes an in-memory edit (old block -> new block), so the self-validation applies the change to the
// CURRENT source without touching /repo and checks that the property's rules still fire on it.

type seedMeta struct {
	ID         string `json:"id"`
	Property   string `json:"property"`
	Evaluation struct {
		Checks      []string `json:"checks_that_fail"`
		Obligations []string `json:"obligations"`
	} `json:"evaluation"`
}

func hunksToEdits(patch string) []edit {
	var out []edit
	file := ""
	var oldB, newB strings.Builder
	inHunk := false
	line := 0
	var lines []int
	flush := func() {
		if inHunk && file != "" && oldB.Len() > 0 {
			out = append(out, edit{file, oldB.String(), newB.String()})
			lines = append(lines, line)
		}
		oldB.Reset()
		newB.Reset()
		inHunk = false
	}
	for _, l := range strings.Split(patch, "\n") {
		switch {
		case strings.HasPrefix(l, "diff --git"):
			flush()
			file = ""
		case strings.HasPrefix(l, "+++ b/"):
			file = strings.TrimPrefix(strings.TrimPrefix(l, "+++ b/"), "dnsrocks/")
		case strings.HasPrefix(l, "--- "), strings.HasPrefix(l, "index "), strings.HasPrefix(l, "new file"), strings.HasPrefix(l, "\\ No newline"):
		case strings.HasPrefix(l, "@@"):
			flush()
			inHunk = true
			line = 0
			fmt.Sscanf(l, "@@ -%d", &line)
		case inHunk && strings.HasPrefix(l, "+"):
			newB.WriteString(l[1:] + "\n")
		case inHunk && strings.HasPrefix(l, "-"):
			oldB.WriteString(l[1:] + "\n")
		case inHunk && (strings.HasPrefix(l, " ") || l == ""):
			t := ""
			if len(l) > 0 {
				t = l[1:]
			}
			oldB.WriteString(t + "\n")
			newB.WriteString(t + "\n")
		}
	}
	flush()
	// the last context line of a patch may be the split artefact of the trailing newline
	for i := range out {
		for strings.HasSuffix(out[i].Old, "\n\n") && strings.HasSuffix(out[i].New, "\n\n") {
			out[i].Old = strings.TrimSuffix(out[i].Old, "\n")
			out[i].New = strings.TrimSuffix(out[i].New, "\n")
		}
		editLineHint[out[i].File+"\x00"+out[i].Old] = lines[i]
	}
	return out
}

func loadSeedVariants(verif string) {
	dirs, _ := filepath.Glob(filepath.Join(verif, "seeded", "*", "meta.json"))
	sort.Strings(dirs)
	for _, mp := range dirs {
		b, err := os.ReadFile(mp)
		if err != nil {
			continue
		}
		var m seedMeta
		if json.Unmarshal(b, &m) != nil || m.ID == "" {
			continue
		}
		pb, err := os.ReadFile(filepath.Join(filepath.Dir(mp), "patch.diff"))
		if err != nil {
			continue
		}
		edits := hunksToEdits(string(pb))
		if len(edits) == 0 {
			continue
		}
		var expect []string
		for _, o := range m.Evaluation.Obligations {
			if strings.HasPrefix(o, "undecided ") || !strings.HasPrefix(o, m.Property+".") {
				continue
			}
			// rule|construct...: keep rule and the first construct component (robust to index changes)
			parts := strings.SplitN(o, "|", 3)
			if len(parts) >= 2 {
				expect = append(expect, parts[0]+"|"+parts[1])
			} else {
				expect = append(expect, parts[0])
			}
		}
		if len(expect) == 0 {
			continue
		}
		sort.Strings(expect)
		expect = expect[:1] // one named instance of the property's own rules is enough to count as fired
		addVariants(variant{Name: "seed-" + m.ID, Props: []string{m.Property}, Edits: edits, Expect: expect,
			Note: "independent seeded change /verif/seeded/" + m.ID})
	}
}
