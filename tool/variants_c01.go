package main

func init() {
	const ans = "db/answer.go"
	const srt = "db/answer_sorted.go"
	addVariants(
		variant{Name: "c01-sorted-zone-border-invariant(F3)", Props: []string{"C01"}, Expect: []string{"C01.guards|(*db.sortedDataReader).FindAnswer|pre|guard:zone-border"},
			Edits: []edit{{srt, "\t\tif length < len(packedControlName) {", "\t\tif len(q) < len(packedControlName) {"}}},
		variant{Name: "c01-v1-zone-border-removed", Props: []string{"C01"}, Expect: []string{"C01.guards|(*db.DataReader).FindAnswer|guard:zone-border"},
			Edits: []edit{{ans, "\t\tif bytes.Equal(q, packedControlName) {\n\t\t\tbreak\n\t\t}\n", "\t\tif bytes.Equal(q, q) && len(packedControlName) < 0 {\n\t\t\tbreak\n\t\t}\n"}}},
		variant{Name: "c01-v1-wildsafe-removed", Props: []string{"C01"}, Expect: []string{"C01.guards|(*db.DataReader).FindAnswer|guard:wild-safe"},
			Edits: []edit{{ans, "\t\tif !dnsLabelWildsafe(q[1 : q[0]+1]) {\n\t\t\tbreak\n\t\t}\n", ""}}},
		variant{Name: "c01-v1-wildsafe-flipped", Props: []string{"C01"}, Expect: []string{"C01.guards|(*db.DataReader).FindAnswer|guard:wild-safe"},
			Edits: []edit{{ans, "\t\tif !dnsLabelWildsafe(q[1 : q[0]+1]) {\n\t\t\tbreak\n\t\t}\n", "\t\tif dnsLabelWildsafe(q[1 : q[0]+1]) {\n\t\t\tbreak\n\t\t}\n"}}},
		variant{Name: "c01-v1-found-guard-removed", Props: []string{"C01"}, Expect: []string{"C01.guards|(*db.DataReader).FindAnswer|guard:found"},
			Edits: []edit{{ans, "\t\tif recordFound {\n\t\t\tbreak\n\t\t}\n\t\tif bytes.Equal(q, packedControlName) {", "\t\tif bytes.Equal(q, packedControlName) {"}}},
		variant{Name: "c01-v1-isauth-stops-on-soa-instead-of-ns", Props: []string{"C01"}, Expect: []string{"C01.guards|(*db.DataReader).IsAuthoritative|guard:ns-found"},
			Edits: []edit{{ans, "\t\tif ns {\n\t\t\tbreak\n\t\t}\n\t\tif zoneCut[0] == 0 {", "\t\tif auth {\n\t\t\tbreak\n\t\t}\n\t\tif zoneCut[0] == 0 {"}}},
		variant{Name: "c01-sorted-isauth-post-polarity", Props: []string{"C01"}, Expect: []string{"C01.guards|(*db.sortedDataReader).IsAuthoritative|post|guard:ns-found"},
			Edits: []edit{{srt, "\tpostIterationCheck := func() bool {\n\t\treturn !ns\n\t}", "\tpostIterationCheck := func() bool {\n\t\treturn ns\n\t}"}}},
		variant{Name: "c01-sorted-found-guard-removed", Props: []string{"C01"}, Expect: []string{"C01.guards|(*db.sortedDataReader).FindAnswer|post|guard:found"},
			Edits: []edit{{srt, "\t\tif recordFound {\n\t\t\treturn false\n\t\t}\n\n\t\twildcard = true", "\t\twildcard = true"}}},
		variant{Name: "c01-sorted-wildsafe-removed", Props: []string{"C01"}, Expect: []string{"C01.guards|(*db.sortedDataReader).FindAnswer|pre|guard:wild-safe"},
			Edits: []edit{{srt, "\t\t\tif !dnsLabelWildsafe(label) {\n\t\t\t\treturn false\n\t\t\t}\n", "\t\t\t_ = label\n"}}},
		variant{Name: "c01-find-ignores-pre-callback", Props: []string{"C01"}, Expect: []string{"C01.guards|(*db.sortedDataReader).FindAnswer|callback:pre"},
			Edits: []edit{{srt, "\t\tif !preIterationCheck(reversedQName, qLength) {\n\t\t\tbreak\n\t\t}\n", "\t\tpreIterationCheck(reversedQName, qLength)\n"}}},
		variant{Name: "c01-find-root-guard-removed", Props: []string{"C01"}, Expect: []string{"C01.guards|(*db.sortedDataReader).find|guard:root"},
			Edits: []edit{{srt, "\t\t// reached root zone\n\t\tif qLength == 1 {\n\t\t\tbreak\n\t\t}\n", ""}}},
		variant{Name: "c01-v1-wildcard-flag-never-set", Props: []string{"C01"}, Expect: []string{"C01.wildflag|(*db.DataReader).FindAnswer|flag-set-when-walking-up"},
			Edits: []edit{{ans, "\t\tq = q[q[0]+1:]\n\t\twildcard = true\n", "\t\tq = q[q[0]+1:]\n"}}},
		variant{Name: "c01-v1-wildcard-flag-initially-true", Props: []string{"C01"}, Expect: []string{"C01.wildflag|(*db.DataReader).FindAnswer|flag-false-on-first-lookup"},
			Edits: []edit{{ans, "\t\trecordFound = false\n\t\twildcard    = false\n\t\t// resource record pointer used during record lookups\n\t\trec ResourceRecord\n\t\t// rr will be used to construct temporary ResourceRecords\n\t\trr  dns.RR\n\t\trrs []dns.RR\n\t)\n\n\tparseResult := func(result []byte) error {\n\t\tif errors.Is(err, io.EOF) {\n\t\t\treturn nil\n\t\t}\n\n\t\tif rec, err = ExtractRRFromRow(result, wildcard); err != nil {\n\t\t\t// Not a location match\n\t\t\t// nolint:nilerr", "\t\trecordFound = false\n\t\twildcard    = true\n\t\t// resource record pointer used during record lookups\n\t\trec ResourceRecord\n\t\t// rr will be used to construct temporary ResourceRecords\n\t\trr  dns.RR\n\t\trrs []dns.RR\n\t)\n\n\tparseResult := func(result []byte) error {\n\t\tif errors.Is(err, io.EOF) {\n\t\t\treturn nil\n\t\t}\n\n\t\tif rec, err = ExtractRRFromRow(result, wildcard); err != nil {\n\t\t\t// Not a location match\n\t\t\t// nolint:nilerr"}}},
		variant{Name: "c01-sorted-extract-constant-flag", Props: []string{"C01"}, Expect: []string{"C01.wildflag|(*db.sortedDataReader).FindAnswer|extract-uses-flag"},
			Edits: []edit{{srt, "\t\tif rec, err = ExtractRRFromRow(result, wildcard); err != nil {\n\t\t\t// Not a location match\n\t\t\t// nolint: nilerr", "\t\tif rec, err = ExtractRRFromRow(result, false && wildcard); err != nil {\n\t\t\t// Not a location match\n\t\t\t// nolint: nilerr"}}},
		variant{Name: "c01-sorted-cname-disjunct-removed", Props: []string{"C01"}, Expect: []string{"C01.typefilter|FindAnswer|"},
			Edits: []edit{{srt, "\t\tif rec.Qtype == dns.TypeCNAME || rec.Qtype == qtype || qtype == dns.TypeANY {\n\t\t\t// When dealing with A/AAAA we may have weighted round-robin records\n\t\t\t// Compute the weight and update wrr4/wrr6 with the current winner.\n\t\t\t// When we are done looping, we will add the record to the answer.\n\t\t\tif rec.Qtype == dns.TypeA || rec.Qtype == dns.TypeAAAA {\n\t\t\t\tif err := wrs.Add(rec, result); err != nil {\n\t\t\t\t\tglog.Errorf(\"Failed in adding record to WRS: %v\", err)\n\t\t\t\t}\n\t\t\t\t// For other records, we append them to the answer.\n\t\t\t} else {\n\t\t\t\thdr := dns.RR_Header{Name: qname, Rrtype: rec.Qtype, Class: dns.ClassINET, Ttl: rec.TTL, Rdlength: uint16(len(result[rec.Offset:]))}\n\t\t\t\trr, _, err = dns.UnpackRRWithHeader(hdr, result, rec.Offset)\n\t\t\t\tif err != nil {\n\t\t\t\t\tglog.Errorf(\"Failed to convert from tinydns format %v %d, %d\", err, hdr.Rdlength, len(result[rec.Offset:]))\n\t\t\t\t\treturn err\n\t\t\t\t}\n\t\t\t\ta.Answer = append(a.Answer, rr)\n\t\t\t}\n\t\t}\n\t\treturn nil\n\t}\n\n\tvar lastLength", "\t\tif rec.Qtype == qtype || qtype == dns.TypeANY {\n\t\t\t// When dealing with A/AAAA we may have weighted round-robin records\n\t\t\t// Compute the weight and update wrr4/wrr6 with the current winner.\n\t\t\t// When we are done looping, we will add the record to the answer.\n\t\t\tif rec.Qtype == dns.TypeA || rec.Qtype == dns.TypeAAAA {\n\t\t\t\tif err := wrs.Add(rec, result); err != nil {\n\t\t\t\t\tglog.Errorf(\"Failed in adding record to WRS: %v\", err)\n\t\t\t\t}\n\t\t\t\t// For other records, we append them to the answer.\n\t\t\t} else {\n\t\t\t\thdr := dns.RR_Header{Name: qname, Rrtype: rec.Qtype, Class: dns.ClassINET, Ttl: rec.TTL, Rdlength: uint16(len(result[rec.Offset:]))}\n\t\t\t\trr, _, err = dns.UnpackRRWithHeader(hdr, result, rec.Offset)\n\t\t\t\tif err != nil {\n\t\t\t\t\tglog.Errorf(\"Failed to convert from tinydns format %v %d, %d\", err, hdr.Rdlength, len(result[rec.Offset:]))\n\t\t\t\t\treturn err\n\t\t\t\t}\n\t\t\t\ta.Answer = append(a.Answer, rr)\n\t\t\t}\n\t\t}\n\t\treturn nil\n\t}\n\n\tvar lastLength"}}},
		variant{Name: "benign-v1-findanswer-loop-condition(B5)", Props: []string{"C01"}, Benign: true,
			Edits: []edit{{ans, "\t\tif q[0] == 0 {\n\t\t\tbreak\n\t\t}\n\t\tif !dnsLabelWildsafe(q[1 : q[0]+1]) {\n\t\t\tbreak\n\t\t}\n\t\tq = q[q[0]+1:]", "\t\tif q[0] != 0 && dnsLabelWildsafe(q[1:q[0]+1]) {\n\t\t\tq = q[q[0]+1:]\n\t\t} else {\n\t\t\tbreak\n\t\t}"}}},
		variant{Name: "benign-sorted-zone-border-bytes-variant", Props: []string{"C01"}, Benign: true,
			Edits: []edit{{srt, "\t\tif length < len(packedControlName) {", "\t\tif !(length >= len(packedControlName)) {"}}},
	)
}
