package main

func init() {
	const ans = "db/answer.go"
	const srt = "db/answer_sorted.go"
	addVariants(
		variant{Name: "c01-sorted-wildsafe-last-label-only(seed c01a)", Props: []string{"C01"}, Expect: []string{"C01.wildsafe-span|(*db.sortedDataReader).FindAnswer|wildsafe#1|covers-the-skipped-span"},
			Edits: []edit{{"db/answer_sorted.go", "\t\t// i points to the first character of the label\n\t\t// i-1 is length of the label\n\t\ti := length\n\n\t\tfor i < lastLength {\n\t\t\tlabelLength := int(q[i-1])\n\t\t\tlabel := q[i : i+labelLength]\n\n\t\t\tif !dnsLabelWildsafe(label) {\n\t\t\t\treturn false\n\t\t\t}\n\n\t\t\ti += labelLength + 1\n\t\t}\n\n\t\tlastLength = length\n", "\t\tif length < lastLength {\n\t\t\tlabelStart := getLengthWithoutLastLabel(q, lastLength)\n\n\t\t\tif !dnsLabelWildsafe(q[labelStart : lastLength-1]) {\n\t\t\t\treturn false\n\t\t\t}\n\n\t\t\tlastLength = length\n\t\t}\n"}}},
		variant{Name: "c01-sorted-zone-border-invariant(F3)", Props: []string{"C01"}, Expect: []string{"C01.guards|(*db.sortedDataReader).FindAnswer|pre|guard:zone-border"},
			Edits: []edit{{srt, "\t\tif length < len(packedControlName) {", "\t\tif len(q) < len(packedControlName) {"}}},
		variant{Name: "c01-v1-zone-border-removed", Props: []string{"C01"}, Expect: []string{"C01.guards|(*db.DataReader).FindAnswer|guard:zone-border"},
			Edits: []edit{{ans, "\t\tif bytes.Equal(q, packedControlName) {\n\t\t\tbreak\n\t\t}\n", "\t\tif bytes.Equal(q, q) && len(packedControlName) < 0 {\n\t\t\tbreak\n\t\t}\n"}}},
		variant{Name: "c01-v1-wildsafe-removed", Props: []string{"C01"}, Expect: []string{"C01.guards|(*db.DataReader).FindAnswer|guard:wild-safe"},
			Edits: []edit{{ans, "\t\tif !dnsLabelWildsafe(q[1 : q[0]+1]) {\n\t\t\tbreak\n\t\t}\n", ""}}},
		variant{Name: "c01-v1-wildsafe-flipped", Props: []string{"C01"}, Expect: []string{"C01.guards|(*db.DataReader).FindAnswer|guard:wild-safe"},
			Edits: []edit{{ans, "\t\tif !dnsLabelWildsafe(q[1 : q[0]+1]) {\n\t\t\tbreak\n\t\t}\n", "\t\tif dnsLabelWildsafe(q[1 : q[0]+1]) {\n\t\t\tbreak\n\t\t}\n"}}},
		variant{Name: "c01-v1-found-guard-removed", Props: []string{"C01"}, Expect: []string{"C01.guards|(*db.DataReader).FindAnswer|guard:found"},
			Edits: []edit{{ans, "\t\tif recordFound {\n\t\t\tbreak\n\t\t}\n\t\tif bytes.Equal(q, packedControlName) {", "\t\tif bytes.Equal(q, packedControlName) {"}}},
		variant{Name: "c01-v1-isauth-stops-on-soa-instead-of-ns", Props: []string{"C01"}, Expect: []string{"C01.guards|(*db.DataReader).IsAuthoritative|guard:ns-found"},
			Edits: []edit{{ans, "\t\tif ns {\n\t\t\tbreak\n\t\t}\n\t\tif zoneCut[0] == 0 {", "\t\tif auth {\n\t\t\tbreak\n\t\t}\n\t\tif zoneCut[0] == 0 {"}}},
		variant{Name: "c01-sorted-isauth-post-polarity", Props: []string{"C01"}, Expect: []string{"C01.guards|(*db.sortedDataReader).IsAuthoritative|post|guard:ns-found"},
			Edits: []edit{{srt, "\tpostIterationCheck := func() bool {\n\t\treturn !ns\n\t}", "\tpostIterationCheck := func() bool {\n\t\treturn ns\n\t}"}}},
		variant{Name: "c01-sorted-found-guard-removed", Props: []string{"C01"}, Expect: []string{"C01.guards|(*db.sortedDataReader).FindAnswer|post|guard:found"},
			Edits: []edit{{srt, "\t\tif recordFound {\n\t\t\treturn false\n\t\t}\n\n\t\twildcard = true", "\t\twildcard = true"}}},
		variant{Name: "c01-sorted-wildsafe-removed", Props: []string{"C01"}, Expect: []string{"C01.guards|(*db.sortedDataReader).FindAnswer|pre|guard:wild-safe"},
			Edits: []edit{{srt, "\t\t\tif !dnsLabelWildsafe(label) {\n\t\t\t\treturn false\n\t\t\t}\n", "\t\t\t_ = label\n"}}},
		variant{Name: "c01-find-ignores-pre-callback", Props: []string{"C01"}, Expect: []string{"C01.guards|(*db.sortedDataReader).FindAnswer|callback:pre"},
			Edits: []edit{{srt, "\t\tif !preIterationCheck(reversedQName, qLength) {\n\t\t\tbreak\n\t\t}\n", "\t\tpreIterationCheck(reversedQName, qLength)\n"}}},
		variant{Name: "c01-find-root-guard-removed", Props: []string{"C01"}, Expect: []string{"C01.guards|(*db.sortedDataReader).find|guard:root"},
			Edits: []edit{{srt, "\t\t// reached root zone\n\t\tif qLength == 1 {\n\t\t\tbreak\n\t\t}\n", ""}}},
		variant{Name: "c01-v1-wildcard-flag-never-set", Props: []string{"C01"}, Expect: []string{"C01.wildflag|(*db.DataReader).FindAnswer|flag-set-when-walking-up"},
			Edits: []edit{{ans, "\t\tq = q[q[0]+1:]\n\t\twildcard = true\n", "\t\tq = q[q[0]+1:]\n"}}},
		variant{Name: "c01-v1-wildcard-flag-initially-true", Props: []string{"C01"}, Expect: []string{"C01.wildflag|(*db.DataReader).FindAnswer|flag-false-on-first-lookup"},
			Edits: []edit{{ans, "\t\trecordFound = false\n\t\twildcard    = false\n\t\t// resource record pointer used during record lookups\n\t\trec ResourceRecord\n\t\t// rr will be used to construct temporary ResourceRecords\n\t\trr  dns.RR\n\t\trrs []dns.RR\n\t)\n\n\tparseResult := func(result []byte) error {\n\t\tif errors.Is(err, io.EOF) {\n\t\t\treturn nil\n\t\t}\n\n\t\tif rec, err = ExtractRRFromRow(result, wildcard); err != nil {\n\t\t\t// Not a location match\n\t\t\t// nolint:nilerr", "\t\trecordFound = false\n\t\twildcard    = true\n\t\t// resource record pointer used during record lookups\n\t\trec ResourceRecord\n\t\t// rr will be used to construct temporary ResourceRecords\n\t\trr  dns.RR\n\t\trrs []dns.RR\n\t)\n\n\tparseResult := func(result []byte) error {\n\t\tif errors.Is(err, io.EOF) {\n\t\t\treturn nil\n\t\t}\n\n\t\tif rec, err = ExtractRRFromRow(result, wildcard); err != nil {\n\t\t\t// Not a location match\n\t\t\t// nolint:nilerr"}}},
		variant{Name: "c01-sorted-extract-constant-flag", Props: []string{"C01"}, Expect: []string{"C01.wildflag|(*db.sortedDataReader).FindAnswer|extract-uses-flag"},
			Edits: []edit{{srt, "\t\tif rec, err = ExtractRRFromRow(result, wildcard); err != nil {\n\t\t\t// Not a location match\n\t\t\t// nolint: nilerr", "\t\tif rec, err = ExtractRRFromRow(result, false && wildcard); err != nil {\n\t\t\t// Not a location match\n\t\t\t// nolint: nilerr"}}},
		variant{Name: "c01-sorted-cname-disjunct-removed", Props: []string{"C01"}, Expect: []string{"C01.typefilter|"},
			Edits: []edit{{srt, "\t\tif rec.Qtype == dns.TypeCNAME || rec.Qtype == qtype || qtype == dns.TypeANY {\n\t\t\t// When dealing with A/AAAA we may have weighted round-robin records\n\t\t\t// Compute the weight and update wrr4/wrr6 with the current winner.\n\t\t\t// When we are done looping, we will add the record to the answer.\n\t\t\tif rec.Qtype == dns.TypeA || rec.Qtype == dns.TypeAAAA {\n\t\t\t\tif err := wrs.Add(rec, result); err != nil {\n\t\t\t\t\tglog.Errorf(\"Failed in adding record to WRS: %v\", err)\n\t\t\t\t}\n\t\t\t\t// For other records, we append them to the answer.\n\t\t\t} else {\n\t\t\t\thdr := dns.RR_Header{Name: qname, Rrtype: rec.Qtype, Class: dns.ClassINET, Ttl: rec.TTL, Rdlength: uint16(len(result[rec.Offset:]))}\n\t\t\t\trr, _, err = dns.UnpackRRWithHeader(hdr, result, rec.Offset)\n\t\t\t\tif err != nil {\n\t\t\t\t\tglog.Errorf(\"Failed to convert from tinydns format %v %d, %d\", err, hdr.Rdlength, len(result[rec.Offset:]))\n\t\t\t\t\treturn err\n\t\t\t\t}\n\t\t\t\ta.Answer = append(a.Answer, rr)\n\t\t\t}\n\t\t}\n\t\treturn nil\n\t}\n\n\tvar lastLength", "\t\tif rec.Qtype == qtype || qtype == dns.TypeANY {\n\t\t\t// When dealing with A/AAAA we may have weighted round-robin records\n\t\t\t// Compute the weight and update wrr4/wrr6 with the current winner.\n\t\t\t// When we are done looping, we will add the record to the answer.\n\t\t\tif rec.Qtype == dns.TypeA || rec.Qtype == dns.TypeAAAA {\n\t\t\t\tif err := wrs.Add(rec, result); err != nil {\n\t\t\t\t\tglog.Errorf(\"Failed in adding record to WRS: %v\", err)\n\t\t\t\t}\n\t\t\t\t// For other records, we append them to the answer.\n\t\t\t} else {\n\t\t\t\thdr := dns.RR_Header{Name: qname, Rrtype: rec.Qtype, Class: dns.ClassINET, Ttl: rec.TTL, Rdlength: uint16(len(result[rec.Offset:]))}\n\t\t\t\trr, _, err = dns.UnpackRRWithHeader(hdr, result, rec.Offset)\n\t\t\t\tif err != nil {\n\t\t\t\t\tglog.Errorf(\"Failed to convert from tinydns format %v %d, %d\", err, hdr.Rdlength, len(result[rec.Offset:]))\n\t\t\t\t\treturn err\n\t\t\t\t}\n\t\t\t\ta.Answer = append(a.Answer, rr)\n\t\t\t}\n\t\t}\n\t\treturn nil\n\t}\n\n\tvar lastLength"}}},
		variant{Name: "benign-v1-findanswer-loop-condition(B5)", Props: []string{"C01"}, Benign: true,
			Edits: []edit{{ans, "\t\tif q[0] == 0 {\n\t\t\tbreak\n\t\t}\n\t\tif !dnsLabelWildsafe(q[1 : q[0]+1]) {\n\t\t\tbreak\n\t\t}\n\t\tq = q[q[0]+1:]", "\t\tif q[0] != 0 && dnsLabelWildsafe(q[1:q[0]+1]) {\n\t\t\tq = q[q[0]+1:]\n\t\t} else {\n\t\t\tbreak\n\t\t}"}}},
		variant{Name: "benign-sorted-zone-border-bytes-variant", Props: []string{"C01"}, Benign: true,
			Edits: []edit{{srt, "\t\tif length < len(packedControlName) {", "\t\tif !(length >= len(packedControlName)) {"}}},
	)
}

func init() {
	const ans = "db/answer.go"
	const data = "dnsdata/data.go"
	addVariants(
		variant{Name: "c01-reader-ttd-skip-4", Props: []string{"C01"}, Expect: []string{"C01.rowhead|ExtractRRFromRow|rdata-offset"},
			Edits: []edit{{ans, "\t// the next 8 bytes contains `ttd` TAI timestamp, which we do not use... skip.\n\tdpos += 8\n", "\t// the next 8 bytes contains `ttd` TAI timestamp, which we do not use... skip.\n\tdpos += 4\n"}}},
		variant{Name: "c01-reader-wildcard-set-misses-located", Props: []string{"C01"}, Expect: []string{"C01.rowhead|markers|wildcard-set"},
			Edits: []edit{{ans, "\tif wildcard != (ch == '*' || ch == '*'+1) {", "\tif wildcard != (ch == '*') {"}}},
		variant{Name: "c01-reader-skip-set-misses-located-exact", Props: []string{"C01"}, Expect: []string{"C01.rowhead|markers|located-set"},
			Edits: []edit{{ans, "\tif (ch == '='+1) || (ch == '*'+1) {", "\tif ch == '*'+1 {"}}},
		variant{Name: "c01-writer-located-marker-changed", Props: []string{"C01"}, Expect: []string{"C01.rowhead|markers|located-set"},
			Edits: []edit{{data, "\t\t\t_, err = w.Write([]byte(\">\"))", "\t\t\t_, err = w.Write([]byte(\"<\"))"}}},
		variant{Name: "c01-writer-ttl-16bit", Props: []string{"C01"}, Expect: []string{"C01.rowhead|putrrhead|header-width"},
			Edits: []edit{{data, "\terr = binary.Write(w, binary.BigEndian, ttl)\n", "\terr = binary.Write(w, binary.BigEndian, uint16(ttl))\n"}}},
		variant{Name: "c01-reader-little-endian-ttl", Props: []string{"C01"}, Expect: []string{"C01.rowhead|byte-order|big-endian-both-sides"},
			Edits: []edit{{ans, "\trr.TTL = binary.BigEndian.Uint32(row[dpos : dpos+4])", "\trr.TTL = binary.LittleEndian.Uint32(row[dpos : dpos+4])"}}},
		variant{Name: "c01-reader-weight-for-A-only", Props: []string{"C01"}, Expect: []string{"C01.rowhead|ExtractRRFromRow|weight-only-for-A-AAAA"},
			Edits: []edit{{ans, "\tif rr.Qtype == dns.TypeAAAA || rr.Qtype == dns.TypeA {", "\tif rr.Qtype == dns.TypeA {"}}},
		variant{Name: "c01-v2-key-location-before-name", Props: []string{"C01"}, Expect: []string{"C01.keylayout|makedomainkey|v2-order"},
			Edits: []edit{{data, "\t\tk.WriteString(ResourceRecordsKeyMarker)\n\t\tputreverseddom(k, domain)\n\t\tputloc(k, lo)\n", "\t\tk.WriteString(ResourceRecordsKeyMarker)\n\t\tputloc(k, lo)\n\t\tputreverseddom(k, domain)\n"}}},
		variant{Name: "c01-v1-reader-name-before-location", Props: []string{"C01"}, Expect: []string{"C01.keylayout|(*db.DataReader).IsAuthoritative|key=location"},
			Edits: []edit{{ans, "\t\t\tlocalQ := append(loc.LocID[:], zoneCut...)\n", "\t\t\tlocalQ := append(append([]byte{}, zoneCut...), loc.LocID[:]...)\n"}}},
		variant{Name: "benign-sorted-reader-private-marker-same-value", Props: []string{"C01"}, Benign: true,
			Edits: []edit{{"db/answer_sorted.go", "\tkey := make([]byte, len(q)+len(loc.LocID)+len(dnsdata.ResourceRecordsKeyMarker))\n\tcopy(key, []byte(dnsdata.ResourceRecordsKeyMarker))\n\n\t// assumption is that both provided location AND empty location have same length\n\tlocationLength := len(loc.LocID)\n\tdomainNameStart := len(dnsdata.ResourceRecordsKeyMarker)\n", "\tconst rrMarker = \"\\000o\"\n\tkey := make([]byte, len(q)+len(loc.LocID)+len(rrMarker))\n\tcopy(key, []byte(rrMarker))\n\n\t// assumption is that both provided location AND empty location have same length\n\tlocationLength := len(loc.LocID)\n\tdomainNameStart := len(rrMarker)\n"},
				{"db/answer_sorted.go", "\t\tif len(k) < len(dnsdata.ResourceRecordsKeyMarker) ||\n\t\t\t!bytes.Equal(k[:len(dnsdata.ResourceRecordsKeyMarker)], []byte(dnsdata.ResourceRecordsKeyMarker)) {", "\t\tif len(k) < len(rrMarker) ||\n\t\t\t!bytes.Equal(k[:len(rrMarker)], []byte(rrMarker)) {"},
				{"db/answer_sorted.go", "func reverseZoneName(qName []byte) []byte {", "var _ = dnsdata.FeaturesKey\n\nfunc reverseZoneName(qName []byte) []byte {"}}},
		variant{Name: "c01-ns-default-ttl-long", Props: []string{"C01"}, Expect: []string{"C01.ttl|Rns1|default-ttl=LinkTTL"},
			Edits: []edit{{data, "func (r *Rns1) loadDefaults() {\n\tr.ttl = LinkTTL", "func (r *Rns1) loadDefaults() {\n\tr.ttl = LongTTL"}}},
		variant{Name: "c01-short-ttl-value", Props: []string{"C01"}, Expect: []string{"C01.ttl|const|ShortTTL"},
			Edits: []edit{{data, "\tShortTTL = 2560 ", "\tShortTTL = 3600 "}}},
		variant{Name: "c01-sorted-reader-other-marker-value", Props: []string{"C01"}, Expect: []string{"C01.keylayout|(*db.sortedDataReader).ForEachResourceRecord|key=marker"},
			Edits: []edit{{"db/db.go", "\tcopy(key, []byte(dnsdata.ResourceRecordsKeyMarker))\n\n\treverseZoneNameToBuffer", "\tcopy(key, []byte(\"\\000p\"))\n\n\treverseZoneNameToBuffer"}}},
		variant{Name: "benign-extract-named-offsets(B4)", Props: []string{"C01"}, Benign: true,
			Edits: []edit{{ans, "\t// the next 8 bytes contains `ttd` TAI timestamp, which we do not use... skip.\n\tdpos += 8\n", "\t// the next 8 bytes contains `ttd` TAI timestamp, which we do not use... skip.\n\tconst ttdLen = 8\n\tdpos += ttdLen\n"}}},
	)
}

func init() {
	const hgo = "dnsserver/handler.go"
	addVariants(
		variant{Name: "c01-refused-when-either-missing", Props: []string{"C01"}, Expect: []string{"C01.decision-table|(*dnsserver.FBDNSDB).ServeDNSWithRCODE|REFUSED-reply"},
			Edits: []edit{{hgo, "\tif !ns && !auth {\n\t\th.stats.IncrementCounter(\"DNS_response.refused\")", "\tif !ns || !auth {\n\t\th.stats.IncrementCounter(\"DNS_response.refused\")"}}},
		variant{Name: "c01-nxdomain-ignores-recordfound", Props: []string{"C01"}, Expect: []string{"C01.decision-table|(*dnsserver.FBDNSDB).ServeDNSWithRCODE|NXDOMAIN"},
			Edits: []edit{{hgo, "\t\tif len(a.Answer) == 0 && !recordFound {", "\t\tif len(a.Answer) == 0 && (recordFound || !recordFound) {"}}},
		variant{Name: "c01-soa-for-delegations", Props: []string{"C01"}, Expect: []string{"C01.decision-table|(*dnsserver.FBDNSDB).ServeDNSWithRCODE|FindSOA"},
			Edits: []edit{{hgo, "\tif auth && len(a.Answer) == 0 {\n\t\tdb.FindSOA(", "\tif len(a.Answer) == 0 {\n\t\tdb.FindSOA("}}},
		variant{Name: "c01-ns-added-even-if-present", Props: []string{"C01"}, Expect: []string{"C01.decision-table|(*dnsserver.FBDNSDB).ServeDNSWithRCODE|GetNs"},
			Edits: []edit{{hgo, "\t} else if !auth && !db.HasRecord(a, unpackedControlDomain, dns.TypeNS) {", "\t} else if !auth || !db.HasRecord(a, unpackedControlDomain, dns.TypeNS) {"}}},
		variant{Name: "c01-ds-reevaluation-for-all-types", Props: []string{"C01"}, Expect: []string{"C01.decision-table|"},
			Edits: []edit{{hgo, "\tif !auth && state.QType() == dns.TypeDS && packedQName[0] != 0 {", "\tif !auth && packedQName[0] != 0 {"}}},
		variant{Name: "c01-additional-section-skipped-for-referrals", Props: []string{"C01"}, Expect: []string{"C01.decision-table|(*dnsserver.FBDNSDB).ServeDNSWithRCODE|additional-section-on-every-path-to-final-write"},
			Edits: []edit{{hgo, "\tweighted = db.AdditionalSectionForRecords(reader, a, loc, state.QClass(), a.Ns) || weighted\n", "\tif auth {\n\t\tweighted = db.AdditionalSectionForRecords(reader, a, loc, state.QClass(), a.Ns) || weighted\n\t}\n"}}},
		variant{Name: "c01-aa-not-cleared-for-delegation", Props: []string{"C01"}, Expect: []string{"C01.decision-table|(*dnsserver.FBDNSDB).ServeDNSWithRCODE|AA-cleared"},
			Edits: []edit{{hgo, "\t\t// q is in child zone\n\t\ta.Authoritative = false\n", "\t\t// q is in child zone\n\t\ta.Authoritative = ns && auth\n"}}},
		variant{Name: "benign-decision-early-continue-form", Props: []string{"C01", "C19"}, Benign: true,
			Edits: []edit{{hgo, "\tif auth && len(a.Answer) == 0 {\n\t\tdb.FindSOA(reader, zoneCut, unpackedControlDomain, loc, a)\n\t} else if !auth && !db.HasRecord(a, unpackedControlDomain, dns.TypeNS) {", "\tswitch {\n\tcase auth && len(a.Answer) == 0:\n\t\tdb.FindSOA(reader, zoneCut, unpackedControlDomain, loc, a)\n\tcase !auth && !db.HasRecord(a, unpackedControlDomain, dns.TypeNS):"}}},
	)
}
