package main

func init() {
	const mt = "dnsdata/data_marshaltext.go"
	const data = "dnsdata/data.go"
	addVariants(
		variant{Name: "c09-svcb-wildcard-not-printed(F6)", Props: []string{"C09"}, Expect: []string{"C09.fieldtable|Rsvcb|f[0]→iswildcard"},
			Edits: []edit{{mt, "\t\treturn nil, fmt.Errorf(\"unknown wiretype for SVCB record\")\n\t}\n\tif r.iswildcard {\n\t\tbuf.WriteString(\"*.\")\n\t}\n", "\t\treturn nil, fmt.Errorf(\"unknown wiretype for SVCB record\")\n\t}\n"}}},
		variant{Name: "c09-raddr-weight-before-location", Props: []string{"C09"}, Expect: []string{"C09.fieldtable|Raddr|f[4]→lo", "C09.fieldtable|Raddr|f[5]→weight"},
			Edits: []edit{{mt, "\t// skip one unused field\n\tw.Write(NSEP)\n\tputloctext(w, r.lo)\n\tw.Write(NSEP)\n\tfmt.Fprintf(w, \"%d\", r.weight)\n\treturn w.Bytes(), nil", "\t// skip one unused field\n\tw.Write(NSEP)\n\tfmt.Fprintf(w, \"%d\", r.weight)\n\tw.Write(NSEP)\n\tputloctext(w, r.lo)\n\treturn w.Bytes(), nil"}}},
		variant{Name: "c09-cname-wildcard-arm-removed", Props: []string{"C09"}, Expect: []string{"C09.fieldtable|Rcname|f[0]→iswildcard"},
			Edits: []edit{{mt, "\tw.WriteString(string(prefixCName))\n\tif r.iswildcard {\n\t\tw.WriteString(\"*.\")\n\t}\n", "\tw.WriteString(string(prefixCName))\n"}}},
		variant{Name: "c09-soa-serial-not-printed", Props: []string{"C09"}, Expect: []string{"C09.fieldtable|Rsoa|f[3]→ser"},
			Edits: []edit{{mt, "\tif r.ser != 0 {\n\t\tfmt.Fprintf(w, \"%d\", r.ser)\n\t}\n", ""}}},
		variant{Name: "c09-mx-dist-and-ttl-swapped", Props: []string{"C09"}, Expect: []string{"C09.fieldtable|Rmx1|f[3]→dist"},
			Edits: []edit{{mt, "\tputdomtext(w, r.mx)\n\tw.Write(NSEP)\n\tfmt.Fprintf(w, \"%d\", r.dist)\n\tw.Write(NSEP)\n\tfmt.Fprintf(w, \"%d\", r.ttl)\n\tw.Write(NSEP)\n\t// skip one unused field", "\tputdomtext(w, r.mx)\n\tw.Write(NSEP)\n\tfmt.Fprintf(w, \"%d\", r.ttl)\n\tw.Write(NSEP)\n\tfmt.Fprintf(w, \"%d\", r.dist)\n\tw.Write(NSEP)\n\t// skip one unused field"}}},
		variant{Name: "c09-parse-ttl-from-wrong-field", Props: []string{"C09"}, Expect: []string{"C09.fieldtable|Rcname|f[3]→ttl"},
			Edits: []edit{{data, "\tr.cname, _ = quote.Bunquote(f[1]) // BUG: handle error\n\tgetuint32(f[2], &r.ttl)", "\tr.cname, _ = quote.Bunquote(f[1]) // BUG: handle error\n\tgetuint32(f[3], &r.ttl)"}}},
		variant{Name: "c09-new-prefix-without-case", Props: []string{"C09"}, Expect: []string{"C09.prefix|prefixAUX|has-constructor-case"},
			Edits: []edit{{data, "\tcase prefixAUX:\n\t\treturn &Raux{c: c}, nil\n", ""}}},
		variant{Name: "c09-ptr-prints-wrong-prefix", Props: []string{"C09"}, Expect: []string{"C09.prefix|prefixPTR|Rptr.MarshalText-writes-it"},
			Edits: []edit{{mt, "\tw.WriteString(string(prefixPTR))", "\tw.WriteString(string(prefixPAddr))"}}},
		variant{Name: "c09-preproc-drops-soa", Props: []string{"C09"}, Expect: []string{"C09.preproc|(*dnsdata.PreprocReader).Scan|line-dropped-only-as-ignored-or-accounted-subnet"},
			Edits: []edit{{"dnsdata/preproc.go", "\t\t\tp.currentLine = string(normalized)\n\t\t\t// don't write original line\n\t\t\treturn true", "\t\t\tif len(normalized) == 0 {\n\t\t\t\tcontinue\n\t\t\t}\n\t\t\tp.currentLine = string(normalized)\n\t\t\t// don't write original line\n\t\t\treturn true"}}},
		variant{Name: "c09-preproc-trims-lines(seed-c09b)", Props: []string{"C09"}, Expect: []string{"C09.preproc|(*dnsdata.PreprocReader).Scan|emits-line-unchanged-or-normal-form"},
			Edits: []edit{{"dnsdata/preproc.go", "\t\tline := p.scanner.Bytes()\n\t\tif isIgnored(line) {", "\t\tline := bytes.TrimSpace(p.scanner.Bytes())\n\t\tif isIgnored(line) {"}}},
		variant{Name: "c09-preproc-subnet-dropped-before-accounting", Props: []string{"C09"}, Expect: []string{"C09.preproc|(*dnsdata.PreprocReader).Scan|line-dropped-only-as-ignored-or-accounted-subnet"},
			Edits: []edit{{"dnsdata/preproc.go", "\t\tcase prefixNet:\n", "\t\tcase prefixNet:\n\t\t\tif p.codec.NoRnetOutput && len(line) > 512 {\n\t\t\t\tcontinue\n\t\t\t}\n"}}},
		variant{Name: "c09-rangepoint-offset-condition-differs", Props: []string{"C09"}, Expect: []string{"C09.rangepoint|Rrangepoint|offset-conditions-agree"},
			Edits: []edit{{data, "\tif !r.pt.location.locIDIsNull && ip.To4() != nil {\n\t\tr.pt.location.maskLen += (net.IPv6len - net.IPv4len) * 8", "\tif ip.To4() != nil {\n\t\tr.pt.location.maskLen += (net.IPv6len - net.IPv4len) * 8"}}},
		variant{Name: "benign-marshaltext-sep-helper(B6)", Props: []string{"C09"}, Benign: true,
			Edits: []edit{{mt, "\tputdomtext(w, r.cname)\n\tw.Write(NSEP)\n\tfmt.Fprintf(w, \"%d\", r.ttl)\n\tw.Write(NSEP)\n\t// skip one unused field\n\tw.Write(NSEP)\n\tputloctext(w, r.lo)", "\tputdomtext(w, r.cname)\n\tw.Write(NSEP)\n\tfmt.Fprint(w, r.ttl)\n\tw.Write(NSEP)\n\t// skip one unused field\n\tw.Write(NSEP)\n\tputloctext(w, r.lo)"}}},
	)
}
