package main

import (
	"fmt"
	"go/types"
	"sort"
	"strings"

	"golang.org/x/tools/go/ssa"
)

func init() {
	register(&propDef{
		ID:          "C05",
		Title:       "A reload switches generations atomically and visibly",
		Run:         runC05,
		Explanation: "Structural necessary conditions of atomic, visible generation switches, decided on SSA + call graph: (lockset) the served generation and its path are only touched under reloadMu; (order) in FBDNSDB.Reload the swap, the path update and the cache purge happen only on the success edge of (*db.DB).Reload, inside the write-locked region, swap before purge, and no path from the swap to a return skips the path update or (cache enabled) the purge; (partial) the path of a partial reload is read inside the same critical section; (pin) a query acquires exactly one reader and nothing else on the query path reads the served generation, and DB.dbi is write-once; (validate) (*db.DB).Reload returns a new *DB only after its validation succeeded; (old-survives) a failed same-backend reload cannot close the served backend; (driver-path) a driver handed out by a backend's Reload(path) remembers exactly that path, and the served driver is returned only when the requested path equals its own. No schedule is executed: these rules show that the only places where the generation changes or is observed are ordered by one RW lock.",
	})
}

// fbdnsdbReload finds the method of dnsserver.FBDNSDB that calls (*db.DB).Reload (by callee, not by name).
func findCallersOf(c *Ctx, pkg string, recv *types.Named, callee *types.Func) []*ssa.Function {
	var out []*ssa.Function
	for _, fn := range c.OurFuncs(pkg) {
		if fn.Signature.Recv() == nil {
			continue
		}
		rt := fn.Signature.Recv().Type()
		if p, ok := rt.(*types.Pointer); ok {
			rt = p.Elem()
		}
		if !types.Identical(rt, recv) {
			continue
		}
		if len(callsTo(fn, func(f *types.Func) bool { return f == callee })) > 0 {
			out = append(out, fn)
		}
	}
	return out
}

func runC05(c *Ctx) {
	c.locksetRows("C05.lockset", func(r lockRow) bool { return r.Pkg == "dnsserver" })
	c.Floor("C05.lockset", 8)
	c05Order(c, "C05")
	c05Pin(c)
	c05Validate(c)
	c06AliasGuard(c, "C05.old-survives")
	c05DriverPath(c)
	c05IterPool(c)
	c05FreshContext(c)
	// a reader pins ONE *DB per generation: a reload that hands out a second *DB object over the backend that is still
	// served (seed c05r4i) splits the reference count, and the next switch closes the backend under in-flight queries
	c06RejectClosesAs(c, "C05.one-db-per-backend")
}

// c05Order implements C05.order and C05.partial; reused by C12.purge.
func c05Order(c *Ctx, prop string) {
	rule := prop + ".order"
	c.Rule(rule, "A2 dominance in FBDNSDB.Reload: stores to dnsdb / dbConfig.Path and the lru Purge are dominated by the nil edge of the (*db.DB).Reload error, happen with reloadMu write-held, swap precedes purge, and every path from the swap to a return passes the path store and (unless the cache is disabled) the purge")
	dbReload := c.TypesFunc("db", "(*DB).Reload")
	fbdnsdb := c.Named("dnsserver", "FBDNSDB")
	fns := findCallersOf(c, "dnsserver", fbdnsdb, dbReload)
	if len(fns) != 1 {
		c.Undecided(rule, "reload-entry", 0, fmt.Sprintf("expected exactly one FBDNSDB method calling (*db.DB).Reload, found %d", len(fns)))
		return
	}
	fn := fns[0]
	c.Examined(fn)
	name := fnName(fn)
	calls := callsTo(fn, func(f *types.Func) bool { return f == dbReload })
	if len(calls) != 1 {
		c.Undecided(rule, name+"|reload-call", fn.Pos(), "expected one call of (*db.DB).Reload")
		return
	}
	rcall := calls[0].(*ssa.Call)
	isReloadErr := func(src ssa.Value) bool {
		call, idx := callOfValue(src)
		return call == rcall && idx == 1
	}
	fDnsdb := c.tabledFieldByName("dnsserver", "FBDNSDB", "dnsdb")
	fPath := c.Field("dnsserver", "DBConfig", "Path")
	fCfg := c.Field("dnsserver", "FBDNSDB", "dbConfig")
	ls := computeLockset(fn)

	swaps := storesToField(fn, fDnsdb)
	var pathStores []*ssa.Store
	for _, st := range storesToField(fn, fPath) {
		if fa, ok := st.Addr.(*ssa.FieldAddr); ok {
			if outer, ok := fa.X.(*ssa.FieldAddr); ok && fieldOf(outer) == fCfg {
				pathStores = append(pathStores, st)
			}
		}
	}
	isPurge := func(f *types.Func) bool {
		return f.Name() == "Purge" && f.Pkg() != nil && f.Pkg().Path() == "github.com/hashicorp/golang-lru"
	}
	purges := callsTo(fn, isPurge)

	lockPath := func(in ssa.Instruction, base ssa.Value) bool {
		p := pathOf(base)
		return p != "" && ls.At(in)[p+c.reloadMu()] == modeW
	}

	if len(swaps) == 0 {
		c.Undecided(rule, name+"|swap", fn.Pos(), "no store to FBDNSDB.dnsdb found in the reload entry point")
	}
	for i, st := range swaps {
		k := fmt.Sprintf("%s|swap#%d", name, i)
		c.Check(rule, k+"|on-success-only", dominatedByNilEdge(st, isReloadErr), st.Pos(), "store to dnsdb must be dominated by the err==nil edge of (*db.DB).Reload: a failed reload mutates nothing")
		c.Check(rule, k+"|locked", lockPath(st, st.Addr.(*ssa.FieldAddr).X), st.Pos(), "store to dnsdb with reloadMu write-held")
		// the stored value is the new *DB returned by that call
		okv := false
		for s := range sourcesOf(st.Val) {
			if call, idx := callOfValue(s); call == rcall && idx == 0 {
				okv = true
			} else {
				okv = false
				break
			}
		}
		c.Check(rule, k+"|value", okv, st.Pos(), "the value installed is the *DB returned by (*db.DB).Reload")
	}
	// helpers: a call in the entry point to a module function that (transitively) stores dbConfig.Path is a path-store site too
	isCfgPathStore := func(st *ssa.Store) bool {
		fa, ok := st.Addr.(*ssa.FieldAddr)
		if !ok {
			return false
		}
		outer, ok := fa.X.(*ssa.FieldAddr)
		return ok && fieldOf(outer) == fCfg
	}
	var storesPath func(g *ssa.Function, depth int, seen map[*ssa.Function]bool) []*ssa.Store
	storesPath = func(g *ssa.Function, depth int, seen map[*ssa.Function]bool) []*ssa.Store {
		if g == nil || seen[g] || depth > 3 || len(g.Blocks) == 0 || !c.isOurs(g.Pkg.Pkg) {
			return nil
		}
		seen[g] = true
		var out []*ssa.Store
		for _, st := range storesToField(g, fPath) {
			if isCfgPathStore(st) {
				out = append(out, st)
			}
		}
		for _, ci := range callInstrs(g) {
			if _, isGo := ci.(*ssa.Go); isGo {
				continue
			}
			out = append(out, storesPath(ci.Common().StaticCallee(), depth+1, seen)...)
		}
		return out
	}
	type helperStore struct {
		call   ssa.CallInstruction
		stores []*ssa.Store
	}
	var helperStores []helperStore
	for _, ci := range callInstrs(fn) {
		if _, isGo := ci.(*ssa.Go); isGo {
			continue
		}
		g := ci.Common().StaticCallee()
		if g == nil || g == fn {
			continue
		}
		if sts := storesPath(g, 1, map[*ssa.Function]bool{}); len(sts) > 0 {
			helperStores = append(helperStores, helperStore{ci, sts})
			c.Examined(g)
		}
	}
	// success→swap: once (*db.DB).Reload has succeeded the old generation is already destroyed and the new one is only
	// referenced by the local result; every path from the success edge to a return must install it
	if len(swaps) > 0 {
		edges := nilEdgesOf(fn, isReloadErr)
		blocked := map[*ssa.BasicBlock]bool{}
		for _, st := range swaps {
			blocked[st.Block()] = true
		}
		okSw := len(edges) > 0
		for _, e := range edges {
			succ := e.If.Block().Succs[e.Succ]
			if blocked[succ] {
				continue
			}
			for b := range reachAvoiding(succ, blocked, nil) {
				if len(b.Succs) == 0 {
					okSw = false
				}
			}
		}
		c.Check(rule, name+"|success→swap", okSw, swaps[0].Pos(), "every path from the success edge of (*db.DB).Reload to a return installs the new generation (the old one is already destroyed; skipping the swap leaks the new backend and leaves a destroyed one served)")
	}
	if len(pathStores) == 0 && len(helperStores) == 0 {
		c.Undecided(rule, name+"|path-store", fn.Pos(), "no store to dbConfig.Path found in the reload entry point or the helpers it calls")
	}
	for _, hs := range helperStores {
		k := fmt.Sprintf("%s|path-store-via:%s", name, fnName(hs.call.Common().StaticCallee()))
		c.Check(rule, k+"|on-success-only", dominatedByNilEdge(hs.call, isReloadErr), hs.call.Pos(), "a helper that stores dbConfig.Path may only be called on the err==nil edge of (*db.DB).Reload: a failed reload must leave the path partial reloads follow untouched")
		locked := len(hs.call.Common().Args) > 0 && lockPath(hs.call, hs.call.Common().Args[0])
		c.Check(rule, k+"|locked", locked, hs.call.Pos(), "helper storing dbConfig.Path called with reloadMu write-held")
		// the value stored is a parameter of the helper whose argument is the path handed to (*db.DB).Reload
		same := len(rcall.Call.Args) >= 2
		if same {
			want := sourcesOf(rcall.Call.Args[1])
			g := hs.call.Common().StaticCallee()
			for _, st := range hs.stores {
				if st.Parent() != g {
					same = false
					break
				}
				for v := range sourcesOf(st.Val) {
					pi := -1
					for i, p := range g.Params {
						if v == ssa.Value(p) {
							pi = i
						}
					}
					if pi < 0 || pi >= len(hs.call.Common().Args) {
						same = false
						continue
					}
					got := sourcesOf(hs.call.Common().Args[pi])
					if len(got) != len(want) {
						same = false
					}
					for w := range want {
						if !got[w] {
							same = false
						}
					}
				}
			}
		}
		c.Check(rule, k+"|same-path", same, hs.call.Pos(), "the path the helper records is the path that was handed to (*db.DB).Reload")
	}
	for i, st := range pathStores {
		k := fmt.Sprintf("%s|path-store#%d", name, i)
		c.Check(rule, k+"|on-success-only", dominatedByNilEdge(st, isReloadErr), st.Pos(), "store to dbConfig.Path must be dominated by the err==nil edge of (*db.DB).Reload")
		c.Check(rule, k+"|locked", lockPath(st, st.Addr.(*ssa.FieldAddr).X.(*ssa.FieldAddr).X), st.Pos(), "store to dbConfig.Path with reloadMu write-held")
		// the stored path is the one that was given to (*db.DB).Reload
		same := false
		if len(rcall.Call.Args) >= 2 {
			a := sourcesOf(rcall.Call.Args[1])
			b := sourcesOf(st.Val)
			same = len(a) == len(b)
			for v := range a {
				if !b[v] {
					same = false
				}
			}
		}
		c.Check(rule, k+"|same-path", same, st.Pos(), "the path recorded is the path that was handed to (*db.DB).Reload")
	}
	if len(purges) == 0 {
		c.Check(rule, name+"|purge", false, fn.Pos(), "no lru Purge in the reload entry point: cached answers of the old generation survive the switch")
	}
	for i, pc := range purges {
		k := fmt.Sprintf("%s|purge#%d", name, i)
		c.Check(rule, k+"|on-success-only", dominatedByNilEdge(pc, isReloadErr), pc.Pos(), "Purge must be dominated by the err==nil edge")
		held := false
		for p, m := range ls.At(pc) {
			if m == modeW && strings.HasSuffix(p, c.reloadMu()) {
				held = true
			}
		}
		c.Check(rule, k+"|locked", held, pc.Pos(), "Purge with reloadMu write-held (no query can insert between swap and purge)")
		after := len(swaps) > 0
		for _, st := range swaps {
			if !instrDominates(st, pc) {
				after = false
			}
		}
		c.Check(rule, k+"|after-swap", after, pc.Pos(), "swap precedes purge on every path")
	}
	// must-pass-through from the swap to every return
	if len(swaps) > 0 && len(pathStores)+len(helperStores) > 0 {
		blocked := map[*ssa.BasicBlock]bool{}
		var sites []ssa.Instruction
		for _, st := range pathStores {
			sites = append(sites, st)
		}
		for _, hs := range helperStores {
			sites = append(sites, hs.call)
		}
		for _, st := range sites {
			if st.Block() != swaps[0].Block() || instrIndex(st) > instrIndex(swaps[0]) {
				blocked[st.Block()] = true
			}
		}
		ok := true
		before := false
		for _, st := range sites {
			if instrDominates(st, swaps[0]) {
				before = true // already recorded when the swap happens (same critical section)
			}
		}
		if !blocked[swaps[0].Block()] && !before {
			for b := range reachAvoiding(swaps[0].Block(), blocked, nil) {
				if len(b.Succs) == 0 {
					ok = false
				}
			}
		}
		c.Check(rule, name+"|swap→path-store", ok, swaps[0].Pos(), "every path from the swap to a return passes the dbConfig.Path store (a later partial reload follows the database last switched to)")
	}
	if len(swaps) > 0 && len(purges) > 0 {
		fEnabled := c.Field("dnsserver", "CacheConfig", "Enabled")
		fLru := c.Field("dnsserver", "FBDNSDB", "lru")
		blocked := map[*ssa.BasicBlock]bool{}
		for _, pc := range purges {
			blocked[pc.Block()] = true
		}
		// edges that mean "cache disabled": false edge of a load of cacheConfig.Enabled, nil edge of an lru test
		be := map[[2]int]bool{}
		for _, b := range fn.Blocks {
			if len(b.Instrs) == 0 {
				continue
			}
			iff, ok := b.Instrs[len(b.Instrs)-1].(*ssa.If)
			if !ok {
				continue
			}
			cond, neg := stripNot(iff.Cond)
			if isFieldLoad(cond, fEnabled) {
				if neg {
					be[[2]int{b.Index, 0}] = true
				} else {
					be[[2]int{b.Index, 1}] = true
				}
				continue
			}
			if x, trueNil, ok := nilTest(iff.Cond); ok && isFieldLoad(x, fLru) {
				if trueNil {
					be[[2]int{b.Index, 0}] = true
				} else {
					be[[2]int{b.Index, 1}] = true
				}
			}
		}
		ok := true
		sw := swaps[0]
		if !(blocked[sw.Block()]) {
			for b := range reachAvoiding(sw.Block(), blocked, be) {
				if len(b.Succs) == 0 {
					ok = false
				}
			}
		}
		c.Check(rule, name+"|swap→purge", ok, sw.Pos(), "every path from the swap to a return passes the Purge, except through a 'cache disabled' edge")
	}

	// C05.partial
	prule := prop + ".partial"
	c.Rule(prule, "every value that can reach the path argument of (*db.DB).Reload is a constant, a field of the reload signal, or a direct load of dbConfig.Path made inside the write-locked region of the same function")
	if len(rcall.Call.Args) >= 2 {
		var keys []string
		res := map[string][2]interface{}{}
		record := func(k string, ok bool, why string) {
			if prev, dup := res[k]; dup {
				ok = ok && prev[0].(bool)
			} else {
				keys = append(keys, k)
			}
			res[k] = [2]interface{}{ok, why}
		}
		// classify the sources of v, a value of function g. site/args: the call in the entry point through which g
		// was entered (nil for the entry point itself); a helper is entered with the locks held at that call.
		var classify func(v ssa.Value, g *ssa.Function, site ssa.CallInstruction, prefix string, depth int)
		classify = func(v ssa.Value, g *ssa.Function, site ssa.CallInstruction, prefix string, depth int) {
			for s := range sourcesOf(v) {
				if s == nil {
					record(prefix+"zero-value", true, "unassigned string")
					continue
				}
				switch x := unwrap(s).(type) {
				case *ssa.Const:
					record(prefix+"const", true, "constant")
					continue
				case *ssa.Parameter:
					if site == nil {
						record(prefix+"param:"+x.Name(), true, "parameter of the reload entry point (the reload signal)")
						continue
					}
					pi := -1
					for i, p := range g.Params {
						if p == x {
							pi = i
						}
					}
					if pi >= 0 && pi < len(site.Common().Args) {
						classify(site.Common().Args[pi], fn, nil, prefix, depth)
						continue
					}
				case *ssa.UnOp:
					if fa, isfa := x.X.(*ssa.FieldAddr); isfa && fieldOf(fa) == fPath {
						base := fa.X
						if o, isO := fa.X.(*ssa.FieldAddr); isO {
							base = o.X
						}
						ok := false
						if site == nil {
							ok = lockPath(x, base)
						} else {
							// inside a helper: the base must be a parameter bound to the locked object at the call
							for i, p := range g.Params {
								if base == ssa.Value(p) && i < len(site.Common().Args) {
									ok = lockPath(site, site.Common().Args[i])
								}
							}
						}
						record(prefix+"load:dbConfig.Path", ok, "load of dbConfig.Path; reloadMu write-held at the load: "+fmt.Sprint(ok))
						continue
					} else if isfa {
						record(prefix+"field:"+fieldName(fa.X.Type(), fa.Field), pathRootIsParam(fa, g), "field of a parameter (the reload signal)")
						continue
					}
				case *ssa.Field:
					record(prefix+"field:"+fieldName(x.X.Type(), x.Field), true, "field of the reload signal value")
					continue
				}
				if call, idx := callOfValue(s); call != nil && site == nil && depth < 1 {
					if callee := call.Common().StaticCallee(); callee != nil && c.isOurs(callee.Pkg.Pkg) && len(callee.Blocks) > 0 {
						c.Examined(callee)
						for _, ret := range returnsOf(callee) {
							if idx < len(ret.Results) {
								classify(ret.Results[idx], callee, call, prefix+"via:"+fnName(callee)+"|", depth+1)
							}
						}
						continue
					}
				}
				record(prefix+fmt.Sprintf("other:%T", s), false, "path obtained outside the critical section (call result or unknown source): "+s.String())
			}
		}
		classify(rcall.Call.Args[1], fn, nil, "", 0)
		sort.Strings(keys)
		for _, k := range keys {
			c.Check(prule, name+"|path-source|"+k, res[k][0].(bool), rcall.Pos(), res[k][1].(string))
		}
	}
	c.Floor(rule, 10)
	c.Floor(prule, 2)
}

func pathRootIsParam(v ssa.Value, fn *ssa.Function) bool {
	p := pathOf(v)
	if p == "" {
		return false
	}
	root, _ := splitRoot(p)
	return paramIndex(fn, root) >= 0
}

// c05Pin: one reader per query, nothing else on the query path reads the generation pointer, DB.dbi write-once.
func c05Pin(c *Ctx) {
	rule := "C05.pin"
	c.Rule(rule, "A8+A3: the query entry point calls AcquireReader exactly once, outside any loop; no function reachable from it (VTA call graph, module functions) accesses FBDNSDB.dnsdb except AcquireReader; db.DB.dbi is only ever stored into freshly allocated DB values (write-once)")
	serve := c.Func("dnsserver", "(*FBDNSDB).ServeDNSWithRCODE")
	acquirers := readerAcquirers(c)
	c.Examined(serve)
	calls := callsTo(serve, func(f *types.Func) bool { return acquirers[f] })
	c.Check(rule, fnName(serve)+"|acquire-once", len(calls) == 1, serve.Pos(), fmt.Sprintf("%d calls of AcquireReader in the query entry point (exactly one pins one generation per query)", len(calls)))
	for _, cl := range calls {
		c.Check(rule, fnName(serve)+"|acquire-not-in-loop", !inCycle(cl.Block()), cl.Pos(), "AcquireReader is not inside a loop")
	}
	// reachability
	cg := c.CallGraph()
	seen := map[*ssa.Function]bool{}
	var walk func(fn *ssa.Function)
	walk = func(fn *ssa.Function) {
		if fn == nil || seen[fn] {
			return
		}
		seen[fn] = true
		n := cg.Nodes[fn]
		if n == nil {
			return
		}
		for _, e := range n.Out {
			if e.Callee.Func != nil && e.Callee.Func.Pkg != nil && c.isOurs(e.Callee.Func.Pkg.Pkg) {
				walk(e.Callee.Func)
			}
		}
		for _, a := range fn.AnonFuncs {
			walk(a)
		}
	}
	walk(serve)
	spec := &GuardSpec{Name: "FBDNSDB.dnsdb", Field: c.tabledFieldByName("dnsserver", "FBDNSDB", "dnsdb"), Mutex: c.mutexName("dnsserver", "FBDNSDB", "reloadMu")}
	var offenders []string
	nreach := 0
	var fns []*ssa.Function
	for fn := range seen {
		fns = append(fns, fn)
	}
	sort.Slice(fns, func(i, j int) bool { return fnName(fns[i]) < fnName(fns[j]) })
	for _, fn := range fns {
		if fn.Blocks == nil {
			continue
		}
		nreach++
		if o, ok := fn.Object().(*types.Func); ok && acquirers[o] {
			continue
		}
		if accs := findAccesses(spec, fn); len(accs) > 0 {
			offenders = append(offenders, fmt.Sprintf("%s at %s", fnName(fn), c.relPos(accs[0].Instr.Pos())))
		}
	}
	c.Check(rule, fnName(serve)+"|only-AcquireReader-reads-dnsdb", len(offenders) == 0, serve.Pos(), fmt.Sprintf("%d module functions reachable from the query entry point examined; other readers of dnsdb: %v", nreach, offenders))
	onPath := false
	for f := range acquirers {
		if seen[c.SSA.FuncValue(f)] {
			onPath = true
		}
	}
	c.Check(rule, fnName(serve)+"|AcquireReader-reachable", onPath, serve.Pos(), "a reader acquisition is on the query path")

	// write-once dbi
	fDbi := c.Field("db", "DB", "dbi")
	n := 0
	for _, fn := range c.OurFuncs() {
		for _, st := range storesToField(fn, fDbi) {
			n++
			fa := st.Addr.(*ssa.FieldAddr)
			c.Check(rule, "DB.dbi|store|"+fnName(fn), rootIsFresh(fa.X), st.Pos(), "DB.dbi is assigned only while the DB value is being constructed (a reader cannot change generation mid-query)")
		}
	}
	if n == 0 {
		c.Undecided(rule, "DB.dbi|store", 0, "no initialisation of DB.dbi found")
	}
	c.Floor(rule, 5)
}

// c05Validate: (*DB).Reload returns a *DB other than the receiver only after validating it.
func c05Validate(c *Ctx) {
	rule := "C05.validate"
	c.Rule(rule, "A2: in (*db.DB).Reload every return whose *DB result is not the receiver is dominated by the nil edge of a validation call (ValidateDbKey / a method that reaches it) made on that same new *DB")
	fn := c.Func("db", "(*DB).Reload")
	c.Examined(fn)
	validate := c.TypesFunc("db", "(*DB).ValidateDbKey")
	reachesValidate := func(f *types.Func) bool {
		if f == validate {
			return true
		}
		sf := c.SSA.FuncValue(f)
		if sf == nil || sf.Blocks == nil {
			return false
		}
		// a method on *DB that calls ValidateDbKey on its own receiver and returns its error
		for _, ci := range callsTo(sf, func(g *types.Func) bool { return g == validate }) {
			if len(ci.Common().Args) > 0 && len(sf.Params) > 0 && ci.Common().Args[0] == sf.Params[0] {
				return true
			}
		}
		return false
	}
	recv := fn.Params[0]
	n := 0
	for _, ret := range returnsOf(fn) {
		if len(ret.Results) == 0 {
			continue
		}
		for src := range sourcesOf(ret.Results[0]) {
			if src == nil || src == recv || pathOf(src) == recv.Name() {
				continue
			}
			if isNilConst(src) {
				continue
			}
			n++
			// src is the new *DB: find validation calls on it
			isValidationErr := func(v ssa.Value) bool {
				call, _ := callOfValue(v)
				if call == nil {
					return false
				}
				f := calleeOf(call.Common())
				if f == nil || !reachesValidate(f) || len(call.Call.Args) == 0 {
					return false
				}
				rs := sourcesOf(call.Call.Args[0])
				return len(rs) == 1 && rs[src]
			}
			c.Check(rule, fmt.Sprintf("%s|return-new-db#%d", fnName(fn), n), dominatedByNilEdge(ret, isValidationErr), ret.Pos(), "a new generation is handed to the caller only after its validation key was found (validate, then swap)")
		}
	}
	c.Floor(rule, 1)
}

// readerAcquirers: methods of FBDNSDB whose first result is a db.Reader (AcquireReader and its variants).
func readerAcquirers(c *Ctx) map[*types.Func]bool {
	out := map[*types.Func]bool{}
	readerT := c.Named("db", "Reader")
	fb := c.Named("dnsserver", "FBDNSDB")
	ms := types.NewMethodSet(types.NewPointer(fb))
	for i := 0; i < ms.Len(); i++ {
		f, ok := ms.At(i).Obj().(*types.Func)
		if !ok {
			continue
		}
		res := f.Type().(*types.Signature).Results()
		if res.Len() == 0 {
			continue
		}
		if types.Identical(res.At(0).Type(), readerT) {
			out[f] = true
			continue
		}
		// the reader handed out inside a small struct (reader plus the generation it was pinned at)
		if st, ok := res.At(0).Type().Underlying().(*types.Struct); ok {
			for j := 0; j < st.NumFields(); j++ {
				if types.Identical(st.Field(j).Type(), readerT) {
					out[f] = true
				}
			}
		}
	}
	if len(out) == 0 {
		undecided("no FBDNSDB method returns a db.Reader")
	}
	return out
}
