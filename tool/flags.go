package main

// flags.go — one abstraction for a boolean life-cycle flag held in a struct field, whatever its representation:
// a plain bool (loaded and stored under a mutex), an integer word or atomic.Bool/Uint32/Int32 accessed through
// sync/atomic (Load*, Store*, CompareAndSwap*, Swap*). The rules ask "does this fact imply the flag is set",
// "does it imply the flag was clear before", "which instructions set the flag" — never which spelling is used.

import (
	"go/token"
	"go/types"

	"golang.org/x/tools/go/ssa"
)

// atomicOpOnField: v is a call to a sync/atomic function or method whose address operand is field f;
// returns the operation name ("Load", "Store", "CompareAndSwap", "Swap", "Add", …) and the remaining arguments.
func atomicOpOnField(v ssa.Value, f *types.Var) (op string, args []ssa.Value, call *ssa.Call) {
	c, ok := unwrap(v).(*ssa.Call)
	if !ok {
		return "", nil, nil
	}
	return atomicOpOfCall(c.Common(), f, c)
}

func atomicOpOfCall(cc *ssa.CallCommon, f *types.Var, call *ssa.Call) (string, []ssa.Value, *ssa.Call) {
	fn := calleeOf(cc)
	if fn == nil || fn.Pkg() == nil || fn.Pkg().Path() != "sync/atomic" || len(cc.Args) == 0 {
		return "", nil, nil
	}
	fa, ok := cc.Args[0].(*ssa.FieldAddr)
	if !ok || fieldOf(fa) != f {
		return "", nil, nil
	}
	name := fn.Name()
	for _, op := range []string{"CompareAndSwap", "Load", "Store", "Swap", "Add", "And", "Or"} {
		if len(name) >= len(op) && name[:len(op)] == op {
			return op, cc.Args[1:], call
		}
	}
	return "", nil, nil
}

func isZeroConst(v ssa.Value) bool {
	k, ok := v.(*ssa.Const)
	if !ok {
		return false
	}
	if k.Value == nil {
		return true
	}
	if s := k.Value.String(); s == "0" || s == "false" {
		return true
	}
	return false
}

func isNonZeroConst(v ssa.Value) bool {
	k, ok := v.(*ssa.Const)
	return ok && k.Value != nil && !isZeroConst(v)
}

// flagLoad: v is a boolean that is true exactly when flag f is set (pol=true) or exactly when it is clear (pol=false).
func flagLoad(v ssa.Value, f *types.Var) (pol bool, ok bool) {
	v = unwrap(v)
	if isFieldLoad(v, f) {
		if b, isB := v.Type().Underlying().(*types.Basic); isB && b.Kind() == types.Bool {
			return true, true
		}
	}
	if op, _, _ := atomicOpOnField(v, f); op == "Load" {
		if b, isB := v.Type().Underlying().(*types.Basic); isB && b.Kind() == types.Bool {
			return true, true
		}
	}
	if b, isB := v.(*ssa.BinOp); isB {
		x, y := b.X, b.Y
		if _, xc := x.(*ssa.Const); xc {
			x, y = y, x
		}
		isLoad := isFieldLoad(x, f)
		if op, _, _ := atomicOpOnField(x, f); op == "Load" {
			isLoad = true
		}
		if !isLoad {
			return false, false
		}
		switch {
		case b.Op == token.NEQ && isZeroConst(y), b.Op == token.GTR && isZeroConst(y) && x == b.X, b.Op == token.EQL && isNonZeroConst(y):
			return true, true
		case b.Op == token.EQL && isZeroConst(y), b.Op == token.NEQ && isNonZeroConst(y):
			return false, true
		}
	}
	if u, isU := v.(*ssa.UnOp); isU && u.Op == token.NOT {
		if p, ok := flagLoad(u.X, f); ok {
			return !p, true
		}
	}
	// a getter: a parameterless method whose every result is a load of the flag with one polarity (taken under a
	// lock or atomically)
	if call, isCall := v.(*ssa.Call); isCall {
		if sf := call.Common().StaticCallee(); sf != nil && len(sf.Blocks) > 0 && len(sf.Params) == 1 && sf.Signature.Results().Len() == 1 {
			return getterOfFlag(sf, f)
		}
	}
	return false, false
}

var getterMemo = map[[2]interface{}][2]bool{}

func getterOfFlag(sf *ssa.Function, f *types.Var) (pol bool, ok bool) {
	key := [2]interface{}{sf, f}
	if r, done := getterMemo[key]; done {
		return r[0], r[1]
	}
	getterMemo[key] = [2]bool{false, false} // recursion guard
	var vals []ssa.Value
	for _, l := range resultLeaves(sf, 0) {
		v := l.V
		// a result spilled because of a defer: the local it was stored into
		if ld, isLd := v.(*ssa.UnOp); isLd && ld.Op == token.MUL {
			if al, isAl := ld.X.(*ssa.Alloc); isAl && al.Referrers() != nil {
				for _, r := range *al.Referrers() {
					if st, isSt := r.(*ssa.Store); isSt && st.Addr == al {
						vals = append(vals, st.Val)
					}
				}
				continue
			}
		}
		vals = append(vals, v)
	}
	if len(vals) == 0 {
		return false, false
	}
	first := true
	for _, v := range vals {
		p, isFlag := flagLoad(v, f)
		if !isFlag || (!first && p != pol) {
			return false, false
		}
		pol, first = p, false
	}
	getterMemo[key] = [2]bool{pol, true}
	return pol, true
}

// flagCAS: v is the result of CompareAndSwap(&f, clear, set).
func flagCAS(v ssa.Value, f *types.Var) bool {
	op, args, _ := atomicOpOnField(v, f)
	return op == "CompareAndSwap" && len(args) == 2 && isZeroConst(args[0]) && isNonZeroConst(args[1])
}

// flagSwapSet: v is the old value returned by Swap(&f, set): true = the flag was set already, false = we set it just now.
func flagSwapSet(v ssa.Value, f *types.Var) bool {
	op, args, _ := atomicOpOnField(v, f)
	if op != "Swap" || len(args) != 1 || !isNonZeroConst(args[0]) {
		return false
	}
	b, isB := unwrap(v).Type().Underlying().(*types.Basic)
	return isB && b.Kind() == types.Bool
}

// factFlagSet: the fact (v == truth) implies that the flag is set when the fact is established.
func factFlagSet(v ssa.Value, truth bool, f *types.Var) bool {
	if pol, ok := flagLoad(v, f); ok {
		return pol == truth
	}
	if flagCAS(v, f) || flagSwapSet(v, f) {
		return true // either we just set it, or it was set already
	}
	if u, ok := unwrap(v).(*ssa.UnOp); ok && u.Op == token.NOT {
		return factFlagSet(u.X, !truth, f)
	}
	return false
}

// factFlagWasClear: the fact implies that the flag was clear (a test of the flag came out "clear", or our own
// compare-and-swap from clear to set succeeded — a state that can be entered only once).
func factFlagWasClear(v ssa.Value, truth bool, f *types.Var) bool {
	if pol, ok := flagLoad(v, f); ok {
		return pol != truth
	}
	if flagCAS(v, f) {
		return truth
	}
	if flagSwapSet(v, f) {
		return !truth // the old value was false: it was clear and this swap set it — entered only once
	}
	if u, ok := unwrap(v).(*ssa.UnOp); ok && u.Op == token.NOT {
		return factFlagWasClear(u.X, !truth, f)
	}
	return false
}

// factFlagWasSet: the flag was already set before (test came out "set", or our compare-and-swap failed).
func factFlagWasSet(v ssa.Value, truth bool, f *types.Var) bool {
	if pol, ok := flagLoad(v, f); ok {
		return pol == truth
	}
	if flagCAS(v, f) {
		return !truth
	}
	if flagSwapSet(v, f) {
		return truth
	}
	if u, ok := unwrap(v).(*ssa.UnOp); ok && u.Op == token.NOT {
		return factFlagWasSet(u.X, !truth, f)
	}
	return false
}

// flagSetters: the instructions of fn after which flag f is set (plain store of true/non-zero, atomic Store of a
// non-zero constant, compare-and-swap clear→set, Swap to non-zero).
func flagSetters(fn *ssa.Function, f *types.Var) []ssa.Instruction {
	var out []ssa.Instruction
	for _, st := range storesToField(fn, f) {
		if isNonZeroConst(st.Val) {
			out = append(out, st)
		}
	}
	for _, ci := range callInstrs(fn) {
		call, _ := ci.(*ssa.Call)
		op, args, _ := atomicOpOfCall(ci.Common(), f, call)
		switch op {
		case "Store", "Swap":
			if len(args) == 1 && isNonZeroConst(args[0]) {
				out = append(out, ci)
			}
		case "CompareAndSwap":
			if len(args) == 2 && isZeroConst(args[0]) && isNonZeroConst(args[1]) {
				out = append(out, ci)
			}
		}
	}
	return out
}

// flagUpdates: every instruction that writes the flag (any store, any mutating atomic).
func flagUpdates(fn *ssa.Function, f *types.Var) []ssa.Instruction {
	var out []ssa.Instruction
	for _, st := range storesToField(fn, f) {
		out = append(out, st)
	}
	for _, ci := range callInstrs(fn) {
		call, _ := ci.(*ssa.Call)
		if op, _, _ := atomicOpOfCall(ci.Common(), f, call); op != "" && op != "Load" {
			out = append(out, ci)
		}
	}
	return out
}
