package main

func init() {
	addVariants(
		variant{Name: "c14-reader-close-decides-outside-lock(seed c14a)", Props: []string{"C14"}, Expect: []string{"C14.close-atomic|(*db.DataReader).Close|close#0|under-DB.l", "C14.close-atomic|(*db.DataReader).Close|close#0|same-critical-section"},
			Edits: []edit{{"db/db.go", "\tr.db.l.Lock()\n\tdefer r.db.l.Unlock()\n\tr.db.refCount--\n\tif r.db.destroyable && r.db.refCount == 0 {\n", "\tr.db.l.Lock()\n\tr.db.refCount--\n\tlast := r.db.refCount == 0\n\tr.db.l.Unlock()\n\tif last && r.db.isDestroyed() {\n"}}},
		variant{Name: "c14-reader-close-relocks", Props: []string{"C14"}, Expect: []string{"C14.close-atomic|(*db.DataReader).Close|close#0|same-critical-section"},
			Edits: []edit{{"db/db.go", "\tr.db.l.Lock()\n\tdefer r.db.l.Unlock()\n\tr.db.refCount--\n\tif r.db.destroyable && r.db.refCount == 0 {\n", "\tr.db.l.Lock()\n\tr.db.refCount--\n\tlast := r.db.refCount == 0\n\tr.db.l.Unlock()\n\tr.db.l.Lock()\n\tdefer r.db.l.Unlock()\n\tif last && r.db.destroyable {\n"}}},
		variant{Name: "c14-stats-key-memoised-in-global-map(seed c14b)", Props: []string{"C14"}, Expect: []string{"C14.globals|dnsserver.typeToStats|dnsserver.typeToStatsKey|map-update"},
			Edits: []edit{{"dnsserver/handler.go", "\treturn fmt.Sprintf(\"%s.TYPE%d\", TypeToStatsPrefix, qtype)\n", "\tt := fmt.Sprintf(\"%s.TYPE%d\", TypeToStatsPrefix, qtype)\n\ttypeToStats[qtype] = t\n\treturn t\n"}}},
		variant{Name: "c14-close-sends-under-lock", Props: []string{"C14"}, Expect: []string{"C14.block|(*dnsserver.FBDNSDB).Close|send"},
			Edits: []edit{{"dnsserver/db.go", "\tglog.Infof(\"Closing DB\")\n\tclose(h.done)\n", "\tglog.Infof(\"Closing DB\")\n\th.done <- struct{}{}\n\tclose(h.done)\n"}}},
		variant{Name: "c14-ctx-not-reset", Props: []string{"C14"}, Expect: []string{"C14.ctxpool|(*db.cdbdriver).FreeContext|put-after-reset"},
			Edits: []edit{{"db/cdbdriver.go", "\tcontext.Reset()\n\tc.contextPool.Put(context)", "\tc.contextPool.Put(context)"}}},
		variant{Name: "c14-lock-order-cycle", Props: []string{"C14"}, Expect: []string{"C14.order|lock-order-graph|acyclic"},
			Edits: []edit{{"db/db.go", "func (f *DB) isDestroyed() bool {\n\tf.l.RLock()\n\tdefer f.l.RUnlock()\n\treturn f.destroyable\n}", "func (f *DB) isDestroyed() bool {\n\tf.l.RLock()\n\tdefer f.l.RUnlock()\n\treturn f.destroyable\n}\n\nvar statsMu sync.Mutex\n\nfunc (f *DB) lockedStats() map[string]int64 {\n\tstatsMu.Lock()\n\tdefer statsMu.Unlock()\n\tf.l.RLock()\n\tdefer f.l.RUnlock()\n\treturn f.dbi.GetStats()\n}\n\nfunc (f *DB) destroyWithStats() {\n\tf.l.Lock()\n\tdefer f.l.Unlock()\n\tstatsMu.Lock()\n\tdefer statsMu.Unlock()\n\tf.destroyable = true\n}"}}},
		variant{Name: "c14-stats-window-unlocked", Props: []string{"C14"}, Expect: []string{"C14.lockset|slidingWindow.samples|(*metrics.slidingWindow).Samples"},
			Edits: []edit{{"metrics/swindow.go", "func (sw *slidingWindow) Samples() []int64 {\n\tsw.mutex.Lock()\n\tdefer sw.mutex.Unlock()\n", "func (sw *slidingWindow) Samples() []int64 {\n"}}},
		variant{Name: "c14-counter-unlocked", Props: []string{"C14"}, Expect: []string{"C14.lockset|Stats.values|(*metrics.Stats).IncrementCounter"},
			Edits: []edit{{"metrics/stats.go", "\tstats.vlock.Lock()\n\tstats.values[key]++\n\tstats.vlock.Unlock()", "\tstats.values[key]++"}}},
		variant{Name: "c14-rand-unlocked", Props: []string{"C14"}, Expect: []string{"C14.lockset|lockedSource.src|(*db.lockedSource).Int63"},
			Edits: []edit{{"db/rand.go", "\tr.lk.Lock()\n\tn = r.src.Int63()\n\tr.lk.Unlock()", "\tn = r.src.Int63()"}}},
		variant{Name: "c14-accum-update-unlocked", Props: []string{"C14"}, Expect: []string{"C14.lockset|Accum."},
			Edits: []edit{{"dnsdata/data.go", "\tif rnet, ok := s.(*Rnet); ok {\n\t\tr.mux.Lock()\n\t\tdefer r.mux.Unlock()\n", "\tif rnet, ok := s.(*Rnet); ok {\n"}}},
		variant{Name: "benign-counter-defer-unlock", Props: []string{"C14"}, Benign: true,
			Edits: []edit{{"metrics/stats.go", "\tstats.vlock.Lock()\n\tstats.values[key]++\n\tstats.vlock.Unlock()", "\tstats.vlock.Lock()\n\tdefer stats.vlock.Unlock()\n\tstats.values[key]++"}}},
	)
}
