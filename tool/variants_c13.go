package main

func init() {
	const hgo = "dnsserver/handler.go"
	addVariants(
		variant{Name: "c13-ds-root-pop-unguarded(F2)", Props: []string{"C13"}, Expect: []string{"C13.labelpop|(*dnsserver.FBDNSDB).ServeDNSWithRCODE|pop"},
			Edits: []edit{{hgo, "state.QType() == dns.TypeDS && packedQName[0] != 0 {", "state.QType() == dns.TypeDS {"}}},
		variant{Name: "c13-findanswer-root-guard-removed", Props: []string{"C13"}, Expect: []string{"C13.labelpop|(*db.DataReader).FindAnswer|pop#q"},
			Edits: []edit{{"db/answer.go", "\t\tif q[0] == 0 {\n\t\t\tbreak\n\t\t}\n\t\tif !dnsLabelWildsafe", "\t\tif !dnsLabelWildsafe"}}},
		variant{Name: "c13-cdb-findmap-root-guard-removed", Props: []string{"C13"}, Expect: []string{"C13.labelpop|(*db.cdbdriver).FindMap|pop#domain"},
			Edits: []edit{{"db/cdbdriver.go", "\t\tif domain[0] == 0 {\n\t\t\treturn nil, nil\n\t\t}\n", "\t\tif len(domain) == 0 {\n\t\t\treturn nil, nil\n\t\t}\n"}}},
		variant{Name: "c13-recover-removed-findlocation", Props: []string{"C13"}, Expect: []string{"C13.recover|(*db.DataReader).FindLocation"},
			Edits: []edit{{"db/location.go", "\tdefer func() {\n\t\tif e := recover(); e != nil {\n\t\t\terr = e.(error)\n\t\t\tecs = nil\n\t\t\tloc = nil\n\t\t}\n\t}()\n", ""}}},
		variant{Name: "c13-recover-does-not-set-err", Props: []string{"C13"}, Expect: []string{"C13.recover|(*dnsdata/rdb.RDB).ForEach"},
			Edits: []edit{{"dnsdata/rdb/rdb.go", "\t\tif e := recover(); e != nil {\n\t\t\terr = e.(error)\n\t\t}\n\t}()\n\n\tdata, err := rdb.get(key, ctx)", "\t\tif e := recover(); e != nil {\n\t\t\t_ = e\n\t\t}\n\t}()\n\n\tdata, err := rdb.get(key, ctx)"}}},
		variant{Name: "c13-write-before-scrub", Props: []string{"C13"}, Expect: []string{"C13.writepath|(*dnsserver.FBDNSDB).writeAndLog|scrub-before-write"},
			Edits: []edit{{hgo, "\tstate.SizeAndDo(resp)\n\tstate.Scrub(resp)\n\n\tif h.handlerConfig.AlwaysCompress {\n\t\t// Compression should be set AFTER potential Truncate call inside Scrub\n\t\t// otherwise it could be reset\n\t\tresp.Compress = true\n\t}\n\n\terr := state.W.WriteMsg(resp)", "\tstate.SizeAndDo(resp)\n\n\tif h.handlerConfig.AlwaysCompress {\n\t\tresp.Compress = true\n\t}\n\n\terr := state.W.WriteMsg(resp)\n\tstate.Scrub(resp)"}}},
		variant{Name: "c13-compress-before-scrub", Props: []string{"C13"}, Expect: []string{"C13.compress-order|(*dnsserver.FBDNSDB).writeAndLog|compress-after-scrub"},
			Edits: []edit{{hgo, "\tstate.SizeAndDo(resp)\n\tstate.Scrub(resp)\n\n\tif h.handlerConfig.AlwaysCompress {\n\t\t// Compression should be set AFTER potential Truncate call inside Scrub\n\t\t// otherwise it could be reset\n\t\tresp.Compress = true\n\t}\n", "\tstate.SizeAndDo(resp)\n\tif h.handlerConfig.AlwaysCompress {\n\t\tresp.Compress = true\n\t}\n\tstate.Scrub(resp)\n"}}},
		variant{Name: "c13-refused-written-directly", Props: []string{"C13"}, Expect: []string{"C13.writepath|WriteMsg|caller:(*dnsserver.FBDNSDB).ServeDNSWithRCODE"},
			Edits: []edit{{hgo, "\t\t// does not matter if this write fails\n\t\treturn h.writeAndLog(state, m, ecs)", "\t\t// does not matter if this write fails\n\t\tw.WriteMsg(m)\n\t\treturn dns.RcodeRefused, nil"}}},
		variant{Name: "c13-version-check-after-location", Props: []string{"C13"}, Expect: []string{"C13.badvers|(*dnsserver.FBDNSDB).ServeDNSWithRCODE|lookups-after-version-check"},
			Edits: []edit{{hgo, "\t// Check if this is a supported edns version\n\tif a, err := edns.Version(r); err != nil { // Wrong EDNS version, return at once.\n\t\treturn h.writeAndLog(state, a, ecs)\n\t}\n", ""},
				{hgo, "\tif loc == nil {\n\t\t// We could not find a location", "\t// Check if this is a supported edns version\n\tif a, err := edns.Version(r); err != nil { // Wrong EDNS version, return at once.\n\t\treturn h.writeAndLog(state, a, ecs)\n\t}\n\tif loc == nil {\n\t\t// We could not find a location"}}},
		variant{Name: "c13-mux-guard-removed", Props: []string{"C13"}, Expect: []string{"C13.question|(*fbserver.serveMux).ServeDNS|chain-call-guarded"},
			Edits: []edit{{"fbserver/serve_mux.go", "\tif len(req.Question) < 1 {\n\t\tdns.HandleFailed(w, req)\n\t\treturn\n\t}\n", ""}}},
		variant{Name: "c13-row-decoded-outside-iteration", Props: []string{"C13"}, Expect: []string{"C13.barrier|"},
			Edits: []edit{{"db/db.go", "\terr = reader.ForEach(dbKey, parseResult)\n\treader.Close()", "\terr = reader.ForEach(dbKey, parseResult)\n\tif v, ferr := f.dbi.Find(dbKey, f.dbi.NewContext()); ferr == nil {\n\t\tif _, xerr := ExtractRRFromRow(v, false); xerr != nil {\n\t\t\tkeyFound = false\n\t\t}\n\t}\n\treader.Close()"}}},
		variant{Name: "benign-findanswer-loop-condition(B5)", Props: []string{"C13"}, Benign: true,
			Edits: []edit{{"db/answer.go", "\t\tif q[0] == 0 {\n\t\t\tbreak\n\t\t}\n\t\tif !dnsLabelWildsafe(q[1 : q[0]+1]) {\n\t\t\tbreak\n\t\t}\n\t\tq = q[q[0]+1:]", "\t\tif q[0] != 0 && dnsLabelWildsafe(q[1:q[0]+1]) {\n\t\t\tq = q[q[0]+1:]\n\t\t} else {\n\t\t\tbreak\n\t\t}"}}},
	)
}
