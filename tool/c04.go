package main

import (
	"fmt"
	"go/token"
	"go/types"

	"golang.org/x/tools/go/ssa"
)

func init() {
	register(&propDef{
		ID:          "C04",
		Title:       "A client sees its own location's records plus untagged ones, nothing else",
		Run:         runC04,
		Explanation: "Structural necessary conditions of location isolation, decided on SSA: (keyloc) the location component of every resource-record key built by the readers comes only from the LocID of the reader method's own location parameter or from EmptyLocation, helper functions pass their location parameter through, and the handler hands every helper the one location FindLocation returned; (cache-exact) an exact get is never served from a closest-key cache entry of another key; (untagged) every walk consults the untagged key on each iteration — unconditionally, or skipped only when both the NS and SOA flags are already known, or (closest-key reader) exactly when the located lookup landed on the same name with another location; (cache-key) the response cache key separates locations without ambiguity. Non-interference over all edits is not decided.",
	})
}

func runC04(c *Ctx) {
	c04KeyLoc(c)
	c02CacheExact(c, "C04.cache-exact")
	c04Untagged(c)
	c04CacheKey(c)
	c04CompositeLoc(c)
	c04KeyVerbatim(c)
	c04PostAlways(c, "C04.post-always")
}

func c04KeyLoc(c *Ctx) {
	rule := "C04.keyloc"
	c.Rule(rule, "SSA: in every Reader method that builds resource-record keys, each access to a Location's LocID is rooted in the method's own *Location parameter or in the package variable EmptyLocation (no iteration over, or constant for, other locations); FindSOA/GetNs/AdditionalSectionForRecords pass their own location parameter on; in ServeDNSWithRCODE every *db.Location argument is the value returned by the single FindLocation call")
	fLocID := c.Field("db", "Location", "LocID")
	locPtr := types.NewPointer(c.Named("db", "Location"))
	for _, name := range []string{"(*DataReader).FindAnswer", "(*DataReader).IsAuthoritative", "(*DataReader).ForEachResourceRecord", "(*sortedDataReader).find", "(*sortedDataReader).ForEachResourceRecord"} {
		fn := c.Func("db", name)
		c.Examined(fn)
		var locParam *ssa.Parameter
		for _, p := range fn.Params {
			if types.Identical(p.Type(), locPtr) {
				locParam = p
			}
		}
		ok := locParam != nil
		n := 0
		var bad []string
		for _, f := range withClosures(fn) {
			for _, b := range f.Blocks {
				for _, in := range b.Instrs {
					fa, isFA := in.(*ssa.FieldAddr)
					if !isFA || fieldOf(fa) != fLocID {
						continue
					}
					n++
					good := false
					for s := range sourcesOf(fa.X) {
						if s == ssa.Value(locParam) {
							good = true
						} else if g, isG := s.(*ssa.Global); isG && g.Name() == "EmptyLocation" {
							good = true
						} else {
							good = false
							break
						}
					}
					if g, isG := fa.X.(*ssa.Global); isG && g.Name() == "EmptyLocation" {
						good = true
					}
					if !good {
						ok = false
						bad = append(bad, c.relPos(fa.Pos()))
					}
				}
			}
		}
		c.Check(rule, fnName(fn)+"|location-from-parameter-or-empty", ok && n >= 2, fn.Pos(), fmt.Sprintf("%d LocID accesses; from another source: %v", n, bad))
		// no lookup is keyed by a key that came out of the database (its location part is whatever is stored there)
		var foundKeyed []string
		for _, ci := range callInstrs(fn) {
			cc := ci.Common()
			name := ""
			if cc.IsInvoke() {
				name = cc.Method.Name()
			} else if sf := cc.StaticCallee(); sf != nil {
				name = sf.Name()
			}
			if name != "ForEach" && name != "TryForEach" && name != "Find" {
				continue
			}
			var keyA ssa.Value
			if cc.IsInvoke() {
				keyA = cc.Args[0]
			} else {
				keyA = cc.Args[1]
			}
			for x := range backSlice(keyA, func(v ssa.Value) bool { _, isCall := v.(*ssa.Call); return isCall }) {
				if ex, isEx := x.(*ssa.Extract); isEx {
					if cl, isCl := ex.Tuple.(*ssa.Call); isCl {
						if g := calleeOf(cl.Common()); g != nil && (g.Name() == "TryForEach" || g.Name() == "FindClosestKey" || g.Name() == "FindClosest") {
							foundKeyed = append(foundKeyed, c.relPos(ci.Pos()))
						}
					}
				}
			}
		}
		c.Check(rule, fnName(fn)+"|no-lookup-by-found-key", len(foundKeyed) == 0, fn.Pos(), fmt.Sprintf("lookups keyed by a key returned by the closest-key search: %v", foundKeyed))
	}
	// helpers pass their parameter through
	for _, name := range []string{"FindSOA", "GetNs", "AdditionalSectionForRecords"} {
		fn := c.Func("db", name)
		c.Examined(fn)
		var locParam *ssa.Parameter
		for _, p := range fn.Params {
			if types.Identical(p.Type(), locPtr) {
				locParam = p
			}
		}
		ok, n := locParam != nil, 0
		for _, ci := range callInstrs(fn) {
			cc := ci.Common()
			if !cc.IsInvoke() {
				continue
			}
			for _, a := range cc.Args {
				if types.Identical(a.Type(), locPtr) {
					n++
					if a != ssa.Value(locParam) {
						ok = false
					}
				}
			}
		}
		c.Check(rule, fnName(fn)+"|passes-its-location-on", ok && n >= 1, fn.Pos(), fmt.Sprintf("%d reader calls with a location argument", n))
	}
	serve := c.Func("dnsserver", "(*FBDNSDB).ServeDNSWithRCODE")
	c.Examined(serve)
	var fl *ssa.Call
	nfl := 0
	for _, ci := range callInstrs(serve) {
		if cc := ci.Common(); cc.IsInvoke() && cc.Method.Name() == "FindLocation" {
			fl, _ = ci.(*ssa.Call)
			nfl++
		}
	}
	ok, n := nfl == 1, 0
	for _, ci := range callInstrs(serve) {
		for _, a := range ci.Common().Args {
			if !types.Identical(a.Type(), locPtr) {
				continue
			}
			n++
			for s := range sourcesOf(a) {
				if cl, idx := callOfValue(s); cl != fl || idx != 1 {
					ok = false
				}
			}
		}
	}
	c.Check(rule, fnName(serve)+"|one-location-per-query", ok && n >= 5, serve.Pos(), fmt.Sprintf("%d location arguments, all the value returned by the one FindLocation call", n))
}

// flag cells of IsAuthoritative's row callback
func c04Untagged(c *Ctx) {
	rule := "C04.untagged"
	c.Rule(rule, "A9: the untagged (EmptyLocation) key is consulted in every iteration of every walk: its lookup dominates the loop latch, or is skipped only on an edge where both the SOA and the NS flag are already true, or — closest-key reader — is made exactly under {client location non-empty ∧ found key has the search key's length ∧ same name part}; the straight-line ForEachResourceRecord variants look the located key up only for a non-empty location and the untagged key always")
	// helper: calls whose key argument is built from EmptyLocation
	usesEmpty := func(v ssa.Value) bool {
		for x := range backSlice(v, func(v ssa.Value) bool { _, isCall := v.(*ssa.Call); return isCall && isBuiltinCall(v, "append") == nil }) {
			if g, ok := x.(*ssa.Global); ok && g.Name() == "EmptyLocation" {
				return true
			}
		}
		return false
	}
	isLookup := func(ci ssa.CallInstruction) bool {
		cc := ci.Common()
		name := ""
		if cc.IsInvoke() {
			name = cc.Method.Name()
		} else if sf := cc.StaticCallee(); sf != nil {
			name = sf.Name()
		}
		return name == "ForEach" || name == "TryForEach"
	}
	keyArg := func(ci ssa.CallInstruction) ssa.Value {
		cc := ci.Common()
		if cc.IsInvoke() {
			return cc.Args[0]
		}
		return cc.Args[1]
	}
	// label-by-label walks
	for _, name := range []string{"(*DataReader).FindAnswer", "(*DataReader).IsAuthoritative"} {
		fn := c.Func("db", name)
		c.Examined(fn)
		h, body := loopContaining(fn, func(in ssa.Instruction) bool {
			ci, ok := in.(ssa.CallInstruction)
			return ok && isLookup(ci)
		})
		if h == nil {
			c.Undecided(rule, fnName(fn)+"|walk-loop", fn.Pos(), "walk loop not found")
			continue
		}
		var unt ssa.CallInstruction
		for _, ci := range callInstrs(fn) {
			if isLookup(ci) && body[ci.Block()] && usesEmpty(keyArg(ci)) {
				unt = ci
			}
		}
		if unt == nil {
			c.Check(rule, fnName(fn)+"|untagged-lookup", false, fn.Pos(), "no lookup of the untagged key inside the walk: untagged records are invisible")
			continue
		}
		ok := true
		for _, p := range h.Preds {
			if body[p] && !(unt.Block() == p || unt.Block().Dominates(p)) {
				ok = false
			}
		}
		detail := "the untagged lookup is on every path of an iteration"
		if !ok {
			// conditional: the skipping edge must know both flags
			soa, ns := typeFlagCell(c, fn, 6), typeFlagCell(c, fn, 2)
			ok = false
			detail = "the untagged lookup can be skipped although the SOA/NS flags are not both known"
			for _, p := range unt.Block().Preds {
				iff, isIf := p.Instrs[len(p.Instrs)-1].(*ssa.If)
				if !isIf {
					continue
				}
				for k, s := range p.Succs {
					if s == unt.Block() {
						continue
					}
					// a skipping edge: from its target the lookup is not reached any more in this iteration
					if reachAvoiding(s, map[*ssa.BasicBlock]bool{h: true}, nil)[unt.Block()] {
						continue
					}
					fs := factsAt(p)
					condImplies(iff.Cond, k == 0, 0, &fs)
					hasS, hasN := false, false
					for _, f := range fs {
						if f.Truth && soa != "" && varNameOfLoad(f.V) == soa {
							hasS = true
						}
						if f.Truth && ns != "" && varNameOfLoad(f.V) == ns {
							hasN = true
						}
					}
					if hasS && hasN {
						ok = true
						detail = "skipped only when both the SOA and the NS flag are already set (nothing more to learn)"
					}
				}
			}
		}
		c.Check(rule, fnName(fn)+"|untagged-lookup", ok, unt.Pos(), detail)
	}
	// straight-line variants
	fLocID := c.Field("db", "Location", "LocID")
	for _, name := range []string{"(*DataReader).ForEachResourceRecord", "(*sortedDataReader).ForEachResourceRecord"} {
		fn := c.Func("db", name)
		c.Examined(fn)
		var unt ssa.CallInstruction
		nl := 0
		for _, ci := range callInstrs(fn) {
			if !isLookup(ci) {
				continue
			}
			nl++
			// the untagged one: not guarded by the location test
			guarded := hasFact(ci.Block(), func(v ssa.Value, truth bool) bool {
				b, ok := v.(*ssa.BinOp)
				return ok && (b.Op == token.NEQ || b.Op == token.EQL) && (isFieldLoad(b.X, fLocID) || isFieldLoad(b.Y, fLocID))
			})
			if !guarded {
				unt = ci
			}
		}
		ok := unt != nil && nl == 2
		if ok {
			// reached on every path that did not fail: dominates every nil-error return
			for _, ret := range returnsOf(fn) {
				succ := true
				for s := range sourcesOf(ret.Results[0]) {
					if s == nil || !isNilConst(s) {
						succ = false
					}
				}
				if succ && !instrDominates(unt, ret) {
					ok = false
				}
			}
		}
		// per path (the lookups may have been written as one loop over a list of locations that the baseline view
		// unrolled): on every way to a nil-error return exactly one untagged lookup, at most one located lookup,
		// the located one FIRST (FindSOA takes the first SOA: round-5 seed c02k swapped the order in the v2 reader)
		// and only where the location is known to be non-empty
		if paths, enumerable := funcPaths(fn, 256); enumerable && len(paths) > 0 {
			ok = c04LookupsPerPath(fn, isLookup, keyArg, fLocID)
		}
		c.Check(rule, fnName(fn)+"|located-then-untagged", ok, fn.Pos(), fmt.Sprintf("%d lookups: the located key under the non-empty-location test, the untagged key on every successful path", nl))
	}
	// closest-key walk
	find := c.Func("db", "(*sortedDataReader).find")
	c.Examined(find)
	var tries []ssa.CallInstruction
	for _, ci := range callInstrs(find) {
		if sf := ci.Common().StaticCallee(); sf != nil && sf.Name() == "TryForEach" {
			tries = append(tries, ci)
		}
	}
	if len(tries) != 2 {
		c.Check(rule, fnName(find)+"|untagged-retry", false, find.Pos(), fmt.Sprintf("%d TryForEach calls in the walk (expected the located lookup and the untagged retry)", len(tries)))
		return
	}
	second := tries[1]
	// the key buffer's location part was overwritten with EmptyLocation before the retry, in the same guarded region
	emptyCopied := false
	for _, ci := range callInstrs(find) {
		if cp := isBuiltinCall(valueOfCall(ci), "copy"); cp != nil && instrDominates(ci, second) && ci.Block() == second.Block() && usesEmpty(cp.Call.Args[1]) {
			emptyCopied = true
		}
	}
	kinds := map[string]bool{}
	other := 0
	for _, f := range factsAt(second.Block()) {
		switch b := f.V.(type) {
		case *ssa.BinOp:
			if (b.Op == token.NEQ && f.Truth || b.Op == token.EQL && !f.Truth) && (isFieldLoad(b.X, fLocID) || isFieldLoad(b.Y, fLocID)) {
				kinds["location-non-empty"] = true
				continue
			}
			if lx, ly := isBuiltinCall(b.X, "len"), isBuiltinCall(b.Y, "len"); lx != nil && ly != nil && (b.Op == token.EQL && f.Truth || b.Op == token.NEQ && !f.Truth) {
				kinds["same-length"] = true
				continue
			}
			if x, trueNil, isNil := nilTest(b); isNil && x.Type().String() == "error" && trueNil == f.Truth {
				continue // previous lookup did not fail
			}
		case *ssa.Call:
			if isCallToFunc(b, "bytes", "Equal") != nil && f.Truth {
				_, s0 := b.Call.Args[0].(*ssa.Slice)
				_, s1 := b.Call.Args[1].(*ssa.Slice)
				if s0 && s1 && !kinds["same-name"] {
					kinds["same-name"] = true // comparison of the name parts (keys without the location suffix)
					continue
				}
			}
			if p, isP := b.Call.Value.(*ssa.Parameter); isP && f.Truth && p.Name() != "" {
				continue // the pre-iteration callback let the iteration run
			}
		}
		other++
	}
	ok := emptyCopied && kinds["location-non-empty"] && kinds["same-length"] && kinds["same-name"] && other == 0
	c.Check(rule, fnName(find)+"|untagged-retry", ok, second.Pos(), fmt.Sprintf("retry with the EmptyLocation key: %v; guard kinds: %v; other conditions: %d (any other outcome of the located lookup proves the untagged key absent; any extra condition hides untagged records)", emptyCopied, keysOf(kinds), other))
}

// c04CacheKey: the textual cache key separates its components unambiguously (see keyinj.go).
func c04CacheKey(c *Ctx) {
	cacheKeyInjective(c, "C04.cache-key")
}

// c04LookupsPerPath: see the call site. A lookup is classified by where the location bytes of its key come from: the
// key expression itself (append(locID[:], name...)) or, for a key buffer that is filled in place, the last copy into
// the buffer on the path. Bytes that derive from the global EmptyLocation are untagged, bytes that derive from a
// *Location parameter are located.
func c04LookupsPerPath(fn *ssa.Function, isLookup func(ssa.CallInstruction) bool, keyArg func(ssa.CallInstruction) ssa.Value, fLocID *types.Var) bool {
	paths, ok := funcPaths(fn, 256)
	if !ok || len(paths) == 0 {
		return false
	}
	classify := func(v ssa.Value) string {
		emptyG, param := false, false
		for x := range backSlice(v, func(v ssa.Value) bool { _, isCall := v.(*ssa.Call); return isCall && isBuiltinCall(v, "append") == nil }) {
			switch y := x.(type) {
			case *ssa.Global:
				if y.Name() == "EmptyLocation" {
					emptyG = true
				}
			case *ssa.FieldAddr:
				if fieldOf(y) == fLocID {
					if _, isP := y.X.(*ssa.Parameter); isP {
						param = true
					}
				}
			}
		}
		switch {
		case emptyG && !param:
			return "untagged"
		case param && !emptyG:
			return "located"
		}
		return ""
	}
	sawLocated := false
	for _, p := range paths {
		last := p.blocks[len(p.blocks)-1]
		ret, isRet := last.Instrs[len(last.Instrs)-1].(*ssa.Return)
		if !isRet || len(ret.Results) == 0 {
			continue
		}
		if !isNilConst(p.value(ret.Results[len(ret.Results)-1])) {
			continue // not a success path
		}
		var seq []string
		lastCopy := ""
		for _, b := range p.blocks {
			for _, in := range b.Instrs {
				ci, isCI := in.(ssa.CallInstruction)
				if !isCI {
					continue
				}
				if v, isV := in.(ssa.Value); isV {
					if cp := isBuiltinCall(v, "copy"); cp != nil {
						if k := classify(cp.Call.Args[1]); k != "" {
							lastCopy = k
						}
						continue
					}
				}
				if !isLookup(ci) {
					continue
				}
				k := classify(keyArg(ci))
				if k == "" {
					k = lastCopy
				}
				if k == "" {
					return false
				}
				seq = append(seq, k)
			}
		}
		nonEmpty := false
		for _, f := range p.facts {
			if b, isB := f.V.(*ssa.BinOp); isB && (isFieldLoad(b.X, fLocID) || isFieldLoad(b.Y, fLocID)) {
				if (b.Op == token.NEQ && f.Truth) || (b.Op == token.EQL && !f.Truth) {
					nonEmpty = true
				}
			}
		}
		switch {
		case len(seq) == 1 && seq[0] == "untagged":
		case len(seq) == 2 && seq[0] == "located" && seq[1] == "untagged" && nonEmpty:
			sawLocated = true
		default:
			return false
		}
	}
	return sawLocated
}
