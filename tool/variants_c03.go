package main

func init() {
	const loc = "db/location.go"
	const rdbd = "db/rdbdriver.go"
	const cdbd = "db/cdbdriver.go"
	const data = "dnsdata/data.go"
	const srt = "db/answer_sorted.go"
	addVariants(
		// C03
		variant{Name: "c03-rangepoint-marker-changed", Props: []string{"C03"}, Expect: []string{"C03.markers|range-point-marker"},
			Edits: []edit{{loc, "var ipMapRangePointKeyElement = []byte(\"\\000\\000\\000!\")", "var ipMapRangePointKeyElement = []byte(\"\\000\\000\\000#\")"}}},
		variant{Name: "c03-resolver-map-prefix-changed", Props: []string{"C03"}, Expect: []string{"C03.markers|map-type-prefixes"},
			Edits: []edit{{loc, "\treturn r.findLocation(q, []byte{0, 'M'}, &ipnet)", "\treturn r.findLocation(q, []byte{0, 'N'}, &ipnet)"}}},
		variant{Name: "c03-prefixset-key-changed", Props: []string{"C03"}, Expect: []string{"C03.markers|prefix-set-key|maskLensKeyElementv4"},
			Edits: []edit{{data, "\t\tmakeMapRecord([]byte(\"\\0004\"), r.v4prefixset),", "\t\tmakeMapRecord([]byte(\"\\0005\"), r.v4prefixset),"}}},
		variant{Name: "c03-wildcard-suffix-changed", Props: []string{"C03"}, Expect: []string{"C03.markers|map-key-suffix|wildcard"},
			Edits: []edit{{data, "\t\tdomain = domain[2:]\n\t\tsuffix = \"*\"", "\t\tdomain = domain[2:]\n\t\tsuffix = \"+\""}}},
		variant{Name: "c03-rdb-key-offset", Props: []string{"C03"}, Expect: []string{"C03.layout|(*db.rdbdriver).GetLocationByMap|key=4+2+16+1"},
			Edits: []edit{{rdbd, "\tcopy(fullKey[6:], ip.To16())", "\tcopy(fullKey[5:], ip.To16())"}}},
		variant{Name: "c03-rangepoint-key-without-length-byte", Props: []string{"C03"}, Expect: []string{"C03.layout|Rrangepoint.MarshalMap|key-width"},
			Edits: []edit{{data, "\t\tmlen := pt.MaskLen()\n\t\tk.Write([]byte{mlen})\n", "\t\tmlen := pt.MaskLen()\n\t\t_ = mlen\n"}}},
		variant{Name: "c03-rdb-v4-offset-removed", Props: []string{"C03"}, Expect: []string{"C03.v4offset|(*db.rdbdriver).GetLocationByMap|offset-96"},
			Edits: []edit{{rdbd, "\t\treqMaskLen += 128 - 32\n", "\t\treqMaskLen += 0\n"}}},
		variant{Name: "c03-cdb-v4-offset-wrong", Props: []string{"C03"}, Expect: []string{"C03.v4offset|(*db.cdbdriver).GetLocationByMap|offset-96"},
			Edits: []edit{{cdbd, "\t\tmaxMask += 96\n", "\t\tmaxMask += 98\n"}}},
		variant{Name: "c03-default-route-by-address-only(F12)", Props: []string{"C03"}, Expect: []string{"C03.default-route|(*dnsdata.Rearranger).AddLocation|"},
			Edits: []edit{{"dnsdata/rearranger.go", "\t} else if firstIPv4.EqualToNetIP(ipnet.IP.To16()) && maskLen == maskBits-8*net.IPv4len {", "\t} else if firstIPv4.EqualToNetIP(ipnet.IP.To16()) {"}}},
		variant{Name: "c03-prefix-lengths-ascending", Props: []string{"C03"}, Expect: []string{"C03.desc|"},
			Edits: []edit{{data, "\t\tfor i := 128; i >= 0; i-- {", "\t\tfor i := 0; i <= 128; i++ {"}}},
		variant{Name: "c03-cdb-first-loop-flag-inverted", Props: []string{"C03"}, Expect: []string{"C03.exact-first|(*db.cdbdriver).FindMap"},
			Edits: []edit{{cdbd, "\t\tif !firstLoop {\n\t\t\tk = append(k[:dlen], wildcardKeyElement...)\n\t\t} else {\n\t\t\tk = append(k[:dlen], exactMatchKeyElement...)\n\t\t}\n\t\tc.FindStart(context)", "\t\tif firstLoop {\n\t\t\tk = append(k[:dlen], wildcardKeyElement...)\n\t\t} else {\n\t\t\tk = append(k[:dlen], exactMatchKeyElement...)\n\t\t}\n\t\tc.FindStart(context)"}}},
		variant{Name: "c03-cdb-first-loop-flag-never-cleared", Props: []string{"C03"}, Expect: []string{"C03.exact-first|(*db.cdbdriver).FindMap"},
			Edits: []edit{{cdbd, "\t\tdomain = domain[1+domain[0]:]\n\t\tfirstLoop = false\n\t}\n}\n\n// GetLocationByMap", "\t\tdomain = domain[1+domain[0]:]\n\t}\n}\n\n// GetLocationByMap"}}},
		variant{Name: "c03-cdb-no-max-mask-test", Props: []string{"C03"}, Expect: []string{"C03.maxmask|(*db.cdbdriver).GetLocationByMap|length<=client-prefix"},
			Edits: []edit{{cdbd, "\t\tif mask > maxMask || mask < minMask {", "\t\tif mask < minMask {"}}},
		variant{Name: "c03-cdb-no-family-floor(F7)", Props: []string{"C03"}, Expect: []string{"C03.maxmask|(*db.cdbdriver).GetLocationByMap|length>=family-offset"},
			Edits: []edit{{cdbd, "\t\tif mask > maxMask || mask < minMask {", "\t\tif mask > maxMask || minMask > 200 {"}}},
		variant{Name: "c03-rdb-address-unmasked(F15)", Props: []string{"C03"}, Expect: []string{"C03.masked|"},
			Edits: []edit{{rdbd, "\tip := ipnet.IP.Mask(ipnet.Mask)\n\tif ip == nil {\n\t\t// address and mask of different families: nothing sensible to mask\n\t\tip = ipnet.IP\n\t}\n", "\tip := ipnet.IP\n"}}},
		variant{Name: "c03-rdb-found-key-unchecked(F13)", Props: []string{"C03", "C02"}, Expect: []string{"C03.found-prefix|(*db.rdbdriver).GetLocationByMap", "C02.found-prefix|(*db.rdbdriver).GetLocationByMap"},
			Edits: []edit{{rdbd, "\tif len(foundKey) != len(fullKey) || !bytes.Equal(foundKey[:6], fullKey[:6]) {\n\t\t// the closest preceding key is not a range point of this map: no location\n\t\treturn nil, 0, nil\n\t}\n", ""}}},
		// C02
		variant{Name: "c02-get-serves-predecessor(F4)", Props: []string{"C02", "C04"}, Expect: []string{"C02.cache-exact|(*dnsdata/rdb.RDB).get|exact-get-compares-found-key", "C04.cache-exact|(*dnsdata/rdb.RDB).get|exact-get-compares-found-key"},
			Edits: []edit{{"dnsdata/rdb/rdb.go", "\t\tif !bytes.Equal(cachedEntry.key, key) {\n\t\t\t// cached by a closest key search which found only a preceding key:\n\t\t\t// the key itself does not exist\n\t\t\treturn nil, nil\n\t\t}\n", ""}}},
		variant{Name: "c02-get-caches-callers-buffer", Props: []string{"C02"}, Expect: []string{"C02.cache-exact|(*dnsdata/rdb.RDB).get|entry-owns-its-key"},
			Edits: []edit{{"dnsdata/rdb/rdb.go", "\t\tctx.update(key, copyBytes(key), data)", "\t\tctx.update(key, key, data)"}}},
		variant{Name: "c02-findmap-common-prefix-for-same-name(F5)", Props: []string{"C02"}, Expect: []string{"C02.cursor|(*db.rdbdriver).findMapInSortedData"},
			Edits: []edit{{rdbd, "\t\tif bytes.Equal(k[prefixLen:prefixLen+currentLength], foundLabel) {\n\t\t\t// closest key is the same name with another suffix (its wildcard map):\n\t\t\t// it does not cover the name itself, strip exactly one label\n\t\t\tlength = getLengthWithoutLastLabel(reversedZone, currentLength) - 1\n\t\t} else {\n\t\t\tlength = findCommonLongestPrefix(reversedZone, foundLabel)\n\t\t}\n", "\t\tlength = findCommonLongestPrefix(reversedZone, foundLabel)\n"}}},
		variant{Name: "c02-find-common-prefix-for-same-name", Props: []string{"C02"}, Expect: []string{"C02.cursor|(*db.sortedDataReader).find"},
			Edits: []edit{{srt, "\t\tif bytes.Equal(reversedQName[:qLength-1], foundLabel[:len(foundLabel)-1]) {\n\t\t\tqLength = getLengthWithoutLastLabel(reversedQName, qLength)\n\t\t} else {\n\t\t\tqLength = findCommonLongestPrefix(reversedQName, foundLabel) + 1 // +1 for terminating \\0\n\t\t}", "\t\tqLength = findCommonLongestPrefix(reversedQName, foundLabel) + 1 // +1 for terminating \\0\n\t\tif qLength > len(reversedQName) {\n\t\t\tqLength = getLengthWithoutLastLabel(reversedQName, len(reversedQName))\n\t\t}"}}},
		variant{Name: "c02-feature-bit-mismatch", Props: []string{"C02"}, Expect: []string{"C02.feature|(*dnsdata/rdb.RDB).IsV2KeySyntaxUsed"},
			Edits: []edit{{"dnsdata/rdb/rdb.go", "\treturn feature&dnsdata.V2KeysFeature > 0", "\treturn feature&dnsdata.V1KeysFeature > 0"}}},
		variant{Name: "c02-feature-decode-big-endian", Props: []string{"C02"}, Expect: []string{"C02.feature|feature-codec|same-order-and-width"},
			Edits: []edit{{data, "\treturn Feature(binary.LittleEndian.Uint32(data))", "\treturn Feature(binary.BigEndian.Uint32(data))"}}},
		variant{Name: "c02-sorted-reader-private-stop(seed-c02b)", Props: []string{"C02", "C01"}, Expect: []string{"C02.siblings|(*db.sortedDataReader).FindAnswer|post|no-private-stop-condition"},
			Edits: []edit{{srt, "\t\tif recordFound {\n\t\t\treturn false\n\t\t}\n\n\t\twildcard = true", "\t\tif recordFound {\n\t\t\treturn false\n\t\t}\n\t\tif wildcard && len(a.Answer) > 0 {\n\t\t\treturn false\n\t\t}\n\n\t\twildcard = true"}}},
		// C04
		variant{Name: "c04-v1-untagged-lookup-removed", Props: []string{"C04"}, Expect: []string{"C04.untagged|(*db.DataReader).FindAnswer|untagged-lookup"},
			Edits: []edit{{"db/answer.go", "\t\tnonLocalQ := append(EmptyLocation.LocID[:], q[:]...)\n\t\terr = r.ForEach(nonLocalQ, parseResult)\n\t\tif err != nil {\n\t\t\tglog.Errorf(\"%v\", err)\n\t\t}\n", "\t\tif loc.LocID == EmptyLocation.LocID {\n\t\t\tnonLocalQ := append(EmptyLocation.LocID[:], q[:]...)\n\t\t\terr = r.ForEach(nonLocalQ, parseResult)\n\t\t\tif err != nil {\n\t\t\t\tglog.Errorf(\"%v\", err)\n\t\t\t}\n\t\t}\n"}}},
		variant{Name: "c04-isauth-untagged-skipped-when-ns-only(seed-c01b)", Props: []string{"C04"}, Expect: []string{"C04.untagged|(*db.DataReader).IsAuthoritative|untagged-lookup"},
			Edits: []edit{{"db/answer.go", "\t\tif !(auth && ns) {\n\t\t\tnonLocalQ", "\t\tif !ns {\n\t\t\tnonLocalQ"}}},
		variant{Name: "c04-sorted-untagged-retry-removed", Props: []string{"C04"}, Expect: []string{"C04.untagged|(*db.sortedDataReader).find|untagged-retry"},
			Edits: []edit{{srt, "\t\t\tcopy(key[locationStart:], EmptyLocation.LocID[:])\n\n\t\t\tk, err = r.TryForEach(key, parseResult)\n\t\t\tif err != nil {\n\t\t\t\tbreak\n\t\t\t}\n", "\t\t\t_ = k\n"}}},
		variant{Name: "c04-key-from-constant-location", Props: []string{"C04"}, Expect: []string{"C04.keyloc|(*db.DataReader).IsAuthoritative|location-from-parameter-or-empty"},
			Edits: []edit{{"db/answer.go", "\t\t\tlocalQ := append(loc.LocID[:], zoneCut...)\n", "\t\t\tdefLoc := Location{LocID: [2]byte{0, 1}}\n\t\t\tlocalQ := append(defLoc.LocID[:], zoneCut...)\n"}}},
		variant{Name: "c04-cache-key-unpadded", Props: []string{"C04"}, Expect: []string{"C04.cache-key|"},
			Edits: []edit{{"dnsserver/handler.go", "fmt.Sprintf(\"%.3d%.3d%.3d%s\", loc.LocID, state.QType(), state.QClass(), state.Name())", "fmt.Sprintf(\"%d%d%d%s\", loc.LocID, state.QType(), state.QClass(), state.Name())"}}},
		variant{Name: "benign-cache-key-helper-fixed-width", Props: []string{"C04", "C12"}, Benign: true,
			Edits: []edit{{"dnsserver/handler.go", "\t\tcacheKey = fmt.Sprintf(\"%.3d%.3d%.3d%s\", loc.LocID, state.QType(), state.QClass(), state.Name())\n", "\t\tcacheKey = makeCacheKey(loc.LocID, state.QType(), state.QClass(), state.Name())\n"},
				{"dnsserver/handler.go", "func typeToStatsKey(qtype uint16) string {", "func makeCacheKey(loc [2]byte, qtype, qclass uint16, name string) string {\n\treturn fmt.Sprintf(\"%03d%03d/%05d/%05d/%s\", loc[0], loc[1], qtype, qclass, name)\n}\n\nfunc typeToStatsKey(qtype uint16) string {"}}},
	)
}
