package main

// fields.go — the struct fields of the pinned tree (tool/baseline_fields.txt). An anchor names a field; when the field
// is gone but the struct has lost exactly one baseline field and gained exactly one new field, the new field is the
// old one renamed (or re-typed: a bool flag turned into an atomic word) and the anchor follows it.

import (
	_ "embed"
	"go/types"
	"sort"
	"strings"
)

//go:embed baseline_fields.txt
var baselineFieldsTxt string

var baselineFields = func() map[string]map[string]bool {
	m := map[string]map[string]bool{}
	for _, l := range strings.Split(baselineFieldsTxt, "\n") {
		p := strings.Split(strings.TrimSpace(l), "\t")
		if len(p) != 3 || strings.HasPrefix(l, "#") {
			continue
		}
		k := p[0] + "." + p[1]
		if m[k] == nil {
			m[k] = map[string]bool{}
		}
		m[k][p[2]] = true
	}
	return m
}()

func renamedField(st *types.Struct, pkg, typ, field string) *types.Var {
	base := baselineFields[pkg+"."+typ]
	if base == nil || !base[field] {
		return nil
	}
	cur := map[string]bool{}
	var added []*types.Var
	for i := 0; i < st.NumFields(); i++ {
		cur[st.Field(i).Name()] = true
		if !base[st.Field(i).Name()] {
			added = append(added, st.Field(i))
		}
	}
	missing := 0
	for n := range base {
		if !cur[n] {
			missing++
		}
	}
	if missing == 1 && len(added) == 1 {
		return added[0]
	}
	return nil
}

func dumpFields(p *Prog) []string {
	var out []string
	for short, pk := range p.Pkgs {
		sc := pk.Types.Scope()
		for _, n := range sc.Names() {
			tn, ok := sc.Lookup(n).(*types.TypeName)
			if !ok {
				continue
			}
			st, ok := tn.Type().Underlying().(*types.Struct)
			if !ok {
				continue
			}
			for i := 0; i < st.NumFields(); i++ {
				out = append(out, short+"\t"+n+"\t"+st.Field(i).Name())
			}
		}
	}
	sort.Strings(out)
	return out
}
