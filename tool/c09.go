package main

import (
	"fmt"
	"go/constant"
	"go/token"
	"go/types"
	"sort"
	"strings"

	"golang.org/x/tools/go/ssa"
)

func init() {
	register(&propDef{
		ID:          "C09",
		Title:       "The text normal form and preprocessing preserve meaning",
		Run:         runC09,
		Explanation: "Structural necessary conditions of a faithful text normal form, decided on SSA: (fieldtable) for every record type with both UnmarshalText and MarshalText, each struct field assigned from input field f[i] is read when output position i is written (counting separator writes), including flags that only guard a write such as the wildcard prefix; (prefix) every record prefix constant has a constructor case and the type it constructs prints that prefix first; (preproc) the preprocessor leaves a scanned line out only as blank/comment, as a '%' line after accumulating it, or by failing; SOA lines are re-serialised from the decoded record; (rangepoint) the ±96 text offset of range points is applied under the same condition in both directions. Byte-level round trips and the escaping of field contents are not decided.",
	})
}

func runC09(c *Ctx) {
	c09FieldTable(c)
	c09Numeric(c)
	c09Prefix(c)
	c09Preproc(c)
	c09RangePoint(c)
	c09RangePointAll(c)
	c09DefaultsExplicit(c)
	lineVerbatim(c, "C09.line-verbatim", "dnsdata", "(*PreprocReader).Scan")
	handoverRule(c, "C09.handover", "dnsdata")
	c09V4Predicate(c, "C09")
	c09KeyInputReadonly(c)
	// the normal form is written with Bquote and read back with Bunquote: a value that does not survive unquoting
	// does not compile to the same bytes (seed c09e)
	c.importRules(runC17, "C17", map[string]string{"unquote-multibyte": "unquote-multibyte", "escapes": "quote-escapes"})
}

// relPath: access path of an address relative to the receiver root name ("" if not rooted there).
func relPathTo(v ssa.Value, root string) string {
	p := pathOf(v)
	if p == root {
		return "."
	}
	if strings.HasPrefix(p, root+".") {
		return strings.TrimPrefix(p, root+".")
	}
	return ""
}

func joinPath(prefix, p string) string {
	if prefix == "" || prefix == "." {
		return p
	}
	if p == "." {
		return prefix
	}
	return prefix + "." + p
}

// leafOf strips embedded struct names so that "Rns1.rshared.dom" and a promoted "Rns1.dom" compare equal: keeps the
// explicit sub-record names (capitalised record types) and the final field.
func normPath(p string) string {
	parts := strings.Split(p, ".")
	var out []string
	for i, s := range parts {
		if i < len(parts)-1 && s == "rshared" {
			continue
		}
		out = append(out, s)
	}
	return strings.Join(out, ".")
}

// parseTable: input field index -> receiver field paths assigned from it.
func parseTable(c *Ctx, fn *ssa.Function, prefix string, out map[int]map[string]bool, depth int) {
	if fn == nil || fn.Blocks == nil || depth > 3 {
		return
	}
	c.Examined(fn)
	recv := fn.Params[0]
	root := recv.Name()
	record := func(i int, addr ssa.Value) bool {
		rp := relPathTo(addr, root)
		if rp == "" {
			return false
		}
		if out[i] == nil {
			out[i] = map[string]bool{}
		}
		out[i][normPath(joinPath(prefix, rp))] = true
		return true
	}
	// the fields slice: result of fields(text), or a [][]byte parameter
	var fvals []ssa.Value
	for _, ci := range callInstrs(fn) {
		if sf := ci.Common().StaticCallee(); sf != nil && sf.Name() == "fields" {
			if v, ok := ci.(ssa.Value); ok {
				fvals = append(fvals, v)
			}
		}
	}
	for _, p := range fn.Params[1:] {
		if sl, ok := p.Type().Underlying().(*types.Slice); ok && isByteSlice(sl.Elem()) {
			fvals = append(fvals, p)
		}
	}
	isF := func(v ssa.Value) bool {
		for _, f := range fvals {
			if v == f {
				return true
			}
		}
		return false
	}
	type item struct {
		v ssa.Value
		i int
	}
	var work []item
	seen := map[item]bool{}
	push := func(v ssa.Value, i int) {
		it := item{v, i}
		if v != nil && !seen[it] {
			seen[it] = true
			work = append(work, it)
		}
	}
	for _, b := range fn.Blocks {
		for _, in := range b.Instrs {
			ia, ok := in.(*ssa.IndexAddr)
			if !ok || !isF(ia.X) {
				continue
			}
			k, isK := constInt(ia.Index)
			if !isK {
				continue
			}
			for _, r := range *ia.Referrers() {
				if u, ok := r.(*ssa.UnOp); ok && u.Op == token.MUL {
					push(u, int(k))
				}
			}
		}
	}
	taintLocal := func(a *ssa.Alloc, i int) {
		for _, r := range *a.Referrers() {
			if u, ok := r.(*ssa.UnOp); ok && u.Op == token.MUL {
				push(u, i)
			}
		}
	}
	for len(work) > 0 {
		it := work[len(work)-1]
		work = work[:len(work)-1]
		refs := it.v.Referrers()
		if refs == nil {
			continue
		}
		for _, r := range *refs {
			switch x := r.(type) {
			case *ssa.Convert:
				push(x, it.i)
			case *ssa.ChangeType:
				push(x, it.i)
			case *ssa.MakeInterface:
				push(x, it.i)
			case *ssa.Slice:
				push(x, it.i)
			case *ssa.Phi:
				push(x, it.i)
			case *ssa.Extract:
				push(x, it.i)
			case *ssa.BinOp:
				push(x, it.i)
			case *ssa.Store:
				if x.Val != it.v {
					continue
				}
				if a, ok := x.Addr.(*ssa.Alloc); ok {
					taintLocal(a, it.i)
				} else {
					record(it.i, x.Addr)
				}
			case *ssa.Call:
				args := x.Call.Args
				for k, a := range args {
					if a == it.v {
						continue
					}
					switch y := a.(type) {
					case *ssa.Alloc:
						if _, isPtr := y.Type().(*types.Pointer); isPtr && k > 0 {
							taintLocal(y, it.i)
						}
					case *ssa.FieldAddr:
						record(it.i, y)
					}
				}
				push(x, it.i)
			}
		}
	}
	// delegation: the fields slice or the text parameter handed to another method of (part of) the receiver
	for _, ci := range callInstrs(fn) {
		sf := ci.Common().StaticCallee()
		if sf == nil || sf.Blocks == nil || sf.Signature.Recv() == nil || len(ci.Common().Args) < 2 {
			continue
		}
		if !(sf.Name() == "UnmarshalText" || strings.HasPrefix(sf.Name(), "unmarshal")) {
			continue
		}
		passes := false
		for _, a := range ci.Common().Args[1:] {
			if isF(a) {
				passes = true
			}
			if p, ok := a.(*ssa.Parameter); ok && isByteSlice(p.Type()) {
				passes = true
			}
		}
		if !passes {
			continue
		}
		rp := relPathTo(ci.Common().Args[0], root)
		if rp == "" {
			continue
		}
		parseTable(c, sf, joinPath(prefix, rp), out, depth+1)
	}
}

// printTable: output position -> receiver field paths read while that position is written.
func printTable(c *Ctx, fn *ssa.Function, prefix string, out map[int]map[string]bool, depth int) {
	if fn == nil || fn.Blocks == nil || depth > 3 {
		return
	}
	c.Examined(fn)
	recv := fn.Params[0]
	root := recv.Name()
	// delegation: return (*T)(r).MarshalText()
	for _, ci := range callInstrs(fn) {
		sf := ci.Common().StaticCallee()
		if sf != nil && sf.Name() == "MarshalText" && sf.Blocks != nil && len(ci.Common().Args) == 1 && sf != fn {
			if rp := relPathTo(ci.Common().Args[0], root); rp == "." {
				printTable(c, sf, prefix, out, depth+1)
				return
			}
		}
	}
	isSepWrite := func(ci ssa.CallInstruction) bool {
		for _, a := range ci.Common().Args {
			for s := range sourcesOf(a) {
				if u, ok := s.(*ssa.UnOp); ok {
					if g, ok := u.X.(*ssa.Global); ok && g.Name() == "NSEP" {
						return true
					}
				}
			}
		}
		return false
	}
	// positions by dataflow
	in := map[*ssa.BasicBlock]map[int]bool{fn.Blocks[0]: {0: true}}
	posBefore := map[ssa.Instruction]map[int]bool{}
	for changed, iter := true, 0; changed && iter < 40; iter++ {
		changed = false
		for _, b := range fn.Blocks {
			cur := in[b]
			if cur == nil {
				continue
			}
			pos := map[int]bool{}
			for k := range cur {
				pos[k] = true
			}
			for _, x := range b.Instrs {
				ci, ok := x.(*ssa.Call)
				if !ok {
					continue
				}
				cp := map[int]bool{}
				for k := range pos {
					cp[k] = true
				}
				posBefore[x] = cp
				if isSepWrite(ci) {
					np := map[int]bool{}
					for k := range pos {
						np[k+1] = true
					}
					pos = np
				}
			}
			for _, s := range b.Succs {
				if in[s] == nil {
					in[s] = map[int]bool{}
				}
				for k := range pos {
					if !in[s][k] && len(in[s]) < 40 {
						in[s][k] = true
						changed = true
					}
				}
			}
		}
	}
	fieldsIn := func(v ssa.Value) []string {
		var outp []string
		for x := range backSlice(v, nil) {
			var addr ssa.Value
			switch y := x.(type) {
			case *ssa.Call:
				// one level of getter inlining: a module method called on (part of) the receiver reads these fields of it
				sf := y.Common().StaticCallee()
				if sf == nil || sf.Blocks == nil || sf.Signature.Recv() == nil || len(y.Call.Args) == 0 || sf.Pkg == nil || !c.isOurs(sf.Pkg.Pkg) {
					continue
				}
				base := relPathTo(y.Call.Args[0], root)
				if base == "" {
					continue
				}
				for _, gb := range sf.Blocks {
					for _, gi := range gb.Instrs {
						if fa, ok := gi.(*ssa.FieldAddr); ok {
							if rp := relPathTo(fa, sf.Params[0].Name()); rp != "" && rp != "." {
								outp = append(outp, normPath(joinPath(prefix, joinPath(base, rp))))
							}
						}
						if fv, ok := gi.(*ssa.Field); ok {
							if rp := pathOf(fv); strings.HasPrefix(rp, sf.Params[0].Name()+".") {
								outp = append(outp, normPath(joinPath(prefix, joinPath(base, strings.TrimPrefix(rp, sf.Params[0].Name()+".")))))
							}
						}
					}
				}
				continue
			case *ssa.FieldAddr:
				addr = y
			case *ssa.Field:
				if rp := pathOf(y); strings.HasPrefix(rp, root+".") {
					outp = append(outp, normPath(joinPath(prefix, strings.TrimPrefix(rp, root+"."))))
				}
				continue
			default:
				continue
			}
			if rp := relPathTo(addr, root); rp != "" && rp != "." {
				outp = append(outp, normPath(joinPath(prefix, rp)))
			}
		}
		return outp
	}
	for _, b := range fn.Blocks {
		for _, x := range b.Instrs {
			ci, ok := x.(*ssa.Call)
			if !ok || isSepWrite(ci) {
				continue
			}
			pos := posBefore[x]
			if pos == nil {
				continue
			}
			// does the call write to a buffer/writer? (any argument that is a *bytes.Buffer or io.Writer)
			writes := false
			for _, a := range ci.Call.Args {
				ts := a.Type().String()
				if strings.Contains(ts, "bytes.Buffer") || strings.Contains(ts, "io.Writer") {
					writes = true
				}
			}
			if ci.Call.IsInvoke() && ci.Call.Method.Name() == "Write" {
				writes = true
			}
			if !writes {
				continue
			}
			var fs []string
			for _, a := range ci.Call.Args {
				fs = append(fs, fieldsIn(a)...)
			}
			// guards: fields tested by the conditions under which this write happens
			for _, f := range factsAt(b) {
				fs = append(fs, fieldsIn(f.V)...)
			}
			for p := range pos {
				if out[p] == nil {
					out[p] = map[string]bool{}
				}
				for _, f := range fs {
					out[p][f] = true
				}
			}
		}
	}
}

func c09FieldTable(c *Ctx) {
	rule := "C09.fieldtable"
	c.Rule(rule, "A5: for each record type of package dnsdata that has both UnmarshalText and MarshalText (following unmarshalFields helpers, sub-record delegation and (*T)(r) conversions): every receiver field assigned from input field f[i] (forward dataflow from the load of f[i] through conversions, calls and locals into stores / address arguments rooted at the receiver) is read while output position i is written (position = number of separator writes so far; reads in the arguments of the write or in the conditions guarding it)")
	pk := c.Pkg("dnsdata")
	sc := pk.Types.Scope()
	var names []string
	for _, n := range sc.Names() {
		tn, ok := sc.Lookup(n).(*types.TypeName)
		if !ok {
			continue
		}
		if _, isStruct := tn.Type().Underlying().(*types.Struct); !isStruct {
			continue
		}
		names = append(names, n)
	}
	sort.Strings(names)
	nTypes, nPairs := 0, 0
	for _, n := range names {
		um := c.FuncOpt("dnsdata", "(*"+n+").UnmarshalText")
		mt := c.FuncOpt("dnsdata", "(*"+n+").MarshalText")
		if um == nil || mt == nil {
			continue
		}
		// methods promoted from an embedded type are analysed under the type that declares them
		if recvName(um) != n || recvName(mt) != n {
			continue
		}
		parsed := map[int]map[string]bool{}
		parseTable(c, um, "", parsed, 0)
		printed := map[int]map[string]bool{}
		printTable(c, mt, "", printed, 0)
		if len(parsed) == 0 {
			continue
		}
		nTypes++
		var idx []int
		for i := range parsed {
			idx = append(idx, i)
		}
		sort.Ints(idx)
		for _, i := range idx {
			var fs []string
			for f := range parsed[i] {
				fs = append(fs, f)
			}
			sort.Strings(fs)
			for _, f := range fs {
				nPairs++
				ok := printed[i][f]
				where := []string{}
				if !ok {
					for p, m := range printed {
						if m[f] {
							where = append(where, fmt.Sprint(p))
						}
					}
				}
				detail := fmt.Sprintf("field %s is parsed from input field %d and printed at output position %d", f, i, i)
				if !ok {
					if len(where) == 0 {
						detail = fmt.Sprintf("field %s is parsed from input field %d but never printed: it is lost when the record is re-serialised", f, i)
					} else {
						detail = fmt.Sprintf("field %s is parsed from input field %d but printed at position(s) %v", f, i, where)
					}
				}
				c.Check(rule, fmt.Sprintf("%s|f[%d]→%s", n, i, f), ok, mt.Pos(), detail)
			}
		}
	}
	c.Note("C09.fieldtable: %d record types, %d (index, field) pairs", nTypes, nPairs)
	if nTypes < 12 || nPairs < 60 {
		c.Undecided(rule, "floor", token.NoPos, fmt.Sprintf("only %d record types / %d (index, field) pairs analysed", nTypes, nPairs))
	}
}

func recvName(fn *ssa.Function) string {
	if fn.Signature.Recv() == nil {
		return ""
	}
	t := fn.Signature.Recv().Type()
	if p, ok := t.(*types.Pointer); ok {
		t = p.Elem()
	}
	if n, ok := t.(*types.Named); ok {
		return n.Obj().Name()
	}
	return ""
}

func c09Prefix(c *Ctx) {
	rule := "C09.prefix"
	c.Rule(rule, "A4: every prefix* constant except the comment prefix is the tag of a case in the record constructor (newRecord / decodeRtype switch), and the MarshalText of the type constructed for prefix P writes P before anything else")
	pk := c.Pkg("dnsdata")
	sc := pk.Types.Scope()
	prefixes := map[string]string{} // name -> value
	for _, n := range sc.Names() {
		if !strings.HasPrefix(n, "prefix") {
			continue
		}
		switch o := sc.Lookup(n).(type) {
		case *types.Const:
			if o.Val().Kind() == constant.String {
				prefixes[n] = constant.StringVal(o.Val())
			} else {
				prefixes[n] = strings.Trim(o.Val().ExactString(), "\"")
			}
		case *types.Var:
			if s, ok := globalBytes(c, "dnsdata", n); ok {
				prefixes[n] = s
			}
		}
	}
	if len(prefixes) < 15 {
		c.Undecided(rule, "prefix-constants", token.NoPos, fmt.Sprintf("only %d prefix constants found", len(prefixes)))
		return
	}
	// the constructor: the function that switches on the first byte and allocates record types
	var ctor *ssa.Function
	for _, fn := range c.OurFuncs("dnsdata") {
		allocs := 0
		for _, b := range fn.Blocks {
			for _, in := range b.Instrs {
				if a, ok := in.(*ssa.Alloc); ok && a.Heap {
					if n, isN := a.Type().(*types.Pointer).Elem().(*types.Named); isN && strings.HasPrefix(n.Obj().Name(), "R") && n.Obj().Pkg() == pk.Types {
						allocs++
					}
				}
			}
		}
		if allocs >= 12 && (ctor == nil || fn.Pos() < ctor.Pos()) {
			ctor = fn
		}
	}
	if ctor == nil {
		c.Undecided(rule, "constructor", token.NoPos, "record constructor (switch over prefixes) not found")
		return
	}
	c.Examined(ctor)
	// which constants does it compare the first byte with, and what does it allocate in that arm
	armType := map[string]string{} // prefix value -> type name
	for _, b := range ctor.Blocks {
		for _, in := range b.Instrs {
			a, ok := in.(*ssa.Alloc)
			if !ok || !a.Heap {
				continue
			}
			n, isN := a.Type().(*types.Pointer).Elem().(*types.Named)
			if !isN || n.Obj().Pkg() != pk.Types {
				continue
			}
			for _, f := range factsAt(b) {
				cmp, isB := f.V.(*ssa.BinOp)
				if !isB || cmp.Op != token.EQL || !f.Truth {
					continue
				}
				if k, isK := constInt(cmp.Y); isK {
					armType[string(rune(k))] = n.Obj().Name()
				}
				if s, isS := stringConst(cmp.Y); isS {
					armType[s] = n.Obj().Name()
				}
			}
		}
	}
	var pn []string
	for n := range prefixes {
		pn = append(pn, n)
	}
	sort.Strings(pn)
	for _, n := range pn {
		v := prefixes[n]
		if n == "prefixComment" || v == "#" {
			continue
		}
		typ, has := armType[v]
		c.Check(rule, n+"|has-constructor-case", has, ctor.Pos(), fmt.Sprintf("prefix %q constructs %s", v, typ))
		if !has {
			continue
		}
		mt := c.FuncOpt("dnsdata", "(*"+typ+").MarshalText")
		if mt == nil {
			continue
		}
		// first write of MarshalText (following the (*T)(r) delegation) emits the prefix
		target := mt
		for _, ci := range callInstrs(mt) {
			if sf := ci.Common().StaticCallee(); sf != nil && sf.Name() == "MarshalText" && sf != mt && len(ci.Common().Args) == 1 && relPathTo(ci.Common().Args[0], mt.Params[0].Name()) == "." {
				target = sf
			}
		}
		lits := byteLiteralsOf(target)
		ok := lits[v]
		if !ok {
			// string(prefixX) conversions of the constant/variable
			for _, b := range target.Blocks {
				for _, in := range b.Instrs {
					if cv, isC := in.(*ssa.Convert); isC {
						for s := range sourcesOf(cv.X) {
							if u, isU := s.(*ssa.UnOp); isU {
								if g, isG := u.X.(*ssa.Global); isG && g.Name() == n {
									ok = true
								}
							}
							if k, isK := constInt(s); isK && string(rune(k)) == v {
								ok = true
							}
						}
					}
				}
			}
		}
		c.Check(rule, n+"|"+typ+".MarshalText-writes-it", ok, mt.Pos(), fmt.Sprintf("the normal form of a %q record starts with %q", v, v))
	}
}

func c09Preproc(c *Ctx) {
	rule := "C09.preproc"
	c.Rule(rule, "A2 in PreprocReader.Scan: inside the scan loop a line is left out (control returns to the loop head) only through the true edge of the blank/comment test or through the NoRnetOutput edge after the '%' line was decoded successfully; a decode/normalise error is stored in the reader before returning false; what is emitted as the current line is the scanned bytes unchanged or the MarshalText of the decoded record; the accumulator scanner is opened only after the input scanner is exhausted")
	fn := c.Func("dnsdata", "(*PreprocReader).Scan")
	c.Examined(fn)
	// the scan loop
	var loop *sliceLoop
	for h, body := range naturalLoops(fn) {
		iff, ok := h.Instrs[len(h.Instrs)-1].(*ssa.If)
		if !ok {
			continue
		}
		call, isCall := iff.Cond.(*ssa.Call)
		if !isCall {
			continue
		}
		if f := calleeOf(call.Common()); f == nil || f.Name() != "Scan" {
			continue
		}
		var entry *ssa.BasicBlock
		for _, s := range h.Succs {
			if body[s] && s != h {
				entry = s
			}
		}
		if entry != nil {
			loop = &sliceLoop{h, body, entry}
		}
	}
	if loop == nil {
		c.Undecided(rule, fnName(fn)+"|scan-loop", fn.Pos(), "scan loop not found")
		return
	}
	var decodes []*ssa.Call
	for _, ci := range callInstrs(fn) {
		if f := calleeOf(ci.Common()); f != nil && f.Name() == "DecodeLn" {
			if call, ok := ci.(*ssa.Call); ok {
				decodes = append(decodes, call)
			}
		}
	}
	fNoOut := c.Field("dnsdata", "Codec", "NoRnetOutput")
	allowed := map[[2]int]bool{}
	for b := range loop.Body {
		iff, ok := b.Instrs[len(b.Instrs)-1].(*ssa.If)
		if !ok {
			continue
		}
		var fs []fact
		condImplies(iff.Cond, true, 0, &fs)
		for _, f := range fs {
			if call, isCall := f.V.(*ssa.Call); isCall && f.Truth {
				if g := calleeOf(call.Common()); g != nil && g.Name() == "isIgnored" {
					allowed[[2]int{b.Index, 0}] = true
				}
			}
			if f.Truth && isFieldLoad(f.V, fNoOut) {
				// only after the line was decoded (accounted in the accumulator) without error
				for _, d := range decodes {
					if dominatedByNilEdge(iff, func(v ssa.Value) bool { cl, idx := callOfValue(v); return cl == d && idx == 1 }) {
						allowed[[2]int{b.Index, 0}] = true
					}
				}
			}
		}
	}
	skip := bodyCanSkip(*loop, nil, allowed)
	if skip {
		// per path (the verdict on a line may be carried in a flag that is branched on later): every way back to the
		// loop head took the ignored-line outcome, or the NoRnetOutput outcome after a decode whose error was nil
		if paths, ok := loopIterationPaths(loop.Header, loop.Entry, loop.Body, nil, 128); ok {
			skip = false
			for _, fs := range paths {
				ignored, noOut, decoded := false, false, false
				for _, f := range fs {
					if call, isCall := f.V.(*ssa.Call); isCall && f.Truth {
						if g := calleeOf(call.Common()); g != nil && g.Name() == "isIgnored" {
							ignored = true
						}
					}
					if f.Truth && isFieldLoad(f.V, fNoOut) {
						noOut = true
					}
					if x, trueNil, isNil := nilTest(f.V); isNil && trueNil == f.Truth {
						for _, d := range decodes {
							if cl, idx := callOfValue(x); cl == d && idx == 1 {
								decoded = true
							}
						}
					}
				}
				if !(ignored || (noOut && decoded)) {
					skip = true
				}
			}
		}
	}
	c.Check(rule, fnName(fn)+"|line-dropped-only-as-ignored-or-accounted-subnet", !skip, fn.Pos(), "every other line is emitted or makes the preprocessor fail")
	// errors stored
	fErr := c.Field("dnsdata", "PreprocReader", "err")
	for i, d := range decodes {
		ok := false
		for _, st := range storesToField(fn, fErr) {
			for v := range backSlice(st.Val, nil) {
				if ex, isEx := v.(*ssa.Extract); isEx && ex.Tuple == ssa.Value(d) && ex.Index == 1 {
					ok = true
				}
			}
		}
		c.Check(rule, fmt.Sprintf("%s|decode#%d|error-stored", fnName(fn), i), ok, d.Pos(), "a line the codec rejects stops the preprocessor with that error")
	}
	// one DecodeLn per kind, or one shared by both kinds: decided by the facts under which a decode runs — a decode
	// that runs only for one of the two prefixes (its block knows "rtype == X" for a single X) does not cover the other
	kindsCovered := 0
	for _, d := range decodes {
		eq := 0
		for _, f := range factsAt(d.Block()) {
			if b, isB := f.V.(*ssa.BinOp); isB && ((b.Op == token.EQL && f.Truth) || (b.Op == token.NEQ && !f.Truth)) {
				if call := isCallToFunc(b.X, "", "decodeRtype"); call != nil || isCallToFunc(b.Y, "", "decodeRtype") != nil {
					eq++
				}
			}
		}
		if eq > 0 {
			kindsCovered++
		} else {
			kindsCovered += 2 // not tied to one prefix: shared by the kinds that reach it
		}
	}
	if kindsCovered < 2 {
		c.Check(rule, fnName(fn)+"|decodes-subnet-and-soa-lines", false, fn.Pos(), fmt.Sprintf("%d DecodeLn calls: '%%' lines must be accounted in the accumulator and SOA lines normalised", len(decodes)))
	}
	// what is emitted
	fCur := c.Field("dnsdata", "PreprocReader", "currentLine")
	nst := 0
	okEmit := true
	var kinds []string
	for _, st := range storesToField(fn, fCur) {
		if !loop.Body[st.Block()] && !reachable(loop.Entry, nil)[st.Block()] {
			continue
		}
		if !reachable(loop.Entry, map[*ssa.BasicBlock]bool{loop.Header: true})[st.Block()] {
			continue
		}
		nst++
		// the value on each way into the store (a result variable assigned per case and stored once)
		vals := map[ssa.Value]bool{}
		for _, p := range nearPaths(st, 64) {
			for s := range sourcesOf(p.value(st.Val)) {
				vals[s] = true
			}
		}
		if len(vals) == 0 {
			vals = sourcesOf(st.Val)
		}
		if len(vals) > 1 {
			nst++ // one store fed by several cases counts for as many
		}
		for s := range vals {
			cv, isCv := s.(*ssa.Convert)
			if !isCv {
				okEmit = false
				kinds = append(kinds, fmt.Sprintf("%T", s))
				continue
			}
			for src := range sourcesOf(cv.X) {
				cl, _ := callOfValue(src)
				name := "?"
				if cl != nil {
					if g := calleeOf(cl.Common()); g != nil {
						name = g.Name()
					}
				}
				kinds = append(kinds, name)
				if name != "Bytes" && name != "MarshalText" {
					okEmit = false
				}
			}
		}
	}
	sort.Strings(kinds)
	c.Check(rule, fnName(fn)+"|emits-line-unchanged-or-normal-form", okEmit && nst >= 2, fn.Pos(), fmt.Sprintf("sources of the emitted line: %v (scanner.Bytes() unchanged, or MarshalText of the decoded record)", kinds))
	// accumulator scanner opened after input exhausted
	okAcc := false
	for _, ci := range callInstrs(fn) {
		if f := calleeOf(ci.Common()); f != nil && f.Name() == "OpenScanner" {
			okAcc = !loop.Body[ci.Block()] && loop.Header.Dominates(ci.Block())
		}
	}
	c.Check(rule, fnName(fn)+"|accumulator-after-input", okAcc, fn.Pos(), "derived subnet records are emitted after every input line was accounted")
}

func c09RangePoint(c *Ctx) {
	rule := "C09.rangepoint"
	c.Rule(rule, "the 96-bit text offset of range points is added in UnmarshalText and subtracted in MarshalText under the same pair of conditions: a location is present and the address is IPv4")
	conds := func(fn *ssa.Function, op token.Token) (map[string]bool, bool) {
		for _, b := range fn.Blocks {
			for _, in := range b.Instrs {
				bo, ok := in.(*ssa.BinOp)
				if !ok || bo.Op != op {
					continue
				}
				if k, isK := constInt(bo.Y); !isK || k != 96 {
					continue
				}
				out := map[string]bool{}
				for _, f := range factsAt(b) {
					for v := range backSlice(f.V, nil) {
						if call, isCall := v.(*ssa.Call); isCall {
							if g := calleeOf(call.Common()); g != nil {
								switch g.Name() {
								case "To4":
									out[fmt.Sprintf("IPv4=%v", true)] = true
								case "LocIsNull":
									out["location-present"] = true
								}
							}
						}
						if fa, isFA := v.(*ssa.FieldAddr); isFA && fieldName(fa.X.Type(), fa.Field) == "locIDIsNull" {
							out["location-present"] = true
						}
					}
				}
				return out, true
			}
		}
		return nil, false
	}
	um := c.Func("dnsdata", "(*Rrangepoint).UnmarshalText")
	mt := c.Func("dnsdata", "(*Rrangepoint).MarshalText")
	c.Examined(um)
	c.Examined(mt)
	a, okA := conds(um, token.ADD)
	b, okB := conds(mt, token.SUB)
	c.Check(rule, "Rrangepoint|offset-conditions-agree", okA && okB && strings.Join(keysOf(a), ",") == strings.Join(keysOf(b), ",") && len(a) == 2, um.Pos(), fmt.Sprintf("+96 under %v; −96 under %v", keysOf(a), keysOf(b)))
}

// c09Numeric: a field the parser reads as a number is printed as a number.
func c09Numeric(c *Ctx) {
	rule := "C09.numeric"
	c.Rule(rule, "in every MarshalText of package dnsdata, a value whose static type implements fmt.Stringer is only formatted with a numeric verb (%d, %x, ...) — never with Fprint/Sprint/%v/%s — because the corresponding UnmarshalText reads numbers (getuintN): a mnemonic in the normal form reparses as zero")
	n, nStr := 0, 0
	for _, fn := range c.OurFuncs("dnsdata") {
		if fn.Name() != "MarshalText" {
			continue
		}
		var bad []string
		for _, ci := range callInstrs(fn) {
			f := calleeOf(ci.Common())
			if f == nil || f.Pkg() == nil || f.Pkg().Path() != "fmt" {
				continue
			}
			args := ci.Common().Args
			format := ""
			first := 0
			switch f.Name() {
			case "Fprintf":
				format, _ = stringConst(args[1])
				first = 2
			case "Sprintf":
				format, _ = stringConst(args[0])
				first = 1
			case "Fprint", "Fprintln":
				first = 1
			case "Sprint", "Sprintln":
				first = 0
			default:
				continue
			}
			// variadic args: the slice literal elements
			var vals []ssa.Value
			if len(args) > first {
				for v := range backSlice(args[first], func(v ssa.Value) bool { _, isMI := v.(*ssa.MakeInterface); return isMI }) {
					if mi, ok := v.(*ssa.MakeInterface); ok {
						vals = append(vals, mi.X)
					}
				}
			}
			verbs := []byte{}
			for i := 0; i+1 < len(format); i++ {
				if format[i] == '%' {
					j := i + 1
					for j < len(format) && strings.ContainsRune("0123456789.+-# ", rune(format[j])) {
						j++
					}
					if j < len(format) && format[j] != '%' {
						verbs = append(verbs, format[j])
					}
					i = j
				}
			}
			for _, v := range vals {
				n++
				ms := types.NewMethodSet(v.Type())
				if ms.Lookup(nil, "String") == nil {
					continue
				}
				if _, isBasic := v.Type().Underlying().(*types.Basic); !isBasic {
					continue // only numeric kinds are read back with getuintN
				}
				nStr++
				numeric := format != ""
				for _, vb := range verbs {
					if !strings.ContainsRune("dxXobc", rune(vb)) {
						numeric = false
					}
				}
				if !numeric {
					bad = append(bad, fmt.Sprintf("%s printed by %s at %s", v.Type(), f.Name(), c.relPos(ci.Pos())))
				}
			}
		}
		if len(bad) > 0 || recvName(fn) == "Raux" {
			c.Check(rule, recvName(fn)+".MarshalText|numbers-printed-as-numbers", len(bad) == 0, fn.Pos(), fmt.Sprintf("Stringer-typed numeric values printed without a numeric verb: %v", bad))
		}
	}
	if nStr == 0 {
		c.Undecided(rule, "floor", token.NoPos, fmt.Sprintf("%d formatted values examined, none of a Stringer-typed numeric kind (the generic record's type field was expected)", n))
	}
}

// c09V4Predicate implements <prop>.v4-predicate: the text form of a range point subtracts 96 from the prefix length
// exactly when the address "is IPv4", while the address itself is printed and re-parsed by package net, which calls
// an address IPv4 only if all of its first 12 bytes match ::ffff:0:0/96. A private predicate that looks at fewer
// bytes disagrees with net on addresses such as 2001:db8::ffff:0:0 and the text no longer round-trips.
func c09V4Predicate(c *Ctx, prop string) {
	rule := prop + ".v4-predicate"
	c.Rule(rule, "every function of package dnsdata that turns a 16-byte address array into a net.IP \"if it is IPv4\" (result net.IP, receiver or parameter [16]byte) returns a non-nil result only through net.IP.To4, or under comparisons of all of the first 12 bytes of the array")
	n := 0
	for _, fn := range c.OurFuncs("dnsdata") {
		if fn.Signature.Results().Len() != 1 || fn.Signature.Results().At(0).Type().String() != "net.IP" {
			continue
		}
		var arr *ssa.Parameter
		for _, p := range fn.Params {
			if at, ok := p.Type().Underlying().(*types.Array); ok && at.Len() == 16 {
				arr = p
			}
		}
		if arr == nil || !strings.Contains(fn.Name(), "4") {
			continue
		}
		n++
		c.Examined(fn)
		for i, ret := range returnsOf(fn) {
			if isNilConst(ret.Results[0]) {
				continue
			}
			viaNet := false
			for v := range backSlice(ret.Results[0], nil) {
				if call, ok := v.(*ssa.Call); ok {
					if f := calleeOf(call.Common()); f != nil && f.Pkg() != nil && f.Pkg().Path() == "net" && funcShort(f) == "IP.To4" {
						viaNet = true
					}
				}
			}
			if viaNet {
				c.Check(rule, fmt.Sprintf("%s|return#%d", fnName(fn), i), true, ret.Pos(), "decided by net.IP.To4")
				continue
			}
			idx := map[int64]bool{}
			for _, cond := range controlConds(ret.Block()) {
				for v := range backSliceCtl(cond) {
					var base ssa.Value
					var ix ssa.Value
					switch x := v.(type) {
					case *ssa.IndexAddr:
						base, ix = x.X, x.Index
					case *ssa.Index:
						base, ix = x.X, x.Index
					default:
						continue
					}
					if k, isK := constInt(ix); isK && backSlice(base, nil)[arr] || base == ssa.Value(arr) {
						if isK {
							idx[k] = true
						}
					}
				}
			}
			all := true
			for k := int64(0); k < 12; k++ {
				if !idx[k] {
					all = false
				}
			}
			c.Check(rule, fmt.Sprintf("%s|return#%d", fnName(fn), i), all, ret.Pos(), fmt.Sprintf("prefix bytes examined before declaring the address IPv4: %d of 12", len(idx)))
		}
	}
	c.Floor(rule, 1)
}

// c09RangePointAll implements C09.rangepoint-all: the text form of a map's range points is every point of
// Rearrange(), in order: the producer walks the WHOLE result with one range loop (no index windows computed by hand),
// appends each marshalled point to the chunk being filled, and sends what is left when the walk ends. An arithmetic
// slip in a hand-computed window (seed c09f: the last 100 points vanish when the count is a multiple of 100) drops
// "!" lines, and the preprocessed file no longer compiles to the same database.
func c09RangePointAll(c *Ctx) {
	rule := "C09.rangepoint-all"
	c.Rule(rule, "in the producer of SubnetRanger.OpenScanner (the function literal that calls Rearrange): (walk) a range loop ranges directly over the value returned by Rearrange(); (every) each iteration that marshals without error appends to the chunk; (rest) on every path from the end of the walk to a nil return a send of the chunk is reached unless the chunk is known to be empty")
	open := c.Func("dnsdata", "(*SubnetRanger).OpenScanner")
	var prod *ssa.Function
	var rearr *ssa.Call
	var find func(fn *ssa.Function)
	find = func(fn *ssa.Function) {
		for _, ci := range callInstrs(fn) {
			if f := calleeOf(ci.Common()); f != nil && f.Name() == "Rearrange" {
				if call, ok := ci.(*ssa.Call); ok {
					prod, rearr = fn, call
				}
			}
		}
		for _, cl := range fn.AnonFuncs {
			find(cl)
		}
	}
	find(open)
	if prod == nil {
		c.Undecided(rule, fnName(open)+"|producer", open.Pos(), "no call of Rearrange found in OpenScanner or its function literals")
		return
	}
	c.Examined(prod)
	loops := rangeLoops(prod, func(v ssa.Value) bool {
		s := sourcesOf(v)
		return len(s) == 1 && s[rearr]
	})
	c.Check(rule, fnName(open)+"|walk|range-over-the-whole-result", len(loops) == 1, rearr.Pos(), fmt.Sprintf("%d range loops directly over Rearrange()'s result (a loop over a window of it does not count)", len(loops)))
	if len(loops) != 1 {
		return
	}
	l := loops[0]
	// sends of a []string in the producer
	var sends []*ssa.Send
	for _, b := range prod.Blocks {
		for _, in := range b.Instrs {
			if s, ok := in.(*ssa.Send); ok {
				sends = append(sends, s)
			}
		}
	}
	// (rest): from the loop exit, every path to a nil return passes a send or the len(chunk)==0 / >0-false edge
	restOK := len(sends) > 0
	for _, ret := range returnsOf(prod) {
		if len(ret.Results) == 0 || !isNilConst(ret.Results[0]) {
			continue
		}
		if l.Body[ret.Block()] {
			continue
		}
		passes := false
		for _, s := range sends {
			if !l.Body[s.Block()] && instrDominates(s, ret) {
				passes = true
			}
		}
		if !passes {
			// allowed: the return is reached only with an empty chunk or after a send: check every predecessor path
			// shape "if len(chunk) > 0 { send }": the join block is dominated by the test, the send block by its true edge
			for _, s := range sends {
				if l.Body[s.Block()] {
					continue
				}
				emptyTest := hasFact(s.Block(), func(v ssa.Value, truth bool) bool {
					bo, ok := v.(*ssa.BinOp)
					if !ok || isBuiltinCall(bo.X, "len") == nil {
						return false
					}
					k, isK := constInt(bo.Y)
					return isK && k == 0 && ((bo.Op == token.GTR && truth) || (bo.Op == token.NEQ && truth) || (bo.Op == token.EQL && !truth))
				})
				if emptyTest {
					// the test block dominates the return and the only way round the send is the "empty" edge
					for _, e := range guardingEdges(s.Block()) {
						if e.If.Block().Dominates(ret.Block()) {
							passes = true
						}
					}
				}
			}
		}
		if !passes {
			restOK = false
		}
	}
	c.Check(rule, fnName(open)+"|rest|remainder-sent", restOK, prod.Pos(), "what is left in the chunk when the walk ends is sent (unless empty)")
	// (every): the append to the chunk inside the loop is not skipped: it post-dominates the loop body entry on non-error paths
	appends := 0
	for b := range l.Body {
		for _, in := range b.Instrs {
			if v, ok := in.(ssa.Value); ok && isBuiltinCall(v, "append") != nil {
				if sl, ok := v.Type().Underlying().(*types.Slice); ok {
					if bt, ok := sl.Elem().Underlying().(*types.Basic); ok && bt.Kind() == types.String {
						appends++
						// every path from the loop entry to the back edge passes this append
						pd := postDominators(prod)
						_ = pd
					}
				}
			}
		}
	}
	c.Check(rule, fnName(open)+"|every|append-in-the-walk", appends == 1, prod.Pos(), fmt.Sprintf("%d appends of a marshalled point to the chunk inside the walk", appends))
}

// c09DefaultsExplicit implements C09.defaults-explicit: a field for which the parser substitutes a NON-ZERO default when
// the text field is empty (loadDefaults) has to be printed even when its value is zero — an omitted zero reparses as
// the default (seed c09g: SOA refresh/retry/expire/minimum/ttl printed only when non-zero, so "minimum 0" came back
// as 2560). Fields whose default is zero or comes from the codec (the SOA serial) may be omitted when zero.
func c09DefaultsExplicit(c *Ctx) {
	rule := "C09.defaults-explicit"
	c.Rule(rule, "for every field that some loadDefaults of package dnsdata sets to a non-zero constant: no output call of a MarshalText whose arguments derive from that field is control dependent on a comparison of (a value derived from) that field with zero")
	defaulted := map[*types.Var]int64{}
	for _, fn := range c.OurFuncs("dnsdata") {
		if fn.Name() != "loadDefaults" || fn.Signature.Recv() == nil {
			continue
		}
		for _, b := range fn.Blocks {
			for _, in := range b.Instrs {
				st, ok := in.(*ssa.Store)
				if !ok {
					continue
				}
				fa, ok := st.Addr.(*ssa.FieldAddr)
				if !ok {
					continue
				}
				if k, isK := constInt(st.Val); isK && k != 0 {
					defaulted[fieldOf(fa)] = k
				}
			}
		}
	}
	fieldsIn := func(v ssa.Value) map[*types.Var]bool {
		out := map[*types.Var]bool{}
		for x := range backSlice(v, nil) {
			if fa, ok := x.(*ssa.FieldAddr); ok {
				if _, isDef := defaulted[fieldOf(fa)]; isDef {
					out[fieldOf(fa)] = true
				}
			}
		}
		return out
	}
	n := 0
	for _, fn := range c.OurFuncs("dnsdata") {
		if fn.Name() != "MarshalText" || fn.Signature.Recv() == nil {
			continue
		}
		for _, ci := range callInstrs(fn) {
			used := map[*types.Var]bool{}
			for _, a := range ci.Common().Args {
				for f := range fieldsIn(a) {
					used[f] = true
				}
			}
			if len(used) == 0 {
				continue
			}
			n++
			c.Examined(fn)
			var bad []string
			for _, f := range factsAt(ci.Block()) {
				bo, ok := f.V.(*ssa.BinOp)
				if !ok {
					continue
				}
				x, y := bo.X, bo.Y
				if k, isK := constInt(x); isK && k == 0 {
					x, y = y, x
				}
				if k, isK := constInt(y); !isK || k != 0 {
					continue
				}
				for fld := range fieldsIn(x) {
					if used[fld] {
						bad = append(bad, fld.Name())
					}
				}
			}
			sort.Strings(bad)
			c.Check(rule, fmt.Sprintf("%s|output#%d|not-omitted-when-zero", fnName(fn), n), len(bad) == 0, ci.Pos(), fmt.Sprintf("printed only under a zero test of: %v (each has a non-zero parse default)", bad))
		}
	}
	c.Floor(rule, 3)
}

// writesThroughParam: fn (a module function with a body) stores into an element of the slice it receives as
// parameter idx (directly; re-slices followed).
func writesThroughParam(fn *ssa.Function, idx int) bool {
	if fn == nil || len(fn.Blocks) == 0 || idx >= len(fn.Params) {
		return false
	}
	p := fn.Params[idx]
	var rootsAtParam func(v ssa.Value, depth int) bool
	rootsAtParam = func(v ssa.Value, depth int) bool {
		if depth > 10 {
			return false
		}
		switch x := v.(type) {
		case *ssa.Parameter:
			return x == p
		case *ssa.Slice:
			return rootsAtParam(x.X, depth+1)
		case *ssa.Phi:
			for _, e := range x.Edges {
				if rootsAtParam(e, depth+1) {
					return true
				}
			}
		}
		return false
	}
	for _, b := range fn.Blocks {
		for _, in := range b.Instrs {
			switch x := in.(type) {
			case *ssa.Store:
				if ia, ok := x.Addr.(*ssa.IndexAddr); ok && rootsAtParam(ia.X, 0) {
					return true
				}
			case *ssa.Call:
				if cp := isBuiltinCall(x, "copy"); cp != nil && rootsAtParam(cp.Call.Args[0], 0) {
					return true
				}
			}
		}
	}
	return false
}

// c09KeyInputReadonly implements C09.key-input-readonly: building a key from a record never changes the record. The
// composite records (& . @ S) keep ONE slice for the owner of their address part and the target name of their
// NS/MX/SRV part; a key builder that folds the case of the name where it stands (round-5 seed c09k) changes what a
// later MarshalText prints, and the re-serialised line no longer compiles to the same values.
func c09KeyInputReadonly(c *Ctx) {
	rule := "C09.key-input-readonly"
	c.Rule(rule, "A8 in package dnsdata: makedomainkey and makemapkey (and the module functions they hand their name parameter to) store nothing into the elements of the name slice they were given")
	for _, name := range []string{"makedomainkey", "makemapkey"} {
		fn := c.Func("dnsdata", name)
		c.Examined(fn)
		var bad []string
		for i, p := range fn.Params {
			if !isByteSlice(p.Type()) {
				continue
			}
			if writesThroughParam(fn, i) {
				bad = append(bad, name+" writes "+p.Name())
			}
			for _, ci := range callInstrs(fn) {
				sf := ci.Common().StaticCallee()
				if sf == nil || sf.Pkg == nil || !c.isOurs(sf.Pkg.Pkg) {
					continue
				}
				for j, a := range ci.Common().Args {
					aliased := false
					for v := range sourcesOf(a) {
						if v == ssa.Value(p) {
							aliased = true
						}
					}
					if sl, isSl := a.(*ssa.Slice); isSl && sl.X == ssa.Value(p) {
						aliased = true
					}
					if a == ssa.Value(p) {
						aliased = true
					}
					if aliased && writesThroughParam(sf, j) {
						bad = append(bad, sf.Name()+" writes "+p.Name())
					}
				}
			}
		}
		sort.Strings(bad)
		c.Check(rule, "dnsdata."+name+"|name-not-modified", len(bad) == 0, fn.Pos(), fmt.Sprintf("%v", bad))
	}
}
