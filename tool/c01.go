package main

func init() {
	register(&propDef{
		ID:          "C01",
		Title:       "Served answers are exactly what the data file declares",
		Run:         runC01,
		Explanation: "Structural necessary conditions of answer correctness, decided on SSA/AST: (guards) the zone walk of both reader implementations has loop-variant exit guards of every required kind with the right polarity; (wildflag) exact rows first, wildcard rows only at parents; (typefilter) both readers select rows by the same type comparisons including CNAME; (rowhead) the row header written by the compiler and the one parsed by the server agree in widths, markers and byte order; (keylayout) owner-key layout agreement between compiler and readers; (ttl) default TTL table; (decision-table) REFUSED / referral / NXDOMAIN / SOA / NS / glue are produced under exactly the conditions the property states. The relation data file → response for all files and queries is not decided.",
	})
}

func runC01(c *Ctx) {
	c01Guards(c, "C01.guards")
	c01WildFlag(c)
	c01TypeFilter(c)
	c01RowHead(c, "C01.rowhead")
	c01KeyLayout(c, "C01.keylayout")
	c01TTL(c, "C01.ttl")
	c01DecisionTable(c, "C01.decision-table")
	c01WalkName(c, "C01.walk-name")
	c04PostAlways(c, "C01.post-always")
	c01WildsafeSpan(c, "C01.wildsafe-span")
	c01TxtChunks(c, "C01.txt-chunks")
	// whether a name is answered authoritatively or as a referral depends on both the located and the untagged rows
	// being consulted at every step of the walk (an SOA stored untagged with a location-scoped NS is still the zone apex)
	c.importRules(runC04, "C04", map[string]string{"untagged": "untagged"})
}
