package main

func init() {
	const srv = "fbserver/server.go"
	addVariants(
		variant{Name: "c20-mux-guard-removed", Props: []string{"C20"}, Expect: []string{"C20.guard|(*fbserver.serveMux).ServeDNS|chain-call-guarded"},
			Edits: []edit{{"fbserver/serve_mux.go", "\tif len(req.Question) < 1 {\n\t\tdns.HandleFailed(w, req)\n\t\treturn\n\t}\n", ""}}},
		variant{Name: "c20-any-falls-through-for-other-classes", Props: []string{"C20"}, Expect: []string{"C20.any|(*fbserver.anyHandler).ServeDNS|next#0|only-when-not-ANY"},
			Edits: []edit{{"fbserver/any.go", "\tif r.Question[0].Qtype != dns.TypeANY {", "\tif r.Question[0].Qtype != dns.TypeANY || r.Question[0].Qclass != dns.ClassINET {"}}},
		variant{Name: "c20-any-forwards-after-write", Props: []string{"C20"}, Expect: []string{"C20.any|(*fbserver.anyHandler).ServeDNS|next#"},
			Edits: []edit{{"fbserver/any.go", "\terr := w.WriteMsg(m)\n\tif err != nil {\n\t\treturn dns.RcodeServerFailure, err\n\t}\n\treturn dns.RcodeSuccess, nil", "\terr := w.WriteMsg(m)\n\tif err != nil {\n\t\treturn dns.RcodeServerFailure, err\n\t}\n\treturn plugin.NextOrFailure(ah.Name(), ah.Next, ctx, w, r)"}}},
		variant{Name: "c20-any-answer-two-records", Props: []string{"C20"}, Expect: []string{"C20.any|(*fbserver.anyHandler).ServeDNS|answer-is-one-HINFO"},
			Edits: []edit{{"fbserver/any.go", "\tm.Answer = []dns.RR{&dns.HINFO{Hdr: hdr, Cpu: \"RFC 8482\", Os: \"\"}}", "\tm.Answer = []dns.RR{&dns.HINFO{Hdr: hdr, Cpu: \"RFC 8482\", Os: \"\"}, &dns.HINFO{Hdr: hdr, Cpu: \"RFC 8482\", Os: \"x\"}}"}}},
		variant{Name: "c20-maxanswer-rewrites-request", Props: []string{"C20"}, Expect: []string{"C20.passthrough|fbserver.maxAnswerHandler|"},
			Edits: []edit{{"fbserver/maxanswer.go", "\tctx = dnsserver.WithMaxAnswer(ctx, mh.maxAnswer)\n\treturn plugin.NextOrFailure(mh.Name(), mh.Next, ctx, w, r)", "\tctx = dnsserver.WithMaxAnswer(ctx, mh.maxAnswer)\n\tr2 := r.Copy()\n\tr2.Question[0].Name = dns.CanonicalName(r2.Question[0].Name)\n\treturn plugin.NextOrFailure(mh.Name(), mh.Next, ctx, w, r2)"}}},
		variant{Name: "c20-whoami-lowercases-request-in-place", Props: []string{"C20"}, Expect: []string{"C20.passthrough|whoami.Handler|request-not-modified"},
			Edits: []edit{{"whoami/common.go", "func (wh *Handler) ServeDNS(ctx context.Context, w dns.ResponseWriter, r *dns.Msg) (int, error) {\n", "func (wh *Handler) ServeDNS(ctx context.Context, w dns.ResponseWriter, r *dns.Msg) (int, error) {\n\tr.Question[0].Name = strings.ToLower(r.Question[0].Name)\n"}}},
		variant{Name: "c20-shared-maxanswer-handler", Props: []string{"C20"}, Expect: []string{"C20.samemux|(*fbserver.Server).Start|max-answer-handler-per-address", "C20.samemux|maxAnswerHandler.maxAnswer|written-only-by-constructor"},
			Edits: []edit{{srv, "\tfor ip, maxAns := range srv.conf.IPAns {\n\t\tif maxAnswerHandler, err = newMaxAnswerHandler(maxAns); err != nil {\n\t\t\treturn fmt.Errorf(\"failed to initialize maxAnswerHandler: %w\", err)\n\t\t}\n\t\tmaxAnswerHandler.Next = defaultHandler\n", "\tif maxAnswerHandler, err = newMaxAnswerHandler(1); err != nil {\n\t\treturn fmt.Errorf(\"failed to initialize maxAnswerHandler: %w\", err)\n\t}\n\tmaxAnswerHandler.Next = defaultHandler\n\tfor ip, maxAns := range srv.conf.IPAns {\n\t\tif maxAns > 0 {\n\t\t\tmaxAnswerHandler.maxAnswer = maxAns\n\t\t}\n"}}},
		variant{Name: "c20-tcp-gets-own-mux", Props: []string{"C20"}, Expect: []string{"C20.samemux|(*fbserver.Server).Start|"},
			Edits: []edit{{srv, "\t\t\t\ts, err := srv.initTCPServer(addr, handler, stats)", "\t\t\t\ts, err := srv.initTCPServer(addr, &serveMux{defaultHandler: defaultHandler}, stats)"}}},
		variant{Name: "c20-whoami-skipped-in-chain", Props: []string{"C20"}, Expect: []string{"C20.samemux|(*fbserver.Server).Start|chain-links"},
			Edits: []edit{{srv, "\t\tanyHandler.Next = defaultHandler\n", "\t\tanyHandler.Next = plugin.Handler(nil)\n"}}},
		variant{Name: "c20-tlsa-writes-unscrubbed", Props: []string{"C20"}, Expect: []string{"C20.writepath|(*fbserver.dotTLSAHandler).ServeDNS|scrub-before-write"},
			Edits: []edit{{"fbserver/tlsa.go", "\tstate.SizeAndDo(m)\n\tm = state.Scrub(m)\n\terr := state.W.WriteMsg(m)", "\tstate.SizeAndDo(m)\n\terr := state.W.WriteMsg(m)"}}},
		variant{Name: "benign-any-reply-helper(B9)", Props: []string{"C20", "C13"}, Benign: true,
			Edits: []edit{{"fbserver/any.go", "\tif r.Question[0].Qtype != dns.TypeANY {\n\t\treturn plugin.NextOrFailure(ah.Name(), ah.Next, ctx, w, r)\n\t}\n", "\tif r.Question[0].Qtype == dns.TypeANY {\n\t\treturn ah.refuse(w, r)\n\t}\n\treturn plugin.NextOrFailure(ah.Name(), ah.Next, ctx, w, r)\n}\n\nfunc (ah *anyHandler) refuse(w dns.ResponseWriter, r *dns.Msg) (int, error) {\n"}}},
	)
}
