package main

import (
	"fmt"
	"go/constant"
	"go/token"
	"go/types"
	"sort"
	"strings"

	"golang.org/x/tools/go/ssa"
)

func init() {
	register(&propDef{
		ID:          "C17",
		Title:       "Quoting is a bijection that never emits a field separator",
		Run:         runC17,
		Explanation: "Structural necessary conditions of the 'never emits a separator' clause, decided on SSA: (escapes) what Bquote returns is derived from strconv.Quote (no raw newline or control byte survives) and every separator byte the line tokenizer splits on (dnsdata.SEP, dnsdata.NSEP) is the target of a ReplaceAll whose replacement contains no separator; (taint) in the text marshallers no free-form []byte field of a record and no []byte parameter of a text helper reaches a writer raw — only through quote.Bquote or a numeric / library formatter. The bijection Bunquote(Bquote(b)) == b for all byte strings is a value-level statement and is not decided.",
	})
	register(&propDef{
		ID:          "C18",
		Title:       "SVCB/HTTPS parameters compile to conformant, faithful wire data",
		Run:         runC18,
		Explanation: "Structural necessary conditions, decided on SSA/AST: (tables) the name, marshaller and unmarshaller tables cover exactly the declared parameter keys; (registry) the key numbers equal the RFC 9460 registry; (sorted) every successful path of ParamList.FromText passes the stable sort by key number, and the mandatory list is sorted before it is emitted; (checks) duplicate keys, a mandatory key naming a missing key, and mandatory naming itself are each rejected by an error-returning branch; (seen-index) the index remembered for a key is an index into the parameter list (no iteration can skip appending while still advancing the index); (owned) value marshallers return memory they own (nothing obtained from a sync.Pool escapes); (wire) a parameter is emitted as key:2 ‖ length:2 ‖ value, big-endian, and Rsvcb.MarshalMap emits priority:2 ‖ target ‖ parameters. Value-level wire conformance of each value is not decided.",
	})
}

func runC17(c *Ctx) {
	c17Escapes(c)
	c17Taint(c)
	c17Unquote(c)
	c17QuotedVerbatim(c)
	c17TokenizerVerbatim(c)
	c17SepWholeLine(c)
}

// c17Unquote implements C17.unquote-multibyte and C17.unquote-errors.
// strconv.UnquoteChar returns the same rune value for the escape \xe9 (one byte 0xE9) and for a literal U+00E9 (two
// bytes of UTF-8): only its `multibyte` result tells them apart. An unquoter that decides between "append one byte"
// and "append the UTF-8 encoding" without consulting it cannot be the inverse of Bquote on both forms.
func c17Unquote(c *Ctx) {
	rule := "C17.unquote-multibyte"
	c.Rule(rule, "A2 control dependence in Bunquote: the append of the decoded rune as a single byte is control dependent on the multibyte result of strconv.UnquoteChar (the only thing that separates a \\xHH/\\ooo byte escape from a literal multi-byte character of the same value); the UnquoteChar error is returned before its results are used")
	fn := c.Func("dnsdata/quote", "Bunquote")
	c.Examined(fn)
	var uq *ssa.Call
	for _, ci := range callInstrs(fn) {
		if f := calleeOf(ci.Common()); f != nil && f.Pkg() != nil && f.Pkg().Path() == "strconv" && f.Name() == "UnquoteChar" {
			uq, _ = ci.(*ssa.Call)
		}
	}
	if uq == nil {
		c.Undecided(rule, "Bunquote|UnquoteChar", fn.Pos(), "Bunquote does not decode with strconv.UnquoteChar: the rule does not know this decoder")
		return
	}
	var runeV, multi, errV ssa.Value
	for _, r := range *uq.Referrers() {
		if ex, ok := r.(*ssa.Extract); ok {
			switch ex.Index {
			case 0:
				runeV = ex
			case 1:
				multi = ex
			case 3:
				errV = ex
			}
		}
	}
	n := 0
	for _, b := range fn.Blocks {
		for _, in := range b.Instrs {
			cv, ok := in.(*ssa.Convert)
			if !ok || cv.X != runeV {
				continue
			}
			bt, isB := cv.Type().Underlying().(*types.Basic)
			if !isB || (bt.Kind() != types.Uint8 && bt.Kind() != types.Byte) {
				continue
			}
			n++
			consulted := false
			for _, cond := range controlConds(b) {
				if multi != nil && (cond == multi || backSliceCtl(cond)[multi]) {
					consulted = true
				}
			}
			c.Check(rule, fmt.Sprintf("Bunquote|byte(rune)#%d|under-multibyte-test", n), consulted, cv.Pos(), "truncating the rune to one byte is only right for ASCII and for byte escapes, which the multibyte result identifies")
			checked := errV != nil && dominatedByNilEdge(cv, func(src ssa.Value) bool { return src == errV })
			c.Check(rule, fmt.Sprintf("Bunquote|byte(rune)#%d|after-error-check", n), checked, cv.Pos(), "the decoded rune is used only when UnquoteChar reported no error")
		}
	}
	c.Floor(rule, 2)
}

func c17Escapes(c *Ctx) {
	rule := "C17.escapes"
	c.Rule(rule, "A4: every value Bquote returns (other than its input on the unreachable short path) derives from strconv.Quote(string(input)); for each separator byte of the tokenizer (values of dnsdata.SEP and dnsdata.NSEP) Bquote contains a bytes.ReplaceAll whose 'old' is that byte and whose 'new' contains no separator byte, applied on the path to the return")
	fn := c.Func("dnsdata/quote", "Bquote")
	c.Examined(fn)
	seps := map[string]string{}
	for _, n := range []string{"SEP", "NSEP"} {
		if s, ok := globalBytes(c, "dnsdata", n); ok {
			seps[n] = s
		}
	}
	if len(seps) != 2 {
		c.Undecided(rule, "separators", token.NoPos, "dnsdata.SEP / dnsdata.NSEP not resolved")
		return
	}
	// replacements
	repl := map[string]string{}
	for _, ci := range callInstrs(fn) {
		f := calleeOf(ci.Common())
		if f == nil || f.Pkg() == nil || f.Pkg().Path() != "bytes" || f.Name() != "ReplaceAll" {
			continue
		}
		o, ok1 := evalBytes(ci.Common().Args[1])
		nw, ok2 := evalBytes(ci.Common().Args[2])
		if ok1 && ok2 {
			repl[o] = nw
		}
	}
	// the same table given to a strings.Replacer (one pass instead of one ReplaceAll per pair): the pairs of every
	// strings.NewReplacer of the package whose Replace / WriteString is called in Bquote
	replacerPairs := map[ssa.Value][][2]string{}
	var initFns []*ssa.Function
	if sp := c.SSAPkgs["dnsdata/quote"]; sp != nil {
		if f := sp.Func("init"); f != nil {
			initFns = append(initFns, f)
		}
	}
	initFns = append(initFns, c.OurFuncs("dnsdata/quote")...)
	for _, g := range initFns {
		for _, ci := range callInstrs(g) {
			f := calleeOf(ci.Common())
			if f == nil || f.Pkg() == nil || f.Pkg().Path() != "strings" || f.Name() != "NewReplacer" || len(ci.Common().Args) != 1 {
				continue
			}
			sl, ok := ci.Common().Args[0].(*ssa.Slice)
			if !ok {
				continue
			}
			al, ok := sl.X.(*ssa.Alloc)
			if !ok {
				continue
			}
			elems := map[int64]string{}
			for _, r := range *al.Referrers() {
				if ia, ok := r.(*ssa.IndexAddr); ok {
					idx, isK := constInt(ia.Index)
					for _, rr := range *ia.Referrers() {
						if st, ok := rr.(*ssa.Store); ok && isK {
							if sv, ok := stringConst(st.Val); ok {
								elems[idx] = sv
							}
						}
					}
				}
			}
			var pairs [][2]string
			for i := int64(0); ; i += 2 {
				o, ok1 := elems[i]
				nw, ok2 := elems[i+1]
				if !ok1 || !ok2 {
					break
				}
				pairs = append(pairs, [2]string{o, nw})
			}
			call, _ := ci.(*ssa.Call)
			if call == nil {
				continue
			}
			replacerPairs[call] = pairs
			for _, r := range *call.Referrers() {
				if st, ok := r.(*ssa.Store); ok {
					replacerPairs[st.Addr] = pairs // the package-level variable it is kept in
				}
			}
		}
	}
	nReplacerPairs := 0
	for _, ci := range callInstrs(fn) {
		f := calleeOf(ci.Common())
		if f == nil || f.Pkg() == nil || f.Pkg().Path() != "strings" || (f.Name() != "Replace" && f.Name() != "WriteString") || len(ci.Common().Args) == 0 {
			continue
		}
		for src := range sourcesOf(ci.Common().Args[0]) {
			var pairs [][2]string
			if u, ok := src.(*ssa.UnOp); ok {
				pairs = replacerPairs[u.X]
			} else {
				pairs = replacerPairs[src]
			}
			for _, pr := range pairs {
				repl[pr[0]] = pr[1]
				nReplacerPairs++
			}
		}
	}
	var names []string
	for n := range seps {
		names = append(names, n)
	}
	sort.Strings(names)
	for _, n := range names {
		nw, has := repl[seps[n]]
		clean := has
		for _, s := range seps {
			if strings.Contains(nw, s) {
				clean = false
			}
		}
		if strings.ContainsAny(nw, "\n\r") {
			clean = false
		}
		c.CheckConst(rule, "Bquote|rewrites|"+n, has && clean, fn.Pos(), fmt.Sprintf("separator %q is rewritten to %q", seps[n], nw))
	}
	// every replacement is on the way to the result: the returned value depends on each ReplaceAll and on strconv.Quote
	okQuote := false
	nRepl := 0
	for _, ret := range returnsOf(fn) {
		sl := backSliceCtl(ret.Results[0])
		hasQ := false
		n := 0
		for v := range sl {
			if call, ok := v.(*ssa.Call); ok {
				if f := calleeOf(call.Common()); f != nil && f.Pkg() != nil {
					if f.Pkg().Path() == "strconv" && f.Name() == "Quote" {
						hasQ = true
					}
					if f.Pkg().Path() == "bytes" && f.Name() == "ReplaceAll" {
						n++
					}
					if f.Pkg().Path() == "strings" && (f.Name() == "Replace" || f.Name() == "WriteString") && nReplacerPairs > 0 {
						n += nReplacerPairs
					}
				}
			}
		}
		if hasQ {
			okQuote = true
			if n > nRepl {
				nRepl = n
			}
		}
	}
	c.Check(rule, "Bquote|result-derives-from-strconv.Quote", okQuote, fn.Pos(), "control bytes, newlines, backslashes and invalid UTF-8 are escaped by strconv.Quote before anything else")
	// per return: no byte of the input reaches the result around the escaper, and the escaper sees the whole input
	var quote *ssa.Call
	for _, ci := range callInstrs(fn) {
		if f := calleeOf(ci.Common()); f != nil && f.Pkg() != nil && f.Pkg().Path() == "strconv" && f.Name() == "Quote" {
			quote, _ = ci.(*ssa.Call)
		}
	}
	if quote != nil && len(fn.Params) == 1 {
		in := ssa.Value(fn.Params[0])
		whole := false
		if cv, ok := quote.Call.Args[0].(*ssa.Convert); ok {
			switch x := cv.X.(type) {
			case *ssa.Parameter:
				whole = x == in
			case *ssa.Slice:
				whole = x.X == in && x.Low == nil && x.High == nil
			}
		}
		c.Check(rule, "Bquote|strconv.Quote-sees-the-whole-input", whole, quote.Pos(), "the escaper is applied to string(input), not to a part of it")
		for i, ret := range returnsOf(fn) {
			around := backSlice(ret.Results[0], func(v ssa.Value) bool { return v == ssa.Value(quote) })[in]
			short := hasFact(ret.Block(), func(v ssa.Value, truth bool) bool {
				bo, ok := v.(*ssa.BinOp)
				if !ok || !truth || bo.Op != token.LSS {
					return false
				}
				k, isK := constInt(bo.Y)
				call, isCall := bo.X.(*ssa.Call)
				if !isK || k > 2 || !isCall {
					return false
				}
				bi, isB := call.Call.Value.(*ssa.Builtin)
				return isB && bi.Name() == "len" && backSlice(call.Call.Args[0], nil)[ssa.Value(quote)]
			})
			c.Check(rule, fmt.Sprintf("Bquote|return#%d|no-input-byte-bypasses-the-escaper", i), !around || short, ret.Pos(), "a returned value contains input bytes only through strconv.Quote (the len(quoted) < 2 path cannot be taken: a quoted string has at least its two quotes)")
		}
	}
	c.Check(rule, "Bquote|replacements-reach-the-result", nRepl >= 2, fn.Pos(), fmt.Sprintf("%d ReplaceAll results flow into the returned value", nRepl))
	// a replacement that un-escapes must not reintroduce a separator: 'new' of every ReplaceAll is separator free
	okAll := true
	for o, nw := range repl {
		for _, s := range seps {
			if strings.Contains(nw, s) && !strings.Contains(o, s) {
				okAll = false
			}
		}
	}
	c.CheckConst(rule, "Bquote|no-replacement-introduces-a-separator", okAll, fn.Pos(), fmt.Sprintf("replacements: %v", repl))
}

func c17Taint(c *Ctx) {
	rule := "C17.taint"
	c.Rule(rule, "SSA taint in the text marshallers of package dnsdata (every MarshalText and the put*text helpers): the argument of a Write/WriteString on the output buffer never depends — other than through a call, i.e. quote.Bquote or a formatter — on a []byte field of the record or on a []byte parameter of the helper")
	n := 0
	for _, fn := range c.OurFuncs("dnsdata") {
		isMT := fn.Name() == "MarshalText" && fn.Signature.Recv() != nil
		isHelper := strings.HasPrefix(fn.Name(), "put") && strings.HasSuffix(fn.Name(), "text")
		if !isMT && !isHelper {
			continue
		}
		c.Examined(fn)
		var raw []string
		nw := 0
		for _, ci := range callInstrs(fn) {
			cc := ci.Common()
			name := ""
			var args []ssa.Value
			if cc.IsInvoke() {
				name, args = cc.Method.Name(), cc.Args
			} else if f := calleeOf(cc); f != nil && f.Type().(*types.Signature).Recv() != nil {
				name, args = f.Name(), cc.Args[1:]
			}
			if name != "Write" && name != "WriteString" {
				continue
			}
			nw++
			for _, a := range args {
				for v := range backSlice(a, func(v ssa.Value) bool { _, isCall := v.(*ssa.Call); return isCall && isBuiltinCall(v, "append") == nil }) {
					switch x := v.(type) {
					case *ssa.FieldAddr:
						if fv := fieldOf(x); fv != nil && isByteSlice(fv.Type()) {
							if _, isRecv := rootParam(x, fn); isRecv {
								raw = append(raw, fmt.Sprintf("field %s at %s", fv.Name(), c.relPos(ci.Pos())))
							}
						}
					case *ssa.Parameter:
						if isByteSlice(x.Type()) && isHelper {
							raw = append(raw, fmt.Sprintf("parameter %s at %s", x.Name(), c.relPos(ci.Pos())))
						}
					}
				}
			}
		}
		if nw == 0 {
			continue
		}
		n++
		c.Check(rule, stableFnName(fn)+"|"+recvName(fn)+"|no-raw-bytes-written", len(raw) == 0, fn.Pos(), fmt.Sprintf("%d writes; raw free-form bytes written: %v", nw, raw))
	}
	if n < 15 {
		c.Undecided(rule, "floor", token.NoPos, fmt.Sprintf("only %d text marshallers examined", n))
	}
}

func rootParam(v ssa.Value, fn *ssa.Function) (*ssa.Parameter, bool) {
	for {
		switch x := v.(type) {
		case *ssa.FieldAddr:
			v = x.X
		case *ssa.UnOp:
			v = x.X
		case *ssa.Parameter:
			return x, len(fn.Params) > 0 && x == fn.Params[0]
		default:
			return nil, false
		}
	}
}

// ---------------------------------------------------------------------------

func runC18(c *Ctx) {
	c18Tables(c)
	c18Sorted(c)
	c18Checks(c)
	c18Owned(c)
	c18Wire(c)
}

// mapKeysInInit: constant keys put into a package-level map by the package initialiser.
func mapKeysInInit(c *Ctx, pkg, name string) map[int64]bool {
	sp := c.SSAPkgs[pkg]
	g, _ := sp.Members[name].(*ssa.Global)
	initFn := sp.Func("init")
	if g == nil || initFn == nil {
		return nil
	}
	out := map[int64]bool{}
	for _, b := range initFn.Blocks {
		for _, in := range b.Instrs {
			mu, ok := in.(*ssa.MapUpdate)
			if !ok {
				continue
			}
			// the map being filled is the one stored into the global
			stored := false
			if refs := mu.Map.Referrers(); refs != nil {
				for _, r := range *refs {
					if st, isSt := r.(*ssa.Store); isSt && st.Addr == g {
						stored = true
					}
				}
			}
			if !stored {
				continue
			}
			if k, isK := constInt(mu.Key); isK {
				out[k] = true
			}
		}
	}
	return out
}

func c18Tables(c *Ctx) {
	rule := "C18.tables"
	c.Rule(rule, "A4: the key sets of paramNumToStr, valueMarshallers and valueUnmarshallers are identical and equal to the declared paramNum constants; (registry) the constants equal the RFC 9460 §14.3.2 numbers")
	pk := c.Pkg("dnsdata/svcb")
	sc := pk.Types.Scope()
	pnT := c.Named("dnsdata/svcb", "paramNum")
	declared := map[int64]string{}
	for _, n := range sc.Names() {
		if k, ok := sc.Lookup(n).(*types.Const); ok && types.Identical(k.Type(), pnT) {
			v, _ := constant.Int64Val(k.Val())
			declared[v] = n
		}
	}
	keys := func(m map[int64]bool) []int64 { return int64SetString(m) }
	var dk []int64
	for k := range declared {
		dk = append(dk, k)
	}
	sort.Slice(dk, func(i, j int) bool { return dk[i] < dk[j] })
	for _, tbl := range []string{"paramNumToStr", "valueMarshallers", "valueUnmarshallers"} {
		m := mapKeysInInit(c, "dnsdata/svcb", tbl)
		c.CheckConst(rule, tbl+"|covers-exactly-the-declared-keys", fmt.Sprint(keys(m)) == fmt.Sprint(dk) && len(dk) >= 7, token.NoPos, fmt.Sprintf("table keys %v, declared keys %v", keys(m), dk))
	}
	rrule := "C18.registry"
	c.Rule(rrule, "oracle frozen from RFC 9460 §14.3.2: mandatory 0, alpn 1, no-default-alpn 2, port 3, ipv4hint 4, ech 5, ipv6hint 6")
	want := map[string]int64{"mandatory": 0, "alpn": 1, "nodefaultalpn": 2, "port": 3, "ipv4hint": 4, "echconfig": 5, "ipv6hint": 6}
	for n, v := range want {
		k, ok := sc.Lookup(n).(*types.Const)
		got := int64(-1)
		if ok {
			got, _ = constant.Int64Val(k.Val())
		}
		c.CheckConst(rrule, "paramNum|"+n, got == v, token.NoPos, fmt.Sprintf("%s = %d (registry %d)", n, got, v))
	}
}

func c18Sorted(c *Ctx) {
	rule := "C18.sorted"
	c.Rule(rule, "A2: every return of a nil error from ParamList.FromText is dominated by a sort.SliceStable of the list whose comparison orders by keynum; mandatoryMarshaller sorts its values before the emitting loop")
	fn := c.Func("dnsdata/svcb", "(*ParamList).FromText")
	c.Examined(fn)
	var sorts []ssa.CallInstruction
	for _, ci := range callInstrs(fn) {
		if f := calleeOf(ci.Common()); f != nil && f.Pkg() != nil && f.Pkg().Path() == "sort" && (f.Name() == "SliceStable" || f.Name() == "Slice" || f.Name() == "Stable" || f.Name() == "Sort") {
			sorts = append(sorts, ci)
		}
	}
	ok, n := len(sorts) > 0, 0
	for _, ret := range returnsOf(fn) {
		succ := true
		for s := range sourcesOf(ret.Results[0]) {
			if s == nil || !isNilConst(s) {
				succ = false
			}
		}
		if !succ {
			continue
		}
		n++
		d := false
		for _, s := range sorts {
			if instrDominates(s, ret) {
				d = true
			}
		}
		if !d {
			ok = false
		}
	}
	c.Check(rule, fnName(fn)+"|sorted-on-every-success-path", ok && n > 0, fn.Pos(), fmt.Sprintf("%d success returns, %d sort calls", n, len(sorts)))
	// the comparison uses keynum
	fKey := c.Field("dnsdata/svcb", "param", "keynum")
	cmpOK := false
	for _, cl := range fn.AnonFuncs {
		for _, b := range cl.Blocks {
			for _, in := range b.Instrs {
				if bo, isB := in.(*ssa.BinOp); isB && bo.Op == token.LSS && isFieldLoad(bo.X, fKey) && isFieldLoad(bo.Y, fKey) {
					cmpOK = true
				}
			}
		}
	}
	c.Check(rule, fnName(fn)+"|sorted-by-key-number-ascending", cmpOK, fn.Pos(), "keys are emitted in strictly increasing numeric order")
	mm := c.Func("dnsdata/svcb", "mandatoryMarshaller")
	c.Examined(mm)
	okm := false
	for _, ci := range callInstrs(mm) {
		if f := calleeOf(ci.Common()); f != nil && f.Pkg() != nil && f.Pkg().Path() == "sort" {
			okm = true
			for h := range naturalLoops(mm) {
				if !instrDominates(ci, h.Instrs[0]) {
					okm = false
				}
			}
		}
	}
	c.Check(rule, fnName(mm)+"|sorted-before-emission", okm, mm.Pos(), "the mandatory key list is emitted in ascending order")
	// … ascending by KEY NUMBER (RFC 9460 §8: "in strictly increasing numeric order"): the comparison function orders
	// integers looked up for the names, not the names (seed c18r4i sorted the names alphabetically to find duplicates
	// by adjacency: "port|ipv4hint" then compiles to 00 04 00 03)
	numeric := false
	for _, cl := range mm.AnonFuncs {
		if cl.Signature.Results().Len() != 1 || cl.Signature.Params().Len() != 2 {
			continue
		}
		for _, leaf := range resultLeaves(cl, 0) {
			bo, ok := leaf.V.(*ssa.BinOp)
			if !ok || (bo.Op != token.LSS && bo.Op != token.GTR) {
				continue
			}
			if bt, ok := bo.X.Type().Underlying().(*types.Basic); ok && bt.Info()&types.IsInteger != 0 {
				fromTable := false
				for v := range backSlice(bo.X, nil) {
					if lk, ok := v.(*ssa.Lookup); ok {
						if _, isMap := lk.X.Type().Underlying().(*types.Map); isMap {
							fromTable = true
						}
					}
				}
				if fromTable {
					numeric = true
				}
			}
		}
	}
	c.Check(rule, fnName(mm)+"|sorted-by-key-number", numeric, mm.Pos(), "the comparison function of the sort compares the key numbers looked up for the names")
}

func c18Checks(c *Ctx) {
	rule := "C18.checks"
	c.Rule(rule, "each rejection exists as an error-returning branch: a key already seen (FromText), a mandatory key missing from the list (FromText), mandatory naming itself and a repeated mandatory value (mandatoryMarshaller); (seen-index) every iteration of the parsing loop that records an index also appends exactly one parameter, so the recorded loop index is the parameter's position in the list")
	fn := c.Func("dnsdata/svcb", "(*ParamList).FromText")
	errRetUnder := func(f *ssa.Function, pred func(v ssa.Value, truth bool) bool) bool {
		for _, ret := range returnsOf(f) {
			last := ret.Results[len(ret.Results)-1]
			nonNil := false
			for s := range sourcesOf(last) {
				if s != nil && !isNilConst(s) {
					nonNil = true
				}
			}
			if nonNil && hasFact(ret.Block(), pred) {
				return true
			}
		}
		return false
	}
	lookupOK := func(v ssa.Value) bool { // the ",ok" of a map lookup
		ex, ok := v.(*ssa.Extract)
		if !ok || ex.Index != 1 {
			return false
		}
		_, isL := ex.Tuple.(*ssa.Lookup)
		return isL
	}
	fKeynum := c.Field("dnsdata/svcb", "param", "keynum")
	c.Check(rule, fnName(fn)+"|duplicate-key-rejected", errRetUnder(fn, func(v ssa.Value, truth bool) bool {
		if !truth || !lookupOK(v) {
			return false
		}
		lk := v.(*ssa.Extract).Tuple.(*ssa.Lookup)
		for x := range backSlice(lk.Index, nil) {
			if fa, ok := x.(*ssa.FieldAddr); ok && fieldOf(fa) == fKeynum {
				return true // the key just parsed was already in the seen map
			}
		}
		return false
	}), fn.Pos(), "a key that was already seen makes the whole list invalid")
	c.Check(rule, fnName(fn)+"|mandatory-missing-key-rejected", errRetUnder(fn, func(v ssa.Value, truth bool) bool {
		if truth || !lookupOK(v) {
			return false
		}
		// the key looked up comes from the mandatory value bytes (Uint16 of the list)
		lk := v.(*ssa.Extract).Tuple.(*ssa.Lookup)
		for x := range backSlice(lk.Index, nil) {
			if call, ok := x.(*ssa.Call); ok {
				if f := calleeOf(call.Common()); f != nil && f.Name() == "Uint16" {
					return true
				}
			}
		}
		return false
	}), fn.Pos(), "every key named by mandatory must be present")
	mm := c.Func("dnsdata/svcb", "mandatoryMarshaller")
	c.Check(rule, fnName(mm)+"|mandatory-cannot-name-itself", errRetUnder(mm, func(v ssa.Value, truth bool) bool {
		b, ok := v.(*ssa.BinOp)
		if !ok || b.Op != token.EQL || !truth {
			return false
		}
		k, isK := constInt(b.Y)
		return isK && k == 0
	}), mm.Pos(), "'mandatory' itself must not appear in its value")
	c.Check(rule, fnName(mm)+"|repeated-mandatory-value-rejected", errRetUnder(mm, func(v ssa.Value, truth bool) bool { return truth && lookupOK(v) }), mm.Pos(), "a key listed twice in mandatory is rejected")
	// seen-index
	fnLoops := naturalLoops(fn)
	okIdx := false
	detail := "parsing loop not found"
	for h, body := range fnLoops {
		var appendBlk *ssa.BasicBlock
		var upd *ssa.MapUpdate
		for b := range body {
			for _, in := range b.Instrs {
				if ap := isBuiltinCall(valueOfCall2(in), "append"); ap != nil {
					appendBlk = b
				}
				if mu, ok := in.(*ssa.MapUpdate); ok {
					upd = mu
				}
			}
		}
		if appendBlk == nil || upd == nil {
			continue
		}
		// value stored: len(list) form is always right
		if ln := isBuiltinCall(unwrap(upd.Value), "len"); ln != nil {
			okIdx = true
			detail = "the index recorded is len(list) at the time of the append"
			continue
		}
		var entry *ssa.BasicBlock
		for _, s := range h.Succs {
			if body[s] && s != h {
				entry = s
			}
		}
		if entry == nil {
			continue
		}
		skip := bodyCanSkip(sliceLoop{h, body, entry}, map[*ssa.BasicBlock]bool{appendBlk: true}, nil)
		okIdx = !skip
		detail = "the loop index is recorded; no iteration can advance it without appending a parameter"
		if skip {
			detail = "an iteration can advance the loop index without appending a parameter: the index remembered for 'mandatory' then points at another parameter"
		}
	}
	c.Check(rule, fnName(fn)+"|seen-index-is-list-index", okIdx, fn.Pos(), detail)
}

func c18Owned(c *Ctx) {
	rule := "C18.owned"
	c.Rule(rule, "every value marshaller (the functions stored in valueMarshallers) returns memory it owns: nothing obtained from a (*sync.Pool).Get reaches its result")
	n := 0
	for _, fn := range c.OurFuncs("dnsdata/svcb") {
		if !strings.HasSuffix(fn.Name(), "Marshaller") || fn.Signature.Results().Len() != 2 {
			continue
		}
		n++
		c.Examined(fn)
		pooled := false
		for _, ret := range returnsOf(fn) {
			for v := range backSlice(ret.Results[0], nil) {
				if call, ok := v.(*ssa.Call); ok {
					if f := calleeOf(call.Common()); f != nil && f.Pkg() != nil && f.Pkg().Path() == "sync" && funcShort(f) == "Pool.Get" {
						pooled = true
					}
				}
			}
		}
		c.Check(rule, fnName(fn)+"|returns-owned-memory", !pooled, fn.Pos(), "a stored parameter value must not alias a buffer that the next parse reuses")
	}
	if n < 7 {
		c.Undecided(rule, "floor", token.NoPos, fmt.Sprintf("only %d value marshallers found", n))
	}
}

func c18Wire(c *Ctx) {
	rule := "C18.wire"
	c.Rule(rule, "A4: param.toWire writes key:2 ‖ length:2 ‖ value with big-endian 16-bit integers (widths by the write-width analysis: 4 + len(value)); Rsvcb.MarshalMap writes the 16-bit priority, the target name and then the parameters after the row head")
	fn := c.Func("dnsdata/svcb", "(*param).toWire")
	c.Examined(fn)
	var widths []int
	be := true
	// an integer put into the output: binary.Write(w, order, v), or order.PutUintN(dst, v) / order.AppendUintN(dst, v)
	putWidth := func(ci ssa.CallInstruction) (int, bool, bool) { // width, big-endian, ok
		f := calleeOf(ci.Common())
		if f == nil || f.Pkg() == nil || f.Pkg().Path() != "encoding/binary" {
			return 0, false, false
		}
		w := 0
		switch {
		case strings.HasSuffix(f.Name(), "Uint16") && (strings.HasPrefix(f.Name(), "Put") || strings.HasPrefix(f.Name(), "Append")):
			w = 2
		case strings.HasSuffix(f.Name(), "Uint32") && (strings.HasPrefix(f.Name(), "Put") || strings.HasPrefix(f.Name(), "Append")):
			w = 4
		case strings.HasSuffix(f.Name(), "Uint64") && (strings.HasPrefix(f.Name(), "Put") || strings.HasPrefix(f.Name(), "Append")):
			w = 8
		default:
			return 0, false, false
		}
		recv := ""
		if sig, ok := f.Type().(*types.Signature); ok && sig.Recv() != nil {
			recv = sig.Recv().Type().String()
		}
		return w, strings.Contains(recv, "bigEndian"), true
	}
	for _, ci := range callInstrs(fn) {
		if w, isBE, ok := putWidth(ci); ok {
			widths = append(widths, w)
			if !isBE {
				be = false
			}
			continue
		}
		f := calleeOf(ci.Common())
		if f == nil || f.Pkg() == nil || f.Pkg().Path() != "encoding/binary" || f.Name() != "Write" {
			continue
		}
		t := ci.Common().Args[2].Type()
		if mi, ok := ci.Common().Args[2].(*ssa.MakeInterface); ok {
			t = mi.X.Type()
		}
		widths = append(widths, int(c.Pkg("db").TypesSizes.Sizeof(t)))
		if !strings.Contains(ci.Common().Args[1].String()+ci.Common().Args[1].Type().String(), "igEndian") {
			s := ""
			if mi, ok := ci.Common().Args[1].(*ssa.MakeInterface); ok {
				s = mi.X.Type().String()
			}
			if !strings.Contains(s, "bigEndian") {
				be = false
			}
		}
	}
	c.Check(rule, fnName(fn)+"|key:2‖length:2-big-endian", len(widths) == 2 && widths[0] == 2 && widths[1] == 2 && be, fn.Pos(), fmt.Sprintf("integer widths written: %v, big-endian: %v", widths, be))
	mm := c.Func("dnsdata", "(*Rsvcb).MarshalMap")
	c.Examined(mm)
	var seq []string
	for _, ci := range callInstrs(mm) {
		f := calleeOf(ci.Common())
		if f == nil {
			continue
		}
		if w, _, ok := putWidth(ci); ok {
			seq = append(seq, fmt.Sprintf("int%d", 8*w))
			continue
		}
		switch f.Name() {
		case "putrrhead", "putdom", "ToWire":
			seq = append(seq, f.Name())
		case "Write":
			if f.Pkg() != nil && f.Pkg().Path() == "encoding/binary" {
				t := ci.Common().Args[2].Type()
				if mi, ok := ci.Common().Args[2].(*ssa.MakeInterface); ok {
					t = mi.X.Type()
				}
				seq = append(seq, fmt.Sprintf("int%d", 8*c.Pkg("db").TypesSizes.Sizeof(t)))
			}
		}
	}
	c.Check(rule, fnName(mm)+"|priority‖target‖params", strings.Join(seq, ",") == "putrrhead,int16,putdom,ToWire", mm.Pos(), fmt.Sprintf("emission order: %v", seq))
}

// c17QuotedVerbatim implements C17.quoted-verbatim: what Bquote returns is the final escaped form. A later rewriting
// pass over it cannot tell an escape sequence from an escaped backslash followed by a letter (`\\t` is a backslash
// and a 't'), so replacing, mapping or case-folding the quoted text changes what it unquotes to. Splitting and
// joining on a byte that Bquote never escapes (the dot of domain names) is not a rewrite.
func c17QuotedVerbatim(c *Ctx) {
	rule := "C17.quoted-verbatim"
	c.Rule(rule, "forward dataflow in packages dnsdata and dnsdata/quote: no value derived from the result of quote.Bquote (through conversions, slices, phis and call results) is an argument of a byte-rewriting function (strings/bytes Replace*, Map, ToUpper/ToLower/Title, Trim*, a strings.Replacer method, regexp Replace*)")
	bq := c.TypesFunc("dnsdata/quote", "Bquote")
	rewriting := func(f *types.Func) bool {
		if f == nil || f.Pkg() == nil {
			return false
		}
		switch f.Pkg().Path() {
		case "strings", "bytes", "regexp":
		default:
			return false
		}
		n := f.Name()
		if sig, ok := f.Type().(*types.Signature); ok && sig.Recv() != nil && strings.Contains(sig.Recv().Type().String(), "Replacer") {
			return true
		}
		return strings.HasPrefix(n, "Replace") || n == "Map" || strings.HasPrefix(n, "ToUpper") || strings.HasPrefix(n, "ToLower") || strings.HasPrefix(n, "ToTitle") || n == "Title" || strings.HasPrefix(n, "Trim") || strings.Contains(n, "ReplaceAll")
	}
	n := 0
	for _, fn := range c.OurFuncs("dnsdata") {
		calls := callsTo(fn, func(f *types.Func) bool { return f == bq })
		if len(calls) == 0 {
			continue
		}
		c.Examined(fn)
		for i, ci := range calls {
			call, ok := ci.(*ssa.Call)
			if !ok {
				continue
			}
			n++
			T := map[ssa.Value]bool{call: true}
			bad := ""
			for changed := true; changed; {
				changed = false
				for v := range T {
					if v.Referrers() == nil {
						continue
					}
					for _, r := range *v.Referrers() {
						switch x := r.(type) {
						case *ssa.Call:
							if rewriting(calleeOf(x.Common())) {
								bad = funcShort(calleeOf(x.Common())) + " at " + c.relPos(x.Pos())
							}
							if !T[x] {
								T[x] = true
								changed = true
							}
						case *ssa.Convert, *ssa.ChangeType, *ssa.Slice, *ssa.Phi, *ssa.Extract, *ssa.MakeInterface, *ssa.Index, *ssa.IndexAddr, *ssa.UnOp, *ssa.Next, *ssa.Range:
							if xv, isV := x.(ssa.Value); isV && !T[xv] {
								T[xv] = true
								changed = true
							}
						case *ssa.Store:
							if al, isAl := x.Addr.(*ssa.Alloc); isAl && !T[al] {
								T[al] = true
								changed = true
							}
							if ia, isIA := x.Addr.(*ssa.IndexAddr); isIA && !T[ia.X] {
								T[ia.X] = true
								changed = true
							}
						}
					}
				}
			}
			c.Check(rule, fmt.Sprintf("%s|Bquote#%d", fnName(fn), i+1), bad == "", call.Pos(), "quoted text reaches a rewriting function: "+bad)
		}
	}
	c.Floor(rule, 2)
}

// c17TokenizerVerbatim implements C17.tokenizer-verbatim: "placed in a data-file field and read back unchanged" — the
// line tokenizer hands out the bytes between separators as they are. Bquote leaves spaces unescaped, so a value may
// legitimately end (or begin) with one: trimming, case folding or any other rewriting of the line before or after
// the split (seed c17g: TrimRight(" ") "like tinydns-data") changes the last field of a line.
func c17TokenizerVerbatim(c *Ctx) {
	rule := "C17.tokenizer-verbatim"
	c.Rule(rule, "A8 in dnsdata.fields and detectSep: no call of a bytes/strings function that returns a rewritten copy or sub-slice chosen by content (Trim*, TrimSpace, ToLower, ToUpper, Replace*, Map, Fields*, Title) takes (a slice of) the line as its argument")
	n := 0
	for _, name := range []string{"fields", "detectSep"} {
		fn := c.Func("dnsdata", name)
		c.Examined(fn)
		n++
		var bad []string
		for _, ci := range callInstrs(fn) {
			f := calleeOf(ci.Common())
			if f == nil || f.Pkg() == nil || (f.Pkg().Path() != "bytes" && f.Pkg().Path() != "strings") {
				continue
			}
			nm := f.Name()
			rewriting := strings.HasPrefix(nm, "Trim") || strings.HasPrefix(nm, "To") || strings.HasPrefix(nm, "Replace") || nm == "Map" || strings.HasPrefix(nm, "Fields") || nm == "Title" || nm == "Clone" && false
			if !rewriting {
				continue
			}
			fromLine := false
			for _, a := range ci.Common().Args {
				for v := range backSlice(a, nil) {
					if p, ok := v.(*ssa.Parameter); ok && p.Parent() == fn {
						fromLine = true
					}
				}
			}
			if fromLine {
				bad = append(bad, fmt.Sprintf("%s.%s at %s", f.Pkg().Path(), nm, c.relPos(ci.Pos())))
			}
		}
		c.Check(rule, fnName(fn)+"|line-bytes-untouched", len(bad) == 0, fn.Pos(), fmt.Sprintf("rewriting calls on the line: %v", bad))
	}
}

// lineVerbatim implements <prop>.line-verbatim for the readers of data files: a line read from the scanner reaches the
// codec with at most its LEADING blanks removed (what the compiler has always done). Trailing white space can be part
// of the last field (Bquote leaves blanks alone, a location id may be a TAB): trimming both ends on one path only
// (seed c07r4i: a single-worker fast path; seed c09r4h: the preprocessor) makes the result depend on the worker
// count, or makes the preprocessed file compile to something else.
func lineVerbatim(c *Ctx, rule, pkg string, names ...string) {
	c.Rule(rule, "A8 in the named functions and their function literals: a value obtained from (*bufio.Scanner).Bytes/Text is passed to no bytes/strings function that rewrites or re-cuts it by content (TrimSpace, TrimRight, Trim, TrimSuffix, ToLower, Replace…, Fields, Map), except bytes.TrimLeft")
	visited := map[*ssa.Function]bool{}
	var walk func(fn *ssa.Function, bad *[]string, seen *int)
	walk = func(fn *ssa.Function, bad *[]string, seen *int) {
		visited[fn] = true
		c.Examined(fn)
		for _, ci := range callInstrs(fn) {
			f := calleeOf(ci.Common())
			if f == nil || f.Pkg() == nil {
				continue
			}
			if f.Pkg().Path() == "bufio" && (f.Name() == "Bytes" || f.Name() == "Text") {
				*seen++
			}
			if f.Pkg().Path() != "bytes" && f.Pkg().Path() != "strings" {
				continue
			}
			nm := f.Name()
			rewriting := (strings.HasPrefix(nm, "Trim") && nm != "TrimLeft") || strings.HasPrefix(nm, "To") || strings.HasPrefix(nm, "Replace") || nm == "Map" || strings.HasPrefix(nm, "Fields") || nm == "Title"
			if !rewriting {
				continue
			}
			fromScanner := false
			for _, a := range ci.Common().Args {
				for v := range backSlice(a, nil) {
					if call, ok := v.(*ssa.Call); ok {
						if g := calleeOf(call.Common()); g != nil && g.Pkg() != nil && g.Pkg().Path() == "bufio" && (g.Name() == "Bytes" || g.Name() == "Text") {
							fromScanner = true
						}
					}
				}
			}
			if fromScanner {
				*bad = append(*bad, fmt.Sprintf("%s.%s at %s", f.Pkg().Path(), nm, c.relPos(ci.Pos())))
			}
		}
		for _, cl := range fn.AnonFuncs {
			walk(cl, bad, seen)
		}
		// the reading loop may live in a helper of the same package (called, or started with go)
		for _, ci := range callInstrs(fn) {
			if sf := ci.Common().StaticCallee(); sf != nil && sf.Pkg == fn.Pkg && sf.Blocks != nil && !visited[sf] && len(visited) < 40 {
				visited[sf] = true
				walk(sf, bad, seen)
			}
		}
	}
	for _, name := range names {
		fn := c.Func(pkg, name)
		var bad []string
		seen := 0
		walk(fn, &bad, &seen)
		c.Check(rule, fnName(fn)+"|scanned-line-not-rewritten", len(bad) == 0 && seen > 0, fn.Pos(), fmt.Sprintf("%d scanner reads; rewriting calls on a scanned line: %v", seen, bad))
	}
}

// c17UnquoteDecoded implements C17.unquote-decoded: on the slow path of Bunquote every byte of the output is produced
// from the rune that strconv.UnquoteChar decoded (as one byte, or as its UTF-8 encoding) — never copied from the
// input position. strconv.UnquoteChar already returns utf8.RuneError for an invalid byte AND for a well-formed
// U+FFFD; code that "restores the raw byte" on RuneError (seed c17r4h) cannot tell the two apart and truncates the
// three-byte encoding of a genuine U+FFFD to its first byte.
func c17UnquoteDecoded(c *Ctx) {
	rule := "C17.unquote-decoded"
	c.Rule(rule, "A8 in quote.Bunquote: every append to the output buffer inside the decoding loop takes bytes derived from the rune result of strconv.UnquoteChar (byte(c), or the buffer utf8.EncodeRune / AppendRune filled from c); no appended value is an element or sub-slice of the input")
	fn := c.Func("dnsdata/quote", "Bunquote")
	c.Examined(fn)
	var uq *ssa.Call
	for _, ci := range callInstrs(fn) {
		if f := calleeOf(ci.Common()); f != nil && f.Name() == "UnquoteChar" {
			uq, _ = ci.(*ssa.Call)
		}
	}
	if uq == nil {
		c.Undecided(rule, "Bunquote|decoder", fn.Pos(), "strconv.UnquoteChar call not found")
		return
	}
	n := 0
	for _, ci := range callInstrs(fn) {
		ap := isBuiltinCall(valueOfCall(ci), "append")
		if ap == nil || !isByteSlice(ap.Type()) || !inCycle(ci.Block()) || len(ap.Call.Args) != 2 {
			continue
		}
		n++
		fromRune, fromInput := false, false
		for v := range backSlice(ap.Call.Args[1], nil) {
			if ex, ok := v.(*ssa.Extract); ok && ex.Tuple == ssa.Value(uq) && ex.Index == 0 {
				fromRune = true
			}
			// utf8.EncodeRune(tmp[:], c) fills tmp from c: the call is in the slice of tmp through the Alloc
			if call, ok := v.(*ssa.Call); ok {
				if f := calleeOf(call.Common()); f != nil && (f.Name() == "EncodeRune" || f.Name() == "AppendRune") {
					for _, a := range call.Call.Args {
						for w := range backSlice(a, nil) {
							if ex, ok := w.(*ssa.Extract); ok && ex.Tuple == ssa.Value(uq) && ex.Index == 0 {
								fromRune = true
							}
						}
					}
				}
			}
			switch x := v.(type) {
			case *ssa.Lookup: // s[i] on the input string
				fromInput = true
				_ = x
			case *ssa.IndexAddr:
				if p, ok := x.X.(*ssa.Parameter); ok && p.Parent() == fn {
					fromInput = true
				}
			}
		}
		// the scratch array written by EncodeRune: look for an EncodeRune call whose destination aliases the appended slice
		if !fromRune {
			if sl, ok := ap.Call.Args[1].(*ssa.Slice); ok {
				for _, cj := range callInstrs(fn) {
					if f := calleeOf(cj.Common()); f != nil && f.Name() == "EncodeRune" && len(cj.Common().Args) == 2 {
						if d, ok := cj.Common().Args[0].(*ssa.Slice); ok && d.X == sl.X {
							for w := range backSlice(cj.Common().Args[1], nil) {
								if ex, ok := w.(*ssa.Extract); ok && ex.Tuple == ssa.Value(uq) && ex.Index == 0 {
									fromRune = true
								}
							}
						}
					}
				}
			}
		}
		c.Check(rule, fmt.Sprintf("Bunquote|append#%d|from-the-decoded-rune", n), fromRune && !fromInput, ci.Pos(), fmt.Sprintf("derived from the decoded rune: %v; copied from the input: %v", fromRune, fromInput))
	}
	c.Floor(rule, 1)
}

// c17SepWholeLine implements C17.sep-whole-line. The tokenizer first asks detectSep which of the two separators comes
// first in the line and then splits the SAME bytes on it. If the search looks at a bounded prefix of what is split
// (seed c17k: "the first field is at most 255 octets", which is false for a quoted name: one octet quotes to up to four
// bytes), a line whose first separator lies beyond the bound is split on the wrong byte. Decided on SSA: (a) in
// detectSep the haystack of every bytes.Index-family call, followed back through phis and re-slicings, is the
// parameter and no re-slicing on the way has an upper bound (other than len of the same value); (b) in fields, the
// value handed to detectSep is the value handed to bytes.SplitN/Split.
func c17SepWholeLine(c *Ctx) {
	rule := "C17.sep-whole-line"
	c.Rule(rule, "A8 on SSA: in dnsdata.detectSep the haystack of every bytes.Index*/Contains*/Count call is the line parameter with no upper-bounded re-slicing; in dnsdata.fields the value given to detectSep is the value that is split")
	det := c.Func("dnsdata", "detectSep")
	c.Examined(det)
	var bad []string
	searches := 0
	var bounded func(v ssa.Value, seen map[ssa.Value]bool) (string, bool)
	bounded = func(v ssa.Value, seen map[ssa.Value]bool) (string, bool) {
		if seen[v] {
			return "", false
		}
		seen[v] = true
		switch x := v.(type) {
		case *ssa.Slice:
			if x.High != nil {
				isLen := false
				if call, ok := x.High.(*ssa.Call); ok {
					if b, ok := call.Call.Value.(*ssa.Builtin); ok && b.Name() == "len" && len(call.Call.Args) == 1 && call.Call.Args[0] == x.X {
						isLen = true
					}
				}
				if !isLen {
					return c.relPos(x.Pos()), true
				}
			}
			return bounded(x.X, seen)
		case *ssa.Phi:
			for _, e := range x.Edges {
				if at, b := bounded(e, seen); b {
					return at, true
				}
			}
		case *ssa.ChangeType:
			return bounded(x.X, seen)
		case *ssa.Convert:
			return bounded(x.X, seen)
		}
		return "", false
	}
	for _, ci := range callInstrs(det) {
		f := calleeOf(ci.Common())
		if f == nil || f.Pkg() == nil || (f.Pkg().Path() != "bytes" && f.Pkg().Path() != "strings") {
			continue
		}
		nm := f.Name()
		if !(strings.HasPrefix(nm, "Index") || strings.HasPrefix(nm, "Contains") || nm == "Count" || strings.HasPrefix(nm, "LastIndex")) || len(ci.Common().Args) == 0 {
			continue
		}
		searches++
		if at, b := bounded(ci.Common().Args[0], map[ssa.Value]bool{}); b {
			bad = append(bad, fmt.Sprintf("%s.%s at %s searches a prefix cut at %s", f.Pkg().Path(), nm, c.relPos(ci.Pos()), at))
		}
	}
	// a hand-written scan: a loop over the parameter is not a call; count ranges/index loops as a search so that a
	// rewrite without library calls does not make the rule vacuous
	if searches == 0 {
		for _, b := range det.Blocks {
			for _, in := range b.Instrs {
				if ix, ok := in.(*ssa.IndexAddr); ok {
					if _, isP := rootParam(ix.X, det); isP {
						searches++
						if at, bd := bounded(ix.X, map[ssa.Value]bool{}); bd {
							bad = append(bad, "indexed scan of a prefix cut at "+at)
						}
					}
				}
			}
		}
	}
	c.Check(rule, fnName(det)+"|haystack-is-whole-line", len(bad) == 0 && searches > 0, det.Pos(), fmt.Sprintf("%d searches; %v", searches, bad))

	fl := c.Func("dnsdata", "fields")
	c.Examined(fl)
	var detArg, splitArg ssa.Value
	for _, ci := range callInstrs(fl) {
		if sf := ci.Common().StaticCallee(); sf == det && len(ci.Common().Args) > 0 {
			detArg = ci.Common().Args[0]
		}
		if f := calleeOf(ci.Common()); f != nil && f.Pkg() != nil && f.Pkg().Path() == "bytes" && strings.HasPrefix(f.Name(), "Split") && len(ci.Common().Args) > 0 {
			splitArg = ci.Common().Args[0]
		}
	}
	if detArg != nil && splitArg != nil {
		c.Check(rule, fnName(fl)+"|detected-range-is-split-range", sameReslice(detArg, splitArg), fl.Pos(), fmt.Sprintf("detectSep(%s) vs Split(%s)", detArg.Name(), splitArg.Name()))
	}
}

// sameReslice: identical SSA values, or the same re-slicing (constant or absent bounds) of the same value.
func sameReslice(a, b ssa.Value) bool {
	if a == b {
		return true
	}
	x, ok1 := a.(*ssa.Slice)
	y, ok2 := b.(*ssa.Slice)
	if !ok1 || !ok2 || !sameReslice(x.X, y.X) {
		return false
	}
	eq := func(p, q ssa.Value) bool {
		if p == nil || q == nil {
			return p == nil && q == nil
		}
		if p == q {
			return true
		}
		cp, ok1 := p.(*ssa.Const)
		cq, ok2 := q.(*ssa.Const)
		return ok1 && ok2 && cp.Value != nil && cq.Value != nil && cp.Value.ExactString() == cq.Value.ExactString()
	}
	return eq(x.Low, y.Low) && eq(x.High, y.High) && eq(x.Max, y.Max)
}
