package main

import (
	"fmt"
	"go/token"
	"go/types"
	"strings"

	"golang.org/x/tools/go/ssa"
)

func init() {
	register(&propDef{
		ID:          "C11",
		Title:       "Weighted address selection is bounded, sound and proportional",
		Run:         runC11,
		Explanation: "Structural necessary conditions, decided on SSA: (bounded) every append to a per-family candidate list in Wrs.Add is dominated by len(items) < MaxAnswers (or len(items) == 0 on the single-answer path), replacement never grows the list; (zero) a record is emitted only under Key > 0; (once) in every reader the located key is iterated only for a non-empty location, so the untagged rows are offered to the sampler once; (rand) the shared PRNG source is mutex-guarded, built only by NewRand and never re-seeded or Read from; (max) the answer limit given to FindAnswer is the listener's value from the context or the default constant 1, written and read under one context key, and the additional-section sampler uses the literal 1. Proportionality and the exact count (floating-point keys) are not decided.",
	})
}

func runC11(c *Ctx) {
	c11Bounded(c)
	c11Zero(c)
	c11Once(c)
	c11Rand(c)
	c11Max(c)
	c11WeightArith(c)
	c11WeightNotAFilter(c)
	c11WeightedFlag(c, "C11.weighted-flag")
	// the per-listener answer limit reaches the sampler only if every listener's chain ends at its own max-answer handler
	c.importRules(runC20, "C20", map[string]string{"samemux": "samemux"})
	// a weighted answer served from the cache is one sample replayed: the cache may hold it only under the explicit WRS timeout
	c.importRules(runC12, "C12", map[string]string{"weighted": "cache-weighted"})
	// the candidates are the records visible to the client: its location's AND the untagged ones (seed c11g)
	c.importRules(runC04, "C04", map[string]string{"untagged": "candidates-untagged"})
}

func c11Bounded(c *Ctx) {
	rule := "C11.bounded"
	c.Rule(rule, "A2: in Wrs.Add (and its function literals) every append to a candidate list is dominated by a test that the list is shorter than MaxAnswers (len < MaxAnswers) or empty (len == 0); the other arm only overwrites an element")
	fn := c.Func("db", "(*Wrs).Add")
	fMax := c.Field("db", "Wrs", "MaxAnswers")
	itemT := c.Named("db", "WrsItem")
	n := 0
	for _, f := range withClosures(fn) {
		c.Examined(f)
		for _, ci := range callInstrs(f) {
			ap := isBuiltinCall(valueOfCall(ci), "append")
			if ap == nil {
				continue
			}
			sl, ok := ap.Type().Underlying().(*types.Slice)
			if !ok || !types.Identical(sl.Elem(), itemT) {
				continue
			}
			n++
			list := ap.Call.Args[0]
			ok = hasFact(ci.Block(), func(v ssa.Value, truth bool) bool {
				b, isB := v.(*ssa.BinOp)
				if !isB {
					return false
				}
				ln := isBuiltinCall(b.X, "len")
				if ln == nil || !sameSources(ln.Call.Args[0], list) && ln.Call.Args[0] != list {
					return false
				}
				if isFieldLoad(b.Y, fMax) {
					return (b.Op == token.LSS && truth) || (b.Op == token.GEQ && !truth)
				}
				if k, isK := constInt(b.Y); isK && k == 0 {
					return (b.Op == token.EQL && truth) || (b.Op == token.NEQ && !truth) || (b.Op == token.GTR && !truth)
				}
				return false
			})
			c.Check(rule, fmt.Sprintf("%s|append#%d", stableFnName(f), n), ok, ci.Pos(), "the candidate list never grows beyond the configured maximum")
		}
	}
	c.Floor(rule, 2)
}

func c11Zero(c *Ctx) {
	rule := "C11.zero"
	c.Rule(rule, "A2: in Wrs.record the append of an address record to the result is dominated by the true edge of item.Key > 0 (a weight of 0 gives key 0: never served)")
	fn := c.Func("db", "(*Wrs).record")
	c.Examined(fn)
	fKey := c.Field("db", "WrsItem", "Key")
	n := 0
	for _, ci := range callInstrs(fn) {
		ap := isBuiltinCall(valueOfCall(ci), "append")
		if ap == nil {
			continue
		}
		if sl, ok := ap.Type().Underlying().(*types.Slice); !ok || sl.Elem().String() != dnsPkg+".RR" {
			continue
		}
		n++
		ok := hasFact(ci.Block(), func(v ssa.Value, truth bool) bool {
			b, isB := v.(*ssa.BinOp)
			if !isB {
				return false
			}
			isKey := false
			switch x := b.X.(type) {
			case *ssa.Field:
				isKey = fieldOf(x) == fKey
			case *ssa.UnOp:
				isKey = isFieldLoad(x, fKey)
			}
			if !isKey {
				return false
			}
			if k, isK := unwrap(b.Y).(*ssa.Const); !isK || k.Value == nil || k.Float64() != 0 {
				return false
			}
			return (b.Op == token.GTR && truth) || (b.Op == token.LEQ && !truth)
		})
		c.Check(rule, fmt.Sprintf("%s|emit#%d|key>0", fnName(fn), n), ok, ci.Pos(), "an address with weight 0 is never part of an answer")
	}
	c.Floor(rule, 1)
}

func c11Once(c *Ctx) {
	rule := "C11.once"
	c.Rule(rule, "in every reader the lookup of the located key is control dependent on 'the client's location is not the empty location': with an empty location the located key IS the untagged key, and iterating it twice would offer every address to the sampler twice (spurious weighted flag, duplicated candidates)")
	fLocID := c.Field("db", "Location", "LocID")
	for _, name := range []string{"(*DataReader).FindAnswer", "(*DataReader).IsAuthoritative", "(*DataReader).ForEachResourceRecord", "(*sortedDataReader).ForEachResourceRecord"} {
		fn := c.Func("db", name)
		c.Examined(fn)
		n, ok := 0, true
		nLookups := 0
		for _, ci := range callInstrs(fn) {
			cc := ci.Common()
			nm := ""
			if cc.IsInvoke() {
				nm = cc.Method.Name()
			} else if sf := cc.StaticCallee(); sf != nil {
				nm = sf.Name()
			}
			if nm != "ForEach" {
				continue
			}
			nLookups++
			var keyA ssa.Value
			if cc.IsInvoke() {
				keyA = cc.Args[0]
			} else {
				keyA = cc.Args[1]
			}
			usesParamLoc := false
			for x := range backSlice(keyA, func(v ssa.Value) bool { _, isCall := v.(*ssa.Call); return isCall && isBuiltinCall(v, "append") == nil }) {
				if fa, isFA := x.(*ssa.FieldAddr); isFA && fieldOf(fa) == fLocID {
					if _, isParam := fa.X.(*ssa.Parameter); isParam {
						usesParamLoc = true
					}
				}
			}
			guardedNonEmpty := hasFact(ci.Block(), func(v ssa.Value, truth bool) bool {
				b, isB := v.(*ssa.BinOp)
				if !isB || !(isFieldLoad(b.X, fLocID) || isFieldLoad(b.Y, fLocID)) {
					return false
				}
				return (b.Op == token.NEQ && truth) || (b.Op == token.EQL && !truth)
			})
			// straight-line sorted variant: the same buffer is used twice; the first lookup is the located one (guarded)
			if usesParamLoc || guardedNonEmpty {
				n++
				if !guardedNonEmpty {
					ok = false
				}
			}
		}
		if !(ok && n >= 1 && nLookups == 2) && strings.HasSuffix(name, "ForEachResourceRecord") {
			// the straight-line readers, per path (see c04LookupsPerPath): a located lookup only with the non-empty fact
			isLk := func(ci ssa.CallInstruction) bool {
				cc := ci.Common()
				if cc.IsInvoke() {
					return cc.Method.Name() == "ForEach"
				}
				sf := cc.StaticCallee()
				return sf != nil && sf.Name() == "ForEach"
			}
			keyOf := func(ci ssa.CallInstruction) ssa.Value {
				if ci.Common().IsInvoke() {
					return ci.Common().Args[0]
				}
				return ci.Common().Args[1]
			}
			if c04LookupsPerPath(fn, isLk, keyOf, fLocID) {
				ok, n, nLookups = true, 1, 2
			}
		}
		c.Check(rule, fnName(fn)+"|located-lookup-only-for-non-empty-location", ok && n >= 1 && nLookups == 2, fn.Pos(), fmt.Sprintf("%d lookups, %d keyed by the client's location, each under the non-empty test", nLookups, n))
	}
}

func c11Rand(c *Ctx) {
	rule := "C11.rand"
	c.Rule(rule, "A1+A8: lockedSource.src is only used under lockedSource.lk; the package generator is the result of NewRand() (a rand.New over a lockedSource) and is assigned nowhere else; no function of the module calls (*rand.Rand).Seed or (*rand.Rand).Read (state kept outside the source)")
	c.locksetRows(rule, func(r lockRow) bool { return r.Type == "lockedSource" })
	// every draw advances the generator's state: a method invoked on the wrapped source needs the lock held for
	// WRITING — a shared (read) lock lets two draws interleave and lose or repeat state (seed c11e)
	{
		srcField := c.tabledFieldByName("db", "lockedSource", "src")
		if srcField == nil {
			// the wrapped source by type: the field of interface type rand.Source / rand.Source64
			st := structOf(c.Named("db", "lockedSource"))
			for i := 0; st != nil && i < st.NumFields(); i++ {
				if strings.HasPrefix(st.Field(i).Type().String(), "math/rand.Source") {
					srcField = st.Field(i)
				}
			}
		}
		mu := "." + c.mutexName("db", "lockedSource", "lk")
		n := 0
		for _, fn := range c.OurFuncs("db") {
			for _, ci := range callInstrs(fn) {
				cc := ci.Common()
				if !cc.IsInvoke() || srcField == nil || !isFieldLoad(cc.Value, srcField) {
					continue
				}
				n++
				c.Examined(fn)
				held := false
				for p, m := range computeLockset(fn).At(ci) {
					if m == modeW && strings.HasSuffix(p, mu) {
						held = true
					}
				}
				c.Check(rule, fmt.Sprintf("%s|%s-on-source|write-locked", fnName(fn), cc.Method.Name()), held, ci.Pos(), "a call on the shared generator source mutates it: the exclusive lock must be held")
			}
		}
		if n == 0 {
			c.Undecided(rule, "lockedSource|draws", token.NoPos, "no method call on the wrapped source found")
		}
	}
	// localRand assigned only from NewRand in package init
	sp := c.SSAPkgs["db"]
	g, _ := sp.Members["localRand"].(*ssa.Global)
	if g == nil {
		c.Undecided(rule, "localRand", token.NoPos, "package generator not found")
		return
	}
	newRand := c.TypesFunc("db", "NewRand")
	nStores, okInit := 0, true
	for _, fn := range c.OurFuncs("db") {
		for _, b := range fn.Blocks {
			for _, in := range b.Instrs {
				if st, ok := in.(*ssa.Store); ok && st.Addr == g {
					nStores++
					cl, _ := callOfValue(st.Val)
					if cl == nil || calleeOf(cl.Common()) != newRand || fn.Name() != "init" {
						okInit = false
					}
				}
			}
		}
	}
	// the package initialiser is synthetic: look there as well
	if initFn := sp.Func("init"); initFn != nil {
		for _, b := range initFn.Blocks {
			for _, in := range b.Instrs {
				if st, ok := in.(*ssa.Store); ok && st.Addr == g {
					nStores++
					cl, _ := callOfValue(st.Val)
					if cl == nil || calleeOf(cl.Common()) != newRand {
						okInit = false
					}
				}
			}
		}
	}
	c.Check(rule, "localRand|only-NewRand-in-init", okInit && nStores >= 1, token.NoPos, fmt.Sprintf("%d assignments of the package generator", nStores))
	nr := c.Func("db", "NewRand")
	c.Examined(nr)
	lockedT := c.Named("db", "lockedSource")
	okSrc := false
	for _, ci := range callInstrs(nr) {
		if f := calleeOf(ci.Common()); f != nil && f.Pkg() != nil && f.Pkg().Path() == "math/rand" && f.Name() == "New" {
			for s := range sourcesOf(ci.Common().Args[0]) {
				if a, ok := s.(*ssa.Alloc); ok && types.Identical(a.Type().(*types.Pointer).Elem(), lockedT) {
					okSrc = true
				}
			}
		}
	}
	c.Check(rule, fnName(nr)+"|generator-over-locked-source", okSrc, nr.Pos(), "the generator shared by all query goroutines draws from the mutex-guarded source")
	var bad []string
	for _, fn := range c.OurFuncs() {
		for _, ci := range callInstrs(fn) {
			f := calleeOf(ci.Common())
			if f != nil && f.Pkg() != nil && f.Pkg().Path() == "math/rand" && (funcShort(f) == "Rand.Seed" || funcShort(f) == "Rand.Read") {
				bad = append(bad, fnName(fn))
			}
		}
	}
	c.Check(rule, "module|no-Rand.Seed-or-Read", len(bad) == 0, token.NoPos, fmt.Sprintf("callers: %v", bad))
}

func c11Max(c *Ctx) {
	rule := "C11.max"
	c.Rule(rule, "the MaxAnswers handed to Reader.FindAnswer is the value GetMaxAnswer(ctx) returned or, when absent, the constant DefaultMaxAnswer = 1; WithMaxAnswer and GetMaxAnswer use the same context key; the additional-section sampler is built with MaxAnswers = 1; the value flows unchanged into Wrs.MaxAnswers in both readers")
	serve := c.Func("dnsserver", "(*FBDNSDB).ServeDNSWithRCODE")
	c.Examined(serve)
	get := c.TypesFunc("dnsserver", "GetMaxAnswer")
	okArg := false
	for _, ci := range callInstrs(serve) {
		cc := ci.Common()
		if !cc.IsInvoke() || cc.Method.Name() != "FindAnswer" {
			continue
		}
		okArg = true
		srcs := sourcesOf(cc.Args[len(cc.Args)-1])
		for s := range srcs {
			if k, isK := constInt(s); isK && k == 1 {
				continue
			}
			if cl, idx := callOfValue(s); cl != nil && calleeOf(cl.Common()) == get && idx == 0 {
				continue
			}
			okArg = false
		}
		if len(srcs) != 2 {
			okArg = false
		}
	}
	c.Check(rule, fnName(serve)+"|limit-from-context-or-default-1", okArg, serve.Pos(), "the listener's configured maximum (or 1) bounds the answer")
	// same key
	with := c.Func("dnsserver", "WithMaxAnswer")
	getF := c.Func("dnsserver", "GetMaxAnswer")
	keyOf := func(fn *ssa.Function) string {
		for _, ci := range callInstrs(fn) {
			cc := ci.Common()
			name := ""
			if cc.IsInvoke() {
				name = cc.Method.Name()
			} else if f := calleeOf(cc); f != nil {
				name = f.Name()
			}
			var k ssa.Value
			switch name {
			case "WithValue":
				k = cc.Args[1]
			case "Value":
				k = cc.Args[0]
			default:
				continue
			}
			if mi, ok := k.(*ssa.MakeInterface); ok {
				if s, isS := stringConst(mi.X); isS {
					return mi.X.Type().String() + ":" + s
				}
				// a key that is a value of its own (unexported) type: context keys compare by dynamic type and value; an
				// empty struct / constant of a named type is identified by that type (and the constant, if any)
				if k, isK := mi.X.(*ssa.Const); isK {
					v := "zero"
					if k.Value != nil {
						v = k.Value.ExactString()
					}
					return mi.X.Type().String() + ":" + v
				}
				if _, isNamed := mi.X.Type().(*types.Named); isNamed {
					if st, isSt := mi.X.Type().Underlying().(*types.Struct); isSt && st.NumFields() == 0 {
						return mi.X.Type().String() + ":{}"
					}
				}
			}
		}
		return ""
	}
	c.Check(rule, "context-key|written-and-read-under-one-key", keyOf(with) != "" && keyOf(with) == keyOf(getF), with.Pos(), fmt.Sprintf("WithMaxAnswer: %q, GetMaxAnswer: %q", keyOf(with), keyOf(getF)))
	// additional section: literal 1
	addl := c.Func("db", "AdditionalSectionForRecords")
	c.Examined(addl)
	fMax := c.Field("db", "Wrs", "MaxAnswers")
	ok1 := false
	for _, st := range storesToField(addl, fMax) {
		if k, isK := constInt(st.Val); isK && k == 1 {
			ok1 = true
		} else {
			ok1 = false
			break
		}
	}
	c.Check(rule, fnName(addl)+"|one-address-per-family", ok1, addl.Pos(), "additional-section addresses for NS/MX targets: at most one per family")
	// readers: parameter flows unchanged
	for _, name := range []string{"(*DataReader).FindAnswer", "(*sortedDataReader).FindAnswer"} {
		fn := c.Func("db", name)
		ok := false
		for _, st := range storesToField(fn, fMax) {
			srcs := sourcesOf(st.Val)
			ok = len(srcs) == 1 && srcs[fn.Params[len(fn.Params)-1]]
		}
		c.Check(rule, fnName(fn)+"|limit-passed-to-sampler-unchanged", ok, fn.Pos(), "the sampler is bounded by exactly the limit the handler passed")
	}
}
