package main

import (
	"fmt"
	"go/constant"
	"go/token"
	"go/types"

	"golang.org/x/tools/go/ssa"
)

// c13TypeAssert implements C13.type-assert: a single-result type assertion on a dns.RR panics when the record has
// another concrete type. On the query path (outside the recover barriers the panic kills the process) such an
// assertion is allowed only when the concrete type is certain: the value was built from that type in the same
// function, or the block is reached only when the record's header type equals the type code of the asserted type.
func c13TypeAssert(c *Ctx) {
	rule := "C13.type-assert"
	c.Rule(rule, "in packages db, dnsserver, fbserver, whoami: every x.(*dns.T) without the comma-ok form on a dns.RR value has all sources of x built from *dns.T, or is dominated by the must-fact x.Header().Rrtype == dns.Type<T> (a case clause listing several types does not give that fact)")
	dnsScope := (*types.Scope)(nil)
	for _, pk := range c.Prog.All {
		if pk.Types != nil && pk.Types.Path() == dnsPkg {
			dnsScope = pk.Types.Scope()
		}
	}
	if dnsScope == nil {
		for _, pk := range c.Prog.All {
			for _, imp := range pk.Imports {
				if imp.Types != nil && imp.Types.Path() == dnsPkg {
					dnsScope = imp.Types.Scope()
				}
			}
		}
	}
	if dnsScope == nil {
		c.Undecided(rule, "dns-package", token.NoPos, "miekg/dns type information not found")
		return
	}
	typeCode := func(name string) (int64, bool) {
		k, ok := dnsScope.Lookup("Type" + name).(*types.Const)
		if !ok {
			return 0, false
		}
		v, exact := constant.Int64Val(k.Val())
		return v, exact
	}
	n := 0
	for _, fn := range c.OurFuncs("db", "dnsserver", "fbserver", "whoami") {
		if c.isMockFile(fn.Pos()) {
			continue
		}
		cnt := 0
		for _, b := range fn.Blocks {
			for _, in := range b.Instrs {
				ta, ok := in.(*ssa.TypeAssert)
				if !ok || ta.CommaOk {
					continue
				}
				pt, ok := ta.AssertedType.(*types.Pointer)
				if !ok {
					continue
				}
				nt, ok := pt.Elem().(*types.Named)
				if !ok || nt.Obj().Pkg() == nil || nt.Obj().Pkg().Path() != dnsPkg {
					continue
				}
				if _, isI := ta.X.Type().Underlying().(*types.Interface); !isI {
					continue
				}
				n++
				cnt++
				c.Examined(fn)
				// (a) built from that type
				built := true
				srcs := sourcesOf(ta.X)
				if len(srcs) == 0 {
					built = false
				}
				for s := range srcs {
					if s == nil {
						built = false
						continue
					}
					if mi, isMI := s.(*ssa.MakeInterface); isMI && types.Identical(mi.X.Type(), ta.AssertedType) {
						continue
					}
					if types.Identical(s.Type(), ta.AssertedType) {
						continue // the concrete value itself (interface conversion looked through)
					}
					built = false
				}
				ok2 := built
				why := "value built from the asserted type in this function"
				if !built {
					code, has := typeCode(nt.Obj().Name())
					ok2 = has && hasFact(b, func(v ssa.Value, truth bool) bool {
						bo, isB := v.(*ssa.BinOp)
						if !isB || !((bo.Op == token.EQL && truth) || (bo.Op == token.NEQ && !truth)) {
							return false
						}
						k, isK := constInt(bo.Y)
						if !isK || k != code {
							return false
						}
						// bo.X = load of Rrtype of x.Header()
						u, isU := unwrap(bo.X).(*ssa.UnOp)
						if !isU {
							return false
						}
						fa, isFA := u.X.(*ssa.FieldAddr)
						if !isFA || fieldName(fa.X.Type(), fa.Field) != "Rrtype" {
							return false
						}
						hc, isC := fa.X.(*ssa.Call)
						return isC && hc.Call.IsInvoke() && hc.Call.Method.Name() == "Header" && sameSources(hc.Call.Value, ta.X)
					})
					why = fmt.Sprintf("dominated by Header().Rrtype == Type%s (%d): %v", nt.Obj().Name(), code, ok2)
				}
				c.Check(rule, fmt.Sprintf("%s|assert#%d:*dns.%s", fnName(fn), cnt, nt.Obj().Name()), ok2, ta.Pos(), why)
			}
		}
	}
	c.Floor(rule, 5)
}
