package main

import (
	"fmt"
	"go/types"

	"golang.org/x/tools/go/ssa"
)

// c19ExportAll implements C19.export-all: the exporter copies every metric of the snapshot into its gauge on every
// tick. A gauge is sticky: if the copy is skipped for some values (zero, unchanged, ...) the exported number keeps
// the last value that was copied — a drained window or a counter reset to zero stays exported at its old value.
func c19ExportAll(c *Ctx) {
	rule := "C19.export-all"
	c.Rule(rule, "A2 control dependence in (*PrometheusMetricsServer).UpdateExporter: the Gauge.Set call that exports a metric is not control dependent on any condition computed from the metric's value")
	fn := c.Func("metrics", "(*PrometheusMetricsServer).UpdateExporter")
	c.Examined(fn)
	n := 0
	for _, ci := range callInstrs(fn) {
		cc := ci.Common()
		if !cc.IsInvoke() || cc.Method.Name() != "Set" || len(cc.Args) != 1 {
			continue
		}
		n++
		// the metric value: the non-call leaves of the argument (the map value extracted from the range)
		vals := map[ssa.Value]bool{}
		for s := range sourcesOf(unwrap(cc.Args[0])) {
			if s != nil {
				vals[unwrap(s)] = true
			}
		}
		bad := ""
		for _, cond := range controlConds(ci.Block()) {
			for v := range backSlice(cond, nil) {
				if vals[v] {
					bad = describeCond(cond)
				}
			}
		}
		c.Check(rule, fmt.Sprintf("%s|Set#%d|unconditional-in-value", fnName(fn), n), bad == "" && len(vals) > 0, ci.Pos(), "exporting a metric must not depend on its value; governing condition: "+bad)
	}
	c.Floor(rule, 1)
}

// c19Recheck implements <prop>.recheck: a map entry that is created "if missing" must be looked up and created in one
// critical section. When the miss was observed under a lock that has been released since, two goroutines can both
// miss and both insert; the later insert replaces the earlier cell and whatever was added to it is lost.
func c19Recheck(c *Ctx, prop string) {
	rule := prop + ".recheck"
	c.Rule(rule, "A1+A2 in package metrics: for every map update executed with a mutex write-held, any lookup of the same map whose outcome the update is control dependent on was made in the same critical section (no Unlock/RUnlock of that mutex lies on a path between the lookup and the update), or is repeated there")
	n := 0
	for _, fn := range c.OurFuncs("metrics") {
		ls := computeLockset(fn)
		for _, b := range fn.Blocks {
			for _, in := range b.Instrs {
				mu, ok := in.(*ssa.MapUpdate)
				if !ok {
					continue
				}
				mp := pathOf(mu.Map)
				if mp == "" {
					continue
				}
				held := ""
				for p, m := range ls.At(mu) {
					if m == modeW {
						held = p
					}
				}
				if held == "" {
					continue // C14/C19.lockset reports unlocked updates
				}
				// lookups of the same map that govern this update
				var governing []*ssa.Lookup
				for _, cond := range controlConds(b) {
					for v := range backSlice(cond, nil) {
						if lk, ok := v.(*ssa.Lookup); ok && pathOf(lk.X) == mp {
							governing = append(governing, lk)
						}
					}
				}
				if len(governing) == 0 {
					// the miss may have been decided in a helper or before an early return: look for any comma-ok
					// lookup of the map in the function that reaches the update
					for _, b2 := range fn.Blocks {
						for _, in2 := range b2.Instrs {
							if lk, ok := in2.(*ssa.Lookup); ok && lk.CommaOk && pathOf(lk.X) == mp && instrReaches(lk, mu) {
								governing = append(governing, lk)
							}
						}
					}
				}
				if len(governing) == 0 {
					continue
				}
				n++
				c.Examined(fn)
				okAll := false
				for _, lk := range governing {
					split := false
					for _, ci := range callInstrs(fn) {
						if _, isDefer := ci.(*ssa.Defer); isDefer {
							continue
						}
						k, recv := lockOp(ci.Common())
						if (k == "unlock" || k == "runlock") && pathOf(recv) == held && instrReaches(lk, ci) && instrReaches(ci, mu) {
							split = true
						}
					}
					if !split {
						okAll = true // a governing lookup inside the critical section of the update
					}
				}
				c.Check(rule, fmt.Sprintf("%s|insert-into:%s", fnName(fn), mp), okAll, mu.Pos(), "create-if-missing: the lookup that found the key missing and the insertion are in one critical section of "+held)
			}
		}
	}
	c.CheckConst(rule, "matcher|guarded-inserts-seen", n >= 1, 0, fmt.Sprintf("%d create-if-missing map updates examined", n))
	_ = types.Typ
}
