package main

import (
	"fmt"
	"go/types"

	"golang.org/x/tools/go/ssa"
)

// c19ExportAll implements C19.export-all: the exporter copies every metric of the snapshot into its gauge on every
// tick. A gauge is sticky: if the copy is skipped for some values (zero, unchanged, ...) the exported number keeps
// the last value that was copied — a drained window or a counter reset to zero stays exported at its old value.
func c19ExportAll(c *Ctx) {
	rule := "C19.export-all"
	c.Rule(rule, "A2 control dependence in (*PrometheusMetricsServer).UpdateExporter: the Gauge.Set call that exports a metric is not control dependent on any condition computed from the metric's value")
	fn := c.Func("metrics", "(*PrometheusMetricsServer).UpdateExporter")
	c.Examined(fn)
	n := 0
	for _, ci := range callInstrs(fn) {
		cc := ci.Common()
		if !cc.IsInvoke() || cc.Method.Name() != "Set" || len(cc.Args) != 1 {
			continue
		}
		n++
		// the metric value: the non-call leaves of the argument (the map value extracted from the range)
		vals := map[ssa.Value]bool{}
		for s := range sourcesOf(unwrap(cc.Args[0])) {
			if s != nil {
				vals[unwrap(s)] = true
			}
		}
		bad := ""
		for _, cond := range controlConds(ci.Block()) {
			for v := range backSlice(cond, nil) {
				if vals[v] {
					bad = describeCond(cond)
				}
			}
		}
		c.Check(rule, fmt.Sprintf("%s|Set#%d|unconditional-in-value", fnName(fn), n), bad == "" && len(vals) > 0, ci.Pos(), "exporting a metric must not depend on its value; governing condition: "+bad)
	}
	c.Floor(rule, 1)
}

// c19Recheck implements <prop>.recheck: a map entry that is created "if missing" must be looked up and created in one
// critical section. When the miss was observed under a lock that has been released since, two goroutines can both
// miss and both insert; the later insert replaces the earlier cell and whatever was added to it is lost.
func c19Recheck(c *Ctx, prop string) {
	rule := prop + ".recheck"
	c.Rule(rule, "A1+A2 in package metrics: for every map update executed with a mutex write-held, any lookup of the same map whose outcome the update is control dependent on was made in the same critical section (no Unlock/RUnlock of that mutex lies on a path between the lookup and the update), or is repeated there")
	n := 0
	for _, fn := range c.OurFuncs("metrics") {
		ls := computeLockset(fn)
		for _, b := range fn.Blocks {
			for _, in := range b.Instrs {
				mu, ok := in.(*ssa.MapUpdate)
				if !ok {
					continue
				}
				mp := pathOf(mu.Map)
				if mp == "" {
					continue
				}
				held := ""
				for p, m := range ls.At(mu) {
					if m == modeW {
						held = p
					}
				}
				if held == "" {
					continue // C14/C19.lockset reports unlocked updates
				}
				// lookups of the same map that govern this update
				var governing []*ssa.Lookup
				for _, cond := range controlConds(b) {
					for v := range backSlice(cond, nil) {
						if lk, ok := v.(*ssa.Lookup); ok && pathOf(lk.X) == mp {
							governing = append(governing, lk)
						}
					}
				}
				if len(governing) == 0 {
					// the miss may have been decided in a helper or before an early return: look for any comma-ok
					// lookup of the map in the function that reaches the update
					for _, b2 := range fn.Blocks {
						for _, in2 := range b2.Instrs {
							if lk, ok := in2.(*ssa.Lookup); ok && lk.CommaOk && pathOf(lk.X) == mp && instrReaches(lk, mu) {
								governing = append(governing, lk)
							}
						}
					}
				}
				if len(governing) == 0 {
					continue
				}
				n++
				c.Examined(fn)
				okAll := false
				for _, lk := range governing {
					split := false
					for _, ci := range callInstrs(fn) {
						if _, isDefer := ci.(*ssa.Defer); isDefer {
							continue
						}
						k, recv := lockOp(ci.Common())
						if (k == "unlock" || k == "runlock") && pathOf(recv) == held && instrReaches(lk, ci) && instrReaches(ci, mu) {
							split = true
						}
					}
					if !split {
						okAll = true // a governing lookup inside the critical section of the update
					}
				}
				c.Check(rule, fmt.Sprintf("%s|insert-into:%s", fnName(fn), mp), okAll, mu.Pos(), "create-if-missing: the lookup that found the key missing and the insertion are in one critical section of "+held)
			}
		}
	}
	c.CheckConst(rule, "matcher|guarded-inserts-seen", n >= 1, 0, fmt.Sprintf("%d create-if-missing map updates examined", n))
	_ = types.Typ
}

// c19TypeKey implements C19.type-key: "each query increments its type counter exactly once" needs a counter key for
// EVERY 16-bit query type. typeToStatsKey may return a tabled name only where the table is known to hold one (a
// comma-ok map lookup that came out true); everything else must be formatted from the type number itself. A table
// element returned unconditionally (seed c19f: a [256]string fast path with empty slots) counts unknown types under
// the empty key.
func c19TypeKey(c *Ctx) {
	rule := "C19.type-key"
	c.Rule(rule, "A2 on typeToStatsKey: every value that can reach the result is either the value of a comma-ok map lookup chosen under ok == true, or the result of a call that takes (a value derived from) the query type as an argument")
	fn := c.Func("dnsserver", "typeToStatsKey")
	c.Examined(fn)
	param := fn.Params[0]
	n := 0
	for _, leaf := range resultLeaves(fn, 0) {
		n++
		ok, why := false, "neither a checked table hit nor formatted from the type"
		switch x := leaf.V.(type) {
		case *ssa.Extract:
			if lk, isLk := x.Tuple.(*ssa.Lookup); isLk && lk.CommaOk && x.Index == 0 {
				if hasFact(leaf.At, func(v ssa.Value, truth bool) bool {
					ex, isEx := v.(*ssa.Extract)
					return isEx && ex.Tuple == x.Tuple && ex.Index == 1 && truth
				}) {
					ok, why = true, "table hit under ok"
				} else {
					why = "table value used without its ok"
				}
			}
		case *ssa.Call:
			for _, a := range x.Call.Args {
				for v := range backSlice(a, nil) {
					if v == ssa.Value(param) {
						ok, why = true, "formatted from the type"
					}
				}
			}
		}
		c.Check(rule, fmt.Sprintf("%s|result#%d", fnName(fn), n), ok, leaf.V.Pos(), why)
	}
	c.Floor(rule, 1)
}

// c19SamplesPrivate implements C19.samples-private: the exporter sorts the sample list it is handed (Stats.Get sorts
// in place to find min/max); the window hands out a private copy. A slice that is also kept in the window (seed c19e:
// a cached copy trimmed by the cleaner "index for index") is reordered behind the window's back, so expiry removes
// the smallest values instead of the oldest ones.
func c19SamplesPrivate(c *Ctx) {
	rule := "C19.samples-private"
	c.Rule(rule, "A8 ownership on (*slidingWindow).Samples: every value that reaches the result is a slice allocated in the function (make / append to nil) that is not stored into any struct field; no result is a load of receiver state")
	fn := c.Func("metrics", "(*slidingWindow).Samples")
	c.Examined(fn)
	n := 0
	for _, leaf := range resultLeaves(fn, 0) {
		n++
		ok, why := true, "freshly allocated, not retained"
		for s := range sourcesOf(leaf.V) {
			switch x := s.(type) {
			case *ssa.MakeSlice:
				for _, r := range *x.Referrers() {
					if st, isSt := r.(*ssa.Store); isSt && st.Val == ssa.Value(x) {
						if _, isField := st.Addr.(*ssa.FieldAddr); isField {
							ok, why = false, "the returned slice is also stored in a field at "+c.relPos(st.Pos())
						}
					}
				}
			case *ssa.Const:
				// nil
			default:
				if isBuiltinCall(s, "append") != nil {
					continue
				}
				ok, why = false, fmt.Sprintf("result derives from %s (%T), not from an allocation in Samples", s.Name(), s)
			}
		}
		c.Check(rule, fmt.Sprintf("%s|result#%d|private-copy", fnName(fn), n), ok, leaf.V.Pos(), why)
	}
	c.Floor(rule, 1)
}

// c19SamplesExact implements C19.samples-exact: what Samples() returns is what the window holds — no invented values.
// A result allocated at the full length of the sample list and returned whole has to be filled by EVERY iteration of
// the copying loop; a loop that skips some samples (seed c19r4h: the ones that expired since the last cleaner pass)
// while still returning the full-length buffer exports one zero per skipped sample: min 0 and a lowered average for
// a value nobody ever added. (A result built with append, or cut to the number of elements written, is fine.)
func c19SamplesExact(c *Ctx) {
	rule := "C19.samples-exact"
	c.Rule(rule, "A2 in (*slidingWindow).Samples: if a result is a make([]T, len(samples)) returned without re-slicing, then in the range loop over the samples every path from the loop body's entry back to the header passes a store into that slice")
	fn := c.Func("metrics", "(*slidingWindow).Samples")
	c.Examined(fn)
	n := 0
	doneMS := map[*ssa.MakeSlice]bool{}
	var mss []*ssa.MakeSlice
	for _, leaf := range resultLeaves(fn, 0) {
		for s := range sourcesOf(leaf.V) { // a function with defer returns through a spilled cell
			if ms, ok := s.(*ssa.MakeSlice); ok && !doneMS[ms] {
				doneMS[ms] = true
				mss = append(mss, ms)
			}
		}
	}
	for _, ms := range mss {
		if _, isConst := ms.Len.(*ssa.Const); isConst {
			continue
		}
		n++
		stop := map[*ssa.BasicBlock]bool{}
		for _, b := range fn.Blocks {
			for _, in := range b.Instrs {
				if st, ok := in.(*ssa.Store); ok {
					if ia, ok := st.Addr.(*ssa.IndexAddr); ok && ia.X == ssa.Value(ms) {
						stop[b] = true
					}
				}
			}
		}
		skips := false
		loops := naturalLoops(fn)
		for h, body := range loops {
			has := false
			for b := range stop {
				if body[b] {
					has = true
				}
			}
			if !has {
				continue
			}
			for _, s := range h.Succs {
				if !body[s] || s == h {
					continue
				}
				seen := map[*ssa.BasicBlock]bool{}
				var walk func(b *ssa.BasicBlock)
				walk = func(b *ssa.BasicBlock) {
					if seen[b] || stop[b] || !body[b] {
						return
					}
					seen[b] = true
					for _, nx := range b.Succs {
						if nx == h {
							skips = true
							return
						}
						walk(nx)
					}
				}
				walk(s)
			}
		}
		c.Check(rule, fmt.Sprintf("%s|full-length-result#%d|filled-by-every-iteration", fnName(fn), n), !skips && len(stop) > 0, ms.Pos(), "a full-length result with skipped positions reports zeros that were never sampled")
	}
	if n == 0 {
		c.add(rule, fnName(fn)+"|no-full-length-result", Discharged, fn.Pos(), false, "the result is not a full-length make returned whole")
	}
}
