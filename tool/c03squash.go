package main

import (
	"fmt"
	"go/token"

	"golang.org/x/tools/go/ssa"
)

// c03Squash implements C03.squash: the last pass of Rearrange may replace the range point it has just emitted only
// when the next point starts at the same address AND is not more specific. Dropping a point under any weaker
// condition removes a boundary of the range-point table: the addresses after it inherit the location (and prefix
// length) of whatever point survives, which is no longer the longest declared subnet containing them.
func c03Squash(c *Ctx) {
	rule := "C03.squash"
	c.Rule(rule, "A2 must-facts in (*Rearranger).Rearrange: every store that overwrites the last element of the squashed point list is dominated by the true outcome of rangeStart.Equal(next.rangeStart) and by prev.MaskLen() >= next.MaskLen(); every other point is appended (no point is dropped otherwise)")
	fn := c.Func("dnsdata", "(*Rearranger).Rearrange")
	c.Examined(fn)
	isMaskLen := func(v ssa.Value) bool {
		call, _ := callOfValue(v)
		if call == nil {
			return false
		}
		f := calleeOf(call.Common())
		return f != nil && f.Name() == "MaskLen"
	}
	n := 0
	for _, b := range fn.Blocks {
		for _, in := range b.Instrs {
			st, ok := in.(*ssa.Store)
			if !ok {
				continue
			}
			ia, ok := st.Addr.(*ssa.IndexAddr)
			if !ok {
				continue
			}
			// index is len(x)-1 of the same slice
			bo, ok := ia.Index.(*ssa.BinOp)
			if !ok || bo.Op != token.SUB {
				continue
			}
			if k, isK := constInt(bo.Y); !isK || k != 1 {
				continue
			}
			lc, ok := bo.X.(*ssa.Call)
			if !ok {
				continue
			}
			if bi, isB := lc.Call.Value.(*ssa.Builtin); !isB || bi.Name() != "len" || !sameValue(lc.Call.Args[0], ia.X) {
				continue
			}
			n++
			eq, ge := false, false
			for _, f := range factsAt(b) {
				if call, isCall := f.V.(*ssa.Call); isCall && f.Truth {
					if g := calleeOf(call.Common()); g != nil && g.Name() == "Equal" {
						eq = true
					}
				}
				if cmp, isB := f.V.(*ssa.BinOp); isB && isMaskLen(cmp.X) && isMaskLen(cmp.Y) {
					// which operand is the point already emitted: the one whose receiver derives from the squashed list
					isPrev := func(v ssa.Value) bool {
						call, _ := callOfValue(v)
						for x := range backSlice(call.Call.Args[0], nil) {
							if sameValue(x, ia.X) {
								return true
							}
						}
						return false
					}
					px, py := isPrev(cmp.X), isPrev(cmp.Y)
					switch {
					case px && !py:
						ge = (cmp.Op == token.GEQ && f.Truth) || (cmp.Op == token.LSS && !f.Truth)
					case py && !px:
						ge = (cmp.Op == token.LEQ && f.Truth) || (cmp.Op == token.GTR && !f.Truth)
					}
				}
			}
			c.Check(rule, fmt.Sprintf("%s|overwrite-last#%d|same-address", fnName(fn), n), eq, st.Pos(), "a point is replaced only by a point at the same address")
			c.Check(rule, fmt.Sprintf("%s|overwrite-last#%d|not-more-specific", fnName(fn), n), ge, st.Pos(), "a point is replaced only when the surviving point's prefix is not longer (NOTE in the source: squashing across different prefix lengths captures matches with shorter masks)")
		}
	}
	c.Floor(rule, 2)
}
