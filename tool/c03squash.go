package main

import (
	"fmt"
	"go/token"
	"go/types"
	"sort"

	"golang.org/x/tools/go/ssa"
)

// c03Squash implements C03.squash: the last pass of Rearrange may replace the range point it has just emitted only
// when the next point starts at the same address AND is not more specific. Dropping a point under any weaker
// condition removes a boundary of the range-point table: the addresses after it inherit the location (and prefix
// length) of whatever point survives, which is no longer the longest declared subnet containing them.
func c03Squash(c *Ctx) {
	rule := "C03.squash"
	c.Rule(rule, "A2 must-facts in (*Rearranger).Rearrange: every store that overwrites the last element of the squashed point list is dominated by the true outcome of rangeStart.Equal(next.rangeStart) and by prev.MaskLen() >= next.MaskLen(); every other point is appended (no point is dropped otherwise)")
	fn := c.Func("dnsdata", "(*Rearranger).Rearrange")
	c.Examined(fn)
	isMaskLen := func(v ssa.Value) bool {
		call, _ := callOfValue(v)
		if call == nil {
			return false
		}
		f := calleeOf(call.Common())
		return f != nil && f.Name() == "MaskLen"
	}
	n := 0
	for _, b := range fn.Blocks {
		for _, in := range b.Instrs {
			st, ok := in.(*ssa.Store)
			if !ok {
				continue
			}
			ia, ok := st.Addr.(*ssa.IndexAddr)
			if !ok {
				continue
			}
			// index is len(x)-1 of the same slice
			bo, ok := ia.Index.(*ssa.BinOp)
			if !ok || bo.Op != token.SUB {
				continue
			}
			if k, isK := constInt(bo.Y); !isK || k != 1 {
				continue
			}
			lc, ok := bo.X.(*ssa.Call)
			if !ok {
				continue
			}
			if bi, isB := lc.Call.Value.(*ssa.Builtin); !isB || bi.Name() != "len" || !sameValue(lc.Call.Args[0], ia.X) {
				continue
			}
			n++
			eq, ge := false, false
			for _, f := range factsAt(b) {
				if call, isCall := f.V.(*ssa.Call); isCall && f.Truth {
					if g := calleeOf(call.Common()); g != nil && g.Name() == "Equal" {
						eq = true
					}
				}
				if cmp, isB := f.V.(*ssa.BinOp); isB && isMaskLen(cmp.X) && isMaskLen(cmp.Y) {
					// which operand is the point already emitted: the one whose receiver derives from the squashed list
					isPrev := func(v ssa.Value) bool {
						call, _ := callOfValue(v)
						for x := range backSlice(call.Call.Args[0], nil) {
							if sameValue(x, ia.X) {
								return true
							}
						}
						return false
					}
					px, py := isPrev(cmp.X), isPrev(cmp.Y)
					switch {
					case px && !py:
						ge = (cmp.Op == token.GEQ && f.Truth) || (cmp.Op == token.LSS && !f.Truth)
					case py && !px:
						ge = (cmp.Op == token.LEQ && f.Truth) || (cmp.Op == token.GTR && !f.Truth)
					}
				}
			}
			c.Check(rule, fmt.Sprintf("%s|overwrite-last#%d|same-address", fnName(fn), n), eq, st.Pos(), "a point is replaced only by a point at the same address")
			c.Check(rule, fmt.Sprintf("%s|overwrite-last#%d|not-more-specific", fnName(fn), n), ge, st.Pos(), "a point is replaced only when the surviving point's prefix is not longer (NOTE in the source: squashing across different prefix lengths captures matches with shorter masks)")
		}
	}
	c.Floor(rule, 2)
}

// c03RearrangePrivate implements C03.rearrange-private: Rearrange derives the range-point table from the accumulated
// points without writing through the accumulator's own slice. The accumulator is used more than once (text form and
// map form are both derived from it, and AddLocation may follow a Rearrange): sorting it in place or appending the
// pseudo points to it makes the second derivation see a list that is already sorted/extended/overwritten, and
// declared subnets disappear from the table (seed c03e). Decided by forward provenance from every load of the
// receiver's slice-typed fields: such a value (or a re-slice of it) may be read, measured, ranged over and copied
// FROM; it may not be the destination of append/copy, be sorted, have elements stored into, or be returned.
func c03RearrangePrivate(c *Ctx) {
	rule := "C03.rearrange-private"
	c.Rule(rule, "A8 provenance in (*Rearranger).Rearrange and the same-package functions it hands the slice to: a value loaded from a slice field of the receiver (or a re-slice of it) is never the first argument of append, the destination of copy, an argument of a sort function, the base of an element store, or a result of the function")
	fn := c.Func("dnsdata", "(*Rearranger).Rearrange")
	c.Examined(fn)
	recv := fn.Params[0]
	tainted := map[ssa.Value]bool{}
	var work []ssa.Value
	add := func(v ssa.Value) {
		if !tainted[v] {
			tainted[v] = true
			work = append(work, v)
		}
	}
	nLoads := 0
	for _, b := range fn.Blocks {
		for _, in := range b.Instrs {
			u, ok := in.(*ssa.UnOp)
			if !ok || u.Op != token.MUL {
				continue
			}
			fa, ok := u.X.(*ssa.FieldAddr)
			if !ok || fa.X != ssa.Value(recv) {
				continue
			}
			if _, isSlice := u.Type().Underlying().(*types.Slice); isSlice {
				nLoads++
				add(u)
			}
		}
	}
	var bad []string
	for len(work) > 0 {
		v := work[0]
		work = work[1:]
		refs := v.Referrers()
		if refs == nil {
			continue
		}
		for _, r := range *refs {
			switch x := r.(type) {
			case *ssa.Phi:
				add(x)
			case *ssa.Slice:
				if x.X == v {
					add(x)
				}
			case *ssa.ChangeType:
				add(x)
			case *ssa.MakeInterface:
				add(x)
			case *ssa.IndexAddr:
				if x.X == v {
					for _, rr := range *x.Referrers() {
						if st, ok := rr.(*ssa.Store); ok && st.Addr == ssa.Value(x) {
							bad = append(bad, "element store at "+c.relPos(st.Pos()))
						}
					}
				}
			case *ssa.Return:
				bad = append(bad, "returned at "+c.relPos(x.Pos()))
			case *ssa.Store:
				if x.Val == v {
					if al, ok := x.Addr.(*ssa.Alloc); ok {
						// a local variable: loads of it carry the provenance
						for _, rr := range *al.Referrers() {
							if ld, ok := rr.(*ssa.UnOp); ok && ld.Op == token.MUL {
								add(ld)
							}
						}
					}
				}
			case ssa.CallInstruction:
				cc := x.Common()
				if bi, ok := cc.Value.(*ssa.Builtin); ok {
					switch bi.Name() {
					case "append":
						if len(cc.Args) > 0 && cc.Args[0] == v {
							bad = append(bad, "append to it at "+c.relPos(x.Pos()))
						}
					case "copy":
						if len(cc.Args) > 0 && cc.Args[0] == v {
							bad = append(bad, "copy into it at "+c.relPos(x.Pos()))
						}
					}
					continue
				}
				f := calleeOf(cc)
				if f != nil && f.Pkg() != nil && (f.Pkg().Path() == "sort" || f.Pkg().Path() == "slices") {
					switch f.Name() {
					case "Sort", "Stable", "Slice", "SliceStable", "SortFunc", "SortStableFunc", "Reverse":
						bad = append(bad, "sorted in place ("+f.Pkg().Path()+"."+f.Name()+") at "+c.relPos(x.Pos()))
					}
				}
			}
		}
	}
	sort.Strings(bad)
	c.Check(rule, fnName(fn)+"|receiver-slices-read-only", len(bad) == 0 && nLoads > 0, fn.Pos(), fmt.Sprintf("%d loads of receiver slice fields; writes through them: %v", nLoads, bad))
}
